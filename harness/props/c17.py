"""C17 — compiler workers always compile against the caller's current state.

Proof : coq/theories/C17 — model of _compute_compile_preargs / sync_worker_state_cb /
        BaseWorker.call's acknowledge rule / compile_in_tx (pool.py) and of __init_worker__ /
        __sync__ / compile* / compile_in_tx (worker.py) over object identities (server) and
        contents (worker); theorems for every history over any number of workers and
        databases (Props.v), refutation witnesses for the full statement (Refuted.v).
Tie   : correspondence — the real pool / worker / worker_proc / queue code runs the same
        histories as the OCaml-extracted model over a pickling fake transport with fault
        injection; after EVERY request the reply, the values the compiler entry point saw,
        what was put on the wire, the server's belief and the worker's globals are compared.
Monitors (on the real code, independent of the model): args-exact, tx-state-exact,
        belief-sound after every request; the multi-tenant path (MultiTenantPool +
        multitenant_worker.py) is checked by monitors only.
"""
from __future__ import annotations

import itertools
import json
import os
import re
import subprocess

import lib

PROP = 'C17'
THEOREMS = [
    'C17_args_exact', 'C17_tx_exact', 'C17_belief_sound', 'C17_sent_exact',
    'C17_unknown_db_sends_all', 'C17_keys_sound', 'C17_noreturn_args_exact', 'C17_noreturn_tx_exact',
]
REFUTED = ['C17_status2_refuted', 'C17_status2_args_refuted', 'C17_belief_refuted', 'C17_full_refuted',
           'C17_falsy_refuted', 'C17_partial_sync_refuted']
IMPL = os.path.join(lib.VERIF, 'harness', 'impl', 'c17_impl.py')
FIELDS = ('us', 'gs', 'rc', 'dc', 'sc')          # order of the op / of the observation
MAPF = ('rc', 'dc', 'sc')
FALSY_FROM = 100


def cont0(x):
    return 0 if x == 0 else (50 if x >= FALSY_FROM else x // 2)


# ---------------------------------------------------------------- ops <-> text
# ('R', w, gs, sc, [(db, us, rc, dc)...]) | ('C', w, m, db, us, gs, rc, dc, sc, f) | ('T', [w..], db, us, ps, f)

def enc_op(o):
    if o[0] == 'R':
        s = f'R {o[1]} {o[2]} {o[3]}'
        if o[4]:
            s += ' ' + ','.join(':'.join(map(str, d)) for d in o[4])
        return s
    if o[0] == 'C':
        return 'C ' + ' '.join(map(str, o[1:]))
    return f'T {",".join(map(str, o[1]))} {o[2]} {o[3]} {o[4]} {o[5]}'


def enc(h):
    return ' ; '.join(enc_op(o) for o in h)


def dec(line):
    h = []
    for part in line.split(';'):
        p = part.split()
        if not p:
            continue
        if p[0] == 'R':
            dbs = [tuple(int(x) for x in d.split(':')) for d in p[4].split(',')] if len(p) > 4 else []
            h.append(('R', int(p[1]), int(p[2]), int(p[3]), dbs))
        elif p[0] == 'C':
            h.append(('C', int(p[1]), p[2], *[int(x) for x in p[3:9]], p[9]))
        else:
            h.append(('T', [int(x) for x in p[1].split(',')], int(p[2]), int(p[3]), int(p[4]), p[5]))
    return h


# ---------------------------------------------------------------- generators
METHS = ('c1', 'c1', 'c0', 'nb', 'sq', 'gq')
FAULTS = ('q', 'u0', 'u1', 'u2', 'u3', 'u4', 'c', 'r')


class Server:
    """the caller's side: current objects per database and globally; identities are either
    drawn from a small pool (so a caller returns to an earlier object) or always fresh"""

    def __init__(self, r, ndb, fresh, p_falsy):
        self.r = r
        self.fresh = fresh
        self.p_falsy = p_falsy
        self.cnt = {f: 10 for f in FIELDS}
        self.dbs = {}
        for db in range(1, ndb + 1):
            self.dbs[db] = {f: self.new(f) for f in ('us', 'rc', 'dc')}
        self.gs = self.new('gs')
        self.sc = self.new('sc')

    def new(self, f):
        r = self.r
        if f in MAPF and r.random() < self.p_falsy:
            return r.choice((100, 101))
        if self.fresh:
            self.cnt[f] += 1
            return min(self.cnt[f], 99)
        return r.choice((2, 3, 4, 5, 6, 7))

    def mutate(self):
        r = self.r
        k = r.random()
        db = r.choice(list(self.dbs))
        if k < 0.35:
            self.dbs[db]['us'] = self.new('us')
            if r.random() < 0.5:
                self.dbs[db]['rc'] = self.new('rc')
        elif k < 0.6:
            self.dbs[db]['dc'] = self.new('dc')
        elif k < 0.75:
            self.gs = self.new('gs')
        elif k < 0.9:
            self.sc = self.new('sc')
        else:
            self.dbs[db]['rc'] = self.new('rc')

    def init_args(self, r):
        dbs = [(db, d['us'], d['rc'], d['dc']) for db, d in self.dbs.items() if r.random() < 0.8]
        return dbs


def gen_valid(r, maxlen=24):
    """a server with 1-3 workers and 1-3 databases: requests interleaved with schema / config
    changes, transactions (compile -> compile_in_tx chains), worker restarts, faults"""
    nw = r.choice((1, 2, 2, 3))
    ndb = r.choice((1, 2, 2, 3))
    fresh = r.random() < 0.35
    p_falsy = r.choice((0, 0, 0.1, 0.3))
    p_fault = r.choice((0, 0.1, 0.25, 0.5))
    srv = Server(r, ndb, fresh, p_falsy)
    h = []
    for w in range(1, nw + 1):
        h.append(('R', w, srv.gs, srv.sc, srv.init_args(r)))
    txs = []                        # open transactions: [db, root us, state id]
    n = r.randint(3, maxlen)
    while len(h) < n + nw:
        k = r.random()
        if k < 0.3:
            srv.mutate()
            continue
        f = r.choice(FAULTS) if r.random() < p_fault else 'n'
        pos = len(h) + 1
        if k < 0.68:
            w = r.randint(1, nw)
            db = r.choice(list(srv.dbs))
            d = srv.dbs[db]
            m = r.choice(METHS)
            h.append(('C', w, m, db, d['us'], srv.gs, d['rc'], d['dc'], srv.sc, f))
            if m == 'c1' and f == 'n' and r.random() < 0.8:
                txs.append([db, d['us'], pos])
                if len(txs) > 3:
                    txs.pop(0)
        elif k < 0.93 and txs:
            t = r.choice(txs)
            ws = list(range(1, nw + 1))
            r.shuffle(ws)
            avail = ws[:r.randint(1, nw)]
            h.append(('T', avail, t[0], t[1], t[2], f))
            if f == 'n':
                t[2] = pos
            if r.random() < 0.15:
                txs.remove(t)
        elif k >= 0.93:
            w = r.randint(1, nw)
            h.append(('R', w, srv.gs, srv.sc, srv.init_args(r)))
    return h


def gen_edge(r, maxlen=12):
    """malformed / edge stream: None and falsy values everywhere, unknown workers, duplicate
    queue entries, bad init args, states never produced, unpickle fault of the state"""
    h = []
    ids = (0, 0, 2, 3, 4, 5, 100, 101)
    raw = (0, 2, 3, 4, 5, 100)
    n = r.randint(1, maxlen)
    if r.random() < 0.8:
        h.append(('R', 1, r.choice((4, 5)), r.choice(ids), [(1, r.choice(raw), r.choice(ids), r.choice(ids))]
                  if r.random() < 0.5 else []))
    for _ in range(n):
        k = r.random()
        f = r.choice(('n', 'n', 'n') + FAULTS + ('u5',))
        if k < 0.15:
            dbs = [(r.randint(1, 2), r.choice(raw), r.choice(ids), r.choice(ids)) for _ in range(r.randint(0, 3))]
            h.append(('R', r.randint(1, 3), r.choice(raw), r.choice(ids), dbs))
        elif k < 0.7:
            h.append(('C', r.randint(1, 3), r.choice(METHS), r.randint(1, 2), r.choice(raw), r.choice(raw),
                      r.choice(ids), r.choice(ids), r.choice(ids), f))
        else:
            avail = [r.randint(1, 3) for _ in range(r.randint(1, 4))]
            h.append(('T', avail, r.randint(1, 2), r.choice(raw), r.randint(0, len(h) + 2), f))
    return h


def exhaustive(depth):
    """small scope: one worker, one database known from the init args; every sequence of
    `depth` requests over an alphabet that contains each defect trigger and its probes"""
    base = ('R', 1, 4, 6, [(1, 2, 8, 10)])
    alpha = []
    for us, gs, dc, f in itertools.product((2, 12), (4, 14), (10, 20, 100), ('n', 'u2', 'u4', 'c', 'r')):
        if f != 'n' and (us, gs, dc) == (2, 4, 10):
            continue
        alpha.append(('C', 1, 'c1', 1, us, gs, 8, dc, 6, f))
    alpha.append(('C', 1, 'c1', 1, 2, 4, 8, 10, 16, 'u4'))
    alpha.append(('C', 1, 'sq', 2, 2, 4, 8, 10, 6, 'u2'))
    alpha.append(('T', [1], 1, 2, 2, 'n'))
    alpha.append(('T', [1], 1, 12, 3, 'c'))
    for seq in itertools.product(alpha, repeat=depth):
        yield [base] + list(seq)


def corpus():
    p = os.path.join(lib.VERIF, 'corpus', 'C17')
    out = []
    if os.path.isdir(p):
        for f in sorted(os.listdir(p)):
            if f.endswith('.json'):
                out.append(json.load(open(os.path.join(p, f)))['case'])
    return out


def gen_cases(tier):
    r = lib.rng('C17')
    cases = [(dec(c), 'corpus') for c in corpus()]
    if tier == 'quick':
        ex = list(exhaustive(2))
        cases += [(h, 'exh2') for h in ex]
        r2 = lib.rng('C17exh3')
        ex3 = list(exhaustive(3))
        cases += [(h, 'exh3s') for h in r2.sample(ex3, 2000)]
        cases += [(gen_valid(r), 'valid') for _ in range(6000)]
        cases += [(gen_edge(r), 'edge') for _ in range(1500)]
    else:
        cases += [(h, 'exh2') for h in exhaustive(2)]
        cases += [(h, 'exh3') for h in exhaustive(3)]
        cases += [(gen_valid(r), 'valid') for _ in range(150000)]
        cases += [(gen_valid(r, 60), 'valid') for _ in range(20000)]
        cases += [(gen_edge(r), 'edge') for _ in range(40000)]
    return cases


# ---------------------------------------------------------------- parsing results
DUMP = re.compile(r'B(-?\d+),(-?\d+),(-?\d+)((?: -?\d+:-?\d+:-?\d+:-?\d+)*) W(-?\d+),(-?\d+),(-|\d+\.-?\d+)((?: -?\d+:-?\d+:-?\d+:-?\d+)*)$')


def parse_dump(s):
    m = DUMP.match(s)
    if not m:
        return None
    f = lambda t: {int(a.split(':')[0]): tuple(int(x) for x in a.split(':')[1:]) for a in t.split()}
    last = None if m.group(7) == '-' else tuple(int(x) for x in m.group(7).split('.'))
    return {'bgs': int(m.group(1)), 'bsc': int(m.group(2)), 'blast': int(m.group(3)), 'bdbs': f(m.group(4)),
            'wgs': int(m.group(5)), 'wsc': int(m.group(6)), 'wlast': last, 'wdbs': f(m.group(8))}


def parse_item(o, it):
    """-> dict(res, obs, mask, w, dump)"""
    it = it.strip()
    if o[0] == 'R':
        k, _, d = it.partition(' ')
        return {'res': k, 'w': o[1], 'dump': parse_dump(d)}
    if it == 'nw':
        return {'res': 'nw'}
    res, obs, mk, rest = it.split('|', 3)
    flags = obs.split('!')[1:]
    obs = obs.split('!')[0]
    if o[0] == 'C':
        return {'res': res, 'obs': obs, 'mask': mk, 'w': o[1], 'dump': parse_dump(rest), 'flags': flags}
    wn, _, d = rest.partition(' ')
    return {'res': res, 'obs': obs, 'mask': mk, 'w': int(wn[1:]), 'dump': parse_dump(d), 'flags': flags}


def has_none(o):
    if o[0] == 'C':
        return 0 in o[4:9]
    if o[0] == 'T':
        return o[3] == 0 or o[4] == 0
    return o[2] == 0 or o[3] == 0 or any(0 in d[1:] for d in o[4])


# ---------------------------------------------------------------- monitors (on impl output only)
KF_FALSY = 'C17-falsy-merge'
KF_PARTIAL = 'C17-partial-sync'
KF_STATUS2 = 'C17-status2-unacked'
KF_MT_PENDING = 'C17-mt-pending-invalidation'


def py_clean(h):
    """mirror of Model.clean_hist (compared with the extracted clean0 on every generated history)"""
    for o in h:
        if o[0] == 'C' and (0 in o[4:9] or o[9] == 'r'):
            return False
        if o[0] == 'T' and o[4] == 0:
            return False
    return True


def py_noreturn(h):
    """mirror of Model.noret0 = forallb nn_req && no_return (compared with the extracted function on
    every generated history): no None value, and per scope the supplied identities never return"""
    t = {}

    def sup(k, x):
        if k not in t:
            t[k] = [x, set()]
            return True
        cur, cl = t[k]
        if x in cl:
            return False
        if cur != x:
            cl.add(cur)
            t[k][0] = x
        return True

    def five(db, us, gs, rc, dc, sc):
        return (sup(('us', db), us) and sup('gs', gs) and sup(('rc', db), rc) and sup(('dc', db), dc)
                and sup('sc', sc))
    for o in h:
        if o[0] == 'C':
            if 0 in o[4:9] or not five(o[3], *o[4:9]):
                return False
        elif o[0] == 'T':
            if not sup(('us', o[2]), o[3]):
                return False
        else:
            if not (sup('gs', o[2]) and sup('sc', o[3])):
                return False
            for db, us, rc, dc in o[4]:
                if not five(db, us, o[2], rc, dc, o[3]):
                    return False
    return True


def monitor(h, items):
    """monitor_raw + : a history satisfying the hypothesis of the theorems (clean_hist) must not
    fail ANY monitor on the real code, known finding or not"""
    fl = monitor_raw(h, items)
    if py_noreturn(h):
        # hypothesis of C17_noreturn_args_exact / _tx_exact: stale ARGUMENTS are excluded even
        # after status-2 replies (belief divergence and the cached tx state are not)
        fl = [(i, k, t + ' [history satisfies no_return: C17_noreturn_* exclude this]' if c else t, None)
              if k in ('args', 'tx-root') else (i, k, t, c) for i, k, t, c in fl]
    if py_clean(h):
        fl = [(i, k, t + ' [history satisfies clean_hist: the theorems exclude this]' if c else t, None)
              for i, k, t, c in fl]
    return fl


def monitor_raw(h, items):
    """Property monitors evaluated on the implementation's behaviour.
    Returns list of (op index, kind, text, cause) ; cause = known-finding id or None.
    Histories that supply None for a state value are outside the property (the server never
    does); they are only compared with the model."""
    if any(has_none(o) for o in h):
        return []
    fails = []
    taint = {}        # (w, scope) -> (cause id, op index);   scope = (db, field) | 'gs' | 'sc' | 'last'
    ledger = {}       # state id -> root content it was produced with
    for i, (o, it) in enumerate(zip(h, items)):
        if it.get('res') in ('nw', None):
            continue
        w = it['w']
        d = it['dump']
        if o[0] == 'R':
            for k in [k for k in taint if k[0] == w]:
                del taint[k]
        for fl in it.get('flags', []):
            fails.append((i, 'internal', fl, None))
        # ---- args exact
        if o[0] == 'C' and it['obs'].startswith('C'):
            seen = [int(x) for x in it['obs'][1:].split(',')]
            want = [cont0(x) for x in o[4:9]]
            for fn, a, b in zip(FIELDS, seen, want):
                if a != b:
                    scope = fn if fn in ('gs', 'sc') else (o[3], fn)
                    cause = taint.get((w, scope), (None,))[0]
                    fails.append((i, 'args', f'{fn}: compiler entered with content {a}, request supplied '
                                  f'object {o[4 + FIELDS.index(fn)]} of content {b}', cause))
            if it['res'].startswith('ok:') and it['res'] != 'ok:0':
                ledger[int(it['res'][3:])] = seen[0]
        if o[0] == 'T' and it['obs'].startswith('T'):
            sid, root = (int(x) for x in it['obs'][1:].split(','))
            if sid != o[4]:
                cause = taint.get((w, 'last'), (None,))[0]
                fails.append((i, 'tx-state', f'compile_in_tx entered with state {sid}, request supplied state {o[4]}', cause))
            elif it['mask'] == 'm0':
                if root != cont0(o[3]):
                    cause = taint.get((w, (o[2], 'us')), (None,))[0]
                    fails.append((i, 'tx-root', f'compile_in_tx root user schema content {root}, request supplied '
                                  f'object {o[3]} of content {cont0(o[3])}', cause))
            elif sid in ledger and ledger[sid] != root:
                fails.append((i, 'tx-root', f'reused state {sid} has root {root}, was produced with {ledger[sid]}', None))
            if it['res'].startswith('ok:'):
                ledger[int(it['res'][3:])] = root
        # ---- belief sound (after the request)
        if d is None:
            if o[0] != 'R' or it['res'] == 'ok':
                fails.append((i, 'internal', 'no state dump', None))
            continue
        div = []
        for db, (us, rc, dc) in d['bdbs'].items():
            wd = d['wdbs'].get(db)
            if wd is None:
                div.append(((db, 'us'), f'server believes worker has database {db}, worker does not'))
                continue
            for fn, a, b in zip(('us', 'rc', 'dc'), (us, rc, dc), wd):
                if cont0(a) != b:
                    div.append(((db, fn), f'db {db} {fn}: server believes object {a} (content {cont0(a)}), worker holds content {b}'))
        if cont0(d['bgs']) != d['wgs']:
            div.append(('gs', f'global schema: server believes object {d["bgs"]}, worker holds content {d["wgs"]}'))
        if cont0(d['bsc']) != d['wsc']:
            div.append(('sc', f'system config: server believes object {d["bsc"]}, worker holds content {d["wsc"]}'))
        if d['blast'] != 0 and (d['wlast'] is None or d['wlast'][0] != d['blast']):
            div.append(('last', f'server believes LAST_STATE is state {d["blast"]}, worker holds {d["wlast"]}'))
        now = {s for s, _ in div}
        for k in [k for k in taint if k[0] == w and k[1] not in now]:
            del taint[k]
        for scope, text in div:
            if (w, scope) in taint:
                continue
            cause = None
            if o[0] == 'C':
                f = o[9]
                acked = it['res'].startswith('ok') or it['res'] == 'Ecomp'
                if (isinstance(scope, tuple) and scope[0] == o[3] and scope[1] in ('rc', 'dc') and acked
                        and o[4 + FIELDS.index(scope[1])] >= FALSY_FROM):
                    cause = KF_FALSY
                elif f in ('u2', 'u4') and it['res'] == 'Esync' and scope != 'last' and scope != 'sc' \
                        and (scope == 'gs' or scope[0] == o[3]):
                    cause = KF_PARTIAL
                elif f == 'r' and it['res'] == 'Ereply' and (scope in ('gs', 'sc', 'last') or scope[0] == o[3]):
                    cause = KF_STATUS2
            taint[(w, scope)] = (cause, i)
            fails.append((i, 'belief', text, cause))
    return fails


# ---------------------------------------------------------------- run
NPROC = {'st': 8, 'mt': 4}      # process start-up (importing edb under the stubs) costs ~6 CPU-s each


def run_impl(lines, mode='st'):
    return lib.parallel_lines([lib.PY, IMPL, lib.REPO, mode], lines, nproc=NPROC[mode], env=lib.impl_env())


def strip_flags(s):
    return re.sub(r'![a-z\-]+', '', s)


def items_of(h, out):
    parts = out.split(' ; ')
    if len(parts) != len(h):
        return None
    try:
        return [parse_item(o, p) for o, p in zip(h, parts)]
    except Exception:
        return None


def shrink(h, pred_many):
    """delta debugging on the request list (all single-removal candidates of a round are run
    in ONE implementation process), then fault removal.  pred_many: [history] -> [bool]"""
    changed = True
    while changed and len(h) > 1:
        changed = False
        cands = [h[:i] + h[i + 1:] for i in range(len(h) - 1, -1, -1)]
        cands += [h[:i] + [o[:-1] + ('n',)] + h[i + 1:] for i, o in enumerate(h)
                  if o[0] in ('C', 'T') and o[-1] != 'n']
        for c, ok in zip(cands, pred_many(cands)):
            if ok:
                h = c
                changed = True
                break
    return h


def one_impl(h, mode='st'):
    return run_impl([enc(h)], mode)[0]


def mon_pred(kind, cause, mode='st'):
    def p(hs):
        outs = run_impl([enc(h) for h in hs], mode)
        res = []
        for h, out in zip(hs, outs):
            its = items_of(h, out)
            res.append(its is not None and any(k == kind and c == cause for _, k, _, c in monitor(h, its)))
        return res
    return p


def mism_pred(exe):
    def p(hs):
        ls = [enc(h) for h in hs]
        a = run_impl(ls)
        b = lib.run_model(exe, ls)
        return [strip_flags(x) != y for x, y in zip(a, b)]
    return p


def nontrivial(h):
    """>= 2 requests after the first worker start, among them one that changes a value relative to
    an earlier request on the same worker+database (something must be re-transmitted) and
    (a fault, or a second worker, or a transaction request)"""
    reqs = [o for o in h if o[0] in ('C', 'T')]
    if len(reqs) < 2:
        return False
    seen = {}
    change = False
    for o in reqs:
        if o[0] != 'C':
            continue
        k = (o[1], o[3])
        if k in seen and seen[k] != o[4:9]:
            change = True
        seen[k] = o[4:9]
    if not change:
        return False
    fault = any(o[-1] != 'n' for o in reqs)
    workers = {o[1] for o in reqs if o[0] == 'C'}
    return fault or len(workers) > 1 or any(o[0] == 'T' for o in reqs)


def coq_hist(h):
    def N(x):
        return f'{x}%N'

    def fault(f):
        return {'n': 'FNone', 'q': 'FReqLost', 'c': 'FCompiler', 'r': 'FReplyLost'}.get(f) or f'(FUnpickle {f[1]}%N)'
    ops = []
    for o in h:
        if o[0] == 'R':
            dbs = '; '.join(f'({N(d[0])}, mkP {N(d[1])} {N(d[2])} {N(d[3])})' for d in o[4])
            ops.append(f'ORestart {N(o[1])} [{dbs}] {N(o[2])} {N(o[3])}')
        elif o[0] == 'C':
            m = {'c1': '(MCompile true)', 'c0': '(MCompile false)'}.get(o[2], 'MOther')
            ops.append(f'OCompile {N(o[1])} {m} ' + ' '.join(N(x) for x in o[3:9]) + ' ' + fault(o[9]))
        else:
            ops.append(f'OTx [{"; ".join(N(x) for x in o[1])}] {N(o[2])} {N(o[3])} {N(o[4])} {fault(o[5])}')
    return 'digest0 [' + '; '.join(ops) + ']'


def run(tier):
    rep = lib.Report(PROP, tier, 'proof')
    thorough = tier == 'thorough'
    if thorough:
        NPROC.update(st=16, mt=8)
    import time
    tm = {}
    t0 = [time.time()]

    def lap(k):
        tm[k] = round(time.time() - t0[0], 1)
        t0[0] = time.time()
    pf = lib.proof_stage(rep, 'C17', THEOREMS, extra_targets=['theories/C17/Refuted.vo'], thorough=thorough)
    rok, rproved, rlog = lib.coq_props('C17', 'Refuted.v') if pf['ok'] else (False, {}, '')
    for t in REFUTED:
        if rproved.get(t) != []:
            pf['ok'] = False
            pf['broken'].append(f'{t}: refutation witness does not check (Refuted.v)')
    rep.coverage['refuted_theorems'] = {t: ('closed under the global context' if rproved.get(t) == [] else 'NOT CHECKED')
                                        for t in REFUTED}
    exe, blog = lib.build_model('c17', 'ExtractC17.v', 'c17_main.ml', 'C17_ext')
    known = {k['id']: k for k in lib.known_findings(PROP)}
    lap('proof+build')

    cases = gen_cases(tier)
    hs = [c[0] for c in cases]
    lines = [enc(h) for h in hs]
    lap('generate')
    from concurrent.futures import ThreadPoolExecutor
    mt_pool = ThreadPoolExecutor(1)
    mt_future = mt_pool.submit(run_mt, tier, rep, known)       # multi-tenant path runs alongside
    impl = run_impl(lines)
    lap('impl')
    model = lib.run_model(exe, lines) if exe else None
    lap('model')

    # ---- monitors on the implementation
    mon = []                    # (case index, op index, kind, text, cause)
    bad_parse = []
    for ci, (h, out) in enumerate(zip(hs, impl)):
        its = items_of(h, out)
        if its is None:
            bad_parse.append(ci)
            continue
        for (i, k, t, c) in monitor(h, its):
            mon.append((ci, i, k, t, c))
    mism = []
    clean = [False] * len(lines)
    if model is not None:
        mism = [i for i, (a, b) in enumerate(zip(impl, model)) if strip_flags(a) != b]
        p = subprocess.run([exe, '--clean'], input='\n'.join(lines) + '\n', capture_output=True, text=True)
        clean = [x == '1' for x in p.stdout.split('\n')[:len(lines)]]
    clean_diff = [i for i, (h, c) in enumerate(zip(hs, clean)) if model is not None and py_clean(h) != c]
    noret = [False] * len(lines)
    if model is not None:
        p = subprocess.run([exe, '--noreturn'], input='\n'.join(lines) + '\n', capture_output=True, text=True)
        noret = [x == '1' for x in p.stdout.split('\n')[:len(lines)]]
        clean_diff += [i for i, (h, c) in enumerate(zip(hs, noret)) if py_noreturn(h) != c]

    lap('monitors')
    # ---- multi-tenant path: monitors only
    mt = mt_future.result()
    mt_pool.shutdown()
    lap('multitenant(wait)')

    # ---- Coq-internal evaluation of a sample (guards extraction)
    coq_diff, n_coq = [], 0
    if model is not None:
        r = lib.rng('C17coq')
        idx = sorted(r.sample(range(len(hs)), min(200 if not thorough else 1000, len(hs))))
        outs = lib.coq_eval('C17', 'From Coq Require Import List NArith. Import ListNotations.\n'
                                   'From Verif.C17 Require Import Model.',
                            [coq_hist(hs[i]) for i in idx])
        n_coq = len(outs)
        p = subprocess.run([exe, '--digest'], input='\n'.join(lines[i] for i in idx) + '\n',
                           capture_output=True, text=True)
        dig = p.stdout.split('\n')
        for j, (i, o) in enumerate(zip(idx, outs)):
            nums = ','.join(re.findall(r'\d+', o.replace('%N', '')))
            if nums != dig[j]:
                coq_diff.append(i)

    lap('coq_eval')
    # ---- refutation witnesses replayed on the real code
    wit = replay_witnesses(exe)
    lap('witnesses')

    # ---- verdict
    unexplained = [m for m in mon if m[4] is None or m[4] not in known]
    explained = [m for m in mon if m[4] is not None and m[4] in known]
    by_id = {}
    for m in explained:
        by_id.setdefault(m[4], []).append(m)
    for fid in sorted(set(by_id) | set(mt['known'])):
        ms = by_id.get(fid, [])
        txt = known[fid].get('what', '')
        if ms:
            ci = min(ms, key=lambda m: len(lines[m[0]]))[0]
            txt += f' ({len({m[0] for m in ms})} generated histories hit it, e.g. {lines[ci]})'
        if fid in mt['known']:
            txt += f' (multi-tenant path: {len(set(mt["known"][fid]))} histories, e.g. {min(mt["known"][fid], key=len)})'
        rep.known_finding(fid, txt)
    for what, payload, found in mt['violations']:
        rep.violation(what, payload, found)
    seen_kinds = set()
    for m in sorted(unexplained, key=lambda m: len(lines[m[0]])):
        key = (m[2], m[4])
        if key in seen_kinds:
            continue
        seen_kinds.add(key)
        ci, i, kind, text, cause = m
        small = shrink(hs[ci], mon_pred(kind, cause))
        so = one_impl(small)
        sf = [x for x in monitor(small, items_of(small, so) or []) if x[1] == kind and x[3] == cause]
        rep.violation(f'monitor {kind} failed on the real compiler pool: {sf[0][2] if sf else text}'
                      + (f' [this is the defect {cause}, which is not an accepted known finding: '
                         + ('it was repaired in /repo and has RETURNED]' if cause in (KF_FALSY, KF_PARTIAL) else 'not in known_findings.json]') if cause else ''),
                      {'case': enc(small), 'original_case': lines[ci], 'failing_request_index': sf[0][0] if sf else i,
                       'impl_result': so, 'model_result': lib.run_model(exe, [enc(small)])[0] if exe else None,
                       'proposed_known_finding': cause,
                       'how': f'echo "<case>" | PYTHONPATH={lib.REPO}:/verif/harness /venv/bin/python harness/impl/c17_impl.py {lib.REPO} st'})
        if len(seen_kinds) >= 4:
            break
    wit_bad = [w for w in wit if w['real_code_violates'] != w['expected_on_real_code'] or w['model_variant_violates'] is False]
    if not unexplained and not mt['unexplained']:
        if model is None:
            rep.violation('model does not build: ' + blog[-1500:], {'broken': 'extraction of theories/C17/Model.v'}, False)
        elif bad_parse:
            rep.violation('implementation harness output not parseable', {'case': lines[bad_parse[0]], 'impl_result': impl[bad_parse[0]]}, False)
        elif mism:
            i = min(mism, key=lambda j: len(lines[j]))
            small = shrink(hs[i], mism_pred(exe))
            rep.violation('correspondence broken: model and implementation disagree, no monitor failed '
                          f'on {len(cases)} histories',
                          {'broken': 'correspondence C17 Model.step vs compiler_pool pool.py/worker.py',
                           'case': enc(small), 'impl_result': one_impl(small),
                           'model_result': lib.run_model(exe, [enc(small)])[0], 'disagreements': len(mism)}, False)
        if clean_diff:
            rep.violation('harness py_clean / py_noreturn differ from Model.clean_hist / noret0', {'broken': 'harness', 'case': lines[clean_diff[0]]}, False)
        if coq_diff:
            rep.violation('extracted model disagrees with vm_compute inside Coq',
                          {'broken': 'extraction', 'case': lines[coq_diff[0]]}, False)
        if wit_bad:
            w = wit_bad[0]
            rep.violation(f'refutation witness {w["name"]}: real code violates={w["real_code_violates"]} '
                          f'(expected {w["expected_on_real_code"]}), model variant {w["model_variant"]} '
                          f'violates={w["model_variant_violates"]}', {'case': w['history'], 'broken': 'Refuted.v witness vs real code',
                                                                    'impl_result': w['impl']}, False)
        if not pf['ok']:
            rep.violation('proof obligations no longer check: ' + '; '.join(pf['broken'][:6]),
                          {'broken': pf['broken'], 'log_tail': pf['log'][-3000:]}, False)

    lap('verdict+shrink')
    # ---- evidence
    distinct = {l for l, h in zip(lines, hs) if nontrivial(h)}
    streams, opk, faults, lens, errs, masks = {}, {}, {}, {}, {}, {}
    for (h, s), out in zip(cases, impl):
        streams[s] = streams.get(s, 0) + 1
        lens[len(h)] = lens.get(len(h), 0) + 1
        for o in h:
            k = o[0] if o[0] != 'C' else 'C:' + o[2]
            opk[k] = opk.get(k, 0) + 1
            if o[0] != 'R':
                faults[o[-1]] = faults.get(o[-1], 0) + 1
        for it in out.split(' ; '):
            k = it.split('|')[0].split(':')[0].split(' ')[0]
            errs[k] = errs.get(k, 0) + 1
            p = it.split('|')
            if len(p) > 2:
                masks[p[2]] = masks.get(p[2], 0) + 1
    monk = {}
    for m in mon:
        k = f'{m[2]}:{m[4]}'
        monk[k] = monk.get(k, 0) + 1
    rep.coverage.update({
        'evaluations': len(cases),
        'distinct_nontrivial': len(distinct),
        'rule': 'histories = worker starts / compile* requests (5 methods) / compile_in_tx requests with a queue of '
                'free workers / restarts, with a fault placement per request (request lost, unpickle failure of '
                'field 0-5 inside the worker, compiler exception, status-2 reply); streams: corpus, exhaustive '
                f'depth-2 alphabet of {len(list(exhaustive(1)))} requests on 1 worker x 1 database (all), depth 3 '
                f'({"all" if thorough else "2000 sampled"}), seeded valid server simulations (1-3 workers, 1-3 '
                'databases, fresh-identity or small-pool callers, tx chains), malformed/edge stream (None, b"", '
                'unknown workers, bad init args). non-trivial = >= 2 requests, a value changed between two '
                'requests on the same worker+database, and (a fault or a second worker or a tx request); '
                'distinct = distinct encoded history',
        'exhaustive': False,
        'exhaustive_subspaces': ['depth-2 request sequences over the defect alphabet'] + (['depth-3'] if thorough else []),
        'samples': [lines[i] for i in (0, len(lines) // 3, len(lines) // 2, len(lines) - 1)],
        'traces_validated_against_impl': len(cases) if model is not None else 0,
        'histories_satisfying_clean_hist (hypothesis of the theorems)': sum(clean),
        'clean_histories_nontrivial': len({l for l, h, c in zip(lines, hs, clean) if c and nontrivial(h)}),
        'histories_satisfying_no_return (hypothesis of C17_noreturn_*)': sum(noret),
        'no_return_histories_with_status2_fault': sum(1 for h, c in zip(hs, noret) if c and any(o[0] == 'C' and o[9] == 'r' for o in h)),
        'requests_compared': sum(len(h) for h in hs),
        'model_vs_impl_disagreements': len(mism),
        'coq_vm_compute_cross_checked': n_coq,
        'monitor_failures_unexplained': len(unexplained),
        'monitor_failures_attributed_to_known_findings': len(explained),
        'monitor_failures_by_kind_and_cause': monk,
        'streams': streams,
        'history_lengths': dict(sorted(lens.items())),
        'op_kinds': opk,
        'fault_kinds': faults,
        'reply_kinds': errs,
        'wire_masks(us rc gs dc sc / reuse marker)': dict(sorted(masks.items(), key=lambda kv: -kv[1])[:40]),
        'multitenant': mt['coverage'],
        'stage_seconds': tm,
        'refutation_witnesses_on_real_code': wit,
        'trusted_base': [
            'Coq 8.16.1 kernel (coqc; coqchk in the thorough tier); vm_compute only in Refuted.v witnesses and cases.v',
            'extraction: ExtrOcamlBasic only, N/positive kept inductive; OCaml 4.13.1; ocaml/conv.ml + c17_main.ml',
            'correspondence harness harness/props/c17.py + harness/impl/c17_impl.py: fake transport (pickle round trip), '
            'recording compiler, fault injection through a pickle proxy in the private worker modules, generators, monitors',
            'modelled, not verified: Python `is`/`or`/pickle semantics, immutables.Map, functools.partial kwargs, asyncio '
            'sequential execution of one request at a time per worker (queue exclusivity is assumed, worker choice is adversarial)',
            'not covered: RemotePool / compiler_pool/server.py (remote compiler), SimpleAdaptivePool scaling, real processes/sockets; '
            'MultiTenantPool + multitenant_worker.py: monitors only (no model, no theorem)',
        ],
    })
    rep.assumptions = [
        'one request at a time per worker (WorkerQueue hands a worker to one holder); which worker serves is arbitrary',
        'objects are immutable: identity determines content and truthiness (bytes, immutables.Map)',
        'the server never supplies None for a state value (histories with None are only compared with the model)',
        'C17_args_exact / C17_tx_exact / C17_belief_sound: every fault placement except a status-2 reply to compile*; '
        'every value (also empty maps) except None',
        'C17_noreturn_*: every fault placement incl. status 2; no None; callers never return to an object they have left',
    ]
    return rep.finish()


# ---------------------------------------------------------------- refutation witnesses
# name -> (history, failing request index, monitor kind, model variant "fx1 fx2" of which it is a witness,
#          must the real (pinned) code reproduce it?)
WITNESSES = {
    'C17_status2_refuted': ('R 1 4 6 1:2:8:10 ; C 1 c1 1 2 4 8 10 6 n ; C 1 c1 1 2 4 8 10 6 r ; T 1 1 2 2 n', 3, 'tx-state', '1 1', True),
    'C17_status2_args_refuted': ('R 1 4 6 1:2:8:10 ; C 1 sq 1 2 4 8 20 6 r ; C 1 sq 1 2 4 8 10 6 n', 2, 'args', '1 1', True),
    'C17_falsy_refuted': ('R 1 4 6 1:2:8:10 ; C 1 sq 1 2 4 8 100 6 n ; C 1 sq 1 2 4 8 10 6 n', 2, 'args', '0 1', False),
    'C17_partial_sync_refuted': ('R 1 4 6 1:2:8:10 ; C 1 sq 1 12 14 8 10 6 u2 ; C 1 sq 1 2 4 8 10 6 n', 2, 'args', '1 0', False),
}


def replay_witnesses(exe):
    out = []
    res = run_impl([w[0] for w in WITNESSES.values()])
    for (name, (line, idx, kind, variant, expect)), o in zip(WITNESSES.items(), res):
        h = dec(line)
        its = items_of(h, o)
        fl = monitor(h, its) if its else []
        ok = any(i == idx and k == kind for i, k, _, _ in fl)
        mv = None
        if exe:
            p = subprocess.run([exe, '--variant', *variant.split()], input=line + '\n', capture_output=True, text=True)
            mo = p.stdout.strip()
            mits = items_of(h, mo)
            mv = any(i == idx and k == kind for i, k, _, _ in (monitor(h, mits) if mits else []))
        out.append({'name': name, 'history': line, 'model_variant': variant, 'model_variant_violates': mv,
                    'real_code_violates': ok, 'expected_on_real_code': expect, 'impl': o})
    return out


# ---------------------------------------------------------------- multi tenant (monitors only)
# ('R', w) | ('C', [w..], cid, m, db, us, gs, rc, dc, sc, f) | ('T', [w..], cid, db, us, ps, f) | ('D', cid)

def enc_mt(h):
    out = []
    for o in h:
        if o[0] == 'R':
            out.append(f'R {o[1]}')
        elif o[0] == 'D':
            out.append(f'D {o[1]}')
        else:
            out.append(o[0] + ' ' + ','.join(map(str, o[1])) + ' ' + ' '.join(map(str, o[2:])))
    return ' ; '.join(out)


def dec_mt(line):
    h = []
    for part in line.split(';'):
        p = part.split()
        if not p:
            continue
        if p[0] in ('R', 'D'):
            h.append((p[0], int(p[1])))
        elif p[0] == 'C':
            h.append(('C', [int(x) for x in p[1].split(',')], int(p[2]), p[3], *[int(x) for x in p[4:10]], p[10]))
        else:
            h.append(('T', [int(x) for x in p[1].split(',')], *[int(x) for x in p[2:6]], p[6]))
    return h


def gen_mt(r, maxlen=22):
    """1-2 multi-tenant workers (cache_size 2), 2-3 tenants with their own databases and objects"""
    nw = r.choice((1, 2, 2))
    tenants = {cid: Server(r, r.choice((1, 2)), r.random() < 0.4, r.choice((0, 0.15, 0.3)))
               for cid in r.sample((7, 8, 9), r.choice((2, 3)))}
    p_fault = r.choice((0, 0.1, 0.3))
    h = [('R', w) for w in range(1, nw + 1)]
    txs = []
    n = r.randint(3, maxlen)
    while len(h) < n + nw:
        k = r.random()
        cid = r.choice(list(tenants))
        srv = tenants[cid]
        if k < 0.3:
            srv.mutate()
            continue
        f = r.choice(FAULTS) if r.random() < p_fault else 'n'
        pos = len(h) + 1
        ws = list(range(1, nw + 1))
        r.shuffle(ws)
        avail = ws[:r.randint(1, nw)]
        if k < 0.7:
            db = r.choice(list(srv.dbs))
            d = srv.dbs[db]
            m = r.choice(METHS)
            h.append(('C', avail, cid, m, db, d['us'], srv.gs, d['rc'], d['dc'], srv.sc, f))
            if m == 'c1' and f == 'n' and r.random() < 0.8:
                txs.append([cid, db, d['us'], pos])
                if len(txs) > 3:
                    txs.pop(0)
        elif k < 0.92 and txs:
            t = r.choice(txs)
            h.append(('T', avail, t[0], t[1], t[2], t[3], f))
            if f == 'n':
                t[3] = pos
        elif k < 0.96:
            h.append(('R', r.randint(1, nw)))
        elif k >= 0.96:
            h.append(('D', cid))
            txs = [t for t in txs if t[0] != cid]
    return h


def monitor_mt(h, items):
    """args-exact / tx-exact / belief-sound on the multi-tenant path.  Tenants that the server has
    marked for invalidation on a worker are not part of its belief (pending until the next
    acknowledged transfer)."""
    fails = []
    taint = {}
    dropped = set()
    for i, (o, it) in enumerate(zip(h, items)):
        if o[0] == 'D':
            continue
        if it.get('res') in ('nw', None):
            continue
        w = it.get('w')
        d = it.get('dump')
        if o[0] == 'R':
            for k in [k for k in taint if k[0] == w]:
                del taint[k]
            continue
        for fl in it.get('flags', []):
            fails.append((i, 'internal', fl, None))
        cid = o[2]
        if o[0] == 'C' and it['obs'].startswith('C'):
            seen = [int(x) for x in it['obs'][1:].split(',')]
            want = [cont0(x) for x in o[5:10]]
            own_inval = cid in ((it.get('sent') or {}).get('invalidation') or [])
            for fn, a, b in zip(FIELDS, seen, want):
                if a != b:
                    scope = (cid, fn) if fn in ('gs', 'sc') else (cid, o[4], fn)
                    cause = taint.get((w, scope), (None,))[0]
                    if cause is None and own_inval and fn == 'us' and a == 0:
                        # the request carried an invalidation for its own tenant: the worker dropped the
                        # tenant and rebuilt it from the partial diff (user schema not transmitted -> None)
                        cause = KF_MT_PENDING
                    fails.append((i, 'args', f'tenant {cid} {fn}: compiler entered with content {a}, request supplied '
                                  f'object {o[5 + FIELDS.index(fn)]} of content {b}', cause))
        if o[0] == 'T' and it['obs'].startswith('T'):
            sid, root = (int(x) for x in it['obs'][1:].split(','))
            sent = it.get('sent') or {}
            if sid != o[5]:
                cause = taint.get((w, 'last'), (None,))[0]
                fails.append((i, 'tx-state', f'compile_in_tx entered with state {sid}, request supplied state {o[5]}', cause))
            elif not sent.get('reuse') and root != cont0(o[4]):
                cause = taint.get((w, (cid, o[3], 'us')), (None,))[0]
                fails.append((i, 'tx-root', f'compile_in_tx root user schema content {root}, request supplied '
                              f'object {o[4]} of content {cont0(o[4])}', cause))
        if d is None:
            fails.append((i, 'internal', 'no state dump', None))
            continue
        div = []
        for c, ts in d['srv'].items():
            if ts['pending_invalidation']:
                continue
            wk = d['wk'].get(c)
            if wk is None:
                div.append(((int(c), 'gs'), f'server believes worker has tenant {c}, worker does not'))
                continue
            if cont0(ts['gs']) != wk['gs']:
                div.append(((int(c), 'gs'), f'tenant {c} global schema: believed object {ts["gs"]}, worker content {wk["gs"]}'))
            if cont0(ts['sc']) != wk['sc']:
                div.append(((int(c), 'sc'), f'tenant {c} system config: believed object {ts["sc"]}, worker content {wk["sc"]}'))
            for db, tri in ts['dbs'].items():
                wd = wk['dbs'].get(db)
                if wd is None:
                    div.append(((int(c), int(db), 'us'), f'server believes worker has tenant {c} database {db}, worker does not'))
                    continue
                for fn, a, b in zip(('us', 'rc', 'dc'), tri, wd):
                    if cont0(a) != b:
                        div.append(((int(c), int(db), fn), f'tenant {c} db {db} {fn}: believed object {a} (content {cont0(a)}), worker content {b}'))
        if d['blast'] != 0 and (d['wlast'] is None or d['wlast'][0] != d['blast']):
            div.append(('last', f'server believes LAST_STATE is state {d["blast"]}, worker holds {d["wlast"]}'))
        now = {s for s, _ in div}
        for k in [k for k in taint if k[0] == w and k[1] not in now]:
            del taint[k]
        for scope, text in div:
            if (w, scope) in taint:
                continue
            cause = None
            if o[0] == 'C' and o[-1] == 'r' and it['res'] == 'Ereply' and (scope == 'last' or scope[0] == cid):
                cause = KF_STATUS2
            taint[(w, scope)] = (cause, i)
            fails.append((i, 'belief', text, cause))
    return fails


def mt_pred(kind, cause):
    import json as _j

    def p(hs):
        outs = run_impl([enc_mt(h) for h in hs], 'mt')
        res = []
        for h, out in zip(hs, outs):
            try:
                its = _j.loads(out)
            except ValueError:
                res.append(False)
                continue
            res.append(len(its) == len(h) and any(k == kind and c == cause for _, k, _, c in monitor_mt(h, its)))
        return res
    return p


def shrink_mt(h, pred_many):
    changed = True
    while changed and len(h) > 1:
        changed = False
        cands = [h[:i] + h[i + 1:] for i in range(len(h) - 1, -1, -1)]
        for c, ok in zip(cands, pred_many(cands)):
            if ok:
                h = c
                changed = True
                break
    return h


def run_mt(tier, rep, known):
    r = lib.rng('C17mt')
    n = 3000 if tier == 'quick' else 40000
    hs = [gen_mt(r) for _ in range(n)]
    fixed = ['R 1 ; C 1 7 c1 1 6 2 7 4 5 n ; D 7 ; C 1 7 c1 1 6 3 3 5 4 n',
             'R 1 ; C 1 7 sq 1 2 4 8 10 6 n ; C 1 8 sq 1 2 4 8 10 6 n ; C 1 9 sq 1 2 4 8 10 6 q ; C 1 7 sq 1 2 14 18 20 16 n',
             'R 1 ; C 1 7 sq 1 2 4 8 10 6 n ; C 1 7 sq 1 2 4 8 100 6 n ; C 1 7 sq 1 2 4 8 10 6 n',
             'R 1 ; C 1 7 c1 1 2 4 8 10 6 n ; C 1 7 sq 1 12 14 8 10 6 u2 ; T 1 7 1 2 2 n',
             'R 1 ; C 1 7 sq 1 2 4 8 10 6 n ; C 1 8 sq 1 2 4 8 10 6 n ; C 1 9 sq 1 2 4 8 10 6 u4 ; C 1 7 sq 1 2 4 8 10 6 n']
    hs = [dec_mt(x) for x in fixed] + hs
    lines = [enc_mt(h) for h in hs]
    outs = run_impl(lines, 'mt')
    mon = []
    bad = 0
    kinds = {}
    for ci, (h, out) in enumerate(zip(hs, outs)):
        try:
            its = json.loads(out)
            assert len(its) == len(h)
        except Exception:
            bad += 1
            continue
        for it in its:
            k = (it.get('res') or '?').split(':')[0]
            kinds[k] = kinds.get(k, 0) + 1
        for (i, k, t, c) in monitor_mt(h, its):
            mon.append((ci, i, k, t, c))
    unexplained = [m for m in mon if m[4] is None or m[4] not in known]
    explained = [m for m in mon if m[4] is not None and m[4] in known]
    mt_known = {}
    for m in explained:
        mt_known.setdefault(m[4], []).append(lines[m[0]])
    viol = []
    seen = set()
    for m in sorted(unexplained, key=lambda m: len(lines[m[0]])):
        if (m[2], m[4]) in seen:
            continue
        seen.add((m[2], m[4]))
        small = shrink_mt(hs[m[0]], mt_pred(m[2], m[4]))
        so = run_impl([enc_mt(small)], 'mt')[0]
        sf = [x for x in monitor_mt(small, json.loads(so)) if x[1] == m[2] and x[3] == m[4]]
        viol.append((f'monitor {m[2]} failed on the real MULTI-TENANT compiler pool: {sf[0][2] if sf else m[3]}'
                     + (f' [this is the defect {m[4]}, which is not in known_findings.json]' if m[4] else ''),
                      {'case': enc_mt(small), 'proposed_known_finding': m[4], 'mode': 'mt', 'original_case': lines[m[0]],
                       'failing_request_index': sf[0][0] if sf else m[1], 'impl_result': so,
                       'how': f'echo "<case>" | PYTHONPATH={lib.REPO}:/verif/harness /venv/bin/python harness/impl/c17_impl.py {lib.REPO} mt'}, True))
        if len(seen) >= 2:
            break
    if bad:
        viol.append(('multi-tenant harness output not parseable', {'cases': bad}, False))
    monk = {}
    for m in mon:
        monk[f'{m[2]}:{m[4]}'] = monk.get(f'{m[2]}:{m[4]}', 0) + 1
    ndist = len({l for l, h in zip(lines, hs) if len({o[2] for o in h if o[0] in ('C', 'T')}) >= 2 and len(h) >= 4})
    return {'unexplained': unexplained, 'violations': viol, 'known': mt_known,
            'coverage': {'histories': len(hs), 'requests': sum(len(h) for h in hs),
                         'distinct_with_two_tenants_and_4_requests': ndist, 'reply_kinds': kinds,
                         'monitor_failures_by_kind_and_cause': monk, 'sample': lines[len(lines) // 2],
                         'note': 'MultiTenantPool._compute_compile_preargs / sync_worker_state_cb / compile_in_tx / '
                                 '_weighter / drop_tenant + multitenant_worker.py; monitors only'}}


def replay(path):
    d = json.load(open(path))
    case = d['replay'].get('case') or d['replay'].get('original_case')
    mode = d['replay'].get('mode', 'st')
    exe, _ = lib.build_model('c17', 'ExtractC17.v', 'c17_main.ml', 'C17_ext')
    print('case :', case)
    out = run_impl([case], mode)[0]
    print('impl :', out)
    if mode == 'mt':
        h = dec_mt(case)
        for i, k, t, c in monitor_mt(h, json.loads(out)):
            print(f'monitor: request #{i} [{k}] {t}' + (f'  (cause: {c})' if c else ''))
    if mode == 'st':
        print('model:', lib.run_model(exe, [case])[0] if exe else 'model does not build')
        h = dec(case)
        its = items_of(h, out)
        for i, k, t, c in (monitor(h, its) if its else []):
            print(f'monitor: request #{i} [{k}] {t}' + (f'  (cause: {c})' if c else ''))
    return 0
