"""C13 -- generated SQL is well-scoped, parameter-consistent and deterministic.

Proof : coq/theories/C13 -- a VERIFIED VALIDATOR: abstract SQL, PostgreSQL's name-resolution rules as
        the declarative relation `Scoped`, the checker `well_scoped`, and the theorems that the
        checker decides the relation (sound + complete) and that `params_ok` is exactly
        "indexes distinct, 1..k, = the $n of the statement".
Tie   : translation validation -- the REAL compiler (edb.edgeql.compiler + edb.pgsql.compiler +
        edb.pgsql.codegen, and the server compiler for a slice) runs on generated statements; the
        abstraction of every emitted statement is checked by the EXTRACTED checker; the abstraction
        is tied to the emitted text by a token skeleton; an independent Python reading of the rules
        (`RefChecker`) is compared with the extracted checker on the real terms and on mutated terms.
Tests : determinism -- every statement is compiled twice in one process and again in processes with
        different PYTHONHASHSEED against the same pickled schema; SQL text, argument map and (server
        mode) descriptors are byte-compared.
"""
from __future__ import annotations

import collections
import hashlib
import json
import os
import re
import sys
import time

import lib

sys.path.insert(0, os.path.join(lib.VERIF, 'harness', 'impl'))
sys.path.insert(0, os.path.join(lib.VERIF, 'harness', 'props'))
import c13_impl as I          # noqa: E402   (pure parts only: terms, reference checker, tokenizer)
import c13_gen as G           # noqa: E402

PROP = 'C13'
THEOREMS = ['C13_checker_sound', 'C13_checker_complete', 'C13_checker_decides',
            'C13_output_columns_unique', 'C13_resolved_in_scope', 'C13_params']
IMPL = os.path.join(lib.VERIF, 'harness', 'impl', 'c13_impl.py')
CORPUS = os.path.join(lib.VERIF, 'corpus', 'C13')
CACHE = os.path.join(lib.CACHE, 'c13')
UPSTREAM_SCHEMAS = ['issues.esdl', 'cards.esdl', 'insert.esdl', 'updates.esdl', 'volatility.esdl']
NPROC = 8
# VERIF_C13_SCALE scales the number of generated cases (used when self-testing against scratch trees)
try:
    SCALE = float(os.environ.get('VERIF_C13_SCALE', '1'))
except ValueError:
    SCALE = 1.0

CODES = {1: 'missing-from-entry', 2: 'invalid-reference', 3: 'ambiguous-table', 4: 'no-such-column',
         5: 'ambiguous-column', 6: 'cte-not-in-scope', 7: 'table-shadowed-by-cte', 8: 'dml-target-is-cte',
         9: 'duplicate-alias', 10: 'duplicate-cte', 11: 'recursive-cte-unsupported', 12: 'star-without-from',
         13: 'ambiguous-order-by', 14: 'ambiguous-group-by', 15: 'setop-arity', 16: 'setop-order-by-expression',
         17: 'setop-order-by-unknown', 18: 'dml-not-at-top-level', 19: 'insert-unknown-column', 20: 'insert-arity',
         21: 'update-unknown-column', 22: 'too-many-column-aliases', 23: 'lock-unknown-rel'}

# known findings this check can recognise (ids looked up in /verif/known_findings.json)
KF_RAND = 'C13-nondet-check-scan-random'
KF_SETORDER = 'C13-nondet-set-iteration-order'
KF_PRESENT = 'C13-unused-global-present-flag'
KF_HASHSEED = 'C13-nondet-hash-seed-order'


# ---------------------------------------------------------------- schemas / spec

def make_spec():
    schemas = {'g1': {'sdl': open(os.path.join(CORPUS, 'g1.esdl'), encoding='utf-8').read(), 'modname': 'default'},
               'g2': {'sdl': open(os.path.join(CORPUS, 'g2.esdl'), encoding='utf-8').read(), 'modname': 'default'}}
    sdir = os.path.join(lib.REPO, 'tests', 'schemas')
    for fn in UPSTREAM_SCHEMAS:
        p = os.path.join(sdir, fn)
        if os.path.exists(p):
            schemas[fn[:-5]] = {'sdl': open(p, encoding='utf-8').read(), 'modname': 'default'}
    # the cache directory is per repo tree (pickles embed type ids; a scratch tree gets its own)
    tag = hashlib.sha256(os.path.realpath(lib.REPO).encode()).hexdigest()[:10]
    spec = {'schemas': schemas, 'cache': os.path.join(CACHE, tag), 'server': True}
    os.makedirs(spec['cache'], exist_ok=True)
    path = os.path.join(spec['cache'], f'spec-{os.getpid()}.json')
    with open(path, 'w') as f:
        json.dump(spec, f)
    return spec, path


def build_schemas(specpath):
    """build (or find) the schema pickles in ONE normal-mode process and pin their paths in the spec file"""
    with lib.Lock('c13_schemas'):
        rc, out, err = lib.impl_python(IMPL, [lib.REPO, '--build-schemas', specpath], timeout=3000,
                                       extra_env={'VRT_REPO': lib.REPO, 'VERIF_REPO': lib.REPO, 'C13_DET': '0'})
    ok = rc == 0 and out.strip().endswith('ok')
    if ok:
        try:
            paths = json.loads(out.strip().split('\n')[-2])
            spec = json.load(open(specpath))
            for sid, pth in paths.items():
                spec['schemas'][sid]['pickle'] = pth
            with open(specpath, 'w') as f:
                json.dump(spec, f)
        except (ValueError, IndexError, KeyError) as e:
            return False, f'cannot read the pickle paths: {e}\n' + out[-2000:]
    return ok, (out + err)[-3000:]


# ---------------------------------------------------------------- cases

def enc_case(sid, mode, text):
    return f'Q {sid} {mode} {text.encode("utf-8").hex()}'


def dec_case(line):
    p = line.split(' ')
    return p[1], p[2], bytes.fromhex(p[3]).decode('utf-8')


def corpus_entries():
    out = []
    if os.path.isdir(CORPUS):
        for f in sorted(os.listdir(CORPUS)):
            if f.endswith('.json'):
                try:
                    d = json.load(open(os.path.join(CORPUS, f)))
                    out.append((d['case'], bool(d.get('expect_hashseed_stable'))))
                except (ValueError, KeyError):
                    pass
    return out


def corpus_cases():
    return [c for c, _ in corpus_entries()]


def gen_cases(tier, spec):
    """-> list of dict(line, origin, feats)"""
    rnd = lib.rng('C13')
    thorough = tier == 'thorough'
    cases = []
    for c, stable in corpus_entries():
        cases.append({'line': c, 'origin': 'corpus', 'feats': [], 'expect_stable': stable})
    # generated statements over the harness schema
    n_gen = int((1000 if thorough else 220) * SCALE)
    for i in range(n_gen):
        txt, feats, npar = G.gen_statement(rnd)
        mode = 'n' if i % 3 else 'j'
        cases.append({'line': enc_case('g1', mode, txt), 'origin': 'generated', 'feats': feats})
    # server-compiler slice (constant extraction -> extra parameters, QueryUnit descriptors)
    n_srv = int((200 if thorough else 40) * SCALE)
    for i in range(n_srv):
        txt, feats, npar = G.gen_statement(rnd, maxdepth=rnd.choice([2, 3, 3, 4]))
        cases.append({'line': enc_case('g1', 's', txt), 'origin': 'generated-server', 'feats': feats})
    # malformed / edge stream
    n_bad = int((80 if thorough else 24) * SCALE)
    for i in range(n_bad):
        txt, feats, npar = G.gen_statement(rnd, malformed=True)
        cases.append({'line': enc_case('g1', 'n', txt), 'origin': 'malformed', 'feats': feats})
    # upstream seeds: as they are, and recombined
    have = {k + '.esdl' for k in spec['schemas'] if k not in ('g1', 'g2')}
    seeds = G.upstream_seeds(lib.REPO, have) if have else []
    rnd.shuffle(seeds)
    n_seed = int((800 if thorough else 130) * SCALE)
    n_rec = int((500 if thorough else 90) * SCALE)
    for s in seeds[:n_seed]:
        cases.append({'line': enc_case(s[0][:-5], rnd.choice('nnj'), s[3]), 'origin': 'upstream-seed',
                      'feats': ['seed:' + s[1]]})
    for s in seeds[n_seed:n_seed + n_rec]:
        txt, what = G.recombine(rnd, s[3])
        cases.append({'line': enc_case(s[0][:-5], rnd.choice('nnj'), txt), 'origin': 'upstream-recombined',
                      'feats': ['recombine:' + what]})
    # group by schema so that a worker loads few schemas
    order = sorted(range(len(cases)), key=lambda i: (cases[i]['line'].split(' ')[1], i))
    return [cases[i] for i in order], len(seeds)


def par_lines(argv, lines, nproc, env, timeout=14400):
    """like lib.parallel_lines, but also splits small batches (each worker pays ~2 s of start-up)"""
    import subprocess
    from concurrent.futures import ThreadPoolExecutor
    if not lines:
        return []
    nproc = max(1, min(nproc, (len(lines) + 5) // 6))
    size = (len(lines) + nproc - 1) // nproc
    chunks = [lines[i:i + size] for i in range(0, len(lines), size)]

    def one(chunk):
        p = subprocess.run(argv, input='\n'.join(chunk) + '\n', env=env, stdout=subprocess.PIPE,
                           stderr=subprocess.PIPE, text=True, timeout=timeout)
        out = p.stdout.split('\n')
        if out and out[-1] == '':
            out.pop()
        if p.returncode != 0 or len(out) != len(chunk):
            raise RuntimeError(f'{argv}: rc={p.returncode}, {len(out)} results for {len(chunk)} cases\n{p.stderr[-3000:]}')
        return out
    with ThreadPoolExecutor(len(chunks)) as ex:
        res = list(ex.map(one, chunks))
    return [x for r in res for x in r]


_NOASLR = None


def noaslr_prefix():
    """mode D also switches address-space randomisation off (class objects hash by address, and
    irast.PathId.__hash__ hashes its class), when setarch is available"""
    global _NOASLR
    if _NOASLR is None:
        import shutil
        import subprocess
        _NOASLR = []
        exe = shutil.which('setarch')
        if exe:
            try:
                if subprocess.run([exe, '-R', 'true'], capture_output=True, timeout=20).returncode == 0:
                    _NOASLR = [exe, '-R']
            except (OSError, subprocess.SubprocessError):
                pass
    return _NOASLR


def run_many(jobs, specpath):
    """jobs: {key: (lines, hashseed, det)} run concurrently, sharing the NPROC worker budget"""
    from concurrent.futures import ThreadPoolExecutor
    jobs = {k: v for k, v in jobs.items() if v[0]}
    if not jobs:
        return {}
    total = sum(len(v[0]) for v in jobs.values())
    share = {k: max(1, round(NPROC * len(v[0]) / total)) for k, v in jobs.items()}
    with ThreadPoolExecutor(len(jobs)) as ex:
        futs = {k: ex.submit(run_impl, v[0], specpath, v[1], share[k], v[2]) for k, v in jobs.items()}
        return {k: f.result() for k, f in futs.items()}


def run_impl(lines, specpath, hashseed='0', nproc=NPROC, det=0):
    """det: 0 = the interpreter as it is; 1 = mode D in-process (three compilations, the last two compared);
    2 = mode D with every compilation in its own fork (history-free)"""
    env = lib.impl_env(hashseed)
    env['C13_DET'] = str(int(det))
    env.setdefault('C13_CASE_TIMEOUT', '300' if det == 2 else '120')
    argv = [lib.PY, IMPL, lib.REPO, specpath]
    if det:
        argv = noaslr_prefix() + argv
    res = par_lines(argv, lines, nproc, env)
    return [json.loads(x) for x in res]


# ---------------------------------------------------------------- determinism: classification of differences

_RAND_RE = re.compile(r'(_dml_dummy SET flag = TRUE WHERE \(id = \(*)\d+')


def mask_rand(sql):
    """the constant drawn by edb/pgsql/compiler/clauses.py::scan_check_ctes (random.randint)"""
    return _RAND_RE.sub(r'\1<R>', sql or '')


def canon_and(text):
    """the SQL text with the conjuncts of every AND chain sorted (nested chains flattened)"""
    toks = []
    for k, v, q in I.sql_tokens(text):
        toks.append('"' + v + '"' if (k == 'id' and q) else v)
    n = len(toks)

    class AndGroup(list):
        pass

    def parse(i):
        items = []
        while i < n:
            t = toks[i]
            if t == '(':
                sub, i = parse(i + 1)
                items.append(sub)
            elif t == ')':
                return items, i + 1
            else:
                items.append(t)
                i += 1
        return items, i

    def canon(node):
        parts = [canon(x) if isinstance(x, list) and not isinstance(x, AndGroup) else x for x in node]
        if 'AND' in [p for p in parts if isinstance(p, str)]:
            conj, cur = [], []
            for p in parts + ['AND']:
                if isinstance(p, str) and p == 'AND':
                    if len(cur) == 1 and isinstance(cur[0], AndGroup):
                        conj += list(cur[0])
                    else:
                        conj.append(' '.join(render(c) for c in cur))
                    cur = []
                else:
                    cur.append(p)
            return AndGroup(sorted(conj))
        return parts

    def render(x):
        if isinstance(x, AndGroup):
            return '(' + ' AND '.join(x) + ')'
        if isinstance(x, list):
            return '(' + ' '.join(render(y) for y in x) + ')'
        return x
    tree, _ = parse(0)
    c = canon(tree)
    return render(c) if isinstance(c, AndGroup) else ' '.join(render(y) for y in c)


def obs_key(r, masked=True):
    """what is byte-compared between two compilations: SQL text, argument map, descriptors"""
    sql = r.get('sql') or ''
    return (mask_rand(sql) if masked else sql, json.dumps(r.get('argmap')), json.dumps(r.get('desc')))


def obs_key2(r, masked=True):
    """the second compilation in the same process (only present when it differed)"""
    if 'sql2' not in r and 'argmap2' not in r:
        return obs_key(r, masked)
    sql = r.get('sql2', r.get('sql')) or ''
    return (mask_rand(sql) if masked else sql, json.dumps(r.get('argmap2', r.get('argmap'))),
            json.dumps(r.get('desc')) if not r.get('desc_differs') else 'differs')


# ---------------------------------------------------------------- Coq literal of a term

def coq_term(t):
    def names(l):
        return '[' + '; '.join(str(x) for x in l) + ']'

    def colset(c):
        return 'Open' if c == '*' else f'(Cols {names(c)})'

    def rel(r):
        if r[0] == 'tab':
            return f'(RTab {"true" if r[1] else "false"} {r[2]} {colset(r[3])})'
        return f'(RCte {r[1]})'

    def atoms(l):
        s = 'ANil'
        for a in reversed(l):
            s = f'(ACons {atom(a)} {s})'
        return s

    def atom(a):
        if a[0] == 'c':
            return f'(ACol {a[1]} {a[2]})'
        if a[0] == 'sr':
            return f'(AStarRef {a[1]})'
        if a[0] == 'p':
            return f'(AParam {a[1]})'
        return f'(ASub {q(a[1])})'

    def targets(l):
        s = 'TNil'
        for x in reversed(l):
            s = f'(TCons {"(TExpr %s %s)" % (x[1], atoms(x[2])) if x[0] == "t" else "(TStar %s)" % x[1]} {s})'
        return s

    def sitems(l):
        s = 'SNil'
        for x in reversed(l):
            s = f'(SCons {"(SBare %s)" % x[1] if x[0] == "b" else "(SExpr %s)" % atoms(x[1])} {s})'
        return s

    def fitem(f):
        if f[0] == 'rel':
            return f'(FRel {rel(f[1])} {f[2]} {names(f[3])})'
        if f[0] == 'sub':
            return f'(FSub {"true" if f[1] else "false"} {q(f[2])} {f[3]} {names(f[4])})'
        if f[0] == 'fn':
            return f'(FFunc {atoms(f[1])} {f[2]} {colset(f[3])})'
        jt = {'i': 'JInner', 'l': 'JLeft', 'c': 'JCross', 'r': 'JRight', 'f': 'JFull'}[f[1]]
        return f'(FJoin {jt} {fitem(f[2])} {fitem(f[3])} {atoms([] if f[4] == "-" else f[4])})'

    def fitems(l):
        s = 'FNil'
        for x in reversed(l):
            s = f'(FCons {fitem(x)} {s})'
        return s

    def withc(w):
        if w == '-':
            return 'WNone'
        s = 'CNil'
        for c in reversed(w[2:]):
            s = f'(CCons {c[1]} {names(c[2])} {q(c[3])} {s})'
        return f'(WSome {"true" if w[1] else "false"} {s})'

    def q(t):
        h = t[0]
        if h == 'sel':
            return (f'(QSelect {withc(t[1])} {targets(t[2])} {fitems(t[3])} {atoms(t[4])} {sitems(t[5])} '
                    f'{sitems(t[6])} {atoms(t[7])} {names(t[8])})')
        if h == 'val':
            return f'(QValues {withc(t[1])} {names(t[2])} {atoms(t[3])})'
        if h == 'set':
            return f'(QSetOp {withc(t[1])} {q(t[2])} {q(t[3])} {sitems(t[4])} {atoms(t[5])})'
        if h == 'ins':
            src = 'SrcDefault' if t[5] == '-' else f'(SrcQuery {q(t[5])})'
            cf = t[6]
            cfs = 'CfNone' if cf == '-' else (f'(CfNothing {atoms(cf[1])})' if cf[0] == 'cn'
                                              else f'(CfUpdate {atoms(cf[1])} {names(cf[2])} {atoms(cf[3])})')
            return f'(QInsert {withc(t[1])} {rel(t[2])} {t[3]} {names(t[4])} {src} {cfs} {targets(t[7])})'
        if h == 'upd':
            return (f'(QUpdate {withc(t[1])} {rel(t[2])} {t[3]} {names(t[4])} {atoms(t[5])} {fitems(t[6])} '
                    f'{atoms(t[7])} {targets(t[8])})')
        return f'(QDelete {withc(t[1])} {rel(t[2])} {t[3]} {fitems(t[4])} {atoms(t[5])} {targets(t[6])})'
    return q(t)


def coq_result_to_line(s):
    s = s.replace('%N', '').replace('%nat', '')
    m = re.match(r'\(\s*(.*)\s*,\s*(true|false)\s*\)\s*$', s)
    if not m:
        return 'UNPARSED ' + s
    body, p = m.group(1).strip(), m.group(2)
    if body.startswith('Ok'):
        rest = body[2:].strip()
        if rest == 'Open':
            r = 'OK *'
        else:
            nums = re.findall(r'\d+', rest)
            r = 'OK ' + (','.join(nums) if nums else '-')
    else:
        nums = re.findall(r'\d+', body)
        r = 'ERR ' + ' '.join(nums[:3])
    return r + (' P1' if p == 'true' else ' P0')


# ---------------------------------------------------------------- helpers

def model_line(res):
    rows = res.get('argmap') or []
    am = ','.join(f'{r[1]}.{1 if r[5] else 0}' for r in rows) or '-'
    return am + ' ' + res['term']


def pyref_line(term, rows):
    r = I.pyref(term)
    if r[0] == 'OK':
        return 'OK'
    inv = {v: k for k, v in CODES.items()}
    return f'ERR {inv[r[1]]} {r[2]} {r[3]}'


def py_params_ok(term, rows):
    idx = [r[1] for r in rows if not r[5]]
    used = set(I.term_params(term))
    return (len(set(idx)) == len(idx) and sorted(idx) == list(range(1, len(idx) + 1))
            and used == set(idx))


def nontrivial(res):
    f = res.get('feat') or {}
    return (f.get('maxdepth', 0) >= 3 and (f.get('lateral', 0) + f.get('ctes', 0)) >= 1
            and res.get('resolved', 0) >= 3)


def kf_ids():
    return {e.get('id') for e in lib.known_findings(PROP)}


def how(line):
    sid, mode, text = dec_case(line)
    return (f'echo {line!r} | VERIF_REPO=<repo> PYTHONPATH=<repo>:/verif/harness /venv/bin/python '
            f'harness/impl/c13_impl.py <repo> <spec.json>   (schema {sid}, mode {mode}); '
            f'or ./harness/check C13 --replay <this file>')


# ---------------------------------------------------------------- run

def run(tier):
    rep = lib.Report(PROP, tier, 'translation_validation')
    thorough = tier == 'thorough'
    t_start = time.time()
    pf = lib.proof_stage(rep, 'C13', THEOREMS, thorough=thorough)
    exe, blog = lib.build_model('c13', 'ExtractC13.v', 'c13_main.ml', 'C13_ext')

    spec, specpath = make_spec()
    ok, slog = build_schemas(specpath)
    if not ok:
        rep.violation('the schemas of the check could not be built with the real SDL machinery: ' + slog[-600:],
                      {'broken': 'substrate / schema load', 'log': slog}, False)
        rep.coverage.update({'evaluations': 0, 'distinct_nontrivial': 0, 'programs': 0,
                             'disagreements_checked': 0, 'samples': ['none']})
        return rep.finish()

    cases, n_seeds = gen_cases(tier, spec)
    lines = [c['line'] for c in cases]
    t0 = time.time()
    impl = run_impl(lines, specpath)
    t_impl = time.time() - t0
    known = kf_ids()

    # ---- the extracted validator on every emitted statement
    idx_ok = [i for i, r in enumerate(impl) if r.get('st') == 'ok' and 'term' in r]
    mlines = [model_line(impl[i]) for i in idx_ok]
    model = lib.run_model(exe, mlines) if exe and mlines else None
    model_by = dict(zip(idx_ok, model)) if model is not None else {}

    viol = []          # (priority, what, payload, found)
    kf = []            # (id, what)
    kf_examples = collections.defaultdict(list)
    counts = collections.Counter()
    for r in impl:
        counts['st:' + str(r.get('st'))] += 1

    def payload(i, extra):
        sid, mode, text = dec_case(lines[i])
        p = {'case': lines[i], 'schema': sid, 'mode': mode, 'edgeql': text, 'origin': cases[i]['origin'],
             'how': how(lines[i])}
        p.update(extra)
        return p

    scope_fail, params_fail, skel_fail, tie_fail, unsup = [], [], [], [], []
    for i, r in enumerate(impl):
        st = r.get('st')
        if st == 'unsup':
            unsup.append(i)
            continue
        if st != 'ok':
            continue
        mons = r.get('mon', [])
        m = model_by.get(i)
        if m is not None and 'term' in r:
            term = I.sx_parse(r['term'])
            mv = m.split(' ')
            m_scope_ok = mv[0] == 'OK'
            p_scope_ok = r.get('pyref', ['OK'])[0] == 'OK'
            if not m_scope_ok or not p_scope_ok:
                scope_fail.append(i)
            if m_scope_ok != p_scope_ok or (not m_scope_ok and pyref_line(term, r['argmap']) != ' '.join(mv[:-1])):
                tie_fail.append((i, 'scope verdict of the extracted checker and of the Python reference differ',
                                 {'model': m, 'pyref': r.get('pyref')}))
            if mv[0] == 'BAD':
                tie_fail.append((i, 'the OCaml driver cannot read the term', {'model': m}))
            m_par = mv[-1] == 'P1'
            if m_par != py_params_ok(term, r['argmap']):
                tie_fail.append((i, 'params_ok of the extracted model and its Python transcription differ',
                                 {'model': m}))
            if m_par != ('params-text' not in mons):
                tie_fail.append((i, 'params_ok on the tree and the $n scan of the SQL text differ',
                                 {'model': m, 'params_text': r.get('params_text')}))
        if 'text-skeleton' in mons:
            skel_fail.append(i)
        if 'params-text' in mons or 'params-unit' in mons or 'params-logical' in mons:
            params_fail.append(i)

    # scoping violations
    for i in sorted(scope_fail, key=lambda i: len(lines[i]))[:3]:
        r = impl[i]
        names = r.get('names') or []
        m = model_by.get(i, '')
        mv = m.split(' ')
        desc = m
        if mv[0] == 'ERR':
            a, b = int(mv[2]), int(mv[3])
            desc = f'{CODES.get(int(mv[1]), mv[1])} {names[a] if 0 < a < len(names) else ""!r} ' \
                   f'{names[b] if 0 < b < len(names) else ""!r}'
        viol.append((0, f'emitted SQL is not well-scoped under PostgreSQL\'s rules: {desc}',
                     payload(i, {'checker': m, 'pyref': r.get('pyref'), 'monitors': r.get('mon'),
                                 'sql': r.get('sql', '')[:6000], 'term': r.get('term', '')[:6000]}), True))
    # parameter violations / known finding
    for i in sorted(params_fail, key=lambda i: len(lines[i])):
        r = impl[i]
        pt = r.get('params_text') or {}
        pu = r.get('params_unit') or {}
        missing_t = set(pt.get('argmap', [])) - set(pt.get('used', [])) if pt else set()
        extra_t = set(pt.get('used', [])) - set(pt.get('argmap', [])) if pt else set()
        expl_t = (not pt) or (missing_t and not extra_t and missing_t <= set(pt.get('present_flags', []))
                              and pt.get('argmap') == list(range(1, len(pt.get('argmap', [])) + 1)))
        expl_u = True
        if pu:
            want = set(range(1, pu.get('bind_count', 0) + 1))
            miss = want - set(pu.get('used', []))
            expl_u = bool(miss) and set(pu.get('used', [])) <= want and miss <= set(pu.get('present_flags', []))
        if expl_t and expl_u and 'params-logical' not in r.get('mon', []):
            what = ('the argument map reports a "present" flag parameter of a global with a default that does '
                    'not occur as $n in the statement (its value is never computed): '
                    + dec_case(lines[i])[2][:160])
            if KF_PRESENT in known:
                kf.append((KF_PRESENT, what))
                continue
            viol.append((1, 'parameters of the statement disagree with the reported argument map: ' + what,
                         payload(i, {'params_text': pt, 'params_unit': pu, 'argmap': r.get('argmap'),
                                     'sql': r.get('sql', '')[:3000], 'proposed_known_finding': KF_PRESENT}), True))
        else:
            viol.append((0, 'parameters of the statement disagree with the reported argument map',
                         payload(i, {'params_text': pt, 'params_unit': pu, 'argmap': r.get('argmap'),
                                     'monitors': r.get('mon'), 'sql': r.get('sql', '')[:3000]}), True))
    for i in sorted(skel_fail, key=lambda i: len(lines[i]))[:2]:
        viol.append((2, 'the emitted SQL text does not have the structure of the tree it was printed from '
                        '(sub-select parentheses / LATERAL / column references / aliases / $n differ)',
                     payload(i, {'skeleton_diff': impl[i].get('skdiff'), 'sql': impl[i].get('sql', '')[:3000]}), True))

    # ---- determinism
    # (1) the interpreter as it is: every statement was compiled twice in one process (above).
    # (2) "mode D" = object-identity hashes are first-use counters, fresh UUIDs count up, no address-space
    #     randomisation (c13_impl.det_install + setarch -R).  A statement that differed in (1) by more than the
    #     check_scan constant and is reproducible in mode D is attributed to the known finding "set iteration
    #     order over identity-hashed / randomly-identified objects"; if it still differs it is unexplained.
    # (3) hash seeds: a sample is compiled in mode D under PYTHONHASHSEED 0 and other seeds (same pickled
    #     schema, same line list).  A difference that the history-free variant of mode D (one fork per
    #     compilation) confirms -- equal within a seed, different across seeds -- is the known finding "depends on
    #     the hash seed"; anything else is unexplained.
    # The cheap in-process variant (det=1) decides the common case; every negative verdict is re-examined with the
    # fork variant (det=2) before it is reported.
    nondet_in = [i for i, r in enumerate(impl) if 'nondet-inprocess' in (r.get('mon') or [])]
    nd_classes = collections.Counter()
    rand_only = [i for i in nondet_in if obs_key(impl[i]) == obs_key2(impl[i])]
    need_d = [i for i in nondet_in if i not in set(rand_only)]
    seeds_probe = ('12345', '7') if thorough else ('12345',)
    cand = [i for i, r in enumerate(impl) if r.get('st') == 'ok']
    rnd = lib.rng('C13probe')
    nprobe = min(len(cand), int((250 if thorough else 70) * SCALE))
    forced = [i for i in cand if cases[i]['origin'] == 'corpus']
    rest = [i for i in cand if cases[i]['origin'] != 'corpus']
    probe = sorted(set(forced) | set(rnd.sample(rest, min(len(rest), max(0, nprobe - len(forced))))))
    expect_stable = {i for i in forced if cases[i].get('expect_stable')}
    need_sorted = sorted(need_d)
    t0 = time.time()
    # attribution of the in-process differences: seed 0 only; hash-seed probe: the SAME line list (hence the same
    # worker histories, the chunking depends on the list only) under every seed
    jobs = {'need': ([lines[i] for i in need_sorted], '0', 1)}
    for hs in ('0',) + seeds_probe:
        jobs['p' + hs] = ([lines[i] for i in probe], hs, 1)
    share_probe = max(1, NPROC // (len(seeds_probe) + 2))
    res = {}
    if need_sorted:
        res['need'] = None
    from concurrent.futures import ThreadPoolExecutor
    with ThreadPoolExecutor(len(jobs)) as ex:
        futs = {k: ex.submit(run_impl, v[0], specpath, v[1], share_probe, v[2]) for k, v in jobs.items() if v[0]}
        res = {k: f.result() for k, f in futs.items()}
    dn = dict(zip(need_sorted, res.get('need', [])))
    d_runs = {hs: dict(zip(probe, res.get('p' + hs, []))) for hs in ('0',) + seeds_probe}
    d0 = dict(d_runs['0'])
    d0.update(dn)
    d_idx = sorted(set(need_d) | set(probe))

    def nd_violation(i, where, a, b, extra, pr=0):
        viol.append((pr, f'not deterministic ({where}): two compilations of the same statement differ',
                     payload(i, dict(extra, first_difference=(I.first_diff(a[0], b[0]) if a[0] != b[0]
                                                               else 'SQL text equal; argument map / descriptors differ'))),
                     True))

    # what the in-process variant cannot settle
    unsettled = set()
    for i in d_idx:
        d = d0.get(i) or {}
        if d.get('st') != 'ok' or obs_key(d) != obs_key2(d):
            unsettled.add(i)
    cross = {hs: [i for i in probe if (d_runs[hs].get(i) or {}).get('st') != 'ok'
                  or (d_runs['0'].get(i) or {}).get('st') != 'ok'
                  or obs_key(d_runs[hs][i]) != obs_key(d_runs['0'][i])] for hs in seeds_probe}
    for hs in seeds_probe:
        unsettled.update(cross[hs])
    f_idx = sorted(unsettled)
    fjobs = {}
    fsubs = {}
    for hs in ('0',) + seeds_probe:
        sub = [i for i in f_idx if hs == '0' or i in set(cross[hs]) or i in set(need_d)]
        fsubs[hs] = sub
        fjobs[hs] = ([lines[i] for i in sub], hs, 2)
    fres = run_many(fjobs, specpath)
    f_runs = {hs: dict(zip(fsubs[hs], fres.get(hs, []))) for hs in ('0',) + seeds_probe}
    t_probe = time.time() - t0

    def settled(i):
        """(reproducible in mode D?, result used for reporting) for seed 0"""
        d = d0.get(i) or {}
        if d.get('st') == 'ok' and obs_key(d) == obs_key2(d):
            return True, d
        f = f_runs['0'].get(i) or {}
        if f.get('st') == 'ok' and obs_key(f) == obs_key2(f):
            return True, f
        return False, (f if f else d)

    for i in rand_only:
        nd_classes['same process:' + KF_RAND] += 1
        if KF_RAND in known:
            kf.append((KF_RAND, 'two compilations of the same statement differ only by the constant that '
                                'scan_check_ctes draws with random.randint'))
            kf_examples[KF_RAND].append(dec_case(lines[i])[2][:200])
        else:
            nd_violation(i, 'same process; only the random constant of the check_scan CTE differs',
                         obs_key(impl[i], False), obs_key2(impl[i], False),
                         {'classes': [KF_RAND], 'proposed_known_finding': [KF_RAND]}, pr=3)
    for i in sorted(need_d, key=lambda i: len(lines[i])):
        r = impl[i]
        ok_d, d = settled(i)
        if ok_d:
            why = [KF_SETORDER] + ([KF_RAND] if obs_key(d, False) != obs_key2(d, False)
                                   or mask_rand(r.get('sql')) != (r.get('sql') or '') else [])
            for w in why:
                nd_classes['same process:' + w] += 1
            if all(w in known for w in why):
                kf.append((KF_SETORDER, 'two compilations of the same statement differ (alias counters, order of join '
                                        'conditions / columns / CTEs, choice among equivalent column sources); '
                                        'reproducible once object-identity hashes and fresh UUIDs are made '
                                        'deterministic'))
                kf_examples[KF_SETORDER].append(dec_case(lines[i])[2][:200])
                if KF_RAND in why:
                    kf.append((KF_RAND, 'two compilations of the same statement differ only by the constant that '
                                        'scan_check_ctes draws with random.randint'))
            else:
                nd_violation(i, 'same process; reproducible in mode D = deterministic identity hashes and UUIDs',
                             obs_key(r, False), obs_key2(r, False),
                             {'classes': why, 'proposed_known_finding': [w for w in why if w not in known]}, pr=3)
        else:
            nd_classes['same process:unexplained'] += 1
            if d.get('st') != 'ok':
                nd_violation(i, f'same process; and the statement is {d.get("st")} in mode D', obs_key(r, False),
                             obs_key2(r, False), {'mode_D': {k: d.get(k) for k in ('st', 'err')}})
            else:
                nd_violation(i, 'same process; persists with deterministic identity hashes and UUIDs (one fork per '
                                'compilation)', obs_key(d, False), obs_key2(d, False), {'mode': 'D'})
    # mode D must itself be reproducible on the probe, else the attribution above means nothing
    for i in probe:
        if i in set(need_d):
            continue
        ok_d, d = settled(i)
        if not ok_d and d.get('st') == 'ok':
            nd_classes['mode D:unexplained'] += 1
            nd_violation(i, 'mode D, one fork per compilation', obs_key(d, False), obs_key2(d, False), {'mode': 'D'})

    cross_diff = 0
    for hs in seeds_probe:
        for i in cross[hs]:
            f0, fh = f_runs['0'].get(i) or {}, f_runs[hs].get(i) or {}
            if f0.get('st') != fh.get('st') and 'timeout' not in (f0.get('st'), fh.get('st')):
                cross_diff += 1
                viol.append((0, f'not deterministic: {f0.get("st")} with PYTHONHASHSEED=0, {fh.get("st")} with {hs}',
                             payload(i, {'seed0': {k: f0.get(k) for k in ("st", "err")},
                                         'other': {k: fh.get(k) for k in ("st", "err")}}), True))
                continue
            if f0.get('st') != 'ok' or fh.get('st') != 'ok':
                continue
            if obs_key(f0) == obs_key(fh):
                continue            # an artefact of the in-process variant's history: not a difference
            cross_diff += 1
            if i in expect_stable:
                # recorded in the corpus as independent of the hash seed on the pinned tree: the known finding
                # (pervasive dependence through PathId / PathAspect keyed sets) does not excuse a regression here
                nd_classes[f'hashseed 0 vs {hs}:regression of a statement recorded as stable'] += 1
                nd_violation(i, f'PYTHONHASHSEED 0 vs {hs}: the corpus records this statement as independent of the hash '
                                'seed', obs_key(f0, False), obs_key(fh, False), {'mode': 'D', 'corpus': True})
            elif obs_key(f0) == obs_key2(f0) and obs_key(fh) == obs_key2(fh):
                nd_classes[f'hashseed 0 vs {hs}:' + KF_HASHSEED] += 1
                if KF_HASHSEED in known:
                    kf.append((KF_HASHSEED, 'the emitted SQL depends on PYTHONHASHSEED (iteration over sets whose element '
                                            'hashes derive from str hashes, e.g. PathId)'))
                    kf_examples[KF_HASHSEED].append(dec_case(lines[i])[2][:200])
                else:
                    nd_violation(i, f'PYTHONHASHSEED 0 vs {hs}; identity hashes, UUIDs and addresses fixed in both; '
                                    'reproducible within each seed', obs_key(f0, False), obs_key(fh, False),
                                 {'mode': 'D', 'classes': [KF_HASHSEED], 'proposed_known_finding': [KF_HASHSEED]}, pr=3)
            else:
                nd_classes[f'hashseed 0 vs {hs}:unexplained'] += 1
                nd_violation(i, f'PYTHONHASHSEED 0 vs {hs}, and not reproducible within one seed either',
                             obs_key(f0, False), obs_key(fh, False), {'mode': 'D'})

    # ---- the validator against the Python reference on mutated terms (malformed stream)
    rndm = lib.rng('C13mut')
    mut_cases = []
    pool = [i for i in idx_ok]
    rndm.shuffle(pool)
    per = 3 if not thorough else 6
    for i in pool[: (len(pool) if thorough else 300)]:
        term = I.sx_parse(impl[i]['term'])
        rows = impl[i].get('argmap') or []
        for k in rndm.sample(G.MUTATIONS, per):
            m = G.mutate_term(term, k, rndm)
            if m is not None:
                mut_cases.append((i, k, m, rows))
    mut_model = lib.run_model(exe, [(','.join(f'{r[1]}.{1 if r[5] else 0}' for r in rows) or '-') + ' ' + I.sx_str(m)
                                    for _, _, m, rows in mut_cases]) if exe and mut_cases else []
    mut_dis = []
    mut_stats = collections.defaultdict(collections.Counter)
    for (i, k, m, rows), o in zip(mut_cases, mut_model):
        want = pyref_line(m, rows) + (' P1' if py_params_ok(m, rows) else ' P0')
        got = o if not o.startswith('OK') else 'OK ' + o.split(' ')[-1]
        mut_stats[k]['rejected' if not want.startswith('OK') or want.endswith('P0') else 'accepted'] += 1
        if got != want:
            mut_dis.append((i, k, m, o, want))
    if mut_dis:
        i, k, m, o, want = mut_dis[0]
        tie_fail.append((i, f'extracted checker and Python reference disagree on a mutated term ({k})',
                         {'term': I.sx_str(m)[:4000], 'model': o, 'pyref': want}))

    # ---- Coq-internal evaluation of a sample (guards extraction)
    coq_diff = []
    n_coq = 0
    if model is not None:
        rc = lib.rng('C13coq')
        small = [j for j, i in enumerate(idx_ok) if len(mlines[j]) < 9000]
        pick = sorted(rc.sample(small, min(len(small), 60 if thorough else 24)))
        exprs, want = [], []
        for j in pick:
            r = impl[idx_ok[j]]
            am = '[' + '; '.join(f'({x[1]}, {"true" if x[5] else "false"})' for x in (r.get('argmap') or [])) + ']'
            ct = coq_term(I.sx_parse(r['term']))
            exprs.append(f'let q := {ct} in (check q, params_ok {am} q)')
            want.append(model[j])
        mpick = list(range(0, len(mut_cases), max(1, len(mut_cases) // (40 if thorough else 16))))[:60]
        for j in mpick:
            i, k, m, rows = mut_cases[j]
            am = '[' + '; '.join(f'({x[1]}, {"true" if x[5] else "false"})' for x in rows) + ']'
            if len(I.sx_str(m)) < 9000:
                exprs.append(f'let q := {coq_term(m)} in (check q, params_ok {am} q)')
                want.append(mut_model[j])
        try:
            outs = lib.coq_eval('C13', 'From Coq Require Import List NArith. Import ListNotations.\n'
                                       'From Verif.C13 Require Import Model.\nOpen Scope N_scope.', exprs, timeout=1200)
            n_coq = len(outs)
            coq_diff = [(e, o, w) for e, o, w in zip(exprs, outs, want) if coq_result_to_line(o) != w]
        except RuntimeError as e:
            coq_diff = [('coq_eval failed', str(e)[-800:], '')]

    # ---- verdict
    for fid, what in kf:
        rep.known_finding(fid, what)
    seen_what = set()
    for pr, what, pl, found in sorted(viol, key=lambda v: (v[0], len(json.dumps(v[2])))):
        key = what[:70]
        if key in seen_what:
            continue
        seen_what.add(key)
        rep.violation(what, pl, found)
    if not viol:
        if model is None:
            rep.violation('model does not build: ' + blog[-1500:], {'broken': 'extraction of theories/C13/Model.v'}, False)
        if unsup:
            i = sorted(unsup, key=lambda i: len(lines[i]))[0]
            rep.violation(f'the abstraction does not cover the emitted tree ({len(unsup)} statements): '
                          + str(impl[i].get('err')), payload(i, {'broken': 'abstraction of pgast (harness tie)'}), False)
        for i, what, extra in tie_fail[:2]:
            rep.violation('validator tie broken: ' + what, payload(i, dict(extra, broken='extracted checker vs reference')), False)
        if coq_diff:
            rep.violation('extracted checker disagrees with vm_compute inside Coq',
                          {'broken': 'extraction', 'expr': coq_diff[0][0][:3000], 'coq': coq_diff[0][1], 'extracted': coq_diff[0][2]}, False)
        if not pf['ok']:
            rep.violation('proof obligations no longer check: ' + '; '.join(pf['broken'][:6]),
                          {'broken': pf['broken'], 'log_tail': pf['log'][-3000:]}, False)

    # ---- evidence
    accepted = [impl[i] for i in idx_ok]
    distinct_terms = {r['term'] for r in accepted}
    distinct_nt = {r['term'] for r in accepted if nontrivial(r)}
    feat_tot = collections.Counter()
    depth_hist, par_hist, stmt_kinds, origin_tab = (collections.Counter() for _ in range(4))
    gen_feats = collections.Counter()
    for c, r in zip(cases, impl):
        origin_tab[c['origin'] + ':' + str(r.get('st'))] += 1
        if r.get('st') == 'ok':
            for f in c['feats']:
                if not f.startswith(('seed:',)):
                    gen_feats[f] += 1
    for r in accepted:
        f = r.get('feat') or {}
        for k, v in f.items():
            if isinstance(v, int):
                feat_tot[k] += v
        depth_hist[f.get('maxdepth', 0)] += 1
        par_hist[r.get('np', 0)] += 1
        t = r['term']
        stmt_kinds[t[1:4]] += 1
    rel_known = sum((r.get('feat') or {}).get('relstats', {}).get('known', 0) for r in accepted)
    rel_open = sum((r.get('feat') or {}).get('relstats', {}).get('open', 0) for r in accepted)
    rej_kinds = collections.Counter((r.get('err') or '').split(':')[0] for r in impl if r.get('st') == 'rej')
    crash_kinds = collections.Counter((r.get('err') or '')[:80] for r in impl if r.get('st') in ('crash', 'timeout'))
    samples = []
    for i in idx_ok[:: max(1, len(idx_ok) // 4)][:4]:
        sid, mode, text = dec_case(lines[i])
        samples.append({'schema': sid, 'mode': mode, 'edgeql': text[:400], 'sql_chars': impl[i].get('sqllen'),
                        'term_head': impl[i]['term'][:300], 'checker': model_by.get(i)})
    rep.coverage.update({
        'programs': len(idx_ok),
        'disagreements_checked': len(idx_ok) + len(mut_cases),
        'evaluations': len(cases) + len(mut_cases),
        'distinct_nontrivial': len(distinct_nt),
        'rule': 'statements: generated by harness/props/c13_gen.py over corpus/C13/g1.esdl (typed, depth-bounded: '
                'SELECT/INSERT/UPDATE/DELETE/FOR/GROUP, shapes, computeds, link properties, backlinks, optional and '
                'volatile expressions, 0-6 parameters, globals, policies, rewrites, triggers; NATIVE and JSON output '
                'formats; a slice through the server compiler), a malformed stream, and statements harvested from '
                f'/repo/tests/test_edgeql_*.py ({n_seeds} harvested; sampled, as they are and wrapped in another '
                'construct).  A case counts when the real compiler ACCEPTED it.  distinct = distinct abstract term of '
                'the emitted SQL; non-trivial = nesting depth of SQL query levels >= 3 and at least one LATERAL '
                'sub-select or WITH query and >= 3 column references resolved by the checker',
        'exhaustive': False,
        'samples': samples,
        'traces_validated_against_impl': len(idx_ok),
        'accepted_statements': len(idx_ok),
        'distinct_emitted_terms': len(distinct_terms),
        'status_counts': dict(counts),
        'origin_by_status': dict(sorted(origin_tab.items())),
        'rejections_by_error': dict(rej_kinds.most_common(12)),
        'crashes_and_timeouts': dict(crash_kinds.most_common(8)),
        'emitted_sql_features_total': dict(feat_tot),
        'sql_nesting_depth_histogram': dict(sorted(depth_hist.items())),
        'parameters_per_statement_histogram': dict(sorted(par_hist.items())),
        'top_statement_kinds': dict(stmt_kinds),
        'generator_features_in_accepted': dict(gen_feats.most_common(60)),
        'catalog_relations_known_vs_open': {'known_columns': rel_known, 'unknown_columns(wildcard)': rel_open},
        'scope_failures': len(scope_fail),
        'parameter_monitor_failures': len(params_fail),
        'text_skeleton_failures': len(skel_fail),
        'abstraction_unsupported': len(unsup),
        'validator_vs_reference_disagreements': len(tie_fail),
        'mutants_checked': len(mut_cases),
        'mutants_by_operator': {k: dict(v) for k, v in sorted(mut_stats.items())},
        'mutant_disagreements': len(mut_dis),
        'coq_vm_compute_cross_checked': n_coq,
        'coq_vm_compute_disagreements': len(coq_diff),
        'nondeterministic_in_process': len(nondet_in),
        'hashseed_probe_cases': len(probe) * len(seeds_probe),
        'mode_D_inprocess_cases': len(need_sorted) + len(probe) * (1 + len(seeds_probe)),
        'mode_D_fork_confirmations': sum(len(v) for v in f_runs.values()),
        'address_randomisation_off_in_mode_D': bool(noaslr_prefix()),
        'hashseed_probe_differences': cross_diff,
        'nondeterminism_classes': dict(nd_classes),
        'known_finding_examples': {k: sorted(v, key=len)[:3] for k, v in kf_examples.items()},
        'known_finding_case_counts': {k: len(v) for k, v in kf_examples.items()},
        'impl_wall_s': round(t_impl, 1),
        'probe_wall_s': round(t_probe, 1),
        'trusted_base': [
            'Coq 8.16.1 kernel (coqc; coqchk in the thorough tier); vm_compute only in Examples and cases.v',
            'extraction: ExtrOcamlBasic only; OCaml 4.13.1; ocaml/conv.ml + c13_main.ml (s-expression reader)',
            'the declarative relation Scoped is a hand-written transcription of PostgreSQL\'s name-resolution rules '
            '(no PostgreSQL here); it does not cover: type checking, aggregates/grouping legality, WINDOW clauses, '
            'JOIN USING / aliased joins, WITH RECURSIVE (rejected), MERGE, whole-row/composite field selection '
            'beyond q.*, the "equal expressions" exemption of ambiguous ORDER BY names',
            'harness/impl/c13_impl.py: Abstractor (pgast tree -> term, FigureColname port, catalog of user tables '
            'from edb.pgsql.types.get_pointer_storage_info; relations it does not know are wildcards), tied to the '
            'emitted text only through the token skeleton (qualified column refs, aliases, CTE names, LATERAL, '
            'sub-select parentheses, $n) -- unqualified refs, relation names and clause keywords are not in it',
            'harness/props/c13_gen.py (generators), harness/rt substrate (parser, std schema)',
            'determinism is tested (2 compilations per process, other hash seeds), not proved',
        ],
    })
    rep.assumptions = ['identifiers are compared after truncation to 63 bytes, case-sensitively (codegen quotes them)',
                       'a relation whose columns the harness does not know provides every column',
                       'the compiler is deterministic only if two runs agree: a test, not a theorem']
    rep.notes.append(f'total wall {time.time() - t_start:.0f}s; impl {t_impl:.0f}s; probe {t_probe:.0f}s')
    try:
        os.remove(specpath)
    except OSError:
        pass
    return rep.finish()


def replay(path):
    d = json.load(open(path))
    p = d['replay']
    case = p.get('case')
    if not case:
        print('no case in', path)
        return 1
    spec, specpath = make_spec()
    ok, slog = build_schemas(specpath)
    exe, _ = lib.build_model('c13', 'ExtractC13.v', 'c13_main.ml', 'C13_ext')
    sid, mode, text = dec_case(case)
    print('schema :', sid, ' mode:', mode)
    print('edgeql :', text)
    r = run_impl([case], specpath, nproc=1)[0]
    print('impl   : st =', r.get('st'), ' err =', r.get('err'), ' monitors =', r.get('mon'))
    for k in ('params_text', 'params_unit', 'skdiff', 'pyref', 'argmap'):
        if r.get(k):
            print(f'  {k}:', r[k])
    if r.get('sql2') is not None:
        print('  second compilation differs:', I.first_diff(r.get('sql', ''), r.get('sql2', '')),
              ' only the check_scan constant:', obs_key(r) == obs_key2(r))
        dd = run_impl([case], specpath, nproc=1, det=2)[0]
        print('  in mode D (deterministic identity hashes / UUIDs) the two compilations are equal:', obs_key(dd) == obs_key2(dd))
    if r.get('sql'):
        print('sql    :', r['sql'][:3000])
    if exe and r.get('term'):
        m = lib.run_model(exe, [model_line(r)])[0]
        print('checker:', m)
        mv = m.split(' ')
        if mv[0] == 'ERR':
            n = r.get('names') or []
            print('         =', CODES.get(int(mv[1])), [n[int(x)] if 0 < int(x) < len(n) else '' for x in mv[2:4]])
    other = run_impl([case], specpath, hashseed='12345', nproc=1)[0]
    print('hashseed 12345: same sql =', other.get('sql') == r.get('sql'), ' same argmap =', other.get('argmap') == r.get('argmap'))
    return 0
