"""C06 -- reported cardinality and duplicate-freedom bound the actual result.

Proof: coq/theories/C06 -- Gen_Card.v (TRANSLATED bounds algebra of inference/cardinality.py,
       qltypes.Cardinality helpers, multiplicity._max/_min_multiplicity), Model.v (core calculus:
       infer = cardinality + multiplicity inference incl. disjoint_union / object identity of the
       module constants; eval = bag semantics; tags = where the real rules over-claim), theorems
       C06_card_sound / C06_mult_sound / C06_shape_sound for every schema, conforming database,
       expression and evaluation with `run_tags = []`; Refuted.v = vm_compute witnesses of the
       findings C06-F1..F6, F9.
Tie:   (a) translator harness/translate/c06_card.py regenerates Gen_Card.v on every run;
       (b) correspondence: generated binder-explicit queries over generated schemas compiled by the
           REAL compiler (ir.cardinality, ir.multiplicity, shape out_cardinality, accept/reject)
           vs the extracted model; Model.eval vs edb/tools/toy_eval_model.py on generated
           conforming databases.  The compiler's SECOND inference of a shape (late_compile_view_shapes:
           the shape re-applied where a view type is exposed again) can only add rejections and is
           not modelled: rejections raised there are observed in the real compiler by the driver,
           counted, and left out of the accept/reject comparison (DESIGN C06).
Monitors (on the real compiler's answer, independent of the model): toy_eval_model result sizes /
       duplicates / shape elements on every database; upstream's pinned labels
       (tests/test_edgeql_ir_{card,mult}_inference.py); an exploration stream with implicit path
       factoring (roots not detached).
"""
from __future__ import annotations

import ast
import json
import os
import sys
import time

import lib
from props import c06_gen as G

PROP = 'C06'
THEOREMS = ['C06_alg_cartesian', 'C06_alg_union', 'C06_alg_coalesce', 'C06_alg_intersect', 'C06_alg_total',
            'C06_alg_roundtrip', 'C06_card_sound', 'C06_mult_sound', 'C06_shape_sound', 'C06_all_nodes']
REFUTED = ['C06_F1_refuted', 'C06_F2_refuted', 'C06_F3_refuted', 'C06_F4_refuted', 'C06_F5_refuted',
           'C06_F6_refuted', 'C06_F9_refuted', 'C06_mult_full_refuted', 'C06_card_full_refuted']
IMPL = os.path.join(lib.VERIF, 'harness', 'impl', 'c06_impl.py')
TAG2ID = {'F1': 'C06-F1', 'F2': 'C06-F2', 'F3': 'C06-F3', 'F4': 'C06-F4', 'F5': 'C06-F5', 'F6': 'C06-F6',
          'F9': 'C06-F9'}
NPROC = 8
PH: dict = {}

sys.path.insert(0, os.path.join(lib.VERIF, 'harness', 'translate'))


# ----------------------------------------------------------------------------- cases

def corpus():
    p = os.path.join(lib.VERIF, 'corpus', 'C06')
    out = []
    if os.path.isdir(p):
        for f in sorted(os.listdir(p)):
            if f.endswith('.json'):
                out.append(json.load(open(os.path.join(p, f))))
    return out


def dense_db(rnd, sch):
    """few values, many objects: forces shared link targets / equal property values"""
    for _ in range(4):
        db = G.gen_db(rnd, sch, size=rnd.choice((2, 3, 3, 4)))
        if len(db) > 2:
            return db
    return db


def malformed(rnd, sch, e):
    """edge / malformed stream: ill-scoped, ill-typed or degenerate variants of a valid term"""
    r = rnd.random()
    nodes = [n for n in G.walk(e)]
    tgt = rnd.choice(nodes)
    if r < 0.2:
        repl = ['var', 99]                                   # unbound variable
    elif r < 0.4:
        repl = ['ptr', ['lit', '1'], rnd.choice(list(G.Schema(sch).ptrs))]   # pointer of a scalar
    elif r < 0.55:
        repl = ['union', ['lit', '1'], ['lit', 's1']]          # heterogeneous union
    elif r < 0.7:
        repl = ['limitx', ['root', rnd.choice(list(G.Schema(sch).types))], ['lit', 's1']]   # LIMIT of a str
    elif r < 0.85:
        repl = ['limitx', ['lit', '1', '2'], ['lit', '1', '2']]   # multi LIMIT (singleton-only error)
    else:
        repl = ['empty', 'i']
    def sub(n):
        if n is tgt:
            return repl
        if n[0] == 'call':
            return n[:2] + [sub(c) for c in n[2:]]
        if n[0] == 'shape':
            return n[:2] + [sub(n[2])] + [[el[0], el[1], el[2], sub(el[3])] for el in n[3:]]
        m = list(n)
        for i in G.CHILD_IDX[n[0]]:
            m[i] = sub(n[i])
        return m
    return sub(e)


def gen_cases(tier):
    rnd = lib.rng('C06')
    thorough = tier == 'thorough'
    nsch, per = (40, 64) if not thorough else (120, 110)
    core, mal, lib_text = [], [], []
    for s in range(nsch):
        sch = G.gen_schema(rnd)
        # random / dense (colliding values) / sparse (several objects lacking optional values) or tiny
        dbs = [G.gen_db(rnd, sch), dense_db(rnd, sch),
               G.gen_db(rnd, sch, size=rnd.choice((2, 3, 4)), sparse=True) if rnd.random() < 0.7
               else G.gen_db(rnd, sch, size=rnd.choice((0, 1)))]
        for k in range(per):
            e = G.gen_expr(rnd, sch)
            core.append((sch, e, dbs))
            if k % 8 == 0:
                mal.append((sch, malformed(rnd, sch, e), dbs[:1]))
            if k % 6 == 0:
                le = G.gen_expr(rnd, sch, liberal=True)
                lib_text.append((sch, le, dbs))
        # directed exploration shapes (added after seed C06/5): a path that is referenced only from
        # inside a non-fenced branch scope - an indirection on a freshly built tuple used as a
        # tuple element / operand - must still be counted once per element of the path.  Raw text:
        # the expression renderer deliberately detaches roots under a projection source.
        tid = rnd.randint(1, len(sch) - 1)
        pids = [int(p[1]) for p in sch[tid][2:]]
        T, P = f'T{tid}', f'T{tid}.p{rnd.choice(pids)}'
        for q in (f'select (({T}, 1).0, ({T}, 1).0)', f'select ((select {T}), ({T}, 1).0)',
                  f'select (({P}, 1).0, ({P}, 1).0)', f'select (({T}, 1).0, 2)', f'select ({T}, 1).0',
                  f'select (({T}, 1).0, {T})'):
            DIRECTED_TEXT.append((sch, q, dbs))
    return core, mal, lib_text


DIRECTED_TEXT = []


def gen_late_shape_cases(rnd, core, n):
    """Directed stream for the late shape re-inference (viewgen.late_compile_view_shapes): a shape
    whose elements mention a FOR variable, written in the FOR body, under a construct that exposes
    the view type again (assert_*, DISTINCT, enumerate, tuple indirection, aliased FILTER, a FOR
    that returns its iterator) or under one that does not (LIMIT, bare SELECT, ??, UNION).  The
    real compiler accepts or rejects (first pass: compared with the model; second pass: marked
    `late` by the observer); every accepted query is compared with the model as usual."""
    out = []
    pool = [(sch, dbs) for sch, _e, dbs in core[::max(1, len(core) // 40)]]
    for k in range(n):
        sch_sx, dbs = rnd.choice(pool)
        sch = G.Schema(sch_sx)
        tid = rnd.choice(list(sch.types))
        t2 = rnd.choice(list(sch.types))
        x, y, w = 1, 2, 3
        props = [p for p in sch.types[t2] if sch.ptrs[p]['kind'] in 'is']
        it_kind = rnd.choice(('root', 'root', 'lit', 'prop', 'aexists', 'dup', 'limit1'))
        if it_kind == 'prop' and not props:
            it_kind = 'root'
        it = {'root': ['root', t2], 'lit': ['lit', '1', '2'], 'aexists': ['call', 'aexists', ['root', t2]],
              'dup': ['union', ['root', t2], ['root', t2]], 'limit1': ['limit', ['root', t2], '1'],
              'prop': ['ptr', ['root', t2], props[0] if props else 0]}[it_kind]
        is_obj = it_kind in ('root', 'aexists', 'dup', 'limit1')
        v = ['var', x]
        bodies = [v, ['sel', v], ['coal', v, v] if not is_obj else v, ['call', 'count', v], ['exists', v]]
        if is_obj:
            own = sch.types[t2]
            if own:
                bodies += [['ptr', v, rnd.choice(own)], ['call', 'count', ['ptr', v, rnd.choice(own)]]]
            bodies.append(['limitx', ['root', tid], ['call', 'count', v]])
        elif it_kind == 'lit':
            bodies.append(['limitx', ['root', tid], v])
        body = rnd.choice(bodies)
        q = rnd.choice(('r', 'r', 'rs', 'rm', '-', 's', 'm', 'o'))
        shape = ['shape', y, ['root', tid], ['el', 'z1', q, body]]
        if rnd.random() < 0.3:
            shape.append(['el', 'z2', rnd.choice(('-', 'r')), ['lit', 's0']])
        f = ['for', x, it, shape]
        wrap = rnd.choice(('adistinct', 'aexists', 'asingle', 'distinct', 'proj', 'enum', 'alias', 'foriter',
                           'inner', 'limit', 'sel', 'coal', 'union', 'none', 'count', 'el'))
        e = {'adistinct': ['call', 'adistinct', f], 'aexists': ['call', 'aexists', f],
             'asingle': ['call', 'asingle', f], 'distinct': ['distinct', f],
             'proj': ['proj', ['tup', f, ['lit', '1']], '0'], 'enum': ['proj', ['call', 'enumerate', f], '1'],   # (a top-level tuple of objects is outside the calculus)
             'alias': ['filter', w, f, ['lit', 'true']], 'foriter': ['for', w, f, ['var', w]],
             'inner': ['for', x, it, ['call', 'adistinct', shape]],
             'limit': ['limit', f, '1'], 'sel': ['sel', f], 'coal': ['coal', f, ['root', tid]],
             'union': ['union', f, ['root', tid]], 'none': f, 'count': ['call', 'count', ['call', 'adistinct', f]],
             'el': ['shape', w, ['root', tid], ['el', 'z9', rnd.choice(('-', 'r', 'm')), ['call', 'adistinct', f]]],
             }[wrap]
        try:
            G.render_query(e)
        except (ValueError, KeyError, IndexError):
            continue
        out.append((sch_sx, e, dbs[:2]))
    return out


def gen_inheritance_cases(rnd, n):
    """exploration stream with inheritance chains of depth >= 3: unions of related / unrelated types at
    top level, under a FILTER on the inherited exclusive property and as computed multi links
    (text mode; the harness makes toy_eval_model's object lookup inheritance-aware from the real schema)"""
    out = []
    for _ in range(n):
        depth = rnd.choice((3, 3, 4))
        chain = [f'A{i}' for i in range(depth)]                    # A0 <- A1 <- A2 (<- A3)
        side = rnd.choice(chain[:-1])
        types = [(chain[0], None)] + [(chain[i], chain[i - 1]) for i in range(1, depth)] + [('D', side), ('E', None)]
        sdl = []
        for nm, base in types:
            if base is None:
                sdl.append(f'type {nm} {{ required name: str {{ constraint exclusive }}; nick: str; }}')
            else:
                sdl.append(f'type {nm} extending {base};')
        oid, db = 0, []
        for nm, _ in types:
            for _k in range(rnd.choice((0, 1, 1, 2))):
                oid += 1
                o = {'id': oid, '__type__': nm, 'name': f'n{oid}'}
                if rnd.random() < 0.5:
                    o['nick'] = rnd.choice(('x', 'y'))
                db.append(o)
        names = [t for t, _ in types]
        for _q in range(6):
            k = rnd.choice((2, 2, 3))
            ts = [rnd.choice(names) for _ in range(k)]
            if rnd.random() < 0.6:
                ts[0], ts[-1] = rnd.choice(chain[:-2]), rnd.choice(chain[2:])     # ancestor with a depth>=2 descendant
                if rnd.random() < 0.5:
                    ts.reverse()
            form = rnd.random()
            if form < 0.35:
                u = ' union '.join(ts)
            elif form < 0.6:
                u = '{' + ', '.join(ts) + '}'
            else:
                u = f'({ts[0]} union {ts[1]})' + (f' union {ts[2]}' if k == 3 else '')
            w = rnd.random()
            if w < 0.35:
                q = f'select {u}'
            elif w < 0.55:
                q = f'select ({u}) filter .name = \'n{rnd.randint(1, max(1, oid))}\''
            elif w < 0.8:
                q = f'select E {{ items := ({u}) }}'
            elif w < 0.9:
                q = f'select ({u}).name'
            else:
                q = f'select count(distinct ({u})) = count({u})'
            out.append({'sdl': ' '.join(sdl), 'q': q, 'dbs': [db], '_meta': {'operands': k, 'name_path': '.name' in q and 'filter' not in q}})
    return out


def upstream_expectations(repo):
    """the pinned labels of upstream's inference tests (docstring `query % OK % label`)"""
    out = []
    for fname, kind in (('tests/test_edgeql_ir_card_inference.py', 'card'),
                        ('tests/test_edgeql_ir_mult_inference.py', 'mult')):
        p = os.path.join(repo, fname)
        if not os.path.exists(p):
            continue
        tree = ast.parse(open(p, encoding='utf-8').read())
        for cls in tree.body:
            if not isinstance(cls, ast.ClassDef):
                continue
            for fn in cls.body:
                if not (isinstance(fn, ast.FunctionDef) and fn.name.startswith('test_')):
                    continue
                doc = ast.get_docstring(fn, clean=False)
                if not doc:
                    continue
                neg = any('must_fail' in ast.unparse(d) for d in fn.decorator_list)
                parts = doc.split('\n% OK %')
                case = {'schema_file': 'tests/schemas/cards_ir_inference.esdl', 'kind': kind, 'q': parts[0],
                        'name': fn.name, 'neg': neg}
                if neg:
                    case['exp'] = 'ERR'
                elif len(parts) > 1 and parts[1].strip():
                    exp = parts[1].strip(' \n').split(':')
                    if len(exp) == 2:
                        case['field'] = exp[0].strip()
                        case['exp'] = exp[1].strip()
                    else:
                        case['exp'] = exp[0].strip()
                else:
                    case['exp'] = None
                out.append(case)
    return out


# ----------------------------------------------------------------------------- running

def run_impl(lines, mode='core'):
    return [json.loads(x) for x in
            lib.parallel_lines([lib.PY, IMPL, lib.REPO, mode], lines, nproc=NPROC, env=lib.impl_env())]


def top_is_shape(e):
    while e[0] == 'sel':
        e = e[1]
    return e[0] == 'shape'


def impl_head(r, e):
    if r.get('err'):
        k = r['err']
        return 'ERR ' + (k[2:] if k in ('E:singleton', 'E:distinct', 'E:required', 'E:single') else 'other')
    sh = ','.join(f'{n}={c}' for n, c, _ in r['sh']) if top_is_shape(e) else ''
    return f'OK {r["c"]} {r["m"]} {sh}'


def split_model(line):
    parts = line.split(' | ')
    head, _, tg = parts[0].partition(' ;')
    return head, [t for t in tg.split(',') if t], parts[1:]


def compare(case, r, mline):
    """-> (kind of disagreement or None, eval stats)"""
    sch, e, dbs = case
    head, tags, evs = split_model(mline)
    ih = impl_head(r, e)
    dis = None
    late = False
    if ih.startswith('ERR') or head.startswith('ERR'):
        if ih.startswith('ERR') != head.startswith('ERR'):
            if ih.startswith('ERR') and r.get('late'):
                # rejected while the shape of a view type was RE-inferred where that type is exposed
                # again (viewgen.late_compile_view_shapes; observer in impl/c06_impl.py).  Model.v
                # models the inference of a shape where it is written, not this second pass; the
                # first pass - what the model describes - had accepted the query (an error of the
                # first pass is raised first and carries no `late` mark).  A rejection cannot
                # contradict C06 (it speaks of accepted queries); counted, not compared.
                late = True
            else:
                dis = 'accept'
    elif ih != head:
        a, b = ih.split(' '), head.split(' ')
        dis = 'card' if a[1] != b[1] else 'mult' if a[2] != b[2] else 'shape'
    ev = {'agree': 0, 'diff': 0, 'unsupported': 0, 'assert': 0, 'late': int(late)}
    first_diff = None
    if not ih.startswith('ERR') and not head.startswith('ERR'):
        for x, y in zip(r['r'], evs):
            if x.startswith('X:') or y == 'N':
                ev['unsupported'] += 1
            elif x.startswith('A:') or y == 'A':
                ev['assert'] += 1
            elif x == y:
                ev['agree'] += 1
            elif sorted(split_values(x)) == sorted(split_values(y)):
                # same bag, other order: toy_eval_model binds factored paths (x.p) before it evaluates
                # the rest of a tuple; without ORDER BY the order of a result is not defined
                ev['agree_up_to_order'] = ev.get('agree_up_to_order', 0) + 1
            else:
                ev['diff'] += 1
                first_diff = first_diff or (x, y)
    return dis, ev, tags, first_diff


def one(case):
    line = G.enc_case(*case)
    r = run_impl([line])[0]
    return line, r


def shrink(case, pred_batch, rounds=8, width=48):
    """greedy, batched: in every round all one-step smaller candidates are evaluated in ONE impl
    run; the smallest candidate on which the predicate still holds is kept.
    pred_batch(list of cases) -> list of bool"""
    sch, e, dbs = case
    for _ in range(rounds):
        cands = []
        for cand in G.shrink_candidates(e):
            try:
                G.render_query(cand)
            except (ValueError, KeyError, IndexError):
                continue
            cands.append(cand)
            if len(cands) >= width:
                break
        if not cands:
            break
        oks = pred_batch([(sch, c, dbs) for c in cands])
        good = [c for c, ok in zip(cands, oks) if ok]
        if not good:
            break
        e = min(good, key=G.size)
    if len(dbs) > 1:
        oks = pred_batch([(sch, e, [x]) for x in dbs])
        for x, ok in zip(dbs, oks):
            if ok:
                dbs = [x]
                break
    return (sch, e, dbs)


# ----------------------------------------------------------------------------- Coq literals

def coq_val(v):
    if v in ('true', 'false'):
        return f'VBool {v}'
    if v.startswith('#'):
        return f'VObj {v[1:]}%N'
    if v.startswith('s'):
        return f'VStr "{v}"%string'
    return f'VInt ({v})%Z'


def coq_schema(sx):
    s = G.Schema(sx)
    rows = []
    for pid, p in s.ptrs.items():
        kind = {'i': 'KInt', 's': 'KStr', 'l': 'KLink'}[p['kind']]
        b = lambda x: 'true' if x else 'false'
        rows.append(f'({pid}%N, {{| p_src := {p["src"]}%N; p_kind := {kind}; p_multi := {b(p["multi"])}; '
                    f'p_req := {b(p["req"])}; p_excl := {b(p["excl"])}; p_tgt := {p["target"]}%N |}})')
    return '[' + '; '.join(rows) + ']'


def coq_db(db):
    objs = '; '.join(f'({r[1]}%N, {r[2]}%N)' for r in db[1:])
    vals = '; '.join(f'(({r[2]}%N, {e[0]}%N), [' + '; '.join(coq_val(v) for v in e[1:]) + '])'
                     for r in db[1:] for e in r[3:])
    return f'{{| d_objs := [{objs}]; d_vals := [{vals}] |}}'


P1 = {'not': 'PNot', 'len': 'PLen', 'tostr': 'PToStr', 'count': 'PCount', 'sum': 'PSum', 'min': 'PMin',
      'max': 'PMax', 'any': 'PAny', 'all': 'PAll', 'enumerate': 'PEnumerate', 'unpack': 'PUnpack',
      'asingle': 'PASingle', 'aexists': 'PAExists', 'adistinct': 'PADistinct'}
P2 = {'eq': 'PEq', 'neq': 'PNeq', 'lt': 'PLt', 'add': 'PAdd', 'mul': 'PMul', 'cat': 'PCat', 'and': 'PAnd',
      'or': 'POr', 'opteq': 'POptEq', 'optneq': 'POptNeq', 'in': 'PIn', 'aget': 'PAGet'}
QUAL = {'-': 'QNone', 'r': 'QReq', 'o': 'QOpt', 's': 'QSingle', 'm': 'QMulti', 'rs': 'QReqSingle', 'rm': 'QReqMulti'}


def coq_ty(tag):
    return {'i': 'TInt', 's': 'TStr', 'b': 'TBool'}.get(tag[0]) or f'TObj [[{tag[1:]}%N]]'


def coq_expr(e):
    k = e[0]
    c = coq_expr
    if k == 'lit':
        return '(ELit [' + '; '.join(coq_val(v) for v in e[1:]) + '])'
    if k == 'empty':
        return f'(EEmpty ({coq_ty(e[1])}))'
    if k == 'root':
        return f'(ERoot {e[1]}%N)'
    if k == 'var':
        return f'(EVar {e[1]}%N)'
    if k == 'ptr':
        return f'(EPtr {c(e[1])} {e[2]}%N)'
    if k == 'back':
        return f'(EBack {c(e[1])} {e[2]}%N {e[3]}%N)'
    if k in ('tup', 'arr', 'union', 'coal', 'limitx', 'offsetx'):
        ctor = {'tup': 'ETup', 'arr': 'EArr', 'union': 'EUnion', 'coal': 'ECoal', 'limitx': 'ELimitX',
                'offsetx': 'EOffsetX'}[k]
        return f'({ctor} {c(e[1])} {c(e[2])})'
    if k == 'proj':
        return f'(EProj {c(e[1])} {"true" if str(e[2]) == "1" else "false"})'
    if k == 'exists':
        return f'(ECall1 PExists {c(e[1])})'
    if k == 'call':
        if len(e) == 3:
            return f'(ECall1 {P1[e[1]]} {c(e[2])})'
        return f'(ECall2 {P2[e[1]]} {c(e[2])} {c(e[3])})'
    if k in ('distinct', 'sel'):
        return f'({"EDistinct" if k == "distinct" else "ESel"} {c(e[1])})'
    if k == 'if':
        return f'(EIf {c(e[1])} {c(e[2])} {c(e[3])})'
    if k in ('filter', 'filterp'):
        return f'(EFilter {"true" if k == "filter" else "false"} {e[1]}%N {c(e[2])} {c(e[3])})'
    if k in ('limit', 'offset'):
        return f'({"ELimit" if k == "limit" else "EOffset"} {c(e[1])} {e[2]}%N)'
    if k == 'for':
        return f'(EFor {e[1]}%N {c(e[2])} {c(e[3])})'
    if k == 'shape':
        els = 'SNil'
        for el in reversed(e[3:]):
            els = f'(SCons {el[1][1:]}%N {QUAL[el[2]]} {c(el[3])} {els})'
        return f'(EShape {e[1]}%N {c(e[2])} {els})'
    raise ValueError(k)


def coq_result_line(s):
    """normalise a vm_compute result of (run_infer, run_tags) to the driver's head line"""
    return ' '.join(s.split())


# ----------------------------------------------------------------------------- run

def run(tier):
    rep = lib.Report(PROP, tier, 'proof')
    thorough = tier == 'thorough'
    t0 = time.time()
    PH.clear()
    tp = [time.time()]

    def phase(name):
        PH[name] = time.time() - tp[0]
        tp[0] = time.time()

    # ---- (a) translator
    tr_err, manifest = None, None
    try:
        import c06_card
        manifest = c06_card.generate(lib.REPO, lib.COQ)
    except Exception as ex:   # TranslateError or anything else: fail closed
        tr_err = f'{type(ex).__name__}: {ex}'

    pf = lib.proof_stage(rep, 'C06', THEOREMS, extra_targets=['theories/C06/Refuted.vo'], thorough=thorough)
    rok, rproved, rlog = lib.coq_props('C06', 'Refuted.v') if pf['ok'] else (False, {}, 'not built')
    # Refuted.v has no Print Assumptions; its theorems are checked by compilation (make target above)
    refuted_ok = os.path.exists(os.path.join(lib.COQ, 'theories', 'C06', 'Refuted.vo'))
    rep.coverage['refutation_witnesses'] = {t: ('checked' if refuted_ok else 'NOT CHECKED') for t in REFUTED}
    exe, blog = lib.build_model('c06', 'ExtractC06.v', 'c06_main.ml', 'C06_ext')

    phase('proof+build')
    # ---- cases
    core, mal, libt = gen_cases(tier)
    corp = corpus()
    corp_core = [tuple(G.dec_case(c['case'])) for c in corp if 'case' in c]
    corp_text = [c for c in corp if 'text' in c]
    late_cases = gen_late_shape_cases(lib.rng('C06late'), core, 160 if not thorough else 600)
    core = core + late_cases
    cases = corp_core + core + mal
    lines = [G.enc_case(*c) for c in cases]
    impl = run_impl(lines)
    model = lib.run_model(exe, lines) if exe else None

    phase('core impl+model')
    known = {k['id']: k for k in lib.known_findings(PROP)}

    # ---- compare + classify
    dis_by_kind = {}
    evstat = {'agree': 0, 'agree_up_to_order': 0, 'diff': 0, 'unsupported': 0, 'assert': 0, 'late': 0}
    late_idx = []
    eval_diffs = []
    mon_hits = []          # (index, tags)
    tagdist = {}
    errdist = {}
    cmdist = {}
    for i, (c, r) in enumerate(zip(cases, impl)):
        k = (r.get('err') or 'ok')
        k = k if k.startswith(('E:single', 'E:req', 'E:dist', 'ok')) else ':'.join(k.split(':')[:3])
        errdist[k] = errdist.get(k, 0) + 1
        if not r.get('err'):
            cmdist[f'{r["c"]}/{r["m"]}'] = cmdist.get(f'{r["c"]}/{r["m"]}', 0) + 1
        tags = []
        if model is not None:
            d, ev, tags, fd = compare(c, r, model[i])
            for kk in evstat:
                evstat[kk] += ev.get(kk, 0)
            if ev.get('late'):
                late_idx.append(i)
            if d:
                # the malformed stream may be rejected for type reasons the untyped model does not see
                if not (i >= len(corp_core) + len(core) and r.get('err') and str(r['err']).startswith('E:other')):
                    dis_by_kind.setdefault(d, []).append(i)
            if fd:
                eval_diffs.append((i, fd))
            for t in tags:
                tagdist[t] = tagdist.get(t, 0) + 1
        if r.get('mon'):
            mon_hits.append((i, tags))

    # ---- exploration stream (implicit factoring) + corpus text cases: monitors only
    text_cases = [json.dumps(t['text']) for t in corp_text]
    text_meta = [('corpus', t.get('finding')) for t in corp_text]
    for sch, le, dbs in libt:
        try:
            q = G.render_query(le, liberal=True)
        except (ValueError, KeyError, IndexError):
            continue
        text_cases.append(json.dumps({'schema': G.sx_str(sch), 'q': q, 'dbs': [G.sx_str(x) for x in dbs]}))
        text_meta.append(('liberal', (sch, le, dbs)))
    for sch, q, dbs in DIRECTED_TEXT:
        text_cases.append(json.dumps({'schema': G.sx_str(sch), 'q': q, 'dbs': [G.sx_str(x) for x in dbs]}))
        text_meta.append(('directed', q))
    inh = gen_inheritance_cases(lib.rng('C06inherit'), 12 if not thorough else 60)
    for t in inh:
        text_cases.append(json.dumps(t))
        text_meta.append(('inherit', t['_meta']))
    text_res = run_impl(text_cases, 'text') if text_cases else []
    text_hits = [(j, r) for j, r in enumerate(text_res) if r.get('mon')]
    text_stats = {'cases': len(text_cases), 'compiled': sum(1 for r in text_res if not r.get('err')),
                  'evaluated_dbs': sum(1 for r in text_res for x in r.get('r', []) if not x.startswith(('X:', 'A:'))),
                  'monitor_hits': len(text_hits)}

    phase('exploration stream')
    # ---- upstream pinned labels
    ups = upstream_expectations(lib.REPO)
    ups_res = run_impl([json.dumps(u) for u in ups], 'expect') if ups else []
    ups_bad = []
    for u, r in zip(ups, ups_res):
        got = r.get('got') or ('ERR:internal:' + str(r.get('err'))[:120])
        if u['exp'] is None:
            ok = not got.startswith('ERR:internal')
        elif u['exp'] == 'ERR':
            ok = got.startswith('ERR:') and not got.startswith('ERR:internal')
        else:
            ok = got == u['exp']
        if not ok:
            ups_bad.append((u, got))

    phase('upstream labels')
    # ---- Coq-internal evaluation of a sample (guards the extraction)
    coq_diff, n_coq = [], 0
    if model is not None and pf['ok']:
        rnd = lib.rng('C06coq')
        pool = [i for i in range(len(cases)) if len(lines[i]) < 2500]
        idx = sorted(rnd.sample(pool, min(60 if not thorough else 250, len(pool))))
        exprs = []
        for i in idx:
            sch, e, dbs = cases[i]
            exprs.append(f'(run_infer {coq_schema(sch)} {coq_expr(e)}, run_tags {coq_schema(sch)} {coq_expr(e)}, '
                         f'match {("eval " + coq_schema(sch) + " " + coq_db(dbs[0]) + " [] " + coq_expr(e)) if dbs else "None"} '
                         f'with Some l => Some (List.length l) | None => None end)')
        try:
            outs = lib.coq_eval('C06', 'From Coq Require Import List NArith ZArith String. Import ListNotations.\n'
                                       'From Verif.C06 Require Import Gen_Card Model.', exprs, timeout=900)
            n_coq = len(outs)
            for i, o in zip(idx, outs):
                head, tags, evs = split_model(model[i])
                o = ' '.join(o.split())
                # expected rendering of the triple
                if head.startswith('ERR'):
                    ok = o.startswith('(RErr')
                else:
                    _, cc, mm, _sh = (head + ' ').split(' ', 3)
                    ok = o.startswith(f'(ROk {cc} M_{mm} ')
                    want_tags = sorted(tags)
                    got_tags = sorted({'TF1': 'F1', 'TF2': 'F2', 'TF3': 'F3', 'TF4': 'F4', 'TF5': 'F5', 'TF6': 'F6',
                                       'TF9': 'F9', 'TFor': 'FOR', 'TFX': 'FX', 'TCast': 'CAST', 'TIll': 'ILL'}[t]
                                      for t in set(__import__('re').findall(r'\bT(?:F\d|For|FX|Cast|Ill)\b', o)))
                    ok = ok and want_tags == got_tags
                    if evs and evs[0] not in ('A', 'N'):
                        n = len([x for x in evs[0].split(' ') if x]) if evs[0] else 0
                        # tuples / arrays print with blanks: count top-level values instead
                        n = count_values(evs[0])
                        ok = ok and o.rstrip(')').rstrip().endswith(f'Some {n}')
                if not ok:
                    coq_diff.append((i, o[:300]))
        except RuntimeError as ex:
            coq_diff.append((-1, str(ex)[-500:]))

    phase('coq cross-check')
    # ---- verdict ---------------------------------------------------------------------------
    def mon_pred(kind_prefix):
        def pred(cs):
            rs = run_impl([G.enc_case(*c) for c in cs])
            return [any(m.split(':')[0] == kind_prefix for m in r.get('mon', [])) for r in rs]
        return pred

    reported_ids = {}
    unexplained = []
    # Attribution: a hit is explained by known findings when every finding-tag of the case is known.
    # To keep that honest the smallest hit of every distinct tag set is shrunk first (the shrunk case
    # must still fail and is re-tagged); hits without any finding tag are always shrunk and reported.
    by_tagset = {}
    for i, tags in sorted(mon_hits, key=lambda t: len(lines[t[0]])):
        by_tagset.setdefault(tuple(sorted(set(tags))), []).append(i)
    shrink_budget = 6 if not thorough else 20
    for tagset, idxs in sorted(by_tagset.items(),
                               key=lambda kv: (any(t in TAG2ID for t in kv[0]), len(lines[kv[1][0]]))):
        i = idxs[0]
        kind = impl[i]['mon'][0].split(':')[0]
        small = cases[i]
        if shrink_budget > 0:
            shrink_budget -= 1
            small = shrink(cases[i], mon_pred(kind), rounds=5 if not thorough else 10)
        sline = G.enc_case(*small)
        stags = split_model(lib.run_model(exe, [sline])[0])[1] if exe else list(tagset)
        sf = sorted({t for t in stags if t in TAG2ID})
        if sf and all(TAG2ID[t] in known for t in sf):
            for t in sf:
                reported_ids.setdefault(TAG2ID[t], []).append(sline)
            for t in sorted({t for t in tagset if t in TAG2ID and TAG2ID[t] in known}):
                reported_ids.setdefault(TAG2ID[t], []).extend(idxs[1:])
            if [t for t in tagset if t in TAG2ID and TAG2ID[t] not in known]:
                unexplained.append((i, small, sline, stags, kind))
        else:
            unexplained.append((i, small, sline, stags, kind))

    for fid, exs in reported_ids.items():
        ex = min((x for x in exs if isinstance(x, str)), key=len, default=None)
        q = G.render_query(G.dec_case(ex)[1]) if ex else ''
        rep.known_finding(fid, known[fid]['what'] + f' ({len(exs)} generated cases hit it; e.g. `{q}`)')

    for i, small, sline, stags, kind in unexplained[:3]:
        _, r = one(small)
        rep.violation(f'monitor `{kind}` failed on the real compiler: the evaluated result contradicts the reported '
                      f'cardinality / multiplicity (model tags of the shrunk case: {stags or "none"}'
                      + (f'; finding ids not in known_findings.json: {[TAG2ID[t] for t in stags if t in TAG2ID and TAG2ID[t] not in known]}'
                         if any(t in TAG2ID for t in stags) else '') + ')',
                      {'case': sline, 'query': r.get('q'), 'schema_sdl': G.render_sdl(small[0]),
                       'compiler': {k: r.get(k) for k in ('c', 'm', 'sh', 'err')},
                       'toy_eval_model_results': r.get('r'), 'monitor_failures': r.get('mon'),
                       'model': lib.run_model(exe, [sline])[0] if exe else None, 'original_case': lines[i],
                       'how': './harness/check C06 --replay <this file>'})

    # text streams
    seen_ids = set(reported_ids)
    _kf = rep.known_finding

    def known_once(fid, what):
        if fid not in seen_ids:
            seen_ids.add(fid)
            _kf(fid, what)
    n_directed_reported = [0]
    for j, r in text_hits[:40]:
        meta = text_meta[j]
        fid = meta[1] if meta[0] == 'corpus' else None
        if meta[0] == 'directed':
            n_directed_reported[0] += 1
            if n_directed_reported[0] > 2:      # same directed shape over many schemas: two replays are enough
                continue
        if meta[0] == 'liberal' and exe:
            # classification hint: the tags of the same term read as a binder-explicit query
            sch, le, dbs = meta[1]
            tg = split_model(lib.run_model(exe, [G.enc_case(sch, le, dbs[:0])])[0])[1]
            sf = sorted({t for t in tg if t in TAG2ID})
            if sf and all(TAG2ID[t] in known for t in sf):
                for t in sf:
                    known_once(TAG2ID[t], known[TAG2ID[t]]['what'] + f' (also hit with implicit path factoring: `{r["q"]}`)')
                continue
        if fid and fid in known:
            known_once(fid, known[fid]['what'] + f' (replayed: `{r["q"]}`)')
            continue
        if meta[0] == 'inherit':
            # two-operand unions of plain types must be judged correctly; the known over-claims are
            #   F9: a union of >= 3 operands (its left operand has a union TYPE, deemed unrelated to everything)
            #   F4: the exclusive property `.name` of a union that contains duplicates
            ids = (['C06-F4'] if meta[1]['name_path'] else []) + (['C06-F9'] if meta[1]['operands'] >= 3 else [])
            if ids and all(i in known for i in ids):
                for i in ids:
                    known_once(i, known[i]['what'] + f' (inheritance stream: `{r["q"]}`)')
                continue
        if meta[0] == 'liberal' and 'C06-F10' in known and f10_shape(meta[1][0], meta[1][1]) \
                and all(m.split(':')[0] in ('dup', 'card-upper', 'shape-dup', 'shape-upper') for m in r['mon']):
            # the same (not detached) type root occurs twice: it is factored, the statement is
            # evaluated once per object, a link path from it is still classified UNIQUE
            known_once('C06-F10', known['C06-F10']['what'] + f' (exploration stream: `{r["q"]}`)')
            continue
        rep.violation('monitor failed on the real compiler (exploration stream, implicit path factoring / corpus): '
                      f'{sorted(set(m.split(":")[0] for m in r["mon"]))}'
                      + (f' -- proposed finding {fid} is not in known_findings.json' if fid else ''),
                      {'case_text': json.loads(text_cases[j]), 'compiler': {k: r.get(k) for k in ('c', 'm', 'sh')},
                       'toy_eval_model_results': r.get('r'), 'monitor_failures': r.get('mon'),
                       'how': "echo '<case_text json>' | PYTHONPATH=/repo:/verif/harness /venv/bin/python "
                              "harness/impl/c06_impl.py /repo text"})

    found_input = bool(rep.violations)
    if not found_input:
        if tr_err:
            rep.violation('translator failed closed (source shape of the bounds algebra not recognised): ' + tr_err,
                          {'broken': 'harness/translate/c06_card.py', 'error': tr_err}, False)
        if model is None:
            rep.violation('model does not build: ' + blog[-1500:], {'broken': 'extraction of C06/Model.v'}, False)
        else:
            for kind, idxs in sorted(dis_by_kind.items()):
                i = min(idxs, key=lambda j: len(lines[j]))

                sig0 = (impl_head(impl[i], cases[i][1]).split(' ')[0], str(impl[i].get('err'))[:48],
                        split_model(model[i])[0].split(' ')[0])

                def dpred(cs, kind=kind, sig0=sig0):
                    # the shrunk case must show the SAME disagreement: same kind, same accept/reject
                    # pattern and (for a rejection) the same error of the real compiler
                    ls = [G.enc_case(*c) for c in cs]
                    rs = run_impl(ls)
                    ms = lib.run_model(exe, ls)
                    out = []
                    for c, r, m in zip(cs, rs, ms):
                        sig = (impl_head(r, c[1]).split(' ')[0], str(r.get('err'))[:48], split_model(m)[0].split(' ')[0])
                        out.append(compare(c, r, m)[0] == kind and sig == sig0)
                    return out
                small = shrink(cases[i], dpred)
                sline, r = one(small)
                rep.violation(f'correspondence broken ({kind}): the real compiler and the model disagree on '
                              f'{len(idxs)} of {len(cases)} generated queries; no monitor failed',
                              {'broken': 'correspondence C06 Model.run_infer vs edb.edgeql.compiler inference',
                               'case': sline, 'query': r.get('q'), 'impl': impl_head(r, small[1]),
                               'impl_error': r.get('err'),
                               'model': lib.run_model(exe, [sline])[0], 'disagreements': len(idxs),
                               'original_case': lines[i], 'original_query': impl[i].get('q'),
                               'original_impl_error': impl[i].get('err')}, False)
                break
            if eval_diffs:
                i, fd = eval_diffs[0]
                rep.violation(f'Model.eval and toy_eval_model disagree on {len(eval_diffs)} (query, database) pairs',
                              {'broken': 'correspondence C06 Model.eval vs edb/tools/toy_eval_model.py',
                               'case': lines[i], 'query': impl[i].get('q'), 'toy|model': fd}, False)
            if coq_diff:
                rep.violation('extracted model disagrees with vm_compute inside Coq',
                              {'broken': 'extraction', 'detail': coq_diff[:2],
                               'case': lines[coq_diff[0][0]] if coq_diff[0][0] >= 0 else None}, False)
        if ups_bad:
            u, got = ups_bad[0]
            rep.violation(f'{len(ups_bad)} of upstream\'s pinned inference labels no longer hold '
                          f'(tests/test_edgeql_ir_*_inference.py): e.g. {u["name"]} expects {u["exp"]}, got {got}',
                          {'broken': 'upstream baseline', 'query': u['q'], 'expected': u['exp'], 'got': got,
                           'all': [(x['name'], x['exp'], g) for x, g in ups_bad[:20]]}, False)
        if not pf['ok']:
            rep.violation('proof obligations no longer check: ' + '; '.join(pf['broken'][:6]),
                          {'broken': pf['broken'], 'log_tail': pf['log'][-3000:]}, False)
        elif not refuted_ok:
            rep.violation('Refuted.v (witnesses of the known findings) no longer checks',
                          {'broken': 'theories/C06/Refuted.v'}, False)

    phase('verdict+shrinking')
    # ---- evidence ---------------------------------------------------------------------------
    feats = {}
    sizes = {}
    for sch, e, dbs in cases:
        for f in G.features(e):
            feats[f] = feats.get(f, 0) + 1
        b = min(G.size(e) // 5 * 5, 60)
        sizes[b] = sizes.get(b, 0) + 1
    distinct = {lines[i].split(' (D', 1)[0].split(')) ', 1)[-1] for i, c in enumerate(cases) if G.nontrivial(c[1])
                and not impl[i].get('err')}
    dbsizes = {}
    for sch, e, dbs in cases[::17]:
        for dbx in dbs:
            dbsizes[len(dbx) - 1] = dbsizes.get(len(dbx) - 1, 0) + 1
    rep.coverage.update({
        'evaluations': len(cases) + len(text_cases) + len(ups),
        'distinct_nontrivial': len(distinct),
        'rule': 'binder-explicit core queries (every type root DETACHED, FILTER subject aliased or referenced by '
                'partial paths, FOR / shape binders; each <var>.<pointer> prefix used once per scope) over generated '
                'schemas (1-3 object types, 2-6 pointers each with random multi/required/exclusive/link) with 3 '
                'conforming databases each (random, dense = colliding values / shared link targets, tiny/empty); '
                'non-trivial = accepted by the compiler and >= 2 set-level operators (union/distinct/if/??/filter/'
                'limit/for/shape/pointer hop/set-of or optional primitive); distinct = distinct expression text '
                'per schema; plus a malformed stream (unbound variable, pointer of a scalar, heterogeneous union, '
                'non-int / multi LIMIT), an exploration stream with implicit path factoring and upstream\'s '
                f'{len(ups)} pinned inference labels',
        'exhaustive': False,
        'samples': [impl[i].get('q') for i in (len(corp_core), len(cases) // 3, len(cases) // 2, len(cases) - 1)
                    if i < len(impl)],
        'traces_validated_against_impl': len(cases) if model is not None else 0,
        'model_vs_impl_disagreements': {k: len(v) for k, v in dis_by_kind.items()},
        'eval_model_vs_toy': {k: v for k, v in evstat.items() if k != 'late'},
        'late_shape_reinference': {
            'what': 'queries the real compiler rejects only in its SECOND inference of a shape (the shape of a '
                    'view type re-applied where the type is exposed again: viewgen.late_compile_view_shapes) '
                    'while the first inference - the one Model.v describes - accepted them; observed inside the '
                    'real compiler by impl/c06_impl.py (_observe_late_shapes), counted, not compared (a '
                    'rejection cannot contradict C06)',
            'rejected_in_second_pass': len(late_idx),
            'by_error': {k: sum(1 for i in late_idx if impl[i].get('err') == k)
                         for k in sorted({impl[i].get('err') for i in late_idx})},
            'directed_stream_cases': len(late_cases),
            'directed_stream_accepted_and_compared': sum(
                1 for i in range(len(cases)) if any(cases[i] is lc for lc in late_cases)
                and not impl[i].get('err')),
            'examples': [impl[i].get('q') for i in sorted(late_idx, key=lambda j: len(lines[j]))[:3]],
        },
        'coq_vm_compute_cross_checked': n_coq,
        'monitor_hits_core': len(mon_hits),
        'monitor_hits_explained_by_known_findings': {k: len(v) for k, v in reported_ids.items()},
        'monitor_hits_unexplained': len(unexplained),
        'exploration_stream': text_stats,
        'upstream_pinned_labels': {'checked': len(ups), 'failing': len(ups_bad)},
        'compile_outcomes': errdist,
        'cardinality_multiplicity_labels': cmdist,
        'model_tags': tagdist,
        'constructor_coverage': dict(sorted(feats.items())),
        'expression_sizes': dict(sorted(sizes.items())),
        'database_object_counts': dict(sorted(dbsizes.items())),
        'streams': {'corpus': len(corp_core) + len(corp_text), 'core': len(core), 'malformed': len(mal),
                    'of_core_directed_late_shape': len(late_cases),
                    'implicit_factoring': len(libt), 'inheritance_unions': len(inh)},
        'translator': manifest if manifest else {'error': tr_err},
        'substrate': 'harness/rt/vrt.py (stub natives, substitute LR parser, cached std schema); see harness/rt/STATUS.md',
        'trusted_base': [
            'Coq 8.16.1 kernel (coqc; coqchk in the thorough tier); vm_compute in Refuted.v, Examples and cases.v',
            'extraction: ExtrOcamlBasic only; OCaml 4.13.1; ocaml/conv.ml + c06_main.ml (S-expression reader)',
            'translator harness/translate/c06_card.py (fail-closed; fixed helper prelude for Python min/max/sum)',
            'harness/props/c06_gen.py (generators, renderer EdgeQL/SDL), harness/impl/c06_impl.py (drives the REAL '
            'compile_ast_to_ir through vrt; monitors); runtime substrate harness/rt',
            'edb/tools/toy_eval_model.py is the reference semantics (the repo\'s transcription of the EdgeQL docs); '
            'harness adds assert_single/assert_exists/assert_distinct/array_get and empty-safe min/max to it; '
            '`?=` is only generated with single operands (toy_eval_model is imprecise otherwise)',
            'modelled, not verified: the IR the compiler builds for each construct (scope tree, view types, shared '
            'binding expressions) is reflected by the calculus\'s binders and view-type keys; tied by the '
            'correspondence stream only',
        ],
    })
    rep.assumptions = [
        'database conforms to the schema (db_ok): single/required/exclusive honoured, links typed and set-valued',
        'side condition run_tags = [] (no over-claiming rule: findings C06-F1..F6,F9; FOR-disjointness, casts, '
        'container unions not covered; ill-typed terms excluded)',
        'primitives are the closed set of Model.sem1/sem2 (std operators and functions of the calculus)',
        'queries are binder-explicit; implicit path factoring is covered by the monitors only',
        'the second inference of a re-applied shape (viewgen.late_compile_view_shapes) is not modelled: it can '
        'only reject; its rejections are observed in the real compiler and counted (late_shape_reinference)',
    ]
    rep.notes.append(f'wall before finish {time.time() - t0:.1f}s; phases: ' + ', '.join(f'{k}={v:.0f}s' for k, v in PH.items()))
    return rep.finish()


def split_values(s):
    """top-level values of a printed result"""
    out, depth, cur = [], 0, ''
    for ch in s:
        if ch in '([':
            depth += 1
        elif ch in ')]':
            depth -= 1
        if ch == ' ' and depth == 0:
            if cur:
                out.append(cur)
            cur = ''
        else:
            cur += ch
    if cur:
        out.append(cur)
    return out


def repeated_root(e):
    seen = set()
    for n in G.walk(e):
        if n[0] == 'root':
            if str(n[1]) in seen:
                return True
            seen.add(str(n[1]))
    return False


def f10_shape(sch_sx, e):
    """the input predicate of known finding C06-F10 (narrowed after seed C06/5): the same
    not-detached type root occurs twice AND one occurrence is the source of a LINK step (the
    finding is about a link path of a factored root being classified UNIQUE / a filter on top of it
    AT_MOST_ONE): only over-claims of uniqueness / upper bounds qualify, never a violated lower
    bound"""
    if not repeated_root(e):
        return False
    sch = G.Schema(sch_sx)
    for n in G.walk(e):
        if n[0] == 'ptr' and n[1][0] == 'root':
            try:
                if sch.ptrs[int(n[2])]['kind'] == 'l':
                    return True
            except (KeyError, ValueError):
                pass
    return False


def count_values(s):
    """number of top-level values in a printed result"""
    n, depth, tok = 0, 0, False
    for ch in s:
        if ch in '([':
            if depth == 0:
                n += 1
            depth += 1
            tok = False
        elif ch in ')]':
            depth -= 1
            tok = False
        elif ch == ' ':
            tok = False
        else:
            if depth == 0 and not tok:
                n += 1
            tok = True
    return n


def replay(path):
    d = json.load(open(path))
    rp = d['replay']
    exe, _ = lib.build_model('c06', 'ExtractC06.v', 'c06_main.ml', 'C06_ext')
    if 'case' in rp and rp['case']:
        case = rp['case']
        r = run_impl([case])[0]
        print('query :', r.get('q'))
        print('impl  :', {k: r.get(k) for k in ('c', 'm', 'sh', 'err')})
        print('toy   :', r.get('r'))
        print('mon   :', r.get('mon'))
        print('model :', lib.run_model(exe, [case])[0] if exe else 'model does not build')
    elif 'case_text' in rp:
        r = run_impl([json.dumps(rp['case_text'])], 'text')[0]
        print('query :', r.get('q'))
        print('impl  :', {k: r.get(k) for k in ('c', 'm', 'sh', 'err')})
        print('toy   :', r.get('r'))
        print('mon   :', r.get('mon'))
    else:
        print(json.dumps(rp, indent=1)[:3000])
    return 0
