"""C10 — Step-by-step migration equals direct migration.

Proof:  coq/theories/Evo (shared with C02), statements in coq/theories/C10/Props.v: any chain of
        accepted steps (each step: ANY command list with the partition property in ANY
        dependency-respecting order, computed from the ACTUAL previous result) ends in exactly the
        last target; equals the direct migration; a final migration to empty leaves nothing.
Tie:    the extracted model runs abstract chains (migrate ... vs direct); the END-TO-END statement is
        decided on the REAL code by differential monitors through the substrate: generated chains
        S1..Sn of schemas (mutation operators rename / re-parent / re-type objects created by earlier
        steps); after every accepted step the chain schema is compared with the schema obtained by ONE
        migration from the std-only schema to the same target (repo's own delta_schemas empty AND
        independent structural dump equal); a final migration to the empty schema must be accepted
        and leave nothing user-defined behind.
The real diff/ordering/apply code is NOT modelled (see C02); mutations there are caught by the monitors.
"""
from __future__ import annotations

import hashlib
import json
import os
import time

import lib
from props import c02_gen as G

PROP = 'C10'
THEOREMS = ['C10_chain_reaches_last', 'C10_path_independent', 'C10_two_paths', 'C10_to_empty', 'C10_migrate_step']
EVO_TARGETS = ['theories/Evo/ProofsTop.vo']


def corpus():
    p = os.path.join(lib.VERIF, 'corpus', PROP)
    out = []
    if os.path.isdir(p):
        for f in sorted(os.listdir(p)):
            if f.endswith('.json'):
                out.append(json.load(open(os.path.join(p, f)))['case'])
    return out


def gen_cases(tier):
    n = 20 if tier == 'quick' else 80
    n_sweeps = 1 if tier == 'quick' else 5
    cases = []
    for c in corpus():
        c = dict(c)
        c.update(id=len(cases), kind='corpus', direct=True, to_empty=True, detail=False)
        cases.append(c)
    for i in range(n):
        rnd = lib.rng(f'C10chain{i}')
        texts, meta = G.gen_chain(rnd, maxlen=4 if tier == 'quick' else 6)
        cases.append({'id': len(cases), 'kind': 'chain', 'tag': f'C10chain{i}', 'chain': texts, 'direct': True,
                      'to_empty': True, 'detail': False, 'meta': meta})
    # forced chain sweep: every family (alias / computed-global lifecycles, re-parenting at two positions, renamed
    # scalars inside collection types, adjacent bases dropped, rename + drop-as-base) once per sweep
    for k in range(n_sweeps):
        for j, (texts, meta) in enumerate(G.gen_chain_sweep(lib.rng(f'C10sweep{k}'))):
            cases.append({'id': len(cases), 'kind': 'chainsweep', 'tag': f'C10sweep{k}/{meta["family"]}', 'chain': texts,
                          'direct': True, 'to_empty': True, 'detail': False, 'meta': meta})
    # malformed / edge stream: a chain whose middle target is not a valid schema must stop there
    rnd = lib.rng('C10malformed')
    for i in range(4 if tier == 'quick' else 20):
        texts, meta = G.gen_chain(lib.rng(f'C10mal{i}'), maxlen=3)
        bad, tag = G.malformed_sdl(rnd, texts[0])
        texts = texts[:1] + [bad] + texts[1:]
        cases.append({'id': len(cases), 'kind': 'malformed', 'tag': tag, 'chain': texts, 'direct': True,
                      'to_empty': False, 'detail': False, 'meta': {'ops': [['malformed:' + tag]], 'feat': [], 'len': len(texts)}})
    return cases


def slim(case):
    return {k: case[k] for k in ('chain', 'kind', 'tag', 'direct', 'to_empty') if k in case}


def classify_cmp(cmpres, chain_texts, i, script=None):
    """a chain-vs-direct difference that is the residue of a C02 known finding"""
    items = G._diff_items(cmpres) if isinstance(cmpres, dict) else set()
    if isinstance(cmpres, dict) and 'sdl_diff' in cmpres and 'dump_diff' not in cmpres and 'own_diff' not in cmpres:
        # structurally equal, DESCRIBE text differs
        return None
    if items and items <= {('Property', 'inherited_fields'), ('Link', 'inherited_fields')} and cmpres.get('own_diff') == '' \
            and any('on target delete restrict' in t for t in chain_texts[:i + 1]):
        return 'C02-explicit-default-on-target-delete'
    if G.set_owned_then_renamed(script) and any(it[1] in ('missing-in-result', 'owned') for it in items):
        return 'C02-set-owned-then-parent-rename'
    if items and items <= {('Constraint', 'errmessage'), ('Constraint', 'inherited_fields')} \
            and any('errmessage' in t for t in chain_texts[:i]):
        return 'C02-errmessage-reset'
    if items and items <= {('Property', 'inherited_fields'), ('Link', 'inherited_fields')} \
            and 'reset optionality' in (cmpres.get('own_diff') or ''):
        return 'C02-computed-grandchild-optionality'
    if items and all(f in ('bases', 'ancestors') for _, f in items) and ' before ' in (cmpres.get('own_diff') or '').lower() \
            and any(G.same_bases_reordered(chain_texts[k], chain_texts[k + 1]) for k in range(min(i, len(chain_texts) - 1))):
        return 'C02-reorder-bases'
    if items and items <= {('Property', 'default'), ('Link', 'default'), ('Property', 'inherited_fields'),
                           ('Link', 'inherited_fields')} and any(f == 'default' for _, f in items) \
            and cmpres.get('own_diff') == '' and any('overloaded' in t for t in chain_texts[:i + 1]):
        return 'C02-drop-overloaded-default'
    if items and items <= {('Link', 'owned'), ('Property', 'owned')} and 'drop owned' in (cmpres.get('own_diff') or '').lower():
        return 'C02-move-to-parent-reowned'
    if items and all(f in ('bases', 'ancestors') for _, f in items) and 'drop extending' in (cmpres.get('own_diff') or '').lower() \
            and any(G.adjacent_bases_dropped(chain_texts[k], chain_texts[k + 1]) for k in range(min(i, len(chain_texts) - 1))):
        return 'C02-drop-adjacent-bases'
    if isinstance(cmpres, dict) and 'drop extending' in (cmpres.get('own_diff') or '').lower():
        return 'C02-drop-extending-renamed-base'
    return None


def judge(case, res, known):
    out = []
    if 'harness_error' in res:
        return [('harness', None, 'harness error: ' + json.dumps(res['harness_error'])[:300], {'case': slim(case)})]
    steps = res['steps']
    n = len(case['chain'])
    chain_fid = None          # finding that made this chain diverge from the direct path (first divergence)
    for i, st in enumerate(steps):
        is_empty_step = case.get('to_empty') and i == n
        target = 'module default {}' if is_empty_step else case['chain'][i]
        if st['status'] in ('rejected', 'diff-error') and case['kind'] != 'malformed' and (i == 0 or is_empty_step):
            fid = G.classify_reject(st, i == 0, target)
            what = ('the final migration to the empty schema is rejected' if is_empty_step else
                    'the migration from the empty database to S1 is rejected') + \
                f": {st['err']['type']}: {st['err']['msg'][:160]}"
            out.append(('known' if fid in known else 'violation', fid, what,
                        {'case': slim(case), 'step': i, 'observed': st.get('err'),
                         'required': 'a migration between a valid schema and the empty schema needs no user input and must apply'}))
        if st['status'] != 'accepted':
            continue
        d = st.get('direct')
        if d is not None:
            if d['status'] != 'accepted':
                fid = G.classify_reject({'err': d.get('err'), 'status': d['status']}, True, target)
                if case['kind'] != 'malformed':
                    out.append(('known' if fid in known else 'violation', fid,
                                f'step {i} of the chain is accepted but the DIRECT migration from the empty database to '
                                f'the same schema is rejected: {(d.get("err") or {}).get("msg", "")[:140]}',
                                {'case': slim(case), 'step': i, 'observed': d}))
            elif d['cmp'] == 'eq':
                chain_fid = None
            elif d['cmp'] != 'eq':
                fid = classify_cmp(d['cmp'], case['chain'], i, st.get('script'))
                if fid is None and chain_fid in known:
                    fid = chain_fid       # residue: the chain already diverged at an earlier step by this known finding
                elif fid is not None:
                    chain_fid = fid
                out.append(('known' if fid in known else 'violation', fid,
                            f'path dependence: after step {i} the chain schema differs from the directly migrated one: '
                            + brief(d['cmp']),
                            {'case': slim(case), 'step': i, 'observed': d['cmp'],
                             'required': 'chain result == direct result (delta_schemas empty and structural dumps equal)'}))
        if is_empty_step and st.get('left_after_empty'):
            out.append(('violation', None,
                        'the final migration to the empty schema leaves objects behind: ' + ', '.join(st['left_after_empty'][:5]),
                        {'case': slim(case), 'step': i, 'observed': st['left_after_empty'], 'required': 'nothing user-defined left'}))
    return out


def brief(v):
    if not isinstance(v, dict):
        return str(v)
    parts = []
    if v.get('own_diff') is not None:
        parts.append('delta_schemas(chain, direct) = ' + (v['own_diff'][:120] or '<non-empty delta without DDL text>'))
    for d in v.get('dump_diff', [])[:2]:
        parts.append(' '.join(str(x)[:80] for x in d[:3]))
    if v.get('sdl_diff'):
        parts.append('SDL text differs: ' + ' | '.join(l.strip() for l in v['sdl_diff'] if l[:1] in '+-' and l[:3] not in ('+++', '---'))[:240])
    return '; '.join(parts)


def shrink_chain(case, fails, deadline):
    if case.get('kind') != 'chain':
        return None
    cur, _ = G.gen_chain_struct(lib.rng(case['tag']), maxlen=len(case['chain']) if len(case['chain']) > 4 else 4)
    if [G.render(s) for s in cur] != case['chain']:
        return None
    for _ in range(5):
        if time.time() > deadline:
            break
        cands = []
        # drop a whole intermediate step first
        for k in range(len(cur) - 1):
            if len(cur) > 2:
                t = cur[:k] + cur[k + 1:]
                cands.append((t, [G.render(s) for s in t]))
        for desc, fn in G._shrink_candidates(cur)[:40]:
            trial = [s.clone() for s in cur]
            fn(trial)
            try:
                for s in trial:
                    G.repair(s)
                texts = [G.render(s) for s in trial]
            except G.Dangling:
                continue
            if texts != [G.render(s) for s in cur]:
                cands.append((trial, texts))
        if not cands:
            break
        rs = G.run_e2e([{'id': k, 'chain': t, 'direct': True, 'to_empty': True, 'detail': False}
                        for k, (_, t) in enumerate(cands)])
        ok = [k for k, r in enumerate(rs) if fails(r)]
        if not ok:
            break
        k = min(ok, key=lambda k: sum(len(x) for x in cands[k][1]))
        cur = cands[k][0]
    return [G.render(s) for s in cur]


# ---------------------------------------------------------------- abstract chains for the extracted model

def gen_abstract_chain(rnd):
    """H-line: S1..Sn abstract schemas + matchings; the model migrates step by step and directly"""
    n = rnd.randint(2, 5)
    schemas, ms = [], []
    prev = []
    nxt = 1
    for _ in range(n):
        names = [x for x, _ in prev]
        keep = [x for x in names if rnd.random() < 0.7]
        m, objs = [], []
        cls_prev = dict(prev)
        cur_names = []
        for x in keep:
            if rnd.random() < 0.25:
                y = 100 + nxt
                nxt += 1
                m.append((x, y))
                cur_names.append((y, cls_prev[x]))
            else:
                if rnd.random() < 0.9:
                    m.append((x, x))
                    cur_names.append((x, cls_prev[x]))
                else:
                    cur_names.append((x, rnd.randint(1, 3)))      # same name, unmatched: drop + create
        for _ in range(rnd.randint(0, 3)):
            cur_names.append((100 + nxt, rnd.randint(1, 3)))
            nxt += 1
        rnd.shuffle(cur_names)
        objs = []
        for i, (x, c) in enumerate(cur_names):
            refs = [y for y, _ in cur_names[:i] if rnd.random() < 0.3]
            objs.append((x, c, rnd.randint(0, 9), refs))
        schemas.append(objs)
        ms.append(m)
        prev = [(x, c) for x, c, _, _ in objs]
    enc = lambda S: ';'.join(f'{x}:{c}:{d}:' + ','.join(map(str, r)) for x, c, d, r in S)
    return 'H|' + '|'.join(enc(s) for s in schemas) + '#' + '|'.join(','.join(f'{a}:{b}' for a, b in m) for m in ms)


def run(tier):
    rep = lib.Report(PROP, tier, 'proof')
    thorough = tier == 'thorough'
    pf = lib.proof_stage(rep, PROP, THEOREMS, extra_targets=EVO_TARGETS, thorough=thorough)
    hyg = lib.hygiene(['Evo'])
    if hyg:
        pf['ok'] = False
        pf['broken'] += ['hygiene: ' + h for h in hyg]
    exe, blog = lib.build_model('c02', 'ExtractC02.v', 'c02_main.ml', 'C02_ext')
    known = {k['id'] for k in lib.known_findings(PROP)} | {k['id'] for k in lib.known_findings('C02')}

    # ---- extracted model on abstract chains: every step reaches its target and equals the direct migration
    rnd = lib.rng('C10abs')
    hlines = [gen_abstract_chain(rnd) for _ in range(3000 if not thorough else 30000)]
    h_model = lib.run_model(exe, hlines) if exe else []
    h_bad = []
    for i, o in enumerate(h_model):
        for part in o.split(' / '):
            if not (part.startswith('ok eq=1 direct=1') or part == 'cycle'):
                h_bad.append(i)
                break

    # ---- Coq-internal evaluation of a sample of single steps (guards extraction)
    n_coq, coq_diff = 0, []
    if exe:
        from props import c02 as C02
        r2 = lib.rng('C10coq')
        plines = [G.gen_abstract(r2) for _ in range(60 if not thorough else 300)]
        pm = lib.run_model(exe, plines)
        outs = lib.coq_eval('C10', 'From Coq Require Import List NArith. Import ListNotations.\n'
                                   'From Verif.Evo Require Import Model.', [C02.coq_plan(l) for l in plines])
        n_coq = len(outs)
        for l, o, mres in zip(plines, outs, pm):
            code = C02.PLAN_CODE.get(o.strip().split()[0].replace('%nat', ''), '?')
            if not mres.startswith(code):
                coq_diff.append(l)

    # ---- end-to-end on the real code
    cases = gen_cases(tier)
    t0 = time.time()
    results = G.run_e2e(cases)
    e2e_s = time.time() - t0

    findings = []
    for c, r in zip(cases, results):
        findings += [(c, *f) for f in judge(c, r, known)]
    viol = [f for f in findings if f[1] in ('violation', 'harness')]
    kn = [f for f in findings if f[1] == 'known']
    kf = {k['id']: k for k in lib.known_findings(PROP) + lib.known_findings('C02')}
    by_fid = {}
    for c, kind, fid, what, payload in kn:
        by_fid.setdefault(fid, []).append(c['id'])
    for fid, ids in by_fid.items():
        rep.known_finding(fid, kf[fid].get('what', '')[:200] + f' ({len(ids)} generated chains hit it)')
    deadline = time.time() + (150 if not thorough else 600)
    seen = set()
    for c, kind, fid, what, payload in sorted(viol, key=lambda f: sum(len(x) for x in f[0]['chain'])):
        key = (fid, what[:50])
        if key in seen:
            continue
        seen.add(key)
        if fid:
            payload['proposed_known_finding'] = dict(G.PROPOSED.get(fid, {}), id=fid)
        if c.get('kind') == 'chain' and time.time() < deadline and len(seen) <= 2:
            def fails(r, c=c):
                return bool(judge_for_shrink(c, r))
            try:
                small = shrink_chain(c, fails, deadline)
                if small:
                    payload['shrunk_case'] = {'chain': small, 'direct': True, 'to_empty': True}
            except Exception as e:  # noqa
                payload['shrink_error'] = str(e)[:200]
        payload['how'] = ('echo \'<json of replay.case or replay.shrunk_case>\' | PYTHONPATH=' + lib.REPO +
                          ':/verif/harness /venv/bin/python harness/impl/c02_impl.py ' + lib.REPO + ' e2e')
        rep.violation(what, payload)
    if not viol:
        if exe is None:
            rep.violation('model does not build: ' + blog[-1500:], {'broken': 'extraction of theories/Evo/Model.v'}, False)
        elif h_bad:
            rep.violation('the extracted model violates C10 on an abstract chain (contradicts the theorems)',
                          {'broken': 'Evo.Model.migrate / extraction', 'case': hlines[h_bad[0]],
                           'model_result': h_model[h_bad[0]]}, False)
        if coq_diff:
            rep.violation('extracted model disagrees with vm_compute inside Coq',
                          {'broken': 'extraction', 'case': coq_diff[0]}, False)
        if not pf['ok']:
            rep.violation('proof obligations no longer check: ' + '; '.join(pf['broken'][:6]),
                          {'broken': pf['broken'], 'log_tail': pf['log'][-3000:]}, False)

    # ---- evidence
    from collections import Counter
    status, rejects, ops, feats, lens, direct = Counter(), Counter(), Counter(), Counter(), Counter(), Counter()
    distinct = set()
    n_steps = n_cmp = n_empty_ok = 0
    for c, r in zip(cases, results):
        lens[len(c['chain'])] += 1
        for o in c.get('meta', {}).get('ops', []):
            for x in o:
                ops[x] += 1
        for f in c.get('meta', {}).get('feat', []):
            feats[f] += 1
        acc = 0
        for i, st in enumerate(r.get('steps', [])):
            n_steps += 1
            status[st['status']] += 1
            if st['status'] in ('rejected', 'diff-error'):
                rejects[G.reject_class(st)] += 1
            if st['status'] == 'accepted':
                acc += 1
                if 'direct' in st:
                    n_cmp += 1
                    direct['direct:' + st['direct']['status'] + (':eq' if st['direct'].get('cmp') == 'eq' else ':DIFF'
                                                                  if st['direct']['status'] == 'accepted' else '')] += 1
                if c.get('to_empty') and i == len(c['chain']) and not st.get('left_after_empty'):
                    n_empty_ok += 1
        if acc >= 3 and c['kind'] in ('chain', 'chainsweep'):
            distinct.add(hashlib.sha256(json.dumps(c['chain']).encode()).hexdigest())
    rep.coverage.update({
        'evaluations': len(cases) + len(hlines),
        'distinct_nontrivial': len(distinct),
        'rule': 'end-to-end: generated chains S1..Sn (n=2..' + ('4' if not thorough else '6') + ') over the feature grammar of '
                'harness/props/c02_gen.py, each Si+1 = Si mutated by 1..3 operators (rename, retarget, single<->multi, '
                'required<->optional, add/drop base, move pointer to parent/child, add/drop link property, '
                'computed<->stored, abstract<->concrete, drop, add, decorations, modules), followed by a migration to the '
                'empty schema; chain vs direct = repo delta_schemas empty AND structural dump equal AND normalised SDL text equal; non-trivial = at least 3 accepted steps (so a later step touches the result of an earlier '
                'one); distinct = distinct chain text.  Plus abstract chains for the extracted model.',
        'exhaustive': False,
        'samples': [' ==> '.join(t[:160] for t in c['chain'])[:700] for c in cases if c['kind'] == 'chain'][:2],
        'traces_validated_against_impl': n_cmp,
        'chains': len(cases),
        'chain_lengths': dict(sorted(lens.items())),
        'chain_sweep_families': dict(Counter(c['meta']['family'] for c in cases if c['kind'] == 'chainsweep')),
        'sdl_text_compared': 'normalised: union members sorted; explicitly spelled default values (on target delete restrict, readonly := false, single/optional) removed',
        'steps_run': n_steps,
        'step_status': dict(status),
        'steps_not_accepted_classes': dict(rejects.most_common(20)),
        'chain_vs_direct': dict(direct),
        'chains_back_to_empty_clean': n_empty_ok,
        'mutation_operators': dict(ops.most_common()),
        'features': dict(feats.most_common()),
        'e2e_seconds': round(e2e_s, 1),
        'abstract_chains_model': len(hlines),
        'abstract_chain_failures': len(h_bad),
        'coq_vm_compute_cross_checked': n_coq,
        'monitor_failures': len([f for f in findings if f[1] == 'violation']),
        'known_finding_hits': dict(Counter(f[2] for f in findings if f[1] == 'known')),
        'trusted_base': [
            'Coq 8.16.1 kernel (coqc; coqchk in the thorough tier); vm_compute only in cases.v evaluation and Examples',
            'extraction: ExtrOcamlBasic only; OCaml 4.13.1; ocaml/conv.ml + c02_main.ml',
            'harness/props/c10.py + c02_gen.py + harness/impl/c02_impl.py (driver of the real code, dump, monitors)',
            'runtime substrate harness/rt (parser substitute, std schema bootstrap)',
            'NOT modelled: the real diff / ordering / apply code; exercised only by the end-to-end monitors',
        ],
    })
    rep.assumptions = [
        'abstract model as in C02 (one command per object; cyclic one-command plans are reported, not executed)',
        'chain steps that are not accepted (user input needed, invalid target) end the chain: the property quantifies '
        'over chains in which each step is accepted; migrations from / to the empty schema must always be accepted',
    ]
    rep.notes.append('level partial: C10 theorems hold for the abstract model for all chains and all plan choices; the '
                     'statement about the real engine is checked by differential monitors on generated chains.')
    return rep.finish()


def judge_for_shrink(case, res):
    """like judge, but on a shrunk chain of unknown length (texts not needed)"""
    steps = res.get('steps', [])
    n = len(steps) - 1
    out = []
    for i, st in enumerate(steps):
        if st['status'] in ('rejected', 'diff-error') and i == 0:
            out.append(('violation',))
        if st['status'] != 'accepted':
            if 'left_after_empty' not in st and i == len(steps) - 1 and st['status'] in ('rejected', 'diff-error') \
                    and st.get('is_empty_step'):
                out.append(('violation',))
            continue
        d = st.get('direct')
        if d is not None and (d['status'] != 'accepted' or d['cmp'] != 'eq'):
            out.append(('violation',))
        if st.get('left_after_empty'):
            out.append(('violation',))
    return out


def replay(path):
    d = json.load(open(path))
    pl = d['replay']
    case = pl.get('shrunk_case') or pl.get('case')
    if isinstance(case, str):
        exe, _ = lib.build_model('c02', 'ExtractC02.v', 'c02_main.ml', 'C02_ext')
        print('case :', case)
        print('model:', lib.run_model(exe, [case])[0] if exe else 'model does not build')
        return 0
    case = dict(case, id=0, detail=False, direct=True)
    case.setdefault('to_empty', True)
    for i, t in enumerate(case['chain']):
        print(f'--- S{i + 1}\n{t}')
    r = G.run_e2e([case])[0]
    for i, st in enumerate(r.get('steps', [])):
        print(f'step {i}: status={st["status"]} err={st.get("err")} direct={json.dumps(st.get("direct"))[:1200]} '
              f'left_after_empty={st.get("left_after_empty")}')
    return 0
