#!/bin/sh
# Build everything the checks need from files on disk only (offline).
set -e
cd "$(dirname "$0")/.."
mkdir -p cache evidence replays
exec ./harness/check --setup
