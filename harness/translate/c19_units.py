"""Translator for C19:  /repo source  ->  coq/theories/C19/Gen_Units.v   (fail-closed)

Recognised shapes (anything else raises TranslateError -- the tie is then broken and the
check reports it; the translator never guesses):

  edb/ir/statypes.py
    class ConfigMemory:
        PiB/TiB/GiB/MiB/KiB = <product of int literals>
        _parser = re.compile(r'''^(?P<num>\\d+)(?P<unit>A|B|...)$''', re.X)
        __init__:  isinstance(val,int) -> self._value = val ;  elif isinstance(val,str):
                   `if text == '0'` shortcut ; regex ; `if unit == 'S': self._value = num [* self.X]` chain
        to_str:    `if self._value >= self.X and self._value % self.X == 0: return f'{self._value // self.X}SFX'`
                   ladder, final `return f'{self._value}B'`
    class Duration:
        _parse_iso8601: `value += int(m['hours']) * C`, `... m['minutes'] ... * C`,
                   `value += int(m['seconds']) * C * secsign`, `ms = m['microseconds'][:K]`,
                   `ms = ms.ljust(K, '0')`
        to_iso8601: `divmod(abs(self._value), C)`, `divmod(seconds, C)`, `divmod(minutes, C)`,
                   `str(usecs).rjust(K, '0')`
    class <X>Enum(enum.StrEnum): NAME = "value" ...   and
    class <T>(EnumScalarType[<X>Enum], edgeql_type="..."):
  edb/server/config/ops.py
    MAX_CONFIG_SET_SIZE = <int>
    Operation._set_value: `if self.scope is qltypes.ConfigScope.X: source = '...'` chain
"""
from __future__ import annotations

import ast
import hashlib
import json
import os
import re


class TranslateError(Exception):
    pass


def _need(cond, msg):
    if not cond:
        raise TranslateError(msg)


def _int_product(node):
    if isinstance(node, ast.Constant) and isinstance(node.value, int) and not isinstance(node.value, bool):
        return node.value
    if isinstance(node, ast.BinOp) and isinstance(node.op, ast.Mult):
        return _int_product(node.left) * _int_product(node.right)
    raise TranslateError('not a product of int literals: ' + ast.dump(node)[:120])


def _cls(mod, name):
    for n in mod.body:
        if isinstance(n, ast.ClassDef) and n.name == name:
            return n
    raise TranslateError(f'class {name} not found')


def _fn(cls, name):
    for n in cls.body:
        if isinstance(n, ast.FunctionDef) and n.name == name:
            return n
    raise TranslateError(f'method {cls.name}.{name} not found')


def _is_self_attr(node, attr=None):
    return (isinstance(node, ast.Attribute) and isinstance(node.value, ast.Name)
            and node.value.id == 'self' and (attr is None or node.attr == attr))


def _body_text(fn):
    return '\n'.join(ast.unparse(s) for s in fn.body)


def _span(node):
    return [node.lineno, getattr(node, 'end_lineno', node.lineno)]


def translate_statypes(path):
    src = open(path, encoding='utf-8').read()
    mod = ast.parse(src)
    out = {}
    spans = {}

    # ---------------- ConfigMemory constants
    cm = _cls(mod, 'ConfigMemory')
    consts = {}
    for n in cm.body:
        if isinstance(n, ast.Assign) and len(n.targets) == 1 and isinstance(n.targets[0], ast.Name) \
                and n.targets[0].id.endswith('iB'):
            consts[n.targets[0].id] = _int_product(n.value)
            spans.setdefault('ConfigMemory.consts', []).append(_span(n))
    _need(consts, 'no ConfigMemory unit constants found')
    _need(all(v > 0 for v in consts.values()), 'non-positive unit constant')

    # ---------------- ConfigMemory._parser alternatives
    alts = None
    for n in cm.body:
        if isinstance(n, ast.Assign) and isinstance(n.targets[0], ast.Name) and n.targets[0].id == '_parser':
            _need(isinstance(n.value, ast.Call) and n.value.args
                  and isinstance(n.value.args[0], ast.Constant), '_parser shape')
            pat = ''.join(n.value.args[0].value.split())
            m = re.fullmatch(r'\^\(\?P<num>\\d\+\)\(\?P<unit>([A-Za-z|]+)\)\$', pat)
            _need(m is not None, 'ConfigMemory._parser pattern not recognised: ' + pat)
            alts = m.group(1).split('|')
            flags = n.value.args[1] if len(n.value.args) > 1 else None
            _need(flags is not None and isinstance(flags, ast.Attribute) and flags.attr == 'X',
                  '_parser flags must be exactly re.X')
            spans['ConfigMemory._parser'] = [_span(n)]
    _need(alts, 'ConfigMemory._parser not found')
    _need(len(set(alts)) == len(alts), 'duplicate unit alternatives')
    # regex alternation is ordered: an alternative that is a proper prefix of a later one
    # followed by `$` can never shadow it (the `$` forces a full match), so order is irrelevant

    # ---------------- ConfigMemory.__init__
    init = _fn(cm, '__init__')
    top = [s for s in init.body if isinstance(s, ast.If)]
    _need(len(top) == 1 and len(init.body) == 1, 'ConfigMemory.__init__: expected one if/elif/else')
    ifint = top[0]
    _need(ast.unparse(ifint.test) == 'isinstance(val, int)', '__init__ first test')
    _need(len(ifint.body) == 1 and ast.unparse(ifint.body[0]) == 'self._value = val', '__init__ int branch')
    _need(len(ifint.orelse) == 1 and isinstance(ifint.orelse[0], ast.If), '__init__ elif')
    ifstr = ifint.orelse[0]
    _need(ast.unparse(ifstr.test) == 'isinstance(val, str)', '__init__ second test')
    _need(len(ifstr.orelse) == 1 and isinstance(ifstr.orelse[0], ast.Raise)
          and 'ValueError' in ast.unparse(ifstr.orelse[0]), '__init__ else must raise ValueError')
    body = ifstr.body
    txt = [ast.unparse(s) for s in body]
    _need(txt[0] == 'text = val', '__init__ str branch [0]')
    _need(txt[1].replace('"', "'") == "if text == '0':\n    self._value = 0\n    return", "__init__ '0' shortcut: " + txt[1])
    _need(txt[2] == 'm = self._parser.match(text)', '__init__ match')
    _need(txt[3].startswith('if m is None:\n    raise errors.InvalidValueError('), '__init__ no-match raise')
    _need(txt[4] == "num = int(m.group('num'))", '__init__ num')
    _need(txt[5] == "unit = m.group('unit')", '__init__ unit')
    _need(len(body) == 7 and isinstance(body[6], ast.If), '__init__ unit chain')
    chain = body[6]
    table = {}
    while True:
        t = chain.test
        _need(isinstance(t, ast.Compare) and isinstance(t.left, ast.Name) and t.left.id == 'unit'
              and len(t.ops) == 1 and isinstance(t.ops[0], ast.Eq)
              and isinstance(t.comparators[0], ast.Constant), 'unit chain test')
        sfx = t.comparators[0].value
        _need(len(chain.body) == 1, 'unit chain body')
        b = ast.unparse(chain.body[0])
        if b == 'self._value = num':
            mult = 1
        else:
            m = re.fullmatch(r'self\._value = num \* self\.(\w+)', b)
            _need(m is not None and m.group(1) in consts, 'unit chain assignment: ' + b)
            mult = consts[m.group(1)]
        _need(sfx not in table, 'duplicate suffix in chain')
        table[sfx] = mult
        if len(chain.orelse) == 1 and isinstance(chain.orelse[0], ast.If):
            chain = chain.orelse[0]
        else:
            _need(len(chain.orelse) == 1 and isinstance(chain.orelse[0], ast.Raise), 'unit chain else')
            break
    _need(set(alts) <= set(table), 'regex accepts a unit the if-chain does not handle')
    out['mem_parse'] = [(s, table[s]) for s in alts]
    spans['ConfigMemory.__init__'] = [_span(init)]

    # ---------------- ConfigMemory.to_str
    ts = _fn(cm, 'to_str')
    ladder = []
    for s in ts.body[:-1]:
        _need(isinstance(s, ast.If) and not s.orelse and len(s.body) == 1, 'to_str ladder step')
        m = re.fullmatch(r'self\._value >= self\.(\w+) and self\._value % self\.(\w+) == 0', ast.unparse(s.test))
        _need(m is not None and m.group(1) == m.group(2) and m.group(1) in consts, 'to_str test: ' + ast.unparse(s.test))
        r = re.fullmatch(r"return f'\{self\._value // self\.(\w+)\}(\w+)'", ast.unparse(s.body[0]))
        _need(r is not None and r.group(1) == m.group(1), 'to_str return: ' + ast.unparse(s.body[0]))
        ladder.append((consts[m.group(1)], r.group(2)))
    r = re.fullmatch(r"return f'\{self\._value\}(\w+)'", ast.unparse(ts.body[-1]))
    _need(r is not None, 'to_str final return')
    out['mem_ladder'] = ladder
    out['mem_final'] = r.group(1)
    spans['ConfigMemory.to_str'] = [_span(ts)]

    # ---------------- Duration._parse_iso8601
    du = _cls(mod, 'Duration')
    pi = _fn(du, '_parse_iso8601')
    ptxt = ast.unparse(pi)
    m = re.search(r"value \+= int\(m\['hours'\]\) \* (\d+)\n", ptxt)
    _need(m, 'iso hours'); out['iso_h'] = int(m.group(1))
    m = re.search(r"value \+= int\(m\['minutes'\]\) \* (\d+)\n", ptxt)
    _need(m, 'iso minutes'); out['iso_m'] = int(m.group(1))
    m = re.search(r"value \+= int\(m\['seconds'\]\) \* (\d+) \* secsign\n", ptxt)
    _need(m, 'iso seconds'); out['iso_s'] = int(m.group(1))
    m = re.search(r"ms = m\['microseconds'\]\[:(\d+)\]\n\s*ms = ms\.ljust\((\d+), '0'\)\n\s*value \+= int\(ms\) \* secsign\n", ptxt)
    _need(m and m.group(1) == m.group(2), 'iso microseconds'); out['iso_frac'] = int(m.group(1))
    _need("secsign = -1 if m['secsign'] == '-' else +1" in ptxt, 'iso secsign')
    # the whole body must be exactly the recognised statements (nothing else may change `value`)
    canon = ast.unparse(ast.parse(
        "def _parse_iso8601(cls, input, /):\n"
        "    m = cls._iso_parser.match(input)\n"
        "    if not m:\n        return None\n"
        "    value = 0\n"
        f"    if m['hours']:\n        value += int(m['hours']) * {out['iso_h']}\n"
        f"    if m['minutes']:\n        value += int(m['minutes']) * {out['iso_m']}\n"
        "    secsign = -1 if m['secsign'] == '-' else +1\n"
        f"    if m['seconds']:\n        value += int(m['seconds']) * {out['iso_s']} * secsign\n"
        f"    if m['microseconds']:\n        ms = m['microseconds'][:{out['iso_frac']}]\n"
        f"        ms = ms.ljust({out['iso_frac']}, '0')\n        value += int(ms) * secsign\n"
        "    return value\n").body[0])
    _need(_body_text(pi) == _body_text(ast.parse(canon).body[0]),
          '_parse_iso8601 body differs from the recognised shape')
    spans['Duration._parse_iso8601'] = [_span(pi)]

    # _iso_parser regex text (whitespace removed) must be the recognised one
    for n in du.body:
        if isinstance(n, ast.Assign) and isinstance(n.targets[0], ast.Name) and n.targets[0].id == '_iso_parser':
            pat = ''.join(n.value.args[0].value.split())
            want = (r"^PT((?P<hours>(\+|\-)?\d+)H)?((?P<minutes>(\+|\-)?\d+)M)?"
                    r"(((?P<secsign>\+|\-)?(?P<seconds>\d+)(\.(?P<microseconds>\d+))?)S)?$")
            _need(pat == want, 'Duration._iso_parser pattern changed: ' + pat)
            _need(ast.unparse(n.value.args[1]) == 're.X', '_iso_parser flags')
            spans['Duration._iso_parser'] = [_span(n)]
            break
    else:
        raise TranslateError('_iso_parser not found')

    # ---------------- Duration.to_iso8601
    ti = _fn(du, 'to_iso8601')
    ttxt = ast.unparse(ti)
    m = re.search(r'seconds, usecs = divmod\(abs\(self\._value\), (\d+)\)\n\s*minutes, seconds = divmod\(seconds, (\d+)\)\n'
                  r'\s*hours, minutes = divmod\(minutes, (\d+)\)', ttxt)
    _need(m, 'to_iso8601 divmods')
    out['to_iso_us'], out['to_iso_sm'], out['to_iso_mh'] = map(int, m.groups())
    m = re.search(r"str\(usecs\)\.rjust\((\d+), '0'\)\}.\[:(\d+)\]\.rstrip\('0'\)", ttxt)
    _need(m and m.group(1) == m.group(2), 'to_iso8601 fraction formatting: ' + ttxt)
    out['to_iso_pad'] = int(m.group(1))
    canon = ast.unparse(ast.parse(
        "def to_iso8601(self):\n"
        "    neg = '-' if self._value < 0 else ''\n"
        f"    seconds, usecs = divmod(abs(self._value), {out['to_iso_us']})\n"
        f"    minutes, seconds = divmod(seconds, {out['to_iso_sm']})\n"
        f"    hours, minutes = divmod(minutes, {out['to_iso_mh']})\n"
        "    ret = ['PT']\n"
        "    if hours:\n        ret.append(f'{neg}{hours}H')\n"
        "    if minutes:\n        ret.append(f'{neg}{minutes}M')\n"
        "    if seconds or usecs:\n"
        "        if usecs:\n"
        "            ret.append(f'{neg}{seconds}.')\n"
        f"            ret.append(f\"{{str(usecs).rjust({out['to_iso_pad']}, '0')}}\"[:{out['to_iso_pad']}].rstrip('0'))\n"
        "        else:\n            ret.append(f'{neg}{seconds}')\n"
        "        ret.append('S')\n"
        "    if ret == ['PT']:\n        ret.append('0S')\n"
        "    return ''.join(ret)\n").body[0])
    _need(_body_text(ti) == _body_text(ast.parse(canon).body[0]),
          'to_iso8601 body differs from the recognised shape')
    spans['Duration.to_iso8601'] = [_span(ti)]

    # ---------------- enum scalar types
    enums = {}
    for n in mod.body:
        if isinstance(n, ast.ClassDef) and any(ast.unparse(b) == 'enum.StrEnum' for b in n.bases):
            members = []
            for s in n.body:
                _need(isinstance(s, ast.Assign) and isinstance(s.value, ast.Constant)
                      and isinstance(s.value.value, str), f'enum {n.name} member shape')
                members.append(s.value.value)
            enums[n.name] = members
    scal = {}
    for n in mod.body:
        if isinstance(n, ast.ClassDef) and n.bases:
            m = re.fullmatch(r'EnumScalarType\[(\w+)\]', ast.unparse(n.bases[0]))
            if m:
                _need(m.group(1) in enums, f'{n.name}: unknown enum {m.group(1)}')
                kw = {k.arg: k.value for k in n.keywords}
                _need('edgeql_type' in kw and isinstance(kw['edgeql_type'], ast.Constant), f'{n.name} edgeql_type')
                scal[n.name] = {'members': enums[m.group(1)], 'edgeql_type': kw['edgeql_type'].value}
                spans.setdefault('enum scalar types', []).append(_span(n))
    _need(scal, 'no EnumScalarType subclasses found')
    out['enum_scalars'] = scal
    return out, spans, hashlib.sha256(src.encode()).hexdigest()


def translate_ops(path):
    src = open(path, encoding='utf-8').read()
    mod = ast.parse(src)
    out = {}
    spans = {}
    for n in mod.body:
        if isinstance(n, ast.Assign) and isinstance(n.targets[0], ast.Name) \
                and n.targets[0].id == 'MAX_CONFIG_SET_SIZE':
            _need(isinstance(n.value, ast.Constant) and isinstance(n.value.value, int), 'MAX_CONFIG_SET_SIZE')
            out['max_set'] = n.value.value
            spans['MAX_CONFIG_SET_SIZE'] = [_span(n)]
    _need('max_set' in out, 'MAX_CONFIG_SET_SIZE not found')
    op = _cls(mod, 'Operation')
    sv = _fn(op, '_set_value')
    first = sv.body[0]
    _need(isinstance(first, ast.If) and ast.unparse(first.test) == 'source is None', '_set_value: if source is None')
    chain = first.body[0]
    srcs = {}
    while isinstance(chain, ast.If):
        m = re.fullmatch(r'self\.scope is qltypes\.ConfigScope\.(\w+)', ast.unparse(chain.test))
        _need(m is not None and len(chain.body) == 1, '_set_value scope chain')
        r = re.fullmatch(r"source = '([^']*)'", ast.unparse(chain.body[0]))
        _need(r is not None, '_set_value source assignment')
        srcs[m.group(1)] = r.group(1)
        if len(chain.orelse) == 1:
            chain = chain.orelse[0]
        else:
            break
    _need({'INSTANCE', 'DATABASE', 'SESSION'} <= set(srcs), '_set_value: scopes missing')
    out['sources'] = srcs
    spans['Operation._set_value'] = [_span(sv)]
    # size checks really use the constant
    _need(src.count('> MAX_CONFIG_SET_SIZE') == 2, 'expected exactly two `> MAX_CONFIG_SET_SIZE` checks')
    return out, spans, hashlib.sha256(src.encode()).hexdigest()


def _codes(s):
    return '[' + '; '.join(f'{ord(c)}%N' for c in s) + ']'


def render(st, op, repo):
    L = []
    A = L.append
    A('(* GENERATED by harness/translate/c19_units.py -- DO NOT EDIT.')
    A('   Source: edb/ir/statypes.py (ConfigMemory units / parser table / to_str ladder,')
    A('   Duration ISO-8601 multipliers) and edb/server/config/ops.py (MAX_CONFIG_SET_SIZE,')
    A('   default source names).  Regenerated from the working tree on every run. *)')
    A('From Coq Require Import List NArith ZArith.')
    A('Import ListNotations.')
    A('')
    A('(* unit suffix accepted by ConfigMemory._parser -> multiplier applied by __init__ *)')
    A('Definition g_mem_parse : list (list N * Z) :=')
    A('  [' + ';\n   '.join(f'({_codes(s)}, {m}%Z)' for s, m in st['mem_parse']) + '].')
    A('(* to_str: first (unit, suffix) with value >= unit and value mod unit = 0 *)')
    A('Definition g_mem_ladder : list (Z * list N) :=')
    A('  [' + ';\n   '.join(f'({u}%Z, {_codes(s)})' for u, s in st['mem_ladder']) + '].')
    A(f'Definition g_mem_final : list N := {_codes(st["mem_final"])}.')
    A('(* Duration._parse_iso8601 multipliers (microseconds) and fraction width *)')
    A(f'Definition g_iso_h : Z := {st["iso_h"]}%Z.')
    A(f'Definition g_iso_m : Z := {st["iso_m"]}%Z.')
    A(f'Definition g_iso_s : Z := {st["iso_s"]}%Z.')
    A(f'Definition g_iso_frac : nat := {st["iso_frac"]}.')
    A('(* Duration.to_iso8601 divisors and pad width *)')
    A(f'Definition g_to_iso_us : Z := {st["to_iso_us"]}%Z.')
    A(f'Definition g_to_iso_sm : Z := {st["to_iso_sm"]}%Z.')
    A(f'Definition g_to_iso_mh : Z := {st["to_iso_mh"]}%Z.')
    A(f'Definition g_to_iso_pad : nat := {st["to_iso_pad"]}.')
    A('(* ops.py *)')
    A(f'Definition g_max_set : nat := {op["max_set"]}.')
    A(f'Definition g_src_instance : list N := {_codes(op["sources"]["INSTANCE"])}.')
    A(f'Definition g_src_database : list N := {_codes(op["sources"]["DATABASE"])}.')
    A(f'Definition g_src_session : list N := {_codes(op["sources"]["SESSION"])}.')
    return '\n'.join(L) + '\n'


def run(repo, out_dir):
    """Regenerate Gen_Units.v (only rewritten when the text changes).  Returns a dict
    (tables + manifest).  Raises TranslateError when a source shape is not recognised."""
    p1 = os.path.join(repo, 'edb', 'ir', 'statypes.py')
    p2 = os.path.join(repo, 'edb', 'server', 'config', 'ops.py')
    st, sp1, h1 = translate_statypes(p1)
    op, sp2, h2 = translate_ops(p2)
    txt = render(st, op, repo)
    os.makedirs(out_dir, exist_ok=True)
    target = os.path.join(out_dir, 'Gen_Units.v')
    old = open(target).read() if os.path.exists(target) else None
    if old != txt:
        with open(target, 'w') as f:
            f.write(txt)
    manifest = {'generated': 'coq/theories/C19/Gen_Units.v',
                'sources': [{'file': 'edb/ir/statypes.py', 'sha256': h1, 'spans': sp1},
                            {'file': 'edb/server/config/ops.py', 'sha256': h2, 'spans': sp2}],
                'changed': old != txt}
    with open(os.path.join(out_dir, 'Gen_Units.manifest.json'), 'w') as f:
        json.dump(manifest, f, indent=1)
    return {'statypes': st, 'ops': op, 'manifest': manifest}


if __name__ == '__main__':
    import sys
    r = run(sys.argv[1] if len(sys.argv) > 1 else '/repo',
            os.path.join(os.path.dirname(os.path.dirname(os.path.dirname(os.path.abspath(__file__)))),
                         'coq', 'theories', 'C19'))
    print(json.dumps({k: r[k] for k in ('statypes', 'ops')}, indent=1))
