"""Translator  /repo source -> coq/theories/C14/Gen_Tags.v   (fail-closed)

Reads, with Python's `ast` (nothing is imported or executed from /repo):
  edb/server/compiler/sertypes.py : class DescriptorTag(bytes, enum.Enum)  NAME = b'\\xNN'
                                    class ShapePointerFlags(enum.IntFlag)  NAME = enum.auto()
                                    class CompoundOp(enum.IntEnum)         NAME = 1 << n
                                    the struct formats of the packers ('!l' '!L' '!H' '!B')
                                    the `>= (2, 0)` / `< (2, 0)` protocol comparisons
                                    the known-type names used (std::uuid, std::str, empty-tuple)
  edb/protocol/enums.py           : class Cardinality(enum.Enum)            NAME = 0xNN
  edb/schema/_types.py            : TYPE_IDS entries for the three names above
  edb/schema/objects.py           : TYPE_ID_NAMESPACE = uuidgen.UUID('...')
Any shape it does not recognise raises TranslateError (the check reports a broken tie).

Usage: python c14_tags.py <repo> <out.v>   (also writes <out>.manifest.json)
"""
from __future__ import annotations

import ast
import hashlib
import json
import os
import sys


class TranslateError(Exception):
    pass


def need(cond, msg):
    if not cond:
        raise TranslateError(msg)


def read(repo, rel):
    p = os.path.join(repo, rel)
    need(os.path.exists(p), f'{rel}: missing')
    src = open(p, encoding='utf-8').read()
    return src, ast.parse(src), hashlib.sha256(src.encode()).hexdigest()


def find_class(tree, name, rel):
    cs = [n for n in tree.body if isinstance(n, ast.ClassDef) and n.name == name]
    need(len(cs) == 1, f'{rel}: expected exactly one class {name}')
    return cs[0]


def base_names(c):
    out = []
    for b in c.bases:
        if isinstance(b, ast.Name):
            out.append(b.id)
        elif isinstance(b, ast.Attribute) and isinstance(b.value, ast.Name):
            out.append(f'{b.value.id}.{b.attr}')
        else:
            raise TranslateError(f'class {c.name}: unrecognised base')
    return out


def members(c, rel):
    out = []
    for st in c.body:
        if isinstance(st, ast.Expr) and isinstance(st.value, ast.Constant) and isinstance(st.value.value, str):
            continue      # docstring
        need(isinstance(st, ast.Assign) and len(st.targets) == 1 and isinstance(st.targets[0], ast.Name),
             f'{rel}: class {c.name}: member is not a plain NAME = value (line {st.lineno})')
        out.append((st.targets[0].id, st.value, st.lineno))
    return out


def translate(repo):
    man = {'sources': []}
    out = []

    rel = 'edb/server/compiler/sertypes.py'
    src, tree, sha = read(repo, rel)
    lines = []

    # ---- DescriptorTag
    c = find_class(tree, 'DescriptorTag', rel)
    need(base_names(c) == ['bytes', 'enum.Enum'], f'{rel}: DescriptorTag bases changed')
    tags = {}
    for name, v, ln in members(c, rel):
        need(isinstance(v, ast.Constant) and isinstance(v.value, bytes) and len(v.value) == 1,
             f'{rel}:{ln}: DescriptorTag.{name} is not a one-byte literal')
        tags[name] = v.value[0]
        lines.append(ln)
    want = ['SET', 'SHAPE', 'BASE_SCALAR', 'SCALAR', 'TUPLE', 'NAMEDTUPLE', 'ARRAY', 'ENUM',
            'INPUT_SHAPE', 'RANGE', 'OBJECT', 'COMPOUND', 'MULTIRANGE', 'SQL_ROW', 'ANNO_TYPENAME']
    need(sorted(tags) == sorted(want), f'{rel}: DescriptorTag members changed: {sorted(tags)}')
    need(len(set(tags.values())) == len(tags), f'{rel}: DescriptorTag values not distinct')
    for n in want:
        out.append(f'Definition TAG_{n} : N := {tags[n]}.')
    out.append('Definition ALL_TAGS : list N := [' + '; '.join(str(tags[n]) for n in want) + '].')

    # ---- the documented protocol: `uint8 tag = N;` of every descriptor struct in typedesc.rst
    import re as _re
    drel = 'docs/reference/reference/protocol/typedesc.rst'
    dp = os.path.join(repo, drel)
    need(os.path.exists(dp), f'{drel}: missing')
    dsrc = open(dp, encoding='utf-8').read()
    doc = {}
    for m in _re.finditer(r'struct\s+(\w+)\s*\{[^}]*?uint8\s+tag\s*=\s*(\d+)\s*;', dsrc, _re.S):
        doc[m.group(1)] = int(m.group(2))
    docmap = {'SetDescriptor': 'SET', 'ScalarTypeDescriptor': 'SCALAR', 'TupleTypeDescriptor': 'TUPLE',
              'NamedTupleTypeDescriptor': 'NAMEDTUPLE', 'ArrayTypeDescriptor': 'ARRAY',
              'EnumerationTypeDescriptor': 'ENUM', 'RangeTypeDescriptor': 'RANGE',
              'ObjectTypeDescriptor': 'OBJECT', 'CompoundTypeDescriptor': 'COMPOUND',
              'ObjectShapeDescriptor': 'SHAPE', 'InputShapeDescriptor': 'INPUT_SHAPE'}
    for dn, cnm in docmap.items():
        need(dn in doc, f'{drel}: no `uint8 tag = N` found for struct {dn}')
        need(doc[dn] == tags[cnm],
             f'{rel}: DescriptorTag.{cnm} = {tags[cnm]} but the documented protocol ({drel}) says {doc[dn]}')
    man['sources'].append({'file': drel, 'sha256': hashlib.sha256(dsrc.encode()).hexdigest(),
                           'structs': sorted(docmap)})

    # ---- ShapePointerFlags (enum.auto() on an IntFlag: 1, 2, 4, ... in definition order)
    c = find_class(tree, 'ShapePointerFlags', rel)
    need(base_names(c) == ['enum.IntFlag'], f'{rel}: ShapePointerFlags bases changed')
    fl = {}
    for k, (name, v, ln) in enumerate(members(c, rel)):
        need(isinstance(v, ast.Call) and isinstance(v.func, ast.Attribute) and v.func.attr == 'auto'
             and isinstance(v.func.value, ast.Name) and v.func.value.id == 'enum' and not v.args and not v.keywords,
             f'{rel}:{ln}: ShapePointerFlags.{name} is not enum.auto()')
        fl[name] = 1 << k
        lines.append(ln)
    need(list(fl) == ['IS_IMPLICIT', 'IS_LINKPROP', 'IS_LINK'], f'{rel}: ShapePointerFlags members changed')
    for n, v in fl.items():
        out.append(f'Definition FLAG_{n} : N := {v}.')

    # ---- CompoundOp
    c = find_class(tree, 'CompoundOp', rel)
    need(base_names(c) == ['enum.IntEnum'], f'{rel}: CompoundOp bases changed')
    ops = {}
    for name, v, ln in members(c, rel):
        need(isinstance(v, ast.BinOp) and isinstance(v.op, ast.LShift)
             and isinstance(v.left, ast.Constant) and isinstance(v.right, ast.Constant)
             and isinstance(v.left.value, int) and isinstance(v.right.value, int),
             f'{rel}:{ln}: CompoundOp.{name} is not  a << b')
        ops[name] = v.left.value << v.right.value
        lines.append(ln)
    need(list(ops) == ['UNION', 'INTERSECTION'], f'{rel}: CompoundOp members changed')
    for n, v in ops.items():
        out.append(f'Definition OP_{n} : N := {v}.')

    # ---- packers:  _xxx_packer = cast(..., struct.Struct('!X').pack)
    fmts = {}
    for st in tree.body:
        if (isinstance(st, ast.Assign) and len(st.targets) == 1 and isinstance(st.targets[0], ast.Name)
                and st.targets[0].id.endswith('_packer') and isinstance(st.value, ast.Call)):
            for sub in ast.walk(st.value):
                if (isinstance(sub, ast.Call) and isinstance(sub.func, ast.Attribute) and sub.func.attr == 'Struct'
                        and len(sub.args) == 1 and isinstance(sub.args[0], ast.Constant)):
                    fmts[st.targets[0].id] = sub.args[0].value
                    lines.append(st.lineno)
    wantf = {'_int32_packer': '!l', '_uint32_packer': '!L', '_uint16_packer': '!H', '_uint8_packer': '!B'}
    need(fmts == wantf, f'{rel}: packer struct formats changed: {fmts}')
    out.append('Definition W_U8 : N := 1.  Definition W_U16 : N := 2.  Definition W_U32 : N := 4.')

    # ---- protocol comparisons: every comparison of protocol_version is against (2, 0)
    cmpn = 0
    for n in ast.walk(tree):
        if isinstance(n, ast.Compare) and len(n.ops) == 1 and len(n.comparators) == 1:
            l = n.left
            isp = (isinstance(l, ast.Attribute) and l.attr == 'protocol_version') or \
                  (isinstance(l, ast.Name) and l.id == 'protocol_version')
            if isp:
                r = n.comparators[0]
                need(isinstance(n.ops[0], (ast.GtE, ast.Lt)) and isinstance(r, ast.Tuple) and len(r.elts) == 2
                     and all(isinstance(e, ast.Constant) for e in r.elts)
                     and (r.elts[0].value, r.elts[1].value) == (2, 0),
                     f'{rel}:{n.lineno}: protocol_version compared with something other than >= / < (2, 0)')
                cmpn += 1
    need(cmpn >= 20, f'{rel}: too few protocol_version comparisons recognised ({cmpn})')
    out.append('Definition PROTO_V2_MAJOR : N := 2.  Definition PROTO_V2_MINOR : N := 0.')
    out.append(f'(* {cmpn} comparisons of protocol_version recognised, all of the form >= (2, 0) or < (2, 0) *)')

    # ---- known type names used
    known = {}
    for st in tree.body:
        if (isinstance(st, ast.Assign) and len(st.targets) == 1 and isinstance(st.targets[0], ast.Name)
                and st.targets[0].id in ('EMPTY_TUPLE_ID', 'UUID_TYPE_ID', 'STR_TYPE_ID')):
            v = st.value
            need(isinstance(v, ast.Call) and isinstance(v.func, ast.Attribute) and v.func.attr == 'get_known_type_id'
                 and len(v.args) == 1 and isinstance(v.args[0], ast.Constant), f'{rel}:{st.lineno}: known id shape')
            known[st.targets[0].id] = v.args[0].value
            lines.append(st.lineno)
    need(known == {'EMPTY_TUPLE_ID': 'empty-tuple', 'UUID_TYPE_ID': 'std::uuid', 'STR_TYPE_ID': 'std::str'},
         f'{rel}: known type id constants changed: {known}')
    nullid = [st for st in tree.body if isinstance(st, ast.Assign) and isinstance(st.targets[0], ast.Name)
              and st.targets[0].id == 'NULL_TYPE_ID']
    need(len(nullid) == 1 and ast.unparse(nullid[0].value) == "uuidgen.UUID(b'\\x00' * 16)",
         f'{rel}: NULL_TYPE_ID shape changed')
    man['sources'].append({'file': rel, 'sha256': sha, 'lines': sorted(set(lines))})

    # ---- known ids
    rel = 'edb/schema/_types.py'
    src, tree, sha = read(repo, rel)
    ids = {}
    lines = []
    for st in tree.body:
        if isinstance(st, ast.Assign) and isinstance(st.targets[0], ast.Name) and st.targets[0].id == 'TYPE_IDS':
            need(isinstance(st.value, ast.Dict), f'{rel}: TYPE_IDS is not a dict literal')
            for k, v in zip(st.value.keys, st.value.values):
                need(isinstance(k, ast.Call) and len(k.args) == 1 and isinstance(k.args[0], ast.Constant)
                     and isinstance(v, ast.Call) and len(v.args) == 1 and isinstance(v.args[0], ast.Constant)
                     and isinstance(v.func, ast.Name) and v.func.id == 'UUID',
                     f'{rel}:{k.lineno}: TYPE_IDS entry shape')
                ids[k.args[0].value] = v.args[0].value
                if k.args[0].value in ('std::uuid', 'std::str', 'empty-tuple'):
                    lines.append(k.lineno)
    for nm, coq in (('std::uuid', 'ID_UUID'), ('std::str', 'ID_STR'), ('empty-tuple', 'ID_EMPTY_TUPLE')):
        need(nm in ids, f'{rel}: no TYPE_IDS entry for {nm}')
        hx = ids[nm].replace('-', '')
        need(len(hx) == 32, f'{rel}: bad uuid for {nm}')
        bs = bytes.fromhex(hx)
        out.append(f'Definition {coq} : list N := [' + '; '.join(str(b) for b in bs) + '].')
    man['sources'].append({'file': rel, 'sha256': sha, 'lines': lines})

    rel = 'edb/schema/objects.py'
    src, tree, sha = read(repo, rel)
    ns = None
    for st in tree.body:
        if isinstance(st, ast.Assign) and isinstance(st.targets[0], ast.Name) and st.targets[0].id == 'TYPE_ID_NAMESPACE':
            v = st.value
            need(isinstance(v, ast.Call) and len(v.args) == 1 and isinstance(v.args[0], ast.Constant)
                 and isinstance(v.args[0].value, str), f'{rel}: TYPE_ID_NAMESPACE shape')
            ns = v.args[0].value.replace('-', '')
            man['sources'].append({'file': rel, 'sha256': sha, 'lines': [st.lineno]})
    need(ns is not None and len(ns) == 32, f'{rel}: TYPE_ID_NAMESPACE not found')
    out.append('Definition NS_TYPE_ID : list N := [' + '; '.join(str(b) for b in bytes.fromhex(ns)) + '].')

    rel = 'edb/protocol/enums.py'
    src, tree, sha = read(repo, rel)
    c = find_class(tree, 'Cardinality', rel)
    need(base_names(c) == ['enum.Enum'], f'{rel}: Cardinality bases changed')
    cards = {}
    lines = []
    for name, v, ln in members(c, rel):
        need(isinstance(v, ast.Constant) and isinstance(v.value, int) and 0 <= v.value < 128,
             f'{rel}:{ln}: Cardinality.{name} is not a small int literal')
        cards[name] = v.value
        lines.append(ln)
    need(list(cards) == ['NO_RESULT', 'AT_MOST_ONE', 'ONE', 'MANY', 'AT_LEAST_ONE'],
         f'{rel}: Cardinality members changed')
    need(len(set(cards.values())) == 5, f'{rel}: Cardinality values not distinct')
    for n, v in cards.items():
        out.append(f'Definition CARD_{n} : N := {v}.')
    man['sources'].append({'file': rel, 'sha256': sha, 'lines': lines})

    # uuid5: sha1(namespace.bytes + name)[:16] with version 5
    rel = 'edb/common/uuidgen.py'
    src, tree, sha = read(repo, rel)
    fn = [n for n in tree.body if isinstance(n, ast.FunctionDef) and n.name == 'uuid5_bytes']
    need(len(fn) == 1, f'{rel}: uuid5_bytes missing')
    body = [s for s in fn[0].body if not (isinstance(s, ast.Expr) and isinstance(s.value, ast.Constant))]
    txt = [ast.unparse(s) for s in body]
    need(txt == ['hasher = hashlib.sha1(namespace.bytes)', 'hasher.update(name)',
                 'return UUID(uuid.UUID(bytes=hasher.digest()[:16], version=5).bytes)'],
         f'{rel}: uuid5_bytes body changed: {txt}')
    fn = [n for n in tree.body if isinstance(n, ast.FunctionDef) and n.name == 'uuid5']
    need(len(fn) == 1, f'{rel}: uuid5 missing')
    body = [ast.unparse(s) for s in fn[0].body if not (isinstance(s, ast.Expr) and isinstance(s.value, ast.Constant))]
    need(body == ["return uuid5_bytes(namespace, name.encode('utf-8'))"], f'{rel}: uuid5 body changed: {body}')
    man['sources'].append({'file': rel, 'sha256': sha, 'lines': [fn[0].lineno]})
    out.append('Definition UUID5_VERSION : N := 5.')

    hdr = ['(* GENERATED by harness/translate/c14_tags.py from the /repo working tree. DO NOT EDIT. *)',
           'From Coq Require Import List NArith.', 'Import ListNotations.', 'Open Scope N_scope.', '']
    return '\n'.join(hdr + out) + '\n', man


def main():
    repo, outp = sys.argv[1], sys.argv[2]
    try:
        txt, man = translate(repo)
    except TranslateError as e:
        print('TRANSLATE-ERROR: ' + str(e))
        return 3
    old = open(outp).read() if os.path.exists(outp) else None
    if old != txt:
        with open(outp, 'w') as f:
            f.write(txt)
    with open(outp[:-2] + '.manifest.json', 'w') as f:
        json.dump(man, f, indent=1)
    print('ok')
    return 0


if __name__ == '__main__':
    sys.exit(main())
