"""Translator for C12:  /repo/edb/lib/**/*.edgeql  ->  coq/theories/C12/Gen_StdSig.v  (fail-closed)

What is read (headers only; bodies are skipped except for three `SET` flags):

  CREATE [ABSTRACT] SCALAR TYPE <name> [EXTENDING <base>, ... | EXTENDING enum<...>] [{...}] ;
  CREATE [ABSTRACT] TYPE <name> [EXTENDING <base>, ...] [{...}] ;          (name + bases only)
  CREATE CAST FROM <type> TO <type> { ... [ALLOW IMPLICIT;] [ALLOW ASSIGNMENT;] ... } ;
  CREATE [ABSTRACT] (INFIX|PREFIX|POSTFIX|TERNARY) OPERATOR <name> ( <params> ) -> [SET OF|OPTIONAL] <type>
        [{ ... [SET recursive := true;] [SET derivative_of := '<name>';] ... }] ;
  CREATE FUNCTION <name> ( <params> ) -> [SET OF|OPTIONAL] <type> [{ ... }] ;
  <param> ::= [VARIADIC | NAMED ONLY] <ident> : [SET OF | OPTIONAL] <type> [= <default expr>]
  <type>  ::= <qualified name> | array< <type> > | range< .. > | multirange< .. >
            | tuple< [<ident>:] <type>, ... >

The file set is the one `edb.schema.std.get_std_module_text` loads for
`STD_SOURCES + TESTMODE_SOURCES` (parsed out of edb/schema/schema.py), without the `ext`
directory (extension packages are not part of the std schema).  Statement kinds outside
the list above must be in IGNORED_HEADS, otherwise TranslateError.  Nothing is guessed:
an unknown type name, an unexpected token in a header, an unbalanced bracket, ... all raise.

The result is additionally compared, on every run, with the signatures of the REAL schema
objects loaded by the real bootstrap code (harness/impl/c12_impl.py, `SIGDUMP`).
"""
from __future__ import annotations

import hashlib
import json
import os
import re


class TranslateError(Exception):
    pass


def _need(c, msg):
    if not c:
        raise TranslateError(msg)


# ----------------------------------------------------------------------------- tokens

_TOK = re.compile(r'''
    (?P<ws>\s+|\#[^\n]*)
  | (?P<dq>\$(?:[A-Za-z_][A-Za-z_0-9]*)?\$)
  | (?P<str>[rb]?'(?:[^'\\]|\\.)*'|[rb]?"(?:[^"\\]|\\.)*")
  | (?P<bq>`[^`]*`)
  | (?P<id>[A-Za-z_][A-Za-z_0-9]*)
  | (?P<num>[0-9][0-9_.eEn]*)
  | (?P<op>::|:=|->|\?\?|\?=|\?!=|!=|>=|<=|\+\+|//|[-+*/%^<>=(){}\[\],;:.@?!|&~])
''', re.X | re.S)


def tokenize(src, fname):
    toks = []
    i = 0
    n = len(src)
    line = 1
    while i < n:
        m = _TOK.match(src, i)
        _need(m is not None, f'{fname}:{line}: cannot tokenize at {src[i:i+30]!r}')
        kind = m.lastgroup
        text = m.group(0)
        if kind == 'dq':
            j = src.find(text, m.end())
            _need(j >= 0, f'{fname}:{line}: unterminated {text}')
            body = src[i:j + len(text)]
            toks.append(('str', body, line))
            line += body.count('\n')
            i = j + len(text)
            continue
        if kind != 'ws':
            toks.append((kind, text, line))
        line += text.count('\n')
        i = m.end()
    return toks


def split_statements(toks, fname):
    """top-level statements: tokens up to ';' at brace/paren depth 0"""
    out, cur, depth = [], [], 0
    for t in toks:
        k, s, ln = t
        if k == 'op' and s in '({[':
            depth += 1
        elif k == 'op' and s in ')}]':
            depth -= 1
            _need(depth >= 0, f'{fname}:{ln}: unbalanced {s}')
        if k == 'op' and s == ';' and depth == 0:
            if cur:
                out.append(cur)
            cur = []
        else:
            cur.append(t)
    _need(depth == 0, f'{fname}: unbalanced brackets at end of file')
    _need(not cur, f'{fname}: trailing tokens without ";" at line {cur[0][2] if cur else 0}')
    return out


IGNORED_HEADS = {
    ('CREATE', 'MODULE'), ('CREATE', 'ABSTRACT', 'CONSTRAINT'), ('CREATE', 'ABSTRACT', 'INDEX'),
    ('CREATE', 'ABSTRACT', 'ANNOTATION'), ('CREATE', 'ABSTRACT', 'INHERITABLE', 'ANNOTATION'),
    ('CREATE', 'ABSTRACT', 'LINK'), ('CREATE', 'ABSTRACT', 'PROPERTY'),
    ('CREATE', 'INDEX', 'MATCH'), ('ALTER', 'TYPE'), ('CREATE', 'ALIAS'), ('CREATE', 'GLOBAL'),
    ('CREATE', 'REQUIRED', 'GLOBAL'), ('ALTER', 'SCALAR', 'TYPE'), ('CREATE', 'PSEUDO', 'TYPE'),
    ('CREATE', 'PERMISSION'), ('ALTER', 'FUNCTION'), ('ALTER', 'ABSTRACT', 'ANNOTATION'),
    ('CREATE', 'EXTENSION', 'PACKAGE'),      # a package is only a template; nothing in it is applied
}

PSEUDO = {'anytype': 'anytype', 'anytuple': 'anytuple', 'anyobject': 'anyobject',
          'std::anytype': 'anytype', 'std::anytuple': 'anytuple', 'std::anyobject': 'anyobject'}


class P:
    """cursor over one statement's tokens"""

    def __init__(self, toks, fname):
        self.t = toks
        self.i = 0
        self.f = fname

    def where(self):
        ln = self.t[min(self.i, len(self.t) - 1)][2] if self.t else 0
        return f'{self.f}:{ln}'

    def peek(self, k=0):
        return self.t[self.i + k] if self.i + k < len(self.t) else ('eof', '', 0)

    def kw(self, k=0):
        t = self.peek(k)
        return t[1].upper() if t[0] == 'id' else None

    def next(self):
        t = self.peek()
        _need(t[0] != 'eof', f'{self.where()}: unexpected end of statement')
        self.i += 1
        return t

    def accept_kw(self, *words):
        for j, w in enumerate(words):
            if self.kw(j) != w:
                return False
        self.i += len(words)
        return True

    def expect_op(self, s):
        t = self.next()
        _need(t[0] == 'op' and t[1] == s, f'{self.where()}: expected {s!r}, got {t[1]!r}')

    def accept_op(self, s):
        t = self.peek()
        if t[0] == 'op' and t[1] == s:
            self.i += 1
            return True
        return False

    def ident(self):
        t = self.next()
        if t[0] == 'bq':
            return t[1][1:-1]
        _need(t[0] == 'id', f'{self.where()}: expected identifier, got {t[1]!r}')
        return t[1]

    def qname(self):
        parts = [self.ident()]
        while self.accept_op('::'):
            parts.append(self.ident())
        return '::'.join(parts)

    def skip_block(self):
        """skip a balanced {...}; returns the tokens inside"""
        self.expect_op('{')
        depth, start = 1, self.i
        while depth:
            t = self.next()
            if t[0] == 'op' and t[1] in '({[':
                depth += 1
            elif t[0] == 'op' and t[1] in ')}]':
                depth -= 1
        return self.t[start:self.i - 1]

    def at_end(self):
        return self.i >= len(self.t)


def parse_type(p: P):
    name = p.qname()
    low = name.lower()
    if low.startswith('std::') and low[5:] in ('array', 'range', 'multirange', 'tuple') and p.peek()[1] == '<':
        low = low[5:]
    if low in ('array', 'range', 'multirange') and p.peek()[1] == '<':
        p.expect_op('<')
        el = parse_type(p)
        p.expect_op('>')
        return [low, el]
    if low == 'tuple' and p.peek()[1] == '<':
        p.expect_op('<')
        els = []
        named = None
        while True:
            if p.peek()[0] in ('id', 'bq') and p.peek(1)[1] == ':' :
                nm = p.ident()
                p.expect_op(':')
                isnamed = True
            else:
                nm = str(len(els))
                isnamed = False
            _need(named in (None, isnamed), f'{p.where()}: mixed named/unnamed tuple')
            named = isnamed
            els.append([nm, parse_type(p)])
            if not p.accept_op(','):
                break
        p.expect_op('>')
        return ['tuple', bool(named), els]
    if name in PSEUDO:
        return ['pseudo', PSEUDO[name]]
    if '::' not in name:
        name = 'std::' + name
    return ['name', name]


def parse_typemod(p: P):
    if p.accept_kw('SET', 'OF'):
        return 'SetOfType'
    if p.accept_kw('OPTIONAL'):
        return 'OptionalType'
    return 'SingletonType'


def skip_default(p: P):
    depth = 0
    n = 0
    while True:
        t = p.peek()
        _need(t[0] != 'eof', f'{p.where()}: unterminated default expression')
        if t[0] == 'op' and t[1] in '({[<':
            depth += 1
        elif t[0] == 'op' and t[1] in ')}]>':
            if depth == 0:
                _need(t[1] == ')', f'{p.where()}: unexpected {t[1]!r} in default expression')
                break
            depth -= 1
        elif t[0] == 'op' and t[1] == ',' and depth == 0:
            break
        p.next()
        n += 1
    _need(n > 0, f'{p.where()}: empty default expression')


def parse_params(p: P):
    p.expect_op('(')
    params = []
    if p.accept_op(')'):
        return params
    while True:
        kind = 'PositionalParam'
        if p.accept_kw('VARIADIC'):
            kind = 'VariadicParam'
        elif p.accept_kw('NAMED', 'ONLY'):
            kind = 'NamedOnlyParam'
        name = p.ident()
        p.expect_op(':')
        tm = parse_typemod(p)
        ty = parse_type(p)
        has_default = False
        if p.accept_op('='):
            skip_default(p)
            has_default = True
        if kind == 'VariadicParam':
            ty = ['array', ty]      # the schema stores VARIADIC x: T as a parameter of type array<T>
        params.append({'name': name, 'kind': kind, 'typemod': tm, 'type': ty, 'default': has_default})
        if p.accept_op(','):
            if p.peek()[1] == ')':        # trailing comma
                p.expect_op(')')
                break
            continue
        p.expect_op(')')
        break
    return params


def body_flags(body, fname):
    """`SET recursive := true;` / `SET derivative_of := '...'` / ALLOW IMPLICIT / ALLOW ASSIGNMENT
    at depth 0 of the block"""
    flags = {'recursive': False, 'derivative_of': None, 'implicit': False, 'assignment': False}
    depth = 0
    i = 0
    n = len(body)
    while i < n:
        k, s, ln = body[i]
        if k == 'op' and s in '({[':
            depth += 1
        elif k == 'op' and s in ')}]':
            depth -= 1
        elif depth == 0 and k == 'id':
            u = s.upper()
            prev_is_start = i == 0 or (body[i - 1][0] == 'op' and body[i - 1][1] in (';', '}'))
            if prev_is_start and u == 'SET' and i + 3 < n and body[i + 2][1] == ':=':
                fld = body[i + 1][1].lower()
                val = body[i + 3]
                if fld == 'recursive':
                    _need(val[0] == 'id' and val[1].lower() in ('true', 'false'),
                          f'{fname}:{ln}: SET recursive := {val[1]!r}')
                    flags['recursive'] = val[1].lower() == 'true'
                elif fld == 'derivative_of':
                    _need(val[0] == 'str' and val[1][0] in '\'"', f'{fname}:{ln}: SET derivative_of := {val[1]!r}')
                    flags['derivative_of'] = val[1][1:-1]
            elif prev_is_start and u == 'ALLOW' and i + 1 < n:
                w = body[i + 1][1].upper()
                _need(w in ('IMPLICIT', 'ASSIGNMENT'), f'{fname}:{ln}: ALLOW {w}')
                _need(i + 2 >= n or body[i + 2][1] == ';', f'{fname}:{ln}: ALLOW {w} not followed by ";"')
                flags['implicit' if w == 'IMPLICIT' else 'assignment'] = True
        i += 1
    return flags


def std_source_files(repo):
    """the file list of get_std_module_text over STD_SOURCES + TESTMODE_SOURCES (minus ext)"""
    sch = open(os.path.join(repo, 'edb', 'schema', 'schema.py'), encoding='utf-8').read()
    names = []
    for var in ('STD_SOURCES', 'TESTMODE_SOURCES'):
        m = re.search(r'(?m)^' + var + r' = \(\n((?:\s+sn\.UnqualName\(\'[A-Za-z_]+\'\),\n)+)\)', sch)
        _need(m is not None, f'edb/schema/schema.py: {var} tuple not recognised')
        names += re.findall(r"UnqualName\('([A-Za-z_]+)'\)", m.group(1))
    _need('std' in names and '_testmode' in names, 'STD_SOURCES lacks std/_testmode')
    files = []
    lib = os.path.join(repo, 'edb', 'lib')
    for nm in names:
        if nm == 'ext':
            continue
        d = os.path.join(lib, nm)
        if os.path.isdir(d):
            fs = sorted(f for f in os.listdir(d) if f.endswith('.edgeql') and os.path.isfile(os.path.join(d, f)))
            files += [os.path.join(d, f) for f in fs]
        else:
            f = d + '.edgeql'
            _need(os.path.exists(f), f'std module file not found: {f}')
            files.append(f)
    return files


def c3(name, bases_of, memo):
    if name in memo:
        return memo[name]
    bases = bases_of[name]
    seqs = [list(c3(b, bases_of, memo)) for b in bases] + [list(bases)]
    res = [name]
    while any(seqs):
        seqs = [s for s in seqs if s]
        for s in seqs:
            cand = s[0]
            if not any(cand in t[1:] for t in seqs):
                break
        else:
            raise TranslateError(f'inconsistent hierarchy at {name}')
        res.append(cand)
        for s in seqs:
            if s and s[0] == cand:
                del s[0]
    memo[name] = res
    return res


def translate(repo):
    files = std_source_files(repo)
    scalars, objtypes, casts, opers, funcs = {}, {}, [], [], []
    manifest_src = []
    for path in files:
        rel = os.path.relpath(path, repo)
        src = open(path, encoding='utf-8').read()
        manifest_src.append({'file': rel, 'sha256': hashlib.sha256(src.encode()).hexdigest(),
                             'lines': src.count('\n')})
        toks = tokenize(src, rel)
        for st in split_statements(toks, rel):
            p = P(st, rel)
            head = []
            j = 0
            while p.kw(j) is not None and j < 4:
                head.append(p.kw(j))
                j += 1
            ln = st[0][2]
            h = tuple(head)
            if h[:3] == ('CREATE', 'SCALAR', 'TYPE') or h[:4] == ('CREATE', 'ABSTRACT', 'SCALAR', 'TYPE'):
                abstract = h[1] == 'ABSTRACT'
                p.i = 4 if abstract else 3
                name = p.qname()
                _need('::' in name, f'{rel}:{ln}: unqualified scalar name {name}')
                bases, enum = [], None
                if p.accept_kw('EXTENDING'):
                    while True:
                        b = p.qname()
                        if b.lower() in ('enum', 'std::enum') and p.accept_op('<'):
                            enum = []
                            while True:
                                enum.append(p.ident())
                                if not p.accept_op(','):
                                    break
                                if p.peek()[1] == '>':      # trailing comma
                                    break
                            p.expect_op('>')
                            bases.append('std::anyenum')
                        else:
                            bases.append(b if '::' in b else 'std::' + b)
                        if not p.accept_op(','):
                            break
                if not p.at_end():
                    p.skip_block()
                _need(p.at_end(), f'{p.where()}: trailing tokens after scalar type {name}')
                _need(name not in scalars, f'{rel}:{ln}: scalar {name} defined twice')
                scalars[name] = {'name': name, 'abstract': abstract, 'bases': bases, 'enum': enum}
            elif h[:2] == ('CREATE', 'TYPE') or h[:3] == ('CREATE', 'ABSTRACT', 'TYPE'):
                abstract = h[1] == 'ABSTRACT'
                p.i = 3 if abstract else 2
                name = p.qname()
                bases = []
                if p.accept_kw('EXTENDING'):
                    while True:
                        b = p.qname()
                        bases.append(b if '::' in b else 'std::' + b)
                        if not p.accept_op(','):
                            break
                if not p.at_end():
                    p.skip_block()
                _need(p.at_end(), f'{p.where()}: trailing tokens after type {name}')
                _need(name not in objtypes, f'{rel}:{ln}: type {name} defined twice')
                objtypes[name] = {'name': name, 'abstract': abstract, 'bases': bases}
            elif h[:3] == ('CREATE', 'CAST', 'FROM'):
                p.i = 3
                ft = parse_type(p)
                _need(p.accept_kw('TO'), f'{p.where()}: expected TO')
                tt = parse_type(p)
                fl = body_flags(p.skip_block(), rel)
                _need(p.at_end(), f'{p.where()}: trailing tokens after cast')
                casts.append({'from': ft, 'to': tt, 'implicit': fl['implicit'], 'assignment': fl['assignment'],
                              'line': [rel, ln]})
            elif 'OPERATOR' in h and h[0] == 'CREATE':
                abstract = h[1] == 'ABSTRACT'
                k = 2 if abstract else 1
                _need(h[k] in ('INFIX', 'PREFIX', 'POSTFIX', 'TERNARY') and h[k + 1] == 'OPERATOR',
                      f'{rel}:{ln}: operator header not recognised: {h}')
                p.i = k + 2
                name = p.qname()
                params = parse_params(p)
                p.expect_op('->')
                rtm = parse_typemod(p)
                rty = parse_type(p)
                fl = {'recursive': False, 'derivative_of': None}
                if not p.at_end():
                    fl = body_flags(p.skip_block(), rel)
                _need(p.at_end(), f'{p.where()}: trailing tokens after operator {name}')
                for prm in params:
                    _need(prm['kind'] == 'PositionalParam' and not prm['default'],
                          f'{rel}:{ln}: operator {name} with non-positional/default parameter')
                opers.append({'name': name if '::' in name else 'std::' + name, 'kind': h[k].capitalize(),
                              'abstract': abstract, 'params': params, 'ret_typemod': rtm, 'ret': rty,
                              'recursive': fl['recursive'], 'derivative_of': fl['derivative_of'],
                              'line': [rel, ln]})
            elif h[:2] == ('CREATE', 'FUNCTION'):
                p.i = 2
                name = p.qname()
                params = parse_params(p)
                p.expect_op('->')
                rtm = parse_typemod(p)
                rty = parse_type(p)
                if p.kw() == 'USING':
                    p.i = len(p.t)            # `... -> T USING (<expr>)` : body, not part of the header
                elif not p.at_end():
                    p.skip_block()
                _need(p.at_end(), f'{p.where()}: trailing tokens after function {name}')
                funcs.append({'name': name if '::' in name else 'std::' + name, 'params': params,
                              'ret_typemod': rtm, 'ret': rty, 'line': [rel, ln]})
            else:
                ok = any(h[:len(ig)] == ig for ig in IGNORED_HEADS)
                _need(ok, f'{rel}:{ln}: statement kind not recognised: {" ".join(h)}')

    # ---- resolve / validate names
    for s in scalars.values():
        for b in s['bases']:
            _need(b in scalars, f'scalar {s["name"]}: unknown base {b}')
    for o in objtypes.values():
        for b in o['bases']:
            _need(b in objtypes, f'type {o["name"]}: unknown base {b}')
    # implicit bases (edb/schema/scalars.py, objtypes.py defaults): a scalar without EXTENDING has no base;
    # an object type without bases gets std::BaseObject / std::Object -- only used for issubclass of
    # parameters, validated against the real schema by SIGDUMP
    sc_memo, ob_memo = {}, {}
    sb = {n: s['bases'] for n, s in scalars.items()}
    for n in scalars:
        scalars[n]['ancestors'] = c3(n, sb, sc_memo)[1:]

    def check_type(t, where):
        if t[0] == 'name':
            _need(t[1] in scalars or t[1] in objtypes, f'{where}: unknown type {t[1]}')
        elif t[0] in ('array', 'range', 'multirange'):
            check_type(t[1], where)
        elif t[0] == 'tuple':
            for _, e in t[2]:
                check_type(e, where)
    for c in casts:
        check_type(c['from'], f'cast at {c["line"]}')
        check_type(c['to'], f'cast at {c["line"]}')
    for f in opers + funcs:
        for prm in f['params']:
            check_type(prm['type'], f'{f["name"]} at {f["line"]}')
        check_type(f['ret'], f'{f["name"]} at {f["line"]}')
    # edb/schema/functions.py::canonical_param_sort: NAMED ONLY (sorted by name) first, then
    # positional in declaration order, then the VARIADIC one
    for f in opers + funcs:
        ps = f['params']
        named = sorted([q for q in ps if q['kind'] == 'NamedOnlyParam'], key=lambda q: q['name'])
        pos = [q for q in ps if q['kind'] == 'PositionalParam']
        var = [q for q in ps if q['kind'] == 'VariadicParam']
        _need(len(var) <= 1, f'{f["name"]}: more than one VARIADIC parameter')
        f['params'] = named + pos + var
    ob = {n: o['bases'] for n, o in objtypes.items()}
    for n in objtypes:
        objtypes[n]['ancestors'] = c3(n, ob, ob_memo)[1:]
    names = {o['name'] for o in opers}
    for o in opers:
        if o['derivative_of'] is not None:
            _need(o['derivative_of'] in names, f'{o["name"]}: derivative_of unknown operator {o["derivative_of"]}')
    return {'sources': manifest_src, 'scalars': scalars, 'objtypes': objtypes, 'casts': casts,
            'operators': opers, 'functions': funcs}


# ----------------------------------------------------------------------------- ids + Coq output

def assign_ids(sig):
    """stable numbering used by Gen_StdSig.v, the OCaml driver and the harness:
    scalars: sorted by name; object types: sorted by name (offset 0 in their own space);
    callable names: sorted; element/parameter names: sorted."""
    ids = {}
    ids['scalar'] = {n: i for i, n in enumerate(sorted(sig['scalars']))}
    ids['objtype'] = {n: i for i, n in enumerate(sorted(sig['objtypes']))}
    cn = sorted({o['name'] for o in sig['operators']} | {f['name'] for f in sig['functions']})
    ids['callable'] = {n: i for i, n in enumerate(cn)}
    pn = set()
    for f in sig['operators'] + sig['functions']:
        for prm in f['params']:
            pn.add(prm['name'])

    def walk(t):
        if t[0] == 'tuple':
            for nm, e in t[2]:
                pn.add(nm)
                walk(e)
        elif t[0] in ('array', 'range', 'multirange'):
            walk(t[1])
    for f in sig['operators'] + sig['functions']:
        for prm in f['params']:
            walk(prm['type'])
        walk(f['ret'])
    for c in sig['casts']:
        walk(c['from'])
        walk(c['to'])
    # element names "0".."31" always get ids 0..31 so that unnamed tuples are index-named
    base = [str(i) for i in range(32)]
    rest = sorted(pn - set(base))
    ids['name'] = {n: i for i, n in enumerate(base + rest)}
    return ids


def coq_ty(t, ids):
    if t[0] == 'pseudo':
        return {'anytype': 'TAny', 'anytuple': 'TAnyTuple', 'anyobject': 'TAnyObject'}[t[1]]
    if t[0] == 'name':
        if t[1] in ids['scalar']:
            return f'(TS {ids["scalar"][t[1]]})'
        return f'(TObj {ids["objtype"][t[1]]})'
    if t[0] == 'array':
        return f'(TArr {coq_ty(t[1], ids)})'
    if t[0] == 'range':
        return f'(TRng {coq_ty(t[1], ids)})'
    if t[0] == 'multirange':
        return f'(TMRng {coq_ty(t[1], ids)})'
    if t[0] == 'tuple':
        els = '; '.join(f'({ids["name"][nm]}, {coq_ty(e, ids)})' for nm, e in t[2])
        return f'(TTup {"true" if t[1] else "false"} [{els}])'
    raise TranslateError(f'bad type {t}')


def _b(x):
    return 'true' if x else 'false'


TM = {'SingletonType': 'TmOne', 'OptionalType': 'TmOpt', 'SetOfType': 'TmSet'}
PK = {'PositionalParam': 'PkPos', 'VariadicParam': 'PkVar', 'NamedOnlyParam': 'PkNamed'}


def emit_coq(sig, ids):
    L = []
    A = L.append
    A('(* GENERATED by harness/translate/c12_stdsig.py -- DO NOT EDIT.')
    A('   Source: the CREATE SCALAR TYPE / TYPE / CAST / OPERATOR / FUNCTION headers of')
    A('   edb/lib/**/*.edgeql (std library).  Regenerated from the working tree on every run.')
    A('   Numbering: Gen_StdSig.manifest.json. *)')
    A('From Coq Require Import List NArith.')
    A('From Verif.C12 Require Import Model.')
    A('Import ListNotations.')
    A('Local Open Scope N_scope.')
    A('')
    A('(* scalar id, abstract, enum, ancestors in C3 order (self excluded) *)')
    A('Definition g_scalars : list scalar_def :=')
    rows = []
    for n in sorted(sig['scalars']):
        s = sig['scalars'][n]
        anc = '; '.join(str(ids['scalar'][a]) for a in s['ancestors'])
        rows.append(f'  mk_scalar {ids["scalar"][n]} {_b(s["abstract"])} {_b(s["enum"] is not None)} [{anc}] (* {n} *)')
    A('  [' + ';\n   '.join(r.strip() for r in rows) + '].')
    A('')
    A('(* object types of the std library that occur in signatures: id, ancestors (self excluded) *)')
    ob = {n: o['bases'] for n, o in sig['objtypes'].items()}
    memo = {}
    rows = []
    for n in sorted(sig['objtypes']):
        anc = '; '.join(str(ids['objtype'][a]) for a in c3(n, ob, memo)[1:])
        rows.append(f'mk_objtype {ids["objtype"][n]} [{anc}] (* {n} *)')
    A('Definition g_objtypes : list objtype_def :=\n  [' + ';\n   '.join(rows) + '].')
    A('')
    A('(* from, to, ALLOW IMPLICIT, ALLOW ASSIGNMENT *)')
    rows = [f'mk_cast {coq_ty(c["from"], ids)} {coq_ty(c["to"], ids)} {_b(c["implicit"])} {_b(c["assignment"])}'
            for c in sig['casts']]
    A('Definition g_casts : list cast_def :=\n  [' + ';\n   '.join(rows) + '].')
    A('')

    def params(ps):
        return '[' + '; '.join(
            f'mk_param {ids["name"][q["name"]]} {PK[q["kind"]]} {TM[q["typemod"]]} {coq_ty(q["type"], ids)} {_b(q["default"])}'
            for q in ps) + ']'
    A('(* overload id (position), name id, is_operator, abstract, recursive, derivative_of, params, return typemod, return type *)')
    rows = []
    ov = 0
    for o in sig['operators']:
        d = 'None' if o['derivative_of'] is None else f'(Some {ids["callable"][o["derivative_of"]]})'
        rows.append(f'mk_callable {ov} {ids["callable"][o["name"]]} true {_b(o["abstract"])} {_b(o["recursive"])} {d} '
                    f'{params(o["params"])} {TM[o["ret_typemod"]]} {coq_ty(o["ret"], ids)} (* {o["name"]} *)')
        ov += 1
    for f in sig['functions']:
        rows.append(f'mk_callable {ov} {ids["callable"][f["name"]]} false false false None '
                    f'{params(f["params"])} {TM[f["ret_typemod"]]} {coq_ty(f["ret"], ids)} (* {f["name"]} *)')
        ov += 1
    CH = 32
    chunks = [rows[i:i + CH] for i in range(0, len(rows), CH)]
    for ci, ch in enumerate(chunks):
        A(f'Definition g_callables_{ci} : list callable :=\n  [' + ';\n   '.join(ch) + '].')
    A('Definition g_callables : list callable :=\n  ' +
      ' ++ '.join(f'g_callables_{ci}' for ci in range(len(chunks))) + '.')
    A('')
    for nm in ('std::int16', 'std::int32', 'std::int64', 'std::float32', 'std::float64', 'std::bigint',
               'std::decimal', 'std::str', 'std::bool', 'std::bytes', 'std::uuid', 'std::json',
               'std::datetime', 'std::duration', 'std::anyscalar', 'std::anyreal', 'std::anyint',
               'std::anyfloat', 'std::anyenum', 'std::anypoint', 'std::anydiscrete', 'std::anycontiguous',
               'std::cal::local_date', 'std::cal::local_datetime'):
        _need(nm in ids['scalar'], f'well-known scalar {nm} missing from the std library')
        A(f'Definition s_{nm.split("::")[-1]} : N := {ids["scalar"][nm]}.')
    for nm, c in (('UNION', 'std::UNION'), ('COALESCE', 'std::??'), ('IF', 'std::IF'), ('PLUS', 'std::+'),
                  ('DIV', 'std::/'), ('CONCAT', 'std::++'), ('EQ', 'std::='), ('array_agg', 'std::array_agg'),
                  ('array_unpack', 'std::array_unpack'), ('min', 'std::min'), ('sum', 'std::sum'),
                  ('DISTINCT', 'std::DISTINCT'), ('IN', 'std::IN'), ('range', 'std::range'),
                  ('multirange', 'std::multirange'), ('count', 'std::count'), ('EXISTS', 'std::EXISTS')):
        _need(c in ids['callable'], f'well-known callable {c} missing from the std library')
        A(f'Definition c_{nm} : N := {ids["callable"][c]}.')
    A('')
    A('Definition std_sig : sig :=')
    A('  mk_sig g_scalars g_objtypes g_casts g_callables')
    A('         s_json s_uuid s_str s_bytes c_UNION c_COALESCE c_IF.')
    return '\n'.join(L) + '\n'


def generate(repo, coq_dir):
    """returns (manifest dict).  Writes Gen_StdSig.v / .manifest.json only when they change."""
    sig = translate(repo)
    ids = assign_ids(sig)
    txt = emit_coq(sig, ids)
    man = {'generator': 'harness/translate/c12_stdsig.py', 'sources': sig['sources'], 'ids': ids,
           'counts': {k: len(sig[k]) for k in ('scalars', 'objtypes', 'casts', 'operators', 'functions')},
           'sig': sig}
    for name, content in (('Gen_StdSig.v', txt), ('Gen_StdSig.manifest.json', json.dumps(man, indent=0, sort_keys=True))):
        path = os.path.join(coq_dir, name)
        old = open(path, encoding='utf-8').read() if os.path.exists(path) else None
        if old != content:
            tmp = path + f'.tmp{os.getpid()}'
            with open(tmp, 'w', encoding='utf-8') as f:
                f.write(content)
            os.replace(tmp, path)
    return man


if __name__ == '__main__':
    import sys
    repo = sys.argv[1] if len(sys.argv) > 1 else '/repo'
    out = sys.argv[2] if len(sys.argv) > 2 else os.path.join(os.path.dirname(os.path.dirname(os.path.dirname(
        os.path.abspath(__file__)))), 'coq', 'theories', 'C12')
    os.makedirs(out, exist_ok=True)
    m = generate(repo, out)
    print(json.dumps(m['counts']))
