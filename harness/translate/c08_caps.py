"""Translator for C08:  /repo source  ->  coq/theories/C08/Gen_Caps.v   (fail-closed)

Recognised shapes (anything else raises TranslateError -- the tie is then broken and the check
reports it; the translator never guesses):

  edb/server/compiler/enums.py
      class Capability(enum.IntFlag):  NAME = 1 << n | NAME = <int literal> | NAME = (A | B | ...)
  edb/server/compiler/compiler.py
      def _compile_dispatch_ql(ctx, ql, ...):   one `if / elif isinstance(ql, qlast.T) ... else` chain;
          every branch is straight-line code over
              query = <call>(...)                         (opaque; the callee name is recorded)
              capability|caps = <capexpr>  /  capability|caps |= <capexpr>
              if <recognised condition>: ... [elif ...] [else: ...]
              assert isinstance(ql, (qlast.Query, qlast.Command))     (else branch only)
              return (<anything>, <capexpr or the variable>)
          <capexpr> ::= enums.Capability.NAME | enums.Capability(0) | <capexpr> | <capexpr>
          recognised conditions (exact text after ast.unparse): see CONDS below.
      def _compile_ql_query(...):  the single `has_dml=bool(ir.dml_exprs)` keyword of dbstate.Query(...)
  edb/server/compiler/dbstate.py
      class QueryUnitGroup:  `capabilities: enums.Capability = enums.Capability(0)` and, in append(),
          exactly one statement touching self.capabilities:  `self.capabilities <op> query_unit.capabilities`
          with <op> one of  |=  &=  =
  edb/edgeql/ast.py
      the class hierarchy (ClassDef bases that are plain names) and SessionCommand_tuple = (A, B, ...)
  edb/edgeql/compiler/stmt.py
      compile_InsertQuery / compile_UpdateQuery / compile_DeleteQuery:  body starts with
          if ctx.disallow_dml: raise ...          (optional -> chk_disallow_X)
          _protect_expr(...)                      (optional, ignored)
          ctx.env.dml_exprs.append(expr)          (function level, unconditional -> rec_X = true;
                                                   no append anywhere in the function -> rec_X = false;
                                                   an append anywhere else -> fail closed)
  edb/edgeql/compiler/func.py   compile_FunctionCall:
          `if func.get_volatility(env.schema) == ft.Volatility.Modifying:` whose body starts with
              `ctx.env.dml_exprs.append(expr)`                     -> rec_call_modifying
          the inlining test  language == EdgeQL and (volatility == Modifying or is_inlined)
"""
from __future__ import annotations

import ast
import hashlib
import json
import os


class TranslateError(Exception):
    pass


def _need(cond, msg):
    if not cond:
        raise TranslateError(msg)


def _read(path):
    src = open(path, encoding='utf-8').read()
    return src, ast.parse(src), hashlib.sha256(src.encode()).hexdigest()


def _fn(mod, name, cls=None):
    body = mod.body
    if cls is not None:
        for n in mod.body:
            if isinstance(n, ast.ClassDef) and n.name == cls:
                body = n.body
                break
        else:
            raise TranslateError(f'class {cls} not found')
    found = [n for n in body if isinstance(n, ast.FunctionDef) and n.name == name]
    _need(len(found) == 1, f'function {name}: {len(found)} definitions')
    return found[0]


def _span(n):
    return [n.lineno, getattr(n, 'end_lineno', n.lineno)]


# ------------------------------------------------------------------ enums.py
def translate_enums(path):
    src, mod, sha = _read(path)
    cls = [n for n in mod.body if isinstance(n, ast.ClassDef) and n.name == 'Capability']
    _need(len(cls) == 1, 'class Capability not found')
    cls = cls[0]
    _need(len(cls.bases) == 1 and ast.unparse(cls.bases[0]) == 'enum.IntFlag', 'Capability is not an enum.IntFlag')
    members = {}
    order = []

    def val(e):
        if isinstance(e, ast.Constant) and isinstance(e.value, int) and not isinstance(e.value, bool):
            return e.value
        if isinstance(e, ast.BinOp) and isinstance(e.op, ast.LShift):
            a, b = val(e.left), val(e.right)
            _need(0 <= b < 64, 'shift out of range')
            return a << b
        if isinstance(e, ast.BinOp) and isinstance(e.op, ast.BitOr):
            return val(e.left) | val(e.right)
        if isinstance(e, ast.Name):
            _need(e.id in members, f'Capability member {e.id} used before definition')
            return members[e.id]
        raise TranslateError('Capability member value not recognised: ' + ast.unparse(e))

    for st in cls.body:
        if isinstance(st, ast.Assign):
            _need(len(st.targets) == 1 and isinstance(st.targets[0], ast.Name), 'odd assignment in Capability')
            nm = st.targets[0].id
            _need(nm not in members, f'duplicate member {nm}')
            members[nm] = val(st.value)
            order.append(nm)
        elif isinstance(st, ast.FunctionDef):
            continue
        elif isinstance(st, ast.Expr) and isinstance(st.value, ast.Constant):
            continue
        else:
            raise TranslateError('unexpected statement in class Capability: ' + ast.unparse(st)[:80])
    for nm in ('MODIFICATIONS', 'SESSION_CONFIG', 'TRANSACTION', 'DDL', 'PERSISTENT_CONFIG', 'ALL', 'WRITE', 'NONE'):
        _need(nm in members, f'Capability.{nm} missing')
    return {'members': members, 'order': order}, {'Capability': _span(cls)}, sha


# ------------------------------------------------------------------ ast.py hierarchy
def translate_qlast(path):
    src, mod, sha = _read(path)
    bases = {}
    order = []
    tup = None
    for n in mod.body:
        if isinstance(n, ast.ClassDef):
            bs = []
            for b in n.bases:
                if isinstance(b, ast.Name):
                    bs.append(b.id)
                elif isinstance(b, ast.Attribute):
                    bs.append(ast.unparse(b))       # external base (ast.AST, s_enum.StrEnum ...)
                elif isinstance(b, ast.Subscript):
                    bs.append(ast.unparse(b.value))
                else:
                    raise TranslateError(f'class {n.name}: base not recognised: {ast.unparse(b)}')
            _need(n.name not in bases, f'class {n.name} defined twice')
            bases[n.name] = bs
            order.append(n.name)
        elif (isinstance(n, ast.Assign) and len(n.targets) == 1 and isinstance(n.targets[0], ast.Name)
              and n.targets[0].id == 'SessionCommand_tuple'):
            _need(isinstance(n.value, ast.Tuple) and all(isinstance(e, ast.Name) for e in n.value.elts),
                  'SessionCommand_tuple is not a tuple of names')
            tup = [e.id for e in n.value.elts]
    _need(tup is not None, 'SessionCommand_tuple not found')

    anc = {}

    def ancestors(c, stack=()):
        if c in anc:
            return anc[c]
        _need(c not in stack, 'cyclic class hierarchy')
        out = {c}
        for b in bases.get(c, []):
            if b in bases:
                out |= ancestors(b, stack + (c,))
        anc[c] = out
        return out
    for c in order:
        ancestors(c)
    return {'bases': bases, 'order': order, 'anc': anc, 'session_tuple': tup}, sha


# ------------------------------------------------------------------ _compile_dispatch_ql
CONDS = {
    'isinstance(query, dbstate.MigrationControlQuery)': 'Cq_MigrationControlQuery',
    'query.tx_action': 'Cq_tx_action',
    'isinstance(query, dbstate.DDLQuery)': 'Cq_DDLQuery',
    'ql.scope is qltypes.ConfigScope.SESSION': 'Cscope_SESSION',
    'ql.scope is qltypes.ConfigScope.GLOBAL': 'Cscope_GLOBAL',
    'ctx.notebook': 'Cnotebook',
    'isinstance(query, (dbstate.Query, dbstate.SimpleQuery)) and query.has_dml': 'Chas_dml',
}
COND_ORDER = ['Cq_MigrationControlQuery', 'Cq_tx_action', 'Cq_DDLQuery', 'Cscope_SESSION', 'Cscope_GLOBAL',
              'Cnotebook', 'Chas_dml']
CAPVARS = ('capability', 'caps')


def _capexpr(e, members):
    s = ast.unparse(e)
    if s == 'enums.Capability(0)':
        return 0
    if (isinstance(e, ast.Attribute) and ast.unparse(e.value) == 'enums.Capability'):
        _need(e.attr in members, f'unknown capability {e.attr}')
        return members[e.attr]
    if isinstance(e, ast.BinOp) and isinstance(e.op, ast.BitOr):
        return _capexpr(e.left, members) | _capexpr(e.right, members)
    raise TranslateError('capability expression not recognised: ' + s)


def _sym(stmts, env, members, callees, is_else):
    """symbolic execution of straight-line branch code -> decision tree ('ret', n) | ('ite', c, a, b)"""
    if not stmts:
        raise TranslateError('a dispatch branch can fall off its end without returning')
    st, rest = stmts[0], stmts[1:]
    if isinstance(st, ast.Return):
        v = st.value
        _need(isinstance(v, ast.Tuple) and len(v.elts) == 2, 'return value is not a 2-tuple: ' + ast.unparse(st))
        c = v.elts[1]
        if isinstance(v.elts[0], ast.Call):
            callees.append(ast.unparse(v.elts[0].func))
        if isinstance(c, ast.Name):
            _need(c.id in CAPVARS and env.get(c.id) is not None, f'returned variable {c.id} is not a tracked capability')
            return ('ret', env[c.id])
        return ('ret', _capexpr(c, members))
    if isinstance(st, ast.Assign):
        _need(len(st.targets) == 1 and isinstance(st.targets[0], ast.Name), 'assignment not recognised: ' + ast.unparse(st))
        nm = st.targets[0].id
        if nm in CAPVARS:
            env = dict(env)
            env[nm] = _capexpr(st.value, members)
            return _sym(rest, env, members, callees, is_else)
        _need(nm == 'query' and isinstance(st.value, ast.Call), 'assignment not recognised: ' + ast.unparse(st)[:80])
        callees.append(ast.unparse(st.value.func))
        return _sym(rest, env, members, callees, is_else)
    if isinstance(st, ast.AugAssign):
        _need(isinstance(st.target, ast.Name) and st.target.id in CAPVARS and isinstance(st.op, ast.BitOr),
              'augmented assignment not recognised: ' + ast.unparse(st))
        _need(env.get(st.target.id) is not None, 'capability variable used before assignment')
        env = dict(env)
        env[st.target.id] = env[st.target.id] | _capexpr(st.value, members)
        return _sym(rest, env, members, callees, is_else)
    if isinstance(st, ast.If):
        t = ast.unparse(st.test)
        _need(t in CONDS, 'condition not recognised: ' + t)
        a = _sym(list(st.body) + rest, env, members, callees, is_else)
        b = _sym(list(st.orelse) + rest, env, members, callees, is_else)
        return ('ite', CONDS[t], a, b)
    if isinstance(st, ast.Assert):
        _need(is_else and ast.unparse(st.test) == 'isinstance(ql, (qlast.Query, qlast.Command))',
              'assert not recognised: ' + ast.unparse(st))
        return _sym(rest, env, members, callees, is_else)
    raise TranslateError('statement not recognised in a dispatch branch: ' + ast.unparse(st)[:100])


def translate_dispatch(path, members, ql):
    src, mod, sha = _read(path)
    fn = _fn(mod, '_compile_dispatch_ql')
    body = [s for s in fn.body if not (isinstance(s, ast.Expr) and isinstance(s.value, ast.Constant))]
    _need(len(body) == 1 and isinstance(body[0], ast.If), '_compile_dispatch_ql is not a single if/elif chain')
    branches = []
    node = body[0]
    while True:
        t = node.test
        _need(isinstance(t, ast.Call) and ast.unparse(t.func) == 'isinstance' and len(t.args) == 2
              and ast.unparse(t.args[0]) == 'ql', 'dispatch test is not isinstance(ql, ...): ' + ast.unparse(t))
        ty = t.args[1]
        _need(isinstance(ty, ast.Attribute) and ast.unparse(ty.value) == 'qlast',
              'dispatch type is not qlast.<Name>: ' + ast.unparse(ty))
        nm = ty.attr
        if nm == 'SessionCommand_tuple':
            tested = list(ql['session_tuple'])
        else:
            _need(nm in ql['bases'], f'qlast.{nm} is not a class of edb/edgeql/ast.py')
            tested = [nm]
        callees = []
        tree = _sym(list(node.body), {}, members, callees, False)
        branches.append({'name': nm, 'tested': tested, 'tree': tree, 'callees': callees, 'span': _span(node.test)})
        if len(node.orelse) == 1 and isinstance(node.orelse[0], ast.If):
            node = node.orelse[0]
            continue
        _need(node.orelse, 'dispatch chain has no else branch')
        callees = []
        has_assert = any(isinstance(s, ast.Assert) for s in node.orelse)
        tree = _sym(list(node.orelse), {}, members, callees, True)
        branches.append({'name': 'else', 'tested': (['Query', 'Command'] if has_assert else None), 'tree': tree,
                         'callees': callees, 'span': _span(node.orelse[0])})
        break
    names = [b['name'] for b in branches]
    _need(len(set(names)) == len(names), 'a type is tested twice in the dispatch chain')

    # has_dml=bool(ir.dml_exprs)
    q = _fn(mod, '_compile_ql_query')
    kws = [k for n in ast.walk(q) if isinstance(n, ast.Call) for k in n.keywords if k.arg == 'has_dml']
    _need(len(kws) == 1, f'_compile_ql_query: {len(kws)} has_dml= keywords')
    hd = ast.unparse(kws[0].value)
    _need(hd == 'bool(ir.dml_exprs)', 'has_dml is not bool(ir.dml_exprs): ' + hd)
    return {'branches': branches, 'has_dml': hd}, {'_compile_dispatch_ql': _span(fn), 'has_dml': _span(kws[0].value)}, sha


# ------------------------------------------------------------------ dbstate.QueryUnitGroup
def translate_group(path):
    src, mod, sha = _read(path)
    cls = [n for n in mod.body if isinstance(n, ast.ClassDef) and n.name == 'QueryUnitGroup']
    _need(len(cls) == 1, 'class QueryUnitGroup not found')
    cls = cls[0]
    init = None
    for st in cls.body:
        if isinstance(st, ast.AnnAssign) and isinstance(st.target, ast.Name) and st.target.id == 'capabilities':
            _need(st.value is not None and ast.unparse(st.value) == 'enums.Capability(0)',
                  'QueryUnitGroup.capabilities default is not enums.Capability(0)')
            init = 0
    _need(init is not None, 'QueryUnitGroup.capabilities default not found')
    ap = _fn(mod, 'append', 'QueryUnitGroup')
    touching = []
    for n in ast.walk(ap):
        if isinstance(n, (ast.Assign, ast.AugAssign, ast.AnnAssign)):
            tg = n.targets if isinstance(n, ast.Assign) else [n.target]
            if any(ast.unparse(t) == 'self.capabilities' for t in tg):
                touching.append(n)
    _need(len(touching) == 1, f'QueryUnitGroup.append: {len(touching)} statements assign self.capabilities')
    st = touching[0]
    _need(st in ap.body, 'QueryUnitGroup.append: the capabilities update is conditional')
    _need(ast.unparse(st.value) == 'query_unit.capabilities', 'capabilities update has an unexpected right-hand side')
    if isinstance(st, ast.AugAssign) and isinstance(st.op, ast.BitOr):
        op = 'lor'
    elif isinstance(st, ast.AugAssign) and isinstance(st.op, ast.BitAnd):
        op = 'land'
    elif isinstance(st, ast.Assign):
        op = 'assign'
    else:
        raise TranslateError('capabilities update operator not recognised: ' + ast.unparse(st))
    return {'init': init, 'op': op}, {'QueryUnitGroup.append': _span(st)}, sha


# ------------------------------------------------------------------ recording sites
def _is_append(st):
    return (isinstance(st, ast.Expr) and isinstance(st.value, ast.Call)
            and ast.unparse(st.value) == 'ctx.env.dml_exprs.append(expr)')


def translate_stmt(path):
    src, mod, sha = _read(path)
    out, spans = {}, {}
    for kind, name in (('Ins', 'compile_InsertQuery'), ('Upd', 'compile_UpdateQuery'), ('Del', 'compile_DeleteQuery')):
        fn = _fn(mod, name)
        appends = [n for n in ast.walk(fn) if isinstance(n, ast.Expr) and _is_append(n)]
        other = [n for n in ast.walk(fn) if isinstance(n, ast.Attribute) and n.attr == 'dml_exprs']
        body = [s for s in fn.body if not (isinstance(s, ast.Expr) and isinstance(s.value, ast.Constant))]
        i = 0
        chk = False
        if (i < len(body) and isinstance(body[i], ast.If) and ast.unparse(body[i].test) == 'ctx.disallow_dml'
                and len(body[i].body) == 1 and isinstance(body[i].body[0], ast.Raise) and not body[i].orelse):
            chk = True
            i += 1
        if (i < len(body) and isinstance(body[i], ast.Expr) and isinstance(body[i].value, ast.Call)
                and ast.unparse(body[i].value.func) == '_protect_expr'):
            i += 1
        rec = False
        if i < len(body) and _is_append(body[i]):
            rec = True
            spans[name] = _span(body[i])
        _need(len(appends) == (1 if rec else 0) and len(other) == len(appends),
              f'{name}: dml_exprs is used in a way that is not the recognised recording statement')
        out[kind] = {'rec': rec, 'chk_disallow': chk}
    return out, spans, sha


def translate_func(path):
    src, mod, sha = _read(path)
    fn = _fn(mod, 'compile_FunctionCall')
    appends = [n for n in ast.walk(fn) if isinstance(n, ast.Expr) and _is_append(n)]
    other = [n for n in ast.walk(fn) if isinstance(n, ast.Attribute) and n.attr == 'dml_exprs']
    _need(len(other) == len(appends) and len(appends) <= 1, 'compile_FunctionCall: unrecognised use of dml_exprs')
    rec = False
    spans = {}
    for n in ast.walk(fn):
        if isinstance(n, ast.If) and n.body and _is_append(n.body[0]):
            t = ast.unparse(n.test)
            _need(t == 'func.get_volatility(env.schema) == ft.Volatility.Modifying',
                  'compile_FunctionCall: recording condition not recognised: ' + t)
            _need(n in fn.body, 'compile_FunctionCall: the recording `if` is nested')
            rec = True
            spans['rec_call'] = _span(n.test)
    _need(rec == (len(appends) == 1), 'compile_FunctionCall: dml_exprs.append outside the recognised `if`')
    inl = None
    for n in fn.body:
        if (isinstance(n, ast.If) and len(n.body) == 1 and isinstance(n.body[0], ast.Assign)
                and ast.unparse(n.body[0].targets[0]) == 'inline_func'):
            inl = ast.unparse(n.test)
            spans['inline_test'] = _span(n.test)
    want = ('func.get_language(ctx.env.schema) == qlast.Language.EdgeQL and '
            '(func.get_volatility(ctx.env.schema) == ft.Volatility.Modifying or func.get_is_inlined(ctx.env.schema))')
    _need(inl == want, 'compile_FunctionCall: inlining test not recognised: ' + str(inl))
    return {'rec_call_modifying': rec, 'inline_if_modifying_or_flag': True}, spans, sha


# ------------------------------------------------------------------ rendering
ROOTS = ['MigrationCommand', 'DDLCommand', 'Transaction', 'ConfigOp', 'ExplainStmt', 'AdministerStmt',
         'Query', 'Command', 'DescribeStmt', 'DescribeCurrentMigration']


def _dt(t, ind):
    if t[0] == 'ret':
        return f'Ret {t[1]}'
    pad = ' ' * ind
    return f'Ite {t[1]}\n{pad}  ({_dt(t[2], ind + 2)})\n{pad}  ({_dt(t[3], ind + 2)})'


def render(en, ql, disp, grp, stm, fun):
    m = en['members']
    L = []
    A = L.append
    A('(* GENERATED by harness/translate/c08_caps.py from the working tree of the repository -- do not edit.')
    A('   Sources: edb/server/compiler/enums.py (Capability), edb/server/compiler/compiler.py')
    A('   (_compile_dispatch_ql, has_dml), edb/server/compiler/dbstate.py (QueryUnitGroup.append),')
    A('   edb/edgeql/ast.py (class hierarchy), edb/edgeql/compiler/stmt.py + func.py (recording sites). *)')
    A('From Coq Require Import NArith List Bool.')
    A('Import ListNotations.')
    A('Open Scope N_scope.')
    A('')
    A('(* ---- enums.Capability *)')
    for nm in en['order']:
        A(f'Definition cap_{nm} : N := {m[nm]}.')
    flags = [nm for nm in en['order'] if nm not in ('ALL', 'WRITE', 'NONE')]
    A('Definition cap_flags : list N := [' + '; '.join(f'cap_{n}' for n in flags) + '].')
    A('')
    A('(* ---- _compile_dispatch_ql: the isinstance chain, in source order *)')
    brs = disp['branches']
    A('Inductive branch : Type := ' + ' | '.join('Br_' + b['name'] for b in brs) + '.')
    A('Inductive cond : Type := ' + ' | '.join(COND_ORDER) + '.')
    A('Inductive dt : Type := Ret (c : N) | Ite (c : cond) (a b : dt).')
    A('Definition branch_dt (b : branch) : dt :=')
    A('  match b with')
    for b in brs:
        A(f'  | Br_{b["name"]} =>\n      {_dt(b["tree"], 6)}')
    A('  end.')
    A('')
    # classes of interest
    roots = set(ROOTS) | set(ql['session_tuple'])
    for b in brs:
        if b['tested']:
            roots |= set(b['tested'])
    classes = [c for c in ql['order'] if ql['anc'][c] & roots]
    A('(* ---- edb/edgeql/ast.py: statement-level classes (descendants of a class the chain tests, of Query or')
    A('        of Command) and the first branch whose isinstance test each satisfies *)')
    A('Inductive qlclass : Type :=')
    for i in range(0, len(classes), 6):
        A('  | ' + ' | '.join('K_' + c for c in classes[i:i + 6]))
    A('  .')
    A('Definition all_classes : list qlclass := [')
    for i in range(0, len(classes), 6):
        A('  ' + '; '.join('K_' + c for c in classes[i:i + 6]) + (';' if i + 6 < len(classes) else ''))
    A('  ].')

    def first_branch(c):
        for b in brs[:-1]:
            if ql['anc'][c] & set(b['tested']):
                return b['name']
        return 'else'
    by_branch = {}
    for c in classes:
        by_branch.setdefault(first_branch(c), []).append(c)
    A('Definition class_branch (k : qlclass) : branch :=')
    A('  match k with')
    for b in brs[:-1]:
        cs = by_branch.get(b['name'], [])
        if cs:
            for i in range(0, len(cs), 6):
                A('  | ' + ' | '.join('K_' + c for c in cs[i:i + 6]) + (f' => Br_{b["name"]}' if i + 6 >= len(cs) else ''))
    A('  | _ => Br_else')
    A('  end.')
    for r in ['MigrationCommand', 'DDLCommand', 'Transaction', 'ConfigOp', 'ExplainStmt', 'AdministerStmt',
              'Query', 'Command', 'DescribeStmt', 'DescribeCurrentMigration']:
        _need(r in ql['bases'], f'qlast.{r} not found')
        cs = [c for c in classes if r in ql['anc'][c]]
        A(f'Definition is_{r} (k : qlclass) : bool :=')
        A('  match k with')
        for i in range(0, len(cs), 6):
            A('  | ' + ' | '.join('K_' + c for c in cs[i:i + 6]) + (' => true' if i + 6 >= len(cs) else ''))
        if len(cs) < len(classes):
            A('  | _ => false')
        A('  end.')
    cs = [c for c in classes if ql['anc'][c] & set(ql['session_tuple'])]
    A('Definition is_SessionCommand (k : qlclass) : bool :=')
    A('  match k with')
    A('  | ' + ' | '.join('K_' + c for c in cs) + ' => true')
    A('  | _ => false')
    A('  end.')
    el = brs[-1]
    A('(* the else branch asserts isinstance(ql, (qlast.Query, qlast.Command)) *)')
    A(f'Definition else_asserts_query_or_command : bool := {"true" if el["tested"] else "false"}.')
    A('')
    A('(* ---- dbstate.QueryUnitGroup: capabilities default and the update in append() *)')
    A(f'Definition group_init : N := {grp["init"]}.')
    body = {'lor': 'N.lor g u', 'land': 'N.land g u', 'assign': 'u'}[grp['op']]
    A(f'Definition group_step (g u : N) : N := {body}.')
    A('')
    A('(* ---- _compile_ql_query: has_dml = bool(ir.dml_exprs)   (n = len(ir.dml_exprs)) *)')
    A('Definition has_dml_of (n : N) : bool := negb (N.eqb n 0).')
    A('')
    A('(* ---- recording sites: does compile_<X>Query append to ctx.env.dml_exprs unconditionally, after the')
    A('        `if ctx.disallow_dml: raise` check; does compile_FunctionCall append for Modifying functions *)')
    for k in ('Ins', 'Upd', 'Del'):
        A(f'Definition rec_{k} : bool := {"true" if stm[k]["rec"] else "false"}.')
        A(f'Definition chk_disallow_{k} : bool := {"true" if stm[k]["chk_disallow"] else "false"}.')
    A(f'Definition rec_call_modifying : bool := {"true" if fun["rec_call_modifying"] else "false"}.')
    A('')
    return '\n'.join(L), classes


def run(repo, out_dir):
    """Regenerate Gen_Caps.v (only rewritten when the text changes).  Returns tables + manifest.
    Raises TranslateError (or SyntaxError) when a source shape is not recognised."""
    P = lambda *a: os.path.join(repo, *a)
    en, sp_en, h_en = translate_enums(P('edb', 'server', 'compiler', 'enums.py'))
    ql, h_ql = translate_qlast(P('edb', 'edgeql', 'ast.py'))
    disp, sp_d, h_d = translate_dispatch(P('edb', 'server', 'compiler', 'compiler.py'), en['members'], ql)
    grp, sp_g, h_g = translate_group(P('edb', 'server', 'compiler', 'dbstate.py'))
    stm, sp_s, h_s = translate_stmt(P('edb', 'edgeql', 'compiler', 'stmt.py'))
    fun, sp_f, h_f = translate_func(P('edb', 'edgeql', 'compiler', 'func.py'))
    txt, classes = render(en, ql, disp, grp, stm, fun)
    os.makedirs(out_dir, exist_ok=True)
    target = os.path.join(out_dir, 'Gen_Caps.v')
    old = open(target).read() if os.path.exists(target) else None
    if old != txt:
        with open(target, 'w') as f:
            f.write(txt)
    manifest = {'generated': 'coq/theories/C08/Gen_Caps.v',
                'sources': [
                    {'file': 'edb/server/compiler/enums.py', 'sha256': h_en, 'spans': sp_en},
                    {'file': 'edb/edgeql/ast.py', 'sha256': h_ql, 'spans': 'class statements (whole file)'},
                    {'file': 'edb/server/compiler/compiler.py', 'sha256': h_d, 'spans': sp_d},
                    {'file': 'edb/server/compiler/dbstate.py', 'sha256': h_g, 'spans': sp_g},
                    {'file': 'edb/edgeql/compiler/stmt.py', 'sha256': h_s, 'spans': sp_s},
                    {'file': 'edb/edgeql/compiler/func.py', 'sha256': h_f, 'spans': sp_f}],
                'changed': old != txt}
    with open(os.path.join(out_dir, 'Gen_Caps.manifest.json'), 'w') as f:
        json.dump(manifest, f, indent=1)
    return {'caps': en['members'], 'branches': [{k: b[k] for k in ('name', 'tested', 'callees')} for b in disp['branches']],
            'classes': classes, 'session_tuple': ql['session_tuple'], 'group': grp, 'stmt': stm, 'func': fun,
            'manifest': manifest}


if __name__ == '__main__':
    import sys
    r = run(sys.argv[1] if len(sys.argv) > 1 else '/repo',
            sys.argv[2] if len(sys.argv) > 2 else os.path.join(
                os.path.dirname(os.path.dirname(os.path.dirname(os.path.abspath(__file__)))),
                'coq', 'theories', 'C08'))
    print(json.dumps({k: r[k] for k in ('caps', 'branches', 'group', 'stmt', 'func')}, indent=1))
    print(len(r['classes']), 'classes')
