"""Translator for C01:  /repo source -> coq/theories/C01/Gen_Grammar.v   (fail-closed)

Sources and recognised shapes (anything else raises TranslateError: the tie is broken, the check
reports it; the translator never guesses):

  edb/edgeql/parser/grammar/precedence.py
      `class P_X(Precedence, assoc='left'|'right'|'nonassoc'[, tokens=(...)][, rel_to_last='=']): pass`
      in file order; level(P_X) = level(previous) + 1, or the same level with rel_to_last='='
      (edb/common/parsing.py::Precedence.__init_subclass__: default relation is `>` previous).
  edb/edgeql/parser/grammar/tokens.py
      `class T_X(Token, lextoken='...')` -> text of the token; keywords come from the lexer.
  edb/edgeql/codegen.py
      `_WEAKER_THAN_NOT = frozenset({'..', ...})`, `_TIGHTER_THAN_UMINUS = frozenset({'..', ...})`: the operator
      names the printer consults in _prefix_swallows_op (mapped to operator ids; `{` = shape).
  edb/edgeql/parser/grammar/expressions.py
      class Expr: every method must be one of
        * a binary operator production  reduce_Expr_<TOK>[_<TOK>]_Expr  whose body is
          `self.val = qlast.BinOp(left=kids[0].val, op=<kids[1].val | kids[1].val.upper() | 'LIT'>,
                                   right=kids[<last>].val)`, optional @parsing.precedence(precedence.P_X);
        * reduce_Expr_CompareOp_Expr (same body) with class CompareOp = inline single-token productions;
        * one of the structurally fixed productions listed in FIXED, whose body must hash to the
          recorded value (prefix operators incl. the constant folding of unary minus, IS / IS NOT,
          casts, IF..ELSE, DETACHED, GLOBAL, shape / indirection / path application).
      Production precedence = explicit decorator, else the precedence of the right-most terminal
      (yacc rule; the substrate established that this is what makes the automaton conflict free).
"""
from __future__ import annotations

import ast
import hashlib
import json
import os
import re


class TranslateError(Exception):
    pass


def _need(c, msg):
    if not c:
        raise TranslateError(msg)


# ------------------------------------------------------------------ precedence.py

def read_precedence(path):
    mod = ast.parse(open(path, encoding='utf-8').read())
    level = 0
    classes = []         # (name, level, assoc, tokens)
    for n in mod.body:
        if isinstance(n, (ast.ImportFrom, ast.Import)):
            continue
        if isinstance(n, ast.Expr) and isinstance(n.value, ast.Constant):
            continue
        _need(isinstance(n, ast.ClassDef), f'precedence.py: unexpected top-level statement at line {n.lineno}')
        kws = {k.arg: k.value for k in n.keywords}
        if n.name == 'Precedence':
            _need(set(kws) == {'assoc', 'is_internal'}, 'precedence.py: base class Precedence changed')
            continue
        _need(n.name.startswith('P_'), f'precedence.py: class {n.name}')
        _need(len(n.bases) == 1 and isinstance(n.bases[0], ast.Name) and n.bases[0].id == 'Precedence',
              f'precedence.py: bases of {n.name}')
        _need(all(isinstance(b, ast.Pass) for b in n.body), f'precedence.py: body of {n.name} is not `pass`')
        _need(set(kws) <= {'assoc', 'tokens', 'rel_to_last'}, f'precedence.py: unknown keyword in {n.name}: {sorted(kws)}')
        _need('assoc' in kws and isinstance(kws['assoc'], ast.Constant), f'precedence.py: assoc of {n.name}')
        assoc = kws['assoc'].value
        _need(assoc in ('left', 'right', 'nonassoc'), f'precedence.py: assoc {assoc!r} of {n.name}')
        toks = []
        if 'tokens' in kws:
            _need(isinstance(kws['tokens'], ast.Tuple) and all(isinstance(e, ast.Constant) and isinstance(e.value, str)
                                                              for e in kws['tokens'].elts),
                  f'precedence.py: tokens of {n.name}')
            toks = [e.value for e in kws['tokens'].elts]
        rel = '>'
        if 'rel_to_last' in kws:
            _need(isinstance(kws['rel_to_last'], ast.Constant) and kws['rel_to_last'].value == '=',
                  f'precedence.py: rel_to_last of {n.name} (only "=" is recognised)')
            rel = '='
        if rel == '>' or level == 0:
            level += 1
        else:
            _need(classes and classes[-1][2] == assoc, f'precedence.py: {n.name} shares a level with a class of other associativity')
        classes.append((n.name, level, assoc, toks))
    _need(len(classes) >= 20, 'precedence.py: too few precedence classes')
    seen = {}
    for name, lv, assoc, toks in classes:
        for t in toks:
            _need(t not in seen, f'precedence.py: token {t} in two classes')
            seen[t] = name
    return classes


# ------------------------------------------------------------------ tokens.py

def read_tokens(path):
    mod = ast.parse(open(path, encoding='utf-8').read())
    out = {}
    for n in mod.body:
        if isinstance(n, ast.ClassDef) and n.name.startswith('T_'):
            kws = {k.arg: k.value for k in n.keywords}
            if 'lextoken' in kws:
                _need(isinstance(kws['lextoken'], ast.Constant) and isinstance(kws['lextoken'].value, str),
                      f'tokens.py: lextoken of {n.name}')
                out[n.name[2:]] = kws['lextoken'].value
    _need(len(out) >= 40, 'tokens.py: too few lextoken classes')
    return out


# ------------------------------------------------------------------ expressions.py

BINOP_NAME = re.compile(r'^reduce_Expr_([A-Z]+)(?:_([A-Z]+))?_Expr$')

# structurally fixed productions of class Expr: name -> sha256 of ast.dump(body) (recorded from the pinned tree)
FIXED = {
    'reduce_BaseAtomicExpr': None, 'reduce_Path': None, 'reduce_Expr_Shape': None, 'reduce_EXISTS_Expr': None,
    'reduce_DISTINCT_Expr': None, 'reduce_DETACHED_Expr': None, 'reduce_GLOBAL_NodeName': None,
    'reduce_Expr_IndirectionEl': None, 'reduce_PLUS_Expr': None, 'reduce_MINUS_Expr': None, 'reduce_NOT_Expr': None,
    'reduce_Expr_IS_TypeExpr': None, 'reduce_Expr_IS_NOT_TypeExpr': None, 'reduce_INTROSPECT_TypeExpr': None,
    'reduce_LANGBRACKET_FullTypeExpr_RANGBRACKET_Expr': None,
    'reduce_LANGBRACKET_OPTIONAL_FullTypeExpr_RANGBRACKET_Expr': None,
    'reduce_LANGBRACKET_REQUIRED_FullTypeExpr_RANGBRACKET_Expr': None,
    'reduce_Expr_IF_Expr_ELSE_Expr': None, 'reduce_IfThenElseExpr': None,
}
FIXED_HASHES_FILE = os.path.join(os.path.dirname(os.path.abspath(__file__)), 'c01_grammar_fixed.json')


def _body_hash(fn):
    return hashlib.sha256('\n'.join(ast.dump(s) for s in fn.body).encode()).hexdigest()


def _decorators(fn):
    prec, inline = None, None
    for d in fn.decorator_list:
        s = ast.unparse(d)
        m = re.fullmatch(r'parsing\.precedence\(precedence\.(P_\w+)\)', s)
        if m:
            prec = m.group(1)
            continue
        m = re.fullmatch(r'parsing\.inline\((\d+)\)', s)
        if m:
            inline = int(m.group(1))
            continue
        raise TranslateError(f'expressions.py: unrecognised decorator {s} on {fn.name}')
    return prec, inline


def _kids_val(node, idx, alias=None):
    u = ast.unparse(node)
    if alias and u in alias:
        u = alias[u]
    return u == f'kids[{idx}].val'


def read_expr(path, lextok):
    mod = ast.parse(open(path, encoding='utf-8').read())
    cls = {n.name: n for n in mod.body if isinstance(n, ast.ClassDef)}
    _need('Expr' in cls and 'CompareOp' in cls and 'IfThenElseExpr' in cls, 'expressions.py: class Expr/CompareOp/IfThenElseExpr missing')
    # CompareOp: single-token inline productions with P_COMPARE_OP
    cmp_tokens = []
    for fn in cls['CompareOp'].body:
        if isinstance(fn, ast.Expr) and isinstance(fn.value, ast.Constant):
            continue
        _need(isinstance(fn, ast.FunctionDef), 'expressions.py: CompareOp body')
        m = re.fullmatch(r'reduce_([A-Z]+)', fn.name)
        _need(m, f'expressions.py: CompareOp.{fn.name}')
        prec, inline = _decorators(fn)
        _need(prec == 'P_COMPARE_OP' and inline == 0 and all(isinstance(s, ast.Pass) for s in fn.body),
              f'expressions.py: CompareOp.{fn.name} shape')
        cmp_tokens.append(m.group(1))
    # IfThenElseExpr
    ite = [fn for fn in cls['IfThenElseExpr'].body if isinstance(fn, ast.FunctionDef)]
    _need(len(ite) == 1 and ite[0].name == 'reduce_IF_Expr_THEN_Expr_ELSE_Expr' and _decorators(ite[0]) == (None, None),
          'expressions.py: IfThenElseExpr shape')
    fixed_hashes = {'IfThenElseExpr.' + ite[0].name: _body_hash(ite[0])}
    binops = []        # (tokens [names], opname, explicit prec or None)
    fixed_prec = {}
    seen = set()
    for fn in cls['Expr'].body:
        if isinstance(fn, ast.Expr) and isinstance(fn.value, ast.Constant):
            continue
        _need(isinstance(fn, ast.FunctionDef), f'expressions.py: unexpected statement in class Expr at line {fn.lineno}')
        name = fn.name
        _need(name not in seen, f'expressions.py: duplicate {name}')
        seen.add(name)
        prec, inline = _decorators(fn)
        if name in FIXED:
            fixed_hashes['Expr.' + name] = _body_hash(fn)
            fixed_prec[name] = prec
            continue
        if name == 'reduce_Expr_CompareOp_Expr':
            toks_list = [[t] for t in cmp_tokens]
        else:
            m = BINOP_NAME.match(name)
            _need(m, f'expressions.py: unrecognised production Expr.{name}')
            toks_list = [[t for t in m.groups() if t]]
        _need(inline is None, f'expressions.py: inline on {name}')
        alias = {}
        body = list(fn.body)
        if len(body) == 2 and isinstance(body[0], ast.Assign) and isinstance(body[0].targets[0], ast.Name) \
                and re.fullmatch(r'kids\[\d+\]\.val', ast.unparse(body[0].value)):
            alias[body[0].targets[0].id] = ast.unparse(body[0].value)      # `inexpr = kids[2].val`
            body = body[1:]
        _need(len(body) == 1 and isinstance(body[0], ast.Assign), f'expressions.py: body of {name}')
        a = body[0]
        _need(ast.unparse(a.targets[0]) == 'self.val' and isinstance(a.value, ast.Call)
              and ast.unparse(a.value.func) == 'qlast.BinOp' and not a.value.args, f'expressions.py: {name} does not build qlast.BinOp')
        kws = {k.arg: k.value for k in a.value.keywords}
        _need(set(kws) == {'left', 'op', 'right'}, f'expressions.py: {name} BinOp keywords')
        nsym = 2 + len(toks_list[0])
        _need(_kids_val(kws['left'], 0) and _kids_val(kws['right'], nsym - 1, alias), f'expressions.py: {name} operands')
        for toks in toks_list:
            opn = kws['op']
            if isinstance(opn, ast.Constant) and isinstance(opn.value, str):
                opname = opn.value
            elif ast.unparse(opn) == 'kids[1].val' and len(toks) == 1:
                opname = lextok.get(toks[0], toks[0])
            elif ast.unparse(opn) == 'kids[1].val.upper()' and len(toks) == 1:
                opname = lextok.get(toks[0], toks[0]).upper()
            else:
                raise TranslateError(f'expressions.py: {name}: op expression {ast.unparse(opn)}')
            binops.append((toks, opname, prec))
    missing = [k for k in FIXED if k not in seen]
    _need(not missing, f'expressions.py: productions missing from class Expr: {missing}')
    return binops, fixed_prec, fixed_hashes


# ------------------------------------------------------------------ codegen.py: the printer's own precedence facts

def read_codegen_sets(path):
    """`_WEAKER_THAN_NOT = frozenset({...})` and `_TIGHTER_THAN_UMINUS = frozenset({...})` of string literals
    (used by _prefix_swallows_op to decide when a left operand needs parentheses)"""
    mod = ast.parse(open(path, encoding='utf-8').read())
    out = {}
    for n in mod.body:
        if isinstance(n, ast.Assign) and len(n.targets) == 1 and isinstance(n.targets[0], ast.Name) \
                and n.targets[0].id in ('_WEAKER_THAN_NOT', '_TIGHTER_THAN_UMINUS'):
            v = n.value
            _need(isinstance(v, ast.Call) and ast.unparse(v.func) == 'frozenset' and len(v.args) == 1
                  and isinstance(v.args[0], ast.Set)
                  and all(isinstance(e, ast.Constant) and isinstance(e.value, str) for e in v.args[0].elts),
                  f'codegen.py: {n.targets[0].id} is not a frozenset of string literals')
            _need(n.targets[0].id not in out, f'codegen.py: {n.targets[0].id} assigned twice')
            out[n.targets[0].id] = sorted(e.value for e in v.args[0].elts)
    _need(set(out) == {'_WEAKER_THAN_NOT', '_TIGHTER_THAN_UMINUS'}, 'codegen.py: _WEAKER_THAN_NOT / _TIGHTER_THAN_UMINUS not found')
    return out


# ------------------------------------------------------------------ emit

# keywords (not lextoken classes) the model refers to
EXTRA_SYMS = ['AND', 'OR', 'NOT', 'LIKE', 'ILIKE', 'IN', 'IS', 'IF', 'THEN', 'ELSE', 'UNION', 'EXCEPT', 'INTERSECT',
              'EXISTS', 'DISTINCT', 'DETACHED', 'GLOBAL', 'TRUE', 'FALSE', 'OPTIONAL', 'REQUIRED', 'INTROSPECT', 'TYPEOF',
              'SELECT', 'FILTER', 'ORDERBY', 'OFFSET', 'LIMIT', 'ASC', 'DESC', 'FOR', 'WITH', 'INSERT', 'UPDATE', 'DELETE',
              'SET']
PUNCT = ['DOT', 'DOTBW', 'LBRACKET', 'RBRACKET', 'LPAREN', 'RPAREN', 'LBRACE', 'RBRACE', 'DOUBLECOLON', 'DOUBLEQMARK',
         'COLON', 'SEMICOLON', 'COMMA', 'PLUS', 'DOUBLEPLUS', 'MINUS', 'STAR', 'SLASH', 'DOUBLESLASH', 'PERCENT',
         'CIRCUMFLEX', 'AT', 'ASSIGN', 'LANGBRACKET', 'RANGBRACKET', 'EQUALS', 'AMPER', 'PIPE', 'DISTINCTFROM',
         'GREATEREQ', 'LESSEQ', 'NOTDISTINCTFROM', 'NOTEQ', 'DOUBLESTAR', 'ADDASSIGN', 'REMASSIGN', 'ARROW']


def translate(repo):
    gdir = os.path.join(repo, 'edb', 'edgeql', 'parser', 'grammar')
    p_prec, p_tok, p_expr = (os.path.join(gdir, f) for f in ('precedence.py', 'tokens.py', 'expressions.py'))
    classes = read_precedence(p_prec)
    lextok = read_tokens(p_tok)
    binops, fixed_prec, fixed_hashes = read_expr(p_expr, lextok)
    p_codegen = os.path.join(repo, 'edb', 'edgeql', 'codegen.py')
    cg_sets = read_codegen_sets(p_codegen)
    expected = json.load(open(FIXED_HASHES_FILE))
    for k, h in fixed_hashes.items():
        _need(k in expected, f'expressions.py: no recorded shape for {k}')
        _need(expected[k] == h, f'expressions.py: body of {k} differs from the recognised shape')
    _need(set(expected) == set(fixed_hashes), 'expressions.py: set of fixed productions changed')
    for p in PUNCT:
        _need(p in lextok, f'tokens.py: token {p} missing')
    tokprec = {}
    lvl = {}
    for name, level, assoc, toks in classes:
        lvl[name] = (level, assoc)
        for t in toks:
            tokprec[t] = (level, assoc)
    syms = list(PUNCT) + [s for s in EXTRA_SYMS]
    for t in tokprec:
        if t not in syms:
            syms.append(t)
    for toks, _, _ in binops:
        for t in toks:
            if t not in syms:
                syms.append(t)
    symid = {s: i + 1 for i, s in enumerate(syms)}

    def prod_prec(toks_in_production, explicit):
        if explicit:
            _need(explicit in lvl, f'unknown precedence {explicit}')
            return lvl[explicit]
        for t in reversed(toks_in_production):
            if t in tokprec:
                return tokprec[t]
        raise TranslateError(f'no precedence for production with tokens {toks_in_production}')

    A = {'left': 'ALeft', 'right': 'ARight', 'nonassoc': 'ANon'}

    def P(pa):
        return f'({pa[0]}%N, {A[pa[1]]})'
    opnames = []
    rows = []
    for toks, opname, explicit in binops:
        for t in toks:
            _need(t in symid, f'token {t}')
        _need(toks[0] in tokprec, f'operator token {toks[0]} has no precedence')
        pp = prod_prec(toks, explicit)
        _need(opname not in opnames, f'duplicate operator {opname}')
        opnames.append(opname)
        rows.append((toks, len(opnames) - 1, pp))
    # fixed productions' precedences
    def fx(name, toks):
        return prod_prec(toks, fixed_prec.get(name))
    consts = {
        'p_uplus': fx('reduce_PLUS_Expr', ['PLUS']), 'p_uminus': fx('reduce_MINUS_Expr', ['MINUS']),
        'p_not': fx('reduce_NOT_Expr', ['NOT']), 'p_exists': fx('reduce_EXISTS_Expr', ['EXISTS']),
        'p_distinct': fx('reduce_DISTINCT_Expr', ['DISTINCT']), 'p_detached': fx('reduce_DETACHED_Expr', ['DETACHED']),
        'p_typecast': fx('reduce_LANGBRACKET_FullTypeExpr_RANGBRACKET_Expr', ['LANGBRACKET', 'RANGBRACKET']),
        'p_typecast_opt': fx('reduce_LANGBRACKET_OPTIONAL_FullTypeExpr_RANGBRACKET_Expr', ['LANGBRACKET', 'OPTIONAL', 'RANGBRACKET']),
        'p_ifelse': fx('reduce_Expr_IF_Expr_ELSE_Expr', ['IF', 'ELSE']),
        'p_ifthenelse': prod_prec(['IF', 'THEN', 'ELSE'], None),
    }
    _need(consts['p_typecast'] == consts['p_typecast_opt'], 'cast productions have different precedences')
    out = []
    w = out.append
    w('(* GENERATED by harness/translate/c01_grammar.py -- DO NOT EDIT.')
    w('   Source: edb/edgeql/parser/grammar/precedence.py, tokens.py, expressions.py (class Expr, CompareOp).')
    w('   Regenerated from the working tree on every run. *)')
    w('From Coq Require Import List NArith.')
    w('Import ListNotations.')
    w('')
    w('Inductive assoc := ALeft | ARight | ANon.')
    w('Definition prec := (N * assoc)%type.        (* level (higher binds tighter), associativity of the class *)')
    w('')
    w('(* terminal symbols with a fixed text *)')
    for s in syms:
        w(f'Definition S_{s} : N := {symid[s]}%N.')
    w('')
    w('(* %left/%right/%nonassoc declarations: token -> precedence *)')
    w('Definition tok_prec_table : list (N * prec) :=')
    items = [f'(S_{t}, {P(tokprec[t])})' for t in syms if t in tokprec]
    w('  [' + ';\n   '.join(items) + '].')
    w('')
    w('(* binary operator productions of Expr: (token sequence, operator id, production precedence) *)')
    w('Definition binop_table : list (list N * N * prec) :=')
    items = ['([' + '; '.join(f'S_{t}' for t in toks) + f'], {oid}%N, {P(pp)})' for toks, oid, pp in rows]
    w('  [' + ';\n   '.join(items) + '].')
    w('')
    for k, v in consts.items():
        w(f'Definition {k} : prec := {P(v)}.')
    w('')
    w('(* edb/edgeql/codegen.py: operators (ids of binop_table) the printer believes to bind weaker than prefix NOT /')
    w('   tighter than unary minus; `{` (a shape) is the flag *)')

    def ids(names, what):
        out_ = []
        for nm in names:
            if nm == '{':
                continue
            _need(nm in opnames, f'codegen.py: {what} names an unknown operator {nm!r}')
            out_.append(opnames.index(nm))
        return out_
    wk = ids(cg_sets['_WEAKER_THAN_NOT'], '_WEAKER_THAN_NOT')
    tg = ids(cg_sets['_TIGHTER_THAN_UMINUS'], '_TIGHTER_THAN_UMINUS')
    _need('{' not in cg_sets['_WEAKER_THAN_NOT'], 'codegen.py: `{` in _WEAKER_THAN_NOT')
    w('Definition cg_weaker_than_not : list N := [' + '; '.join(f'{i}%N' for i in sorted(wk)) + '].')
    w('Definition cg_tighter_than_uminus : list N := [' + '; '.join(f'{i}%N' for i in sorted(tg)) + '].')
    w('Definition cg_brace_tighter : bool := ' + ('true' if '{' in cg_sets['_TIGHTER_THAN_UMINUS'] else 'false') + '.')
    w('')
    text = '\n'.join(out) + '\n'
    manifest = {
        'generated_by': 'harness/translate/c01_grammar.py',
        'sources': {os.path.relpath(p, repo): hashlib.sha256(open(p, 'rb').read()).hexdigest()
                    for p in (p_prec, p_tok, p_expr, p_codegen)},
        'codegen_sets': cg_sets,
        'symbols': symid,
        'symbol_text': {s: lextok.get(s, s.lower() if s != 'ORDERBY' else 'order by') for s in syms},
        'operators': opnames,
        'levels': {name: level for name, level, _, _ in classes},
        'fixed_production_hashes': fixed_hashes,
    }
    return text, manifest


def regenerate(repo, coq_dir):
    """-> (ok, message, manifest).  Writes Gen_Grammar.v only if its content changed."""
    target = os.path.join(coq_dir, 'theories', 'C01', 'Gen_Grammar.v')
    try:
        text, manifest = translate(repo)
    except (TranslateError, OSError, SyntaxError, KeyError, json.JSONDecodeError) as e:
        return False, f'{type(e).__name__}: {e}', None
    old = open(target, encoding='utf-8').read() if os.path.exists(target) else None
    if old != text:
        os.makedirs(os.path.dirname(target), exist_ok=True)
        with open(target, 'w', encoding='utf-8') as f:
            f.write(text)
    mpath = os.path.join(coq_dir, 'theories', 'C01', 'Gen_Grammar.manifest.json')
    mt = json.dumps(manifest, indent=1, sort_keys=True) + '\n'
    if not os.path.exists(mpath) or open(mpath).read() != mt:
        with open(mpath, 'w') as f:
            f.write(mt)
    return True, 'changed' if old != text else 'unchanged', manifest


if __name__ == '__main__':
    import sys
    repo = sys.argv[1] if len(sys.argv) > 1 else '/repo'
    if len(sys.argv) > 2 and sys.argv[2] == '--record':
        gdir = os.path.join(repo, 'edb', 'edgeql', 'parser', 'grammar')
        lextok = read_tokens(os.path.join(gdir, 'tokens.py'))
        _, _, fh = read_expr(os.path.join(gdir, 'expressions.py'), lextok)
        json.dump(fh, open(FIXED_HASHES_FILE, 'w'), indent=1, sort_keys=True)
        print('recorded', len(fh))
    else:
        ok, msg, man = regenerate(repo, os.path.join(os.path.dirname(os.path.dirname(os.path.dirname(os.path.abspath(__file__)))), 'coq'))
        print(ok, msg)
