"""pyx2py -- fail-closed source translator  Cython (.pyx)  ->  Python.

Purpose (C09 tie): `edb/server/dbview/dbview.pyx` and `edb/server/protocol/execute.pyx`
hold the server-side transaction bookkeeping (which txid / state / aliases the next
compile request carries, what an error or a success does to it).  Cython is absent in
this sandbox, so these files cannot be compiled.  Their BODIES, however, are plain
Python with a thin layer of C declarations.  This translator strips exactly that layer,
line by line, and nothing else; the result is `compile()`d by CPython and executed by the
correspondence check, so that what runs is the text of /repo's current working tree
(regenerated on every run), not a hand transliteration.

Handled constructs (everything else must already be Python, else `ast.parse` of the
result fails and the translator FAILS CLOSED -- TranslateError carries the line):

  cimport cython                         -> dropped
  from X cimport a, b / ( ... )          -> from X import a, b / ( ... )
  @cython.<anything>                     -> dropped
  cdef [type] NAME = expr   (any level)  -> NAME = expr
  cdef type NAME            (function)   -> NAME = None
  cdef:  <indented decl block>           -> one assignment per declared name
  cdef enum E: A = 0, B, C               -> class E: A = 0; B = 1; C = 2
  cdef class C(B):                       -> class C(B):
  property NAME: def __get__(self): ...  -> @property def NAME(self): ...
  cdef|cpdef [inline] [type] f(sig):     -> def f(sig):        (sig may span lines)
  C-typed parameters  `uint64_t seq`, `bint x=False`, `bytes b`  -> names only
  <type>expr  casts                      -> expr
  `except -1` / `except *` / `nogil` / `noexcept` suffixes        -> dropped

C scalar type names that occur in Python annotations (`x: bint = False`) are left in
place; the loader binds them (bint=bool, uint64_t=int, ...) in the module namespace.
"""
from __future__ import annotations

import ast
import re

CTYPES = {
    'bint': bool, 'int': int, 'long': int, 'short': int, 'char': int, 'float': float,
    'double': float, 'uint64_t': int, 'int64_t': int, 'uint32_t': int, 'int32_t': int,
    'uint16_t': int, 'int16_t': int, 'uint8_t': int, 'int8_t': int, 'ssize_t': int,
    'size_t': int, 'Py_ssize_t': int, 'object': object, 'void': type(None),
}

# a (possibly dotted / pointer / unsigned) C or Python type name in a declaration
_TYPE = r'(?:unsigned\s+|const\s+)?[A-Za-z_][\w\.]*(?:\s*\*+)?'
_NAME = r'[A-Za-z_]\w*'

_RE_FUNC = re.compile(
    rf'^(?P<ind>\s*)(?:cdef|cpdef)\s+(?:inline\s+)?(?:(?P<ret>{_TYPE})\s+)?(?P<name>{_NAME})\s*\((?P<rest>.*)$')
_RE_PYDEF = re.compile(rf'^(?P<ind>\s*)(?P<kw>async\s+def|def)\s+(?P<name>{_NAME})\s*\((?P<rest>.*)$')
_RE_PROPERTY = re.compile(rf'^(?P<ind>\s*)property\s+(?P<name>{_NAME})\s*:\s*$')
_RE_CLASS = re.compile(rf'^(?P<ind>\s*)cdef\s+class\s+(?P<rest>.*)$')
_RE_ENUM = re.compile(rf'^(?P<ind>\s*)cdef\s+enum\s+(?P<name>{_NAME})\s*:\s*$')
_RE_BLOCK = re.compile(r'^(?P<ind>\s*)cdef\s*:\s*$')
_RE_ASSIGN = re.compile(
    rf'^(?P<ind>\s*)cdef\s+(?:(?P<type>{_TYPE})\s+)?(?P<name>{_NAME})\s*=(?!=)(?P<rhs>.*)$')
_RE_DECL = re.compile(rf'^(?P<ind>\s*)cdef\s+(?P<type>{_TYPE})\s+(?P<names>{_NAME}(?:\s*,\s*{_NAME})*)\s*$')
_RE_CAST = re.compile(rf'<\s*{_TYPE}\s*\??\s*>(?=[\w\(\[])')
_RE_CIMPORT_FROM = re.compile(r'^(\s*from\s+[\w\.]+\s+)cimport(\s+.*)$')
_RE_CIMPORT = re.compile(r'^\s*cimport\s+[\w\.]+(\s+as\s+\w+)?\s*$')
_RE_SUFFIX = re.compile(r'\)\s*(?:except\s*(?:\?\s*)?(?:-?\w+|\*)|noexcept|nogil)(?:\s+nogil)?\s*:\s*$')


class TranslateError(Exception):
    pass


def _split_top(s: str, sep: str = ','):
    """split at top-level separators (outside brackets and strings)"""
    out, depth, cur, q = [], 0, [], None
    i = 0
    while i < len(s):
        c = s[i]
        if q:
            cur.append(c)
            if c == '\\':
                i += 1
                if i < len(s):
                    cur.append(s[i])
            elif c == q:
                q = None
        elif c in '\'"':
            q = c
            cur.append(c)
        elif c in '([{':
            depth += 1
            cur.append(c)
        elif c in ')]}':
            depth -= 1
            cur.append(c)
        elif c == sep and depth == 0:
            out.append(''.join(cur))
            cur = []
        else:
            cur.append(c)
        i += 1
    out.append(''.join(cur))
    return out


_RE_CPARAM = re.compile(rf'^(?P<lead>\s*)(?P<type>{_TYPE})\s+(?P<name>{_NAME})(?P<tail>\s*(?:=.*)?)$', re.S)


def _fix_param(p: str) -> str:
    """`uint64_t seq` -> `seq`; `bint x=False` -> `x=False`; Python-style params untouched"""
    body = p.strip()
    if not body or body in ('*', '/') or body.startswith('*') or ':' in body.split('=')[0]:
        return p
    m = _RE_CPARAM.match(p)
    if m and m.group('type').split()[-1] not in ('lambda',):
        return f"{m.group('lead')}{m.group('name')}{m.group('tail')}"
    return p


def _sig_end(text: str):
    """index just past the parenthesis that closes a signature whose opening '(' was consumed"""
    depth, q, i = 1, None, 0
    while i < len(text):
        c = text[i]
        if q:
            if c == '\\':
                i += 1
            elif c == q:
                q = None
        elif c in '\'"':
            q = c
        elif c == '#':
            j = text.find('\n', i)
            i = len(text) if j < 0 else j
            continue
        elif c in '([{':
            depth += 1
        elif c in ')]}':
            depth -= 1
            if depth == 0:
                return i
        i += 1
    return -1


def translate(src: str, filename: str = '<pyx>') -> str:
    lines = src.split('\n')
    out = []
    i = 0
    n = len(lines)
    while i < n:
        ln = lines[i]
        stripped = ln.strip()
        if not stripped or stripped.startswith('#'):
            out.append(ln)
            i += 1
            continue
        if _RE_CIMPORT.match(ln):
            out.append(ln[:len(ln) - len(ln.lstrip())] + 'pass  # ' + stripped)
            i += 1
            continue
        m = _RE_CIMPORT_FROM.match(ln)
        if m:
            out.append(m.group(1) + 'import' + m.group(2))
            i += 1
            continue
        if stripped.startswith('@cython.'):
            out.append(ln[:len(ln) - len(ln.lstrip())] + '# ' + stripped)
            i += 1
            continue
        m = _RE_ENUM.match(ln)
        if m:
            ind = m.group('ind')
            out.append(f"{ind}class {m.group('name')}:")
            i += 1
            val = -1
            body = []
            while i < n and (not lines[i].strip() or
                             len(lines[i]) - len(lines[i].lstrip()) > len(ind)):
                if lines[i].strip() and not lines[i].strip().startswith('#'):
                    body.append(lines[i].strip())
                i += 1
            for item in _split_top(' '.join(body)):
                item = item.strip()
                if not item:
                    continue
                if '=' in item:
                    nm, _, v = item.partition('=')
                    try:
                        val = int(v.strip(), 0)
                    except ValueError:
                        raise TranslateError(f'{filename}: enum value not an integer literal: {item!r}')
                    nm = nm.strip()
                else:
                    nm = item
                    val += 1
                if not re.fullmatch(_NAME, nm):
                    raise TranslateError(f'{filename}: bad enum member {item!r}')
                out.append(f'{ind}    {nm} = {val}')
            out.append('')
            continue
        m = _RE_CLASS.match(ln)
        if m:
            out.append(f"{m.group('ind')}class {m.group('rest')}")
            i += 1
            continue
        m = _RE_PROPERTY.match(ln)
        if m:
            # legacy Cython property block:  property NAME: / def __get__(self): BODY
            ind = m.group('ind')
            nm = m.group('name')
            j = i + 1
            while j < n and not lines[j].strip():
                j += 1
            g = re.match(rf'^(?P<ind2>\s+)def\s+__get__\s*\(\s*self\s*\)\s*:\s*$', lines[j] if j < n else '')
            if not g or len(g.group('ind2')) <= len(ind):
                raise TranslateError(f'{filename}:{i + 1}: property block without a plain __get__')
            ind2 = g.group('ind2')
            out.append(f'{ind}@property')
            out.append(f'{ind}def {nm}(self):')
            j += 1
            shift = len(ind2) - len(ind)
            while j < n and (not lines[j].strip() or
                             len(lines[j]) - len(lines[j].lstrip()) > len(ind2)):
                out.append(lines[j][shift:] if lines[j].strip() else '')
                j += 1
            # only __get__ is supported: anything else still inside the block fails closed
            if j < n and lines[j].strip() and len(lines[j]) - len(lines[j].lstrip()) > len(ind):
                raise TranslateError(f'{filename}:{j + 1}: unsupported member of property block: {lines[j].strip()!r}')
            i = j
            continue
        m = _RE_BLOCK.match(ln)
        if m:
            ind = m.group('ind')
            i += 1
            while i < n and (not lines[i].strip() or
                             len(lines[i]) - len(lines[i].lstrip()) > len(ind)):
                d = lines[i].strip()
                i += 1
                if not d or d.startswith('#'):
                    continue
                mm = re.match(rf'^(?P<type>{_TYPE})\s+(?P<rest>.+)$', d)
                if not mm:
                    raise TranslateError(f'{filename}: cannot read declaration {d!r}')
                for item in _split_top(mm.group('rest')):
                    item = item.strip()
                    if '=' in item:
                        nm, _, v = item.partition('=')
                        out.append(f'{ind}{nm.strip()} = {v.strip()}')
                    else:
                        item = item.lstrip('*').strip()
                        if not re.fullmatch(_NAME, item):
                            raise TranslateError(f'{filename}: cannot read declarator {item!r}')
                        out.append(f'{ind}{item} = None')
            continue
        m = _RE_FUNC.match(ln)
        pydef = None
        if not m or _RE_ASSIGN.match(ln):
            pydef = m = _RE_PYDEF.match(ln)
        if m and (pydef or not _RE_ASSIGN.match(ln)):
            # collect the full signature (may span several lines)
            j = i
            rest = m.group('rest')
            buf = rest
            end = _sig_end(buf)
            while end < 0:
                j += 1
                if j >= n:
                    raise TranslateError(f'{filename}:{i + 1}: unterminated signature')
                buf += '\n' + lines[j]
                end = _sig_end(buf)
            params, tail = buf[:end], buf[end:]
            tail = _RE_SUFFIX.sub('):', tail) if _RE_SUFFIX.search(tail) else tail
            params = ','.join(_fix_param(p) for p in _split_top(params))
            kw = re.sub(r'\s+', ' ', pydef.group('kw')) if pydef else 'def'
            out.extend(f"{m.group('ind')}{kw} {m.group('name')}({params}{tail}".split('\n'))
            i = j + 1
            continue
        m = _RE_ASSIGN.match(ln)
        if m:
            out.append(f"{m.group('ind')}{m.group('name')} ={m.group('rhs')}")
            i += 1
            continue
        m = _RE_DECL.match(ln)
        if m:
            for nm in m.group('names').split(','):
                out.append(f"{m.group('ind')}{nm.strip()} = None")
            i += 1
            continue
        if re.match(r'^\s*(cdef|cpdef|ctypedef|cimport)\b', ln):
            raise TranslateError(f'{filename}:{i + 1}: unhandled Cython construct: {stripped!r}')
        out.append(ln)
        i += 1
    text = '\n'.join(out)
    text = _RE_CAST.sub('', text)
    try:
        ast.parse(text, filename)
    except SyntaxError as e:
        bad = text.split('\n')[e.lineno - 1] if e.lineno else ''
        raise TranslateError(f'{filename}: result is not Python at line {e.lineno}: {bad.strip()!r} ({e.msg})')
    return text


def namespace_ctypes():
    return dict(CTYPES)


if __name__ == '__main__':
    import sys
    src = open(sys.argv[1]).read()
    res = translate(src, sys.argv[1])
    if len(sys.argv) > 2:
        open(sys.argv[2], 'w').write(res)
    print(f'ok: {len(src.splitlines())} lines -> {len(res.splitlines())} lines')


# ------------------------------------------------------------------ .pxd companion
_NUMERIC = {'int', 'long', 'short', 'char', 'float', 'double', 'uint64_t', 'int64_t', 'uint32_t',
            'int32_t', 'uint16_t', 'int16_t', 'uint8_t', 'int8_t', 'ssize_t', 'size_t', 'Py_ssize_t'}


def pxd_info(src: str, filename: str = '<pxd>'):
    """Read a .pxd: returns (attr_defaults, enums) where
    attr_defaults = {class name: {attribute: default value}}   (Cython zero-initialises C
    attributes and None-initialises object attributes of extension types) and
    enums = {enum name: {member: int}} for `cpdef enum` / `cdef enum` blocks with integer or
    `1 << k` values.  Method declarations are skipped.  Unknown shapes fail closed."""
    classes, enums = {}, {}
    lines = src.split('\n')
    i, n = 0, len(lines)
    cur = None          # current class name
    cur_ind = None

    def indent(s):
        return len(s) - len(s.lstrip())

    def add_attr(cls, decl):
        decl = decl.split('#')[0].strip()
        if not decl or '(' in decl:
            return                      # method declaration
        decl = re.sub(r'^(public|readonly)\s+', '', decl)
        m = re.match(rf'^(?P<type>{_TYPE}(?:\[[^\]]*\])?)\s+(?P<names>{_NAME}(?:\s*,\s*{_NAME})*)$', decl)
        if not m:
            raise TranslateError(f'{filename}: cannot read attribute declaration {decl!r}')
        t = m.group('type').strip()
        dv = False if t == 'bint' else 0 if t.replace('unsigned ', '') in _NUMERIC else None
        for nm in m.group('names').split(','):
            nm = nm.strip()
            if nm != '__weakref__':
                classes[cls][nm] = dv

    while i < n:
        ln = lines[i]
        s = ln.strip()
        if not s or s.startswith('#') or s.startswith('@'):
            i += 1
            continue
        ind = indent(ln)
        if cur is not None and ind <= cur_ind:
            cur = None
        m = re.match(rf'^(?:cdef|cpdef)\s+enum\s+({_NAME})\s*:', s)
        if m and cur is None:
            nm = m.group(1)
            enums[nm] = {}
            val = -1
            i += 1
            while i < n and (not lines[i].strip() or indent(lines[i]) > ind):
                d = lines[i].split('#')[0].strip()
                i += 1
                if not d:
                    continue
                if '=' in d:
                    k, _, v = d.partition('=')
                    mm = re.fullmatch(r'\s*(\d+)\s*(?:<<\s*(\d+))?\s*', v)
                    if not mm:
                        raise TranslateError(f'{filename}: enum value {d!r}')
                    val = int(mm.group(1)) << int(mm.group(2) or 0)
                    enums[nm][k.strip()] = val
                else:
                    val += 1
                    enums[nm][d] = val
            continue
        m = re.match(rf'^cdef\s+class\s+({_NAME})\b.*:$', s)
        if m:
            cur, cur_ind = m.group(1), ind
            classes[cur] = {}
            i += 1
            continue
        if cur is not None:
            if s == 'cdef:':
                bind = ind
                i += 1
                while i < n and (not lines[i].strip() or indent(lines[i]) > bind):
                    add_attr(cur, lines[i])
                    i += 1
                continue
            m = re.match(r'^(?:cdef|cpdef)\s+(.*)$', s)
            if m:
                # a method declaration may span several lines
                if '(' in s and s.count('(') > s.count(')'):
                    while i < n and lines[i].count(')') < 1:
                        i += 1
                    i += 1
                    continue
                add_attr(cur, m.group(1).replace('inline ', ''))
                i += 1
                continue
            i += 1
            continue
        i += 1
    return classes, enums
