"""Translator for C05:  /repo/edb/pgsql/types.py  ->  coq/theories/C05/Gen_Layout.v   (fail-closed)

Recognised shapes (anything else raises TranslateError -- the tie is then broken and the check
reports it; the translator never guesses):

  def _pointer_storable_in_source(schema, pointer) -> bool:    return <bexpr>
  def _pointer_storable_in_pointer(schema, pointer) -> bool:   return <bexpr>
      <bexpr> ::= pointer.singular(schema) | pointer.has_user_defined_properties(schema)
                | not <bexpr> | <bexpr> or <bexpr> | <bexpr> and <bexpr> | True | False
  def _ptrref_storable_in_source(ptrref) -> bool:              return <rexpr>
  def _ptrref_storable_in_pointer(ptrref) -> bool:
      if ptrref.union_components: return all(_ptrref_storable_in_pointer(c) for c in ...)
      else:                       return <rexpr>
      <rexpr> ::= ptrref.out_cardinality.is_single() | ptrref.out_cardinality.is_multi()
                | ptrref.has_properties | not/or/and/True/False
      (is_multi() is translated as `negb singular`: SchemaCardinality has the two members One/Many,
       checked in edb/edgeql/qltypes.py by the same translator; the union branch is not translated)
  get_pointer_storage_info(): the decision chain
      elif _pointer_storable_in_source(schema, pointer) and not link_bias:  -> source table
      elif _pointer_storable_in_pointer(schema, pointer):                   -> pointer table
      else: return None
  has_table(): for a concrete, non-computed, non-link-property pointer whose source has a table:
      get_pointer_storage_info(obj, resolve_type=False, schema=schema, link_bias=True) ... table_type == 'link'

  the column-name rule, in BOTH _source_table_info (schema side) and _get_ptrref_storage_info (IR side):
      <name var> = pointer.get_shortname(schema).name   |   ptrref.shortname.name
      if <nexpr>: col_name = <name var>  else: col_name = str(pointer.id | ptrref.id)
      <nexpr> ::= <name var>.startswith('__') | <name var> == 'id' | not/or/and
      (any other test on the name -- e.g. startswith('_') -- is not recognised: fail closed)

Emitted: Definitions over two booleans (singular, has_props):
    ptr_in_source, ptr_in_pointer, ref_in_source, ref_in_pointer : bool -> bool -> bool
and over (dunder := name starts with '__', is_id := name == 'id'):
    ptr_col_by_name, ref_col_by_name : bool -> bool -> bool     (true = the column is named after the pointer)
"""
from __future__ import annotations

import ast
import hashlib
import json
import os


class TranslateError(Exception):
    pass


def _need(c, msg):
    if not c:
        raise TranslateError(msg)


def _fn(mod, name):
    for n in mod.body:
        if isinstance(n, ast.FunctionDef) and n.name == name:
            return n
    raise TranslateError(f'function {name} not found')


def _strip_doc(body):
    if body and isinstance(body[0], ast.Expr) and isinstance(body[0].value, ast.Constant) \
            and isinstance(body[0].value.value, str):
        return body[1:]
    return body


def _bexpr(node, leaf):
    if isinstance(node, ast.Constant) and isinstance(node.value, bool):
        return 'true' if node.value else 'false'
    if isinstance(node, ast.UnaryOp) and isinstance(node.op, ast.Not):
        return f'(negb {_bexpr(node.operand, leaf)})'
    if isinstance(node, ast.BoolOp):
        op = '||' if isinstance(node.op, ast.Or) else '&&'
        return '(' + f' {op} '.join(_bexpr(v, leaf) for v in node.values) + ')'
    r = leaf(node)
    _need(r is not None, 'unrecognised boolean leaf: ' + ast.unparse(node)[:120])
    return r


def _ptr_leaf(node):
    # pointer.singular(schema) | pointer.has_user_defined_properties(schema)
    if (isinstance(node, ast.Call) and isinstance(node.func, ast.Attribute)
            and isinstance(node.func.value, ast.Name) and node.func.value.id == 'pointer'
            and len(node.args) == 1 and isinstance(node.args[0], ast.Name) and node.args[0].id == 'schema'
            and not node.keywords):
        if node.func.attr == 'singular':
            return 'singular'
        if node.func.attr == 'has_user_defined_properties':
            return 'has_props'
    return None


def _ref_leaf(node):
    # ptrref.out_cardinality.is_single() / .is_multi() / ptrref.has_properties
    if (isinstance(node, ast.Call) and not node.args and not node.keywords
            and isinstance(node.func, ast.Attribute) and isinstance(node.func.value, ast.Attribute)
            and node.func.value.attr == 'out_cardinality' and isinstance(node.func.value.value, ast.Name)
            and node.func.value.value.id == 'ptrref'):
        if node.func.attr == 'is_single':
            return 'singular'
        if node.func.attr == 'is_multi':
            return '(negb singular)'
    if (isinstance(node, ast.Attribute) and node.attr == 'has_properties'
            and isinstance(node.value, ast.Name) and node.value.id == 'ptrref'):
        return 'has_props'
    return None


def _name_leaf(var):
    def leaf(node):
        # <var>.startswith('__')  |  <var> == 'id'
        if (isinstance(node, ast.Call) and isinstance(node.func, ast.Attribute) and node.func.attr == 'startswith'
                and isinstance(node.func.value, ast.Name) and node.func.value.id == var
                and len(node.args) == 1 and not node.keywords and isinstance(node.args[0], ast.Constant)
                and node.args[0].value == '__'):
            return 'dunder'
        if (isinstance(node, ast.Compare) and isinstance(node.left, ast.Name) and node.left.id == var
                and len(node.ops) == 1 and isinstance(node.ops[0], ast.Eq)
                and isinstance(node.comparators[0], ast.Constant) and node.comparators[0].value == 'id'):
            return 'is_id'
        return None
    return leaf


def _col_rule(fn, var, name_src, id_src):
    """find `<var> = <name_src>` followed by `if <nexpr>: col_name = <var> else: col_name = str(<id_src>)`"""
    found = None
    for n in ast.walk(fn):
        body = getattr(n, 'body', None)
        if not isinstance(body, list):
            continue
        for seq in (body, getattr(n, 'orelse', []) or []):
            for a, b in zip(seq, seq[1:]):
                if (isinstance(a, ast.Assign) and len(a.targets) == 1 and isinstance(a.targets[0], ast.Name)
                        and a.targets[0].id == var and ast.unparse(a.value) == name_src and isinstance(b, ast.If)):
                    found = b
    _need(found is not None, f'{fn.name}: `{var} = {name_src}` followed by an if was not found')
    _need(len(found.body) == 1 and ast.unparse(found.body[0]) == f'col_name = {var}',
          f'{fn.name}: then-branch of the column-name rule is not `col_name = {var}`')
    _need(len(found.orelse) == 1 and ast.unparse(found.orelse[0]) == f'col_name = str({id_src})',
          f'{fn.name}: else-branch of the column-name rule is not `col_name = str({id_src})`')
    return _bexpr(found.test, _name_leaf(var)), _span(found)


def _single_return(fn, leaf, argnames):
    _need([a.arg for a in fn.args.args] == argnames, f'{fn.name}: parameters are not {argnames}')
    body = _strip_doc(fn.body)
    _need(len(body) == 1 and isinstance(body[0], ast.Return) and body[0].value is not None,
          f'{fn.name}: body is not a single return')
    return _bexpr(body[0].value, leaf)


def _span(n):
    return [n.lineno, getattr(n, 'end_lineno', n.lineno)]


def translate(repo):
    path = os.path.join(repo, 'edb', 'pgsql', 'types.py')
    src = open(path, encoding='utf-8').read()
    mod = ast.parse(src)
    spans = {}
    f1 = _fn(mod, '_pointer_storable_in_source')
    f2 = _fn(mod, '_pointer_storable_in_pointer')
    e1 = _single_return(f1, _ptr_leaf, ['schema', 'pointer'])
    e2 = _single_return(f2, _ptr_leaf, ['schema', 'pointer'])
    spans[f1.name] = _span(f1)
    spans[f2.name] = _span(f2)

    f3 = _fn(mod, '_ptrref_storable_in_source')
    e3 = _single_return(f3, _ref_leaf, ['ptrref'])
    spans[f3.name] = _span(f3)

    f4 = _fn(mod, '_ptrref_storable_in_pointer')
    _need([a.arg for a in f4.args.args] == ['ptrref'], '_ptrref_storable_in_pointer: parameters')
    body = _strip_doc(f4.body)
    _need(len(body) == 1 and isinstance(body[0], ast.If), '_ptrref_storable_in_pointer: not a single if')
    iff = body[0]
    _need(ast.unparse(iff.test) == 'ptrref.union_components', '_ptrref_storable_in_pointer: test is not union_components')
    _need(len(iff.body) == 1 and isinstance(iff.body[0], ast.Return)
          and ast.unparse(iff.body[0].value).replace(' ', '') ==
          'all((_ptrref_storable_in_pointer(c)forcinptrref.union_components))',
          '_ptrref_storable_in_pointer: union branch has an unexpected shape: ' + ast.unparse(iff.body[0])[:160])
    _need(len(iff.orelse) == 1 and isinstance(iff.orelse[0], ast.Return) and iff.orelse[0].value is not None,
          '_ptrref_storable_in_pointer: else branch is not a single return')
    e4 = _bexpr(iff.orelse[0].value, _ref_leaf)
    spans[f4.name] = _span(f4)

    # the column-name rule on both sides
    fs = _fn(mod, '_source_table_info')
    e5, sp5 = _col_rule(fs, 'ptr_name', 'pointer.get_shortname(schema).name', 'pointer.id')
    spans['_source_table_info.col_name'] = sp5
    fr = _fn(mod, '_get_ptrref_storage_info')
    e6, sp6 = _col_rule(fr, 'ptrname', 'ptrref.shortname.name', 'ptrref.id')
    spans['_get_ptrref_storage_info.col_name'] = sp6

    # the decision chain of get_pointer_storage_info
    g = _fn(mod, 'get_pointer_storage_info')
    chain = None
    for n in ast.walk(g):
        if isinstance(n, ast.If) and ast.unparse(n.test) == \
                '_pointer_storable_in_source(schema, pointer) and (not link_bias)':
            chain = n
    _need(chain is not None, 'get_pointer_storage_info: `elif _pointer_storable_in_source(schema, pointer) and '
                             'not link_bias` not found')
    _need('_source_table_info' in ast.unparse(chain.body[0]), 'get_pointer_storage_info: in-source branch does not '
                                                              'call _source_table_info')
    _need(len(chain.orelse) == 1 and isinstance(chain.orelse[0], ast.If)
          and ast.unparse(chain.orelse[0].test) == '_pointer_storable_in_pointer(schema, pointer)',
          'get_pointer_storage_info: `elif _pointer_storable_in_pointer(schema, pointer)` does not follow')
    nxt = chain.orelse[0]
    _need('_pointer_table_info' in ast.unparse(nxt.body[0]), 'get_pointer_storage_info: in-pointer branch does not '
                                                             'call _pointer_table_info')
    _need(len(nxt.orelse) == 1 and isinstance(nxt.orelse[0], ast.Return)
          and ast.unparse(nxt.orelse[0].value) == 'None',
          'get_pointer_storage_info: final else is not `return None`')
    spans['get_pointer_storage_info.chain'] = _span(chain)

    # has_table: pointer part
    h = _fn(mod, 'has_table')
    htxt = ast.unparse(h)
    for frag in ("obj.is_pure_computable(schema) or obj.get_is_derived(schema)",
                 "elif obj.is_link_property(schema):\n        return not obj.singular(schema)",
                 "elif not has_table(obj.get_source(schema), schema):\n        return False",
                 "get_pointer_storage_info(obj, resolve_type=False, schema=schema, link_bias=True)",
                 "ptr_stor_info is not None and ptr_stor_info.table_type == 'link'"):
        _need(frag in htxt, 'has_table: expected fragment missing: ' + frag[:70])
    _need("return not (obj.is_compound_type(schema) or obj.get_is_derived(schema) or obj.is_view(schema))" in htxt,
          'has_table: object type branch has an unexpected shape')
    spans['has_table'] = _span(h)

    # SchemaCardinality has exactly One / Many (so is_multi = not is_single)
    qpath = os.path.join(repo, 'edb', 'edgeql', 'qltypes.py')
    qmod = ast.parse(open(qpath, encoding='utf-8').read())
    sc = None
    for n in qmod.body:
        if isinstance(n, ast.ClassDef) and n.name == 'SchemaCardinality':
            sc = n
    _need(sc is not None, 'qltypes.SchemaCardinality not found')
    members = [t.id for s in sc.body if isinstance(s, ast.Assign) for t in s.targets if isinstance(t, ast.Name)]
    _need(sorted(members) == ['Many', 'One', 'Unknown'] or sorted(members) == ['Many', 'One'],
          f'SchemaCardinality members are {members}')
    sctxt = ast.unparse(sc)
    _need('def is_multi(self) -> bool:\n        if self is SchemaCardinality.One:\n            return False\n'
          '        elif self is SchemaCardinality.Many:\n            return True\n        else:\n'
          "            raise ValueError('cardinality is unknown')" in sctxt,
          'SchemaCardinality.is_multi has an unexpected shape')
    _need('def is_single(self) -> bool:\n        return not self.is_multi()' in sctxt,
          'SchemaCardinality.is_single has an unexpected shape')

    v = [
        '(* GENERATED by harness/translate/c05_layout.py from edb/pgsql/types.py -- do not edit. *)',
        'From Coq Require Import Bool.',
        '',
        '(* _pointer_storable_in_source / _pointer_storable_in_pointer over',
        '   singular := pointer.singular(schema), has_props := pointer.has_user_defined_properties(schema) *)',
        f'Definition ptr_in_source (singular has_props : bool) : bool := {e1}.',
        f'Definition ptr_in_pointer (singular has_props : bool) : bool := {e2}.',
        '',
        '(* _ptrref_storable_in_source / _ptrref_storable_in_pointer (non-union branch) over',
        '   singular := ptrref.out_cardinality.is_single(), has_props := ptrref.has_properties *)',
        f'Definition ref_in_source (singular has_props : bool) : bool := {e3}.',
        f'Definition ref_in_pointer (singular has_props : bool) : bool := {e4}.',
        '',
        '(* is the column in the source table named after the pointer (true) or after its id (false)?',
        "   dunder := the short name starts with '__', is_id := the short name is 'id';",
        '   _source_table_info (schema side) and _get_ptrref_storage_info (IR side) *)',
        f'Definition ptr_col_by_name (dunder is_id : bool) : bool := {e5}.',
        f'Definition ref_col_by_name (dunder is_id : bool) : bool := {e6}.',
        '',
    ]
    manifest = {
        'source': path,
        'sha256': hashlib.sha256(src.encode()).hexdigest(),
        'spans': spans,
        'emitted': {'ptr_in_source': e1, 'ptr_in_pointer': e2, 'ref_in_source': e3, 'ref_in_pointer': e4,
                    'ptr_col_by_name': e5, 'ref_col_by_name': e6},
    }
    return '\n'.join(v), manifest


def write(repo, coq_dir):
    text, manifest = translate(repo)
    out = os.path.join(coq_dir, 'theories', 'C05', 'Gen_Layout.v')
    os.makedirs(os.path.dirname(out), exist_ok=True)
    old = open(out).read() if os.path.exists(out) else None
    if old != text:
        with open(out, 'w') as f:
            f.write(text)
    with open(os.path.join(coq_dir, 'theories', 'C05', 'Gen_Layout.manifest.json'), 'w') as f:
        json.dump(manifest, f, indent=1)
    return manifest


if __name__ == '__main__':
    import sys
    t, m = translate(sys.argv[1] if len(sys.argv) > 1 else '/repo')
    print(t)
    print(json.dumps(m, indent=1))
