"""Translator for C06:  /repo source -> coq/theories/C06/Gen_Card.v   (fail-closed)

Translates the cardinality-bounds algebra of
    edb/edgeql/compiler/inference/cardinality.py
        class CardinalityBound (members, __add__, __mul__, as_required, as_schema_cardinality,
        from_required, from_schema_value), _card_to_bounds, _bounds_to_card, _card_unzip,
        product, cartesian_cardinality, max_cardinality, min_cardinality, _union_cardinality,
        _typemod_to_card, _standard_call_cardinality
    edb/edgeql/qltypes.py
        TypeModifier, SchemaCardinality, Cardinality (members, is_single, is_multi, can_be_zero,
        to_schema_value / from_schema_value through _CARD_TO_TUPLE / _TUPLE_TO_CARD), Multiplicity
    edb/edgeql/compiler/inference/multiplicity.py
        _max_multiplicity, _min_multiplicity

How: the bodies of these functions are parsed with `ast`; a tiny expression translator
(names, enum members, int(), min/max, + *, comparisons of ordered enums, `is`, `in {..}`,
`not`, conditional expressions, calls among the translated functions) turns each into a
Gallina term.  Statement shapes are matched exactly (single return; if/else of returns;
tuple-unpack of a translated call followed by a return; the accumulate loop of `product`;
the zip/unzip idiom of `_card_unzip`; the typemod dispatch loop of
`_standard_call_cardinality`).  Partial Python operations (Enum(value) lookup, dict lookup,
`assert`) become `option`.  Anything not recognised raises TranslateError: the tie is then
broken and the check reports it; the translator never guesses.
"""
from __future__ import annotations

import ast
import hashlib
import json
import os


class TranslateError(Exception):
    pass


def need(c, msg):
    if not c:
        raise TranslateError(msg)


def _read(repo, rel):
    p = os.path.join(repo, rel)
    need(os.path.exists(p), f'{rel}: missing')
    src = open(p, encoding='utf-8').read()
    return src, ast.parse(src), hashlib.sha256(src.encode()).hexdigest()


def _cls(mod, name, rel):
    for n in mod.body:
        if isinstance(n, ast.ClassDef) and n.name == name:
            return n
    raise TranslateError(f'{rel}: class {name} not found')


def _fn(body, name, rel):
    for n in body:
        if isinstance(n, ast.FunctionDef) and n.name == name:
            return n
    raise TranslateError(f'{rel}: function {name} not found')


def _strip_doc(body):
    if body and isinstance(body[0], ast.Expr) and isinstance(body[0].value, ast.Constant) \
            and isinstance(body[0].value.value, str):
        return body[1:]
    return body


def _enum_members(cls, rel, kind):
    """[(name, value)] of `NAME = <const>` assignments in class body order"""
    out = []
    for st in cls.body:
        if isinstance(st, ast.Assign):
            need(len(st.targets) == 1 and isinstance(st.targets[0], ast.Name)
                 and isinstance(st.value, ast.Constant), f'{rel}: {cls.name}: member shape')
            v = st.value.value
            need(isinstance(v, kind) and not isinstance(v, bool), f'{rel}: {cls.name}.{st.targets[0].id}: value kind')
            out.append((st.targets[0].id, v))
    need(out, f'{rel}: {cls.name}: no members')
    need(len({n for n, _ in out}) == len(out) and len({v for _, v in out}) == len(out),
         f'{rel}: {cls.name}: duplicate member names/values (aliases are not supported)')
    return out


def _bases(cls):
    return [ast.unparse(b) for b in cls.bases]


# ----------------------------------------------------------------------------- expression translator
# kinds: 'cb' 'N' 'bool' 'scard' 'card' 'tm' 'mult' 'ocb' (option cb) 'ocard' 'obounds' 'otuple'
#        'lcb' (list cb) 'lcard'

class Tx:
    def __init__(self, enums, rel):
        self.enums = enums          # kind -> {member name: coq constructor}
        self.rel = rel

    def fail(self, node, why='unsupported expression'):
        raise TranslateError(f'{self.rel}:{getattr(node, "lineno", "?")}: {why}: {ast.unparse(node)[:100]}')

    def member(self, node):
        """enum member reference -> (kind, coq ctor) or None"""
        if isinstance(node, ast.Name) and node.id in ('CB_ZERO', 'CB_ONE', 'CB_MANY'):
            return 'cb', node.id
        if isinstance(node, ast.Name) and node.id in ('AT_MOST_ONE', 'ONE', 'MANY', 'AT_LEAST_ONE'):
            return 'card', self.enums['card'][node.id]
        if isinstance(node, ast.Attribute):
            owner = ast.unparse(node.value)
            table = {
                'CardinalityBound': 'cb', 'qltypes.SchemaCardinality': 'scard', 'SchemaCardinality': 'scard',
                'qltypes.Cardinality': 'card', 'Cardinality': 'card',
                'qltypes.TypeModifier': 'tm', 'TypeModifier': 'tm',
                'qltypes.Multiplicity': 'mult', 'Multiplicity': 'mult',
            }
            k = table.get(owner)
            if k and node.attr in self.enums[k]:
                return k, self.enums[k][node.attr]
        return None

    def as_int(self, node, env):
        """translate to a term of type N"""
        if isinstance(node, ast.Constant) and isinstance(node.value, int) and not isinstance(node.value, bool):
            need(node.value >= 0, 'negative int')
            return f'{node.value}%N'
        if isinstance(node, ast.Call) and isinstance(node.func, ast.Name) and node.func.id == 'int' \
                and len(node.args) == 1 and not node.keywords:
            k, t = self.expr(node.args[0], env)
            need(k == 'cb', 'int() of a non-bound')
            return f'(cb_value {t})'
        if isinstance(node, ast.Call) and isinstance(node.func, ast.Name) and node.func.id in ('min', 'max') \
                and len(node.args) == 2 and not node.keywords:
            a, b = self.as_int(node.args[0], env), self.as_int(node.args[1], env)
            return f'(N.{node.func.id} {a} {b})'
        if isinstance(node, ast.BinOp) and isinstance(node.op, (ast.Add, ast.Mult)):
            a, b = self.as_int(node.left, env), self.as_int(node.right, env)
            return f'({a} {"+" if isinstance(node.op, ast.Add) else "*"} {b})'
        k, t = self.expr(node, env)
        if k == 'cb':          # CardinalityBound is an int subclass
            return f'(cb_value {t})'
        if k == 'N':
            return t
        self.fail(node, 'not an int expression')

    def order_index(self, k, t):
        if k == 'cb':
            return f'(cb_value {t})'
        if k == 'scard':
            return f'(scard_index {t})'
        if k == 'mult':
            return f'(mult_index {t})'
        raise TranslateError(f'{self.rel}: ordering comparison on kind {k}')

    def expr(self, node, env):
        """-> (kind, coq term)"""
        m = self.member(node)
        if m:
            return m
        if isinstance(node, ast.Name):
            need(node.id in env, f'{self.rel}:{node.lineno}: unknown name {node.id}')
            return env[node.id]
        if isinstance(node, ast.Constant) and isinstance(node.value, bool):
            return 'bool', 'true' if node.value else 'false'
        if isinstance(node, ast.UnaryOp) and isinstance(node.op, ast.Not):
            k, t = self.expr(node.operand, env)
            need(k == 'bool', 'not of non-bool')
            return 'bool', f'(negb {t})'
        if isinstance(node, ast.Compare) and len(node.ops) == 1:
            op = node.ops[0]
            rhs = node.comparators[0]
            if isinstance(op, (ast.In, ast.NotIn)):
                need(isinstance(rhs, ast.Set) and rhs.elts, 'membership in a non-literal set')
                k, t = self.expr(node.left, env)
                alts = []
                for e in rhs.elts:
                    k2, t2 = self.expr(e, env)
                    need(k2 == k, 'set literal of another enum')
                    alts.append(f'{k}_eqb {t} {t2}')
                body = '(' + ' || '.join(alts) + ')'
                return 'bool', body if isinstance(op, ast.In) else f'(negb {body})'
            k1, t1 = self.expr(node.left, env)
            k2, t2 = self.expr(rhs, env)
            need(k1 == k2, f'{self.rel}:{node.lineno}: comparison of different kinds {k1}/{k2}')
            if isinstance(op, (ast.Is, ast.Eq)):
                return 'bool', f'({k1}_eqb {t1} {t2})'
            if isinstance(op, (ast.IsNot, ast.NotEq)):
                return 'bool', f'(negb ({k1}_eqb {t1} {t2}))'
            a, b = self.order_index(k1, t1), self.order_index(k2, t2)
            if isinstance(op, ast.GtE):
                return 'bool', f'(N.leb {b} {a})'
            if isinstance(op, ast.Gt):
                return 'bool', f'(N.ltb {b} {a})'
            if isinstance(op, ast.LtE):
                return 'bool', f'(N.leb {a} {b})'
            if isinstance(op, ast.Lt):
                return 'bool', f'(N.ltb {a} {b})'
            self.fail(node)
        if isinstance(node, ast.IfExp):
            kc, tc = self.expr(node.test, env)
            need(kc == 'bool', 'condition is not boolean')
            k1, t1 = self.expr(node.body, env)
            k2, t2 = self.expr(node.orelse, env)
            need(k1 == k2, f'{self.rel}:{node.lineno}: branches of different kinds {k1}/{k2}')
            return k1, f'(if {tc} then {t1} else {t2})'
        if isinstance(node, ast.Call):
            return self.call(node, env)
        if isinstance(node, ast.Attribute) and node.attr in ('lower', 'upper'):
            k, t = self.expr(node.value, env)
            need(k == 'obounds', f'{self.rel}:{node.lineno}: .{node.attr} of something that is not CardinalityBounds')
            sel = 'fst' if node.attr == 'lower' else 'snd'
            return 'ocb', f'(obind {t} (fun b_ => Some ({sel} b_)))'
        self.fail(node)

    def call(self, node, env):
        f = ast.unparse(node.func)
        args = node.args
        need(not node.keywords or f == 'sum', f'{self.rel}:{node.lineno}: keyword arguments')
        if f == 'CardinalityBound' and len(args) == 1:
            return 'ocb', f'(cb_of_value {self.as_int(args[0], env)})'
        if f in ('CardinalityBound.from_required', 'cls.from_required') and len(args) == 1:
            k, t = self.expr(args[0], env)
            need(k == 'bool', 'from_required of non-bool')
            return 'cb', f'(cb_from_required {t})'
        if f == 'CardinalityBound.from_schema_value' and len(args) == 1:
            k, t = self.expr(args[0], env)
            need(k == 'scard', 'from_schema_value of non-scard')
            return 'cb', f'(cb_from_schema_value {t})'
        if f in ('qltypes.Cardinality.from_schema_value', 'Cardinality.from_schema_value') and len(args) == 2:
            k1, t1 = self.expr(args[0], env)
            k2, t2 = self.expr(args[1], env)
            need((k1, k2) == ('bool', 'scard'), 'Cardinality.from_schema_value argument kinds')
            return 'ocard', f'(card_from_schema_value {t1} {t2})'
        if isinstance(node.func, ast.Attribute) and not args:
            k, t = self.expr(node.func.value, env)
            meth = node.func.attr
            table = {
                ('cb', 'as_required'): ('bool', 'cb_as_required'),
                ('cb', 'as_schema_cardinality'): ('scard', 'cb_as_schema_cardinality'),
                ('card', 'is_single'): ('bool', 'card_is_single'),
                ('card', 'is_multi'): ('bool', 'card_is_multi'),
                ('card', 'can_be_zero'): ('bool', 'card_can_be_zero'),
                ('card', 'to_schema_value'): ('otuple', 'card_to_schema_value'),
            }
            if (k, meth) in table:
                rk, fn = table[(k, meth)]
                return rk, f'({fn} {t})'
        if f == '_card_to_bounds' and len(args) == 1:
            k, t = self.expr(args[0], env)
            need(k == 'card', '_card_to_bounds of non-card')
            return 'obounds', f'(card_to_bounds {t})'
        if f == '_bounds_to_card' and len(args) == 2:
            return 'ocard', self.bounds_to_card(args[0], args[1], env)
        if f == '_typemod_to_card' and len(args) == 1:
            k, t = self.expr(args[0], env)
            need(k == 'tm', '_typemod_to_card of non-typemod')
            return 'card', f'(typemod_to_card {t})'
        self.fail(node, 'unsupported call')

    def opt(self, node, env, want):
        """translate to `option want` (lifting total terms)"""
        k, t = self.list_reduce(node, env) if self.is_reduce(node) else self.expr(node, env)
        if k == want:
            return f'(Some {t})'
        if k == 'o' + want:
            return t
        raise TranslateError(f'{self.rel}:{getattr(node, "lineno", "?")}: expected {want}, got {k}: {ast.unparse(node)[:80]}')

    def bounds_to_card(self, lo, hi, env):
        a = self.opt(lo, env, 'cb')
        b = self.opt(hi, env, 'cb')
        return f'(obind {a} (fun lo_ => obind {b} (fun hi_ => bounds_to_card lo_ hi_)))'

    def is_reduce(self, node):
        return isinstance(node, ast.Call) and isinstance(node.func, ast.Name) \
            and node.func.id in ('product', 'max', 'min', 'sum') and len(node.args) == 1 \
            and isinstance(node.args[0], ast.Name)

    def list_reduce(self, node, env):
        f = node.func.id
        k, t = self.expr(node.args[0], env)
        need(k == 'lcb', f'{f}() of something that is not a list of bounds')
        if f == 'product':
            need(not node.keywords, 'product keywords')
            return 'ocb', f'(product {t})'
        if f in ('max', 'min'):
            need(not node.keywords, f'{f} keywords')
            return 'ocb', f'(cb_list_{f} {t})'
        # sum(xs, start=CB_X)
        need(len(node.keywords) == 1 and node.keywords[0].arg == 'start', 'sum() without start=')
        ks, ts = self.expr(node.keywords[0].value, env)
        need(ks == 'cb', 'sum start is not a bound')
        return 'ocb', f'(cb_list_sum {ts} {t})'


# ----------------------------------------------------------------------------- statements

def _single_return(fn, rel):
    body = _strip_doc(fn.body)
    need(len(body) == 1 and isinstance(body[0], ast.Return) and body[0].value is not None,
         f'{rel}:{fn.lineno}: {fn.name}: expected a single return statement')
    return body[0].value


def _if_returns(fn, rel):
    body = _strip_doc(fn.body)
    need(len(body) == 1 and isinstance(body[0], ast.If) and len(body[0].body) == 1 and len(body[0].orelse) == 1
         and isinstance(body[0].body[0], ast.Return) and isinstance(body[0].orelse[0], ast.Return),
         f'{rel}:{fn.lineno}: {fn.name}: expected if/else of two returns')
    return body[0].test, body[0].body[0].value, body[0].orelse[0].value


def _argnames(fn):
    return [a.arg for a in fn.args.args]


def translate(repo):
    out = []
    man = {'generator': 'harness/translate/c06_card.py', 'sources': []}
    spans = {}

    def span(rel, node):
        spans.setdefault(rel, []).append([node.lineno, getattr(node, 'end_lineno', node.lineno)])

    # ================================================================= qltypes.py
    rel = 'edb/edgeql/qltypes.py'
    src, mod, sha = _read(repo, rel)
    enums = {}
    decl = {}
    for cname, kind, prefix in (('TypeModifier', 'tm', ''), ('SchemaCardinality', 'scard', 'SC_'),
                                ('Cardinality', 'card', ''), ('Multiplicity', 'mult', 'M_')):
        c = _cls(mod, cname, rel)
        span(rel, c)
        ms = _enum_members(c, rel, str)
        need(all(n == v for n, v in ms), f'{rel}: {cname}: member value differs from its name')
        enums[kind] = {n: prefix + n for n, _ in ms}
        decl[kind] = [prefix + n for n, _ in ms]
        bases = _bases(c)
        if kind in ('scard', 'mult'):
            need(bases and bases[0] == 's_enum.OrderedEnumMixin', f'{rel}: {cname} is no longer an OrderedEnumMixin')
        else:
            need('s_enum.OrderedEnumMixin' not in bases, f'{rel}: {cname} became ordered')
    need(decl['tm'] == ['SetOfType', 'OptionalType', 'SingletonType'], f'{rel}: TypeModifier members changed')
    need(decl['card'] == ['AT_MOST_ONE', 'ONE', 'MANY', 'AT_LEAST_ONE', 'UNKNOWN'], f'{rel}: Cardinality members changed')
    need(decl['scard'] == ['SC_One', 'SC_Many', 'SC_Unknown'], f'{rel}: SchemaCardinality members changed')
    need(decl['mult'] == ['M_EMPTY', 'M_UNIQUE', 'M_DUPLICATE', 'M_UNKNOWN'], f'{rel}: Multiplicity members changed')

    # OrderedEnumMixin compares by position in the class body
    rel_e = 'edb/common/enum.py'
    src_e, mod_e, sha_e = _read(repo, rel_e)
    oem = _cls(mod_e, 'OrderedEnumMixin', rel_e)
    span(rel_e, oem)
    idx = _fn(oem.body, '_index_of', rel_e)
    need(ast.unparse(_single_return(idx, rel_e)) == 'list(cls).index(value)', f'{rel_e}: _index_of changed')
    need([ast.unparse(d) for d in oem.decorator_list] == ['functools.total_ordering'],
         f'{rel_e}: OrderedEnumMixin is no longer a functools.total_ordering class')
    f = _fn(oem.body, '__lt__', rel_e)
    need('self._index_of(self) < self._index_of(other)' in ast.unparse(f), f'{rel_e}: OrderedEnumMixin.__lt__ changed')
    need(not any(isinstance(n, ast.FunctionDef) and n.name in ('__gt__', '__le__', '__ge__', '__eq__') for n in oem.body),
         f'{rel_e}: OrderedEnumMixin defines more comparison methods')
    man['sources'].append({'file': rel_e, 'sha256': sha_e, 'lines': spans.get(rel_e)})

    tx = Tx({**enums, 'cb': {}}, rel)
    card_cls = _cls(mod, 'Cardinality', rel)

    out.append('(* ---- edb/edgeql/qltypes.py *)')
    out.append('Inductive typemod := ' + ' | '.join(decl['tm']) + '.')
    out.append('Inductive scard := ' + ' | '.join(decl['scard']) + '.')
    out.append('Inductive card := ' + ' | '.join(decl['card']) + '.')
    out.append('Inductive mult := ' + ' | '.join(decl['mult']) + '.')
    for kind, ty in (('tm', 'typemod'), ('scard', 'scard'), ('card', 'card'), ('mult', 'mult')):
        cs = decl[kind]
        out.append(f'Definition {kind}_eqb (a b : {ty}) : bool :=\n  match a, b with '
                   + ' | '.join(f'{c}, {c} => true' for c in cs) + ' | _, _ => false end.')
    for kind, ty in (('scard', 'scard'), ('mult', 'mult')):
        cs = decl[kind]
        out.append(f'(* OrderedEnumMixin: position in the class body *)\nDefinition {kind}_index (a : {ty}) : N :=\n  match a with '
                   + ' | '.join(f'{c} => {i}%N' for i, c in enumerate(cs)) + ' end.')

    env_self = {'self': ('card', 'self')}
    for nm in ('is_single', 'is_multi', 'can_be_zero'):
        f = _fn(card_cls.body, nm, rel)
        need(_argnames(f) == ['self'], f'{rel}: Cardinality.{nm} signature')
        k, t = tx.expr(_single_return(f, rel), env_self)
        need(k == 'bool', f'{rel}: Cardinality.{nm} does not return a bool')
        out.append(f'Definition card_{nm} (self : card) : bool := {t}.')
    f = _fn(card_cls.body, 'to_schema_value', rel)
    need(ast.unparse(_single_return(f, rel)) == '_CARD_TO_TUPLE[self]', f'{rel}: to_schema_value changed')
    f = _fn(card_cls.body, 'from_schema_value', rel)
    need(ast.unparse(_single_return(f, rel)) == '_TUPLE_TO_CARD[required, card]'
         and _argnames(f) == ['cls', 'required', 'card'], f'{rel}: from_schema_value changed')
    tables = {}
    for st in mod.body:
        if isinstance(st, ast.Assign) and isinstance(st.targets[0], ast.Name) \
                and st.targets[0].id in ('_CARD_TO_TUPLE', '_TUPLE_TO_CARD'):
            need(isinstance(st.value, ast.Dict), f'{rel}: {st.targets[0].id} is not a dict literal')
            tables[st.targets[0].id] = st.value
            span(rel, st)
    need(set(tables) == {'_CARD_TO_TUPLE', '_TUPLE_TO_CARD'}, f'{rel}: lookup tables not found')

    def tup(node):
        need(isinstance(node, ast.Tuple) and len(node.elts) == 2 and isinstance(node.elts[0], ast.Constant)
             and isinstance(node.elts[0].value, bool), f'{rel}:{node.lineno}: (bool, SchemaCardinality) expected')
        k, t = tx.expr(node.elts[1], {})
        need(k == 'scard', 'table entry kind')
        return ('true' if node.elts[0].value else 'false'), t
    rows = []
    seen = set()
    for k_, v_ in zip(tables['_CARD_TO_TUPLE'].keys, tables['_CARD_TO_TUPLE'].values):
        kk, kt = tx.expr(k_, {})
        need(kk == 'card' and kt not in seen, f'{rel}: _CARD_TO_TUPLE key')
        seen.add(kt)
        b, s = tup(v_)
        rows.append(f'{kt} => Some ({b}, {s})')
    out.append('(* Cardinality.to_schema_value = _CARD_TO_TUPLE[self]  (KeyError -> None) *)\n'
               'Definition card_to_schema_value (self : card) : option (bool * scard) :=\n  match self with '
               + ' | '.join(rows) + (' | _ => None' if len(seen) < len(decl['card']) else '') + ' end.')
    rows = []
    seen = set()
    for k_, v_ in zip(tables['_TUPLE_TO_CARD'].keys, tables['_TUPLE_TO_CARD'].values):
        b, s = tup(k_)
        need((b, s) not in seen, f'{rel}: _TUPLE_TO_CARD duplicate key')
        seen.add((b, s))
        vk, vt = tx.expr(v_, {})
        need(vk == 'card', f'{rel}: _TUPLE_TO_CARD value')
        rows.append(f'{b}, {s} => Some {vt}')
    out.append('(* Cardinality.from_schema_value = _TUPLE_TO_CARD[(required, card)]  (KeyError -> None) *)\n'
               'Definition card_from_schema_value (required : bool) (c : scard) : option card :=\n  match required, c with '
               + ' | '.join(rows) + ' | _, _ => None end.')
    man['sources'].append({'file': rel, 'sha256': sha, 'lines': spans.get(rel)})

    # ================================================================= cardinality.py
    rel = 'edb/edgeql/compiler/inference/cardinality.py'
    src, mod, sha = _read(repo, rel)
    tx.rel = rel
    cbc = _cls(mod, 'CardinalityBound', rel)
    span(rel, cbc)
    need(_bases(cbc) == ['int', 'enum.Enum'], f'{rel}: CardinalityBound bases changed')
    ms = _enum_members(cbc, rel, int)
    need([n for n, _ in ms] == ['ZERO', 'ONE', 'MANY'], f'{rel}: CardinalityBound members changed')
    need(all(v >= 0 for _, v in ms), f'{rel}: negative bound value')
    tx.enums['cb'] = {n: 'CB_' + n for n, _ in ms}
    # module aliases CB_ZERO = CardinalityBound.ZERO ...
    for st in mod.body:
        if isinstance(st, ast.Assign) and isinstance(st.targets[0], ast.Name) and st.targets[0].id.startswith('CB_'):
            need(ast.unparse(st.value) == 'CardinalityBound.' + st.targets[0].id[3:], f'{rel}: alias {st.targets[0].id}')
            span(rel, st)
        if isinstance(st, ast.Assign) and isinstance(st.targets[0], ast.Name) \
                and st.targets[0].id in ('AT_MOST_ONE', 'ONE', 'MANY', 'AT_LEAST_ONE'):
            need(ast.unparse(st.value) == 'qltypes.Cardinality.' + st.targets[0].id, f'{rel}: alias {st.targets[0].id}')
    out.append('\n(* ---- edb/edgeql/compiler/inference/cardinality.py *)')
    out.append('Inductive cb := ' + ' | '.join('CB_' + n for n, _ in ms) + '.')
    out.append('Definition cb_eqb (a b : cb) : bool :=\n  match a, b with '
               + ' | '.join(f'CB_{n}, CB_{n} => true' for n, _ in ms) + ' | _, _ => false end.')
    out.append('Definition cb_value (b : cb) : N := match b with '
               + ' | '.join(f'CB_{n} => {v}%N' for n, v in ms) + ' end.')
    out.append('(* CardinalityBound(v): Enum lookup by value (ValueError -> None) *)\n'
               'Definition cb_of_value (v : N) : option cb :=\n  '
               + ' else '.join(f'if N.eqb v {v}%N then Some CB_{n}' for n, v in ms) + ' else None.')
    out.append(PRELUDE)

    for nm, coq in (('__add__', 'cb_add'), ('__mul__', 'cb_mul')):
        f = _fn(cbc.body, nm, rel)
        need(_argnames(f) == ['self', 'other'], f'{rel}: CardinalityBound.{nm} signature')
        k, t = tx.expr(_single_return(f, rel), {'self': ('cb', 'self'), 'other': ('cb', 'other')})
        need(k == 'ocb', f'{rel}: CardinalityBound.{nm} does not build a CardinalityBound')
        out.append(f'Definition {coq} (self other : cb) : option cb := {t}.')
    f = _fn(cbc.body, 'as_required', rel)
    k, t = tx.expr(_single_return(f, rel), {'self': ('cb', 'self')})
    need(k == 'bool', 'as_required kind')
    out.append(f'Definition cb_as_required (self : cb) : bool := {t}.')
    f = _fn(cbc.body, 'as_schema_cardinality', rel)
    c_, a_, b_ = _if_returns(f, rel)
    kc, tc = tx.expr(c_, {'self': ('cb', 'self')})
    ka, ta = tx.expr(a_, {})
    kb, tb = tx.expr(b_, {})
    need((kc, ka, kb) == ('bool', 'scard', 'scard'), 'as_schema_cardinality kinds')
    out.append(f'Definition cb_as_schema_cardinality (self : cb) : scard := if {tc} then {ta} else {tb}.')
    f = _fn(cbc.body, 'from_required', rel)
    need(_argnames(f) == ['cls', 'required'], 'from_required signature')
    k, t = tx.expr(_single_return(f, rel), {'required': ('bool', 'required')})
    need(k == 'cb', 'from_required kind')
    out.append(f'Definition cb_from_required (required : bool) : cb := {t}.')
    f = _fn(cbc.body, 'from_schema_value', rel)
    need(_argnames(f) == ['cls', 'card'], 'from_schema_value signature')
    c_, a_, b_ = _if_returns(f, rel)
    kc, tc = tx.expr(c_, {'card': ('scard', 'c')})
    ka, ta = tx.expr(a_, {})
    kb, tb = tx.expr(b_, {})
    need((kc, ka, kb) == ('bool', 'cb', 'cb'), 'from_schema_value kinds')
    out.append(f'Definition cb_from_schema_value (c : scard) : cb := if {tc} then {ta} else {tb}.')

    # CardinalityBounds NamedTuple(lower, upper)
    cbs = _cls(mod, 'CardinalityBounds', rel)
    flds = [st.target.id for st in cbs.body if isinstance(st, ast.AnnAssign)]
    need(flds == ['lower', 'upper'], f'{rel}: CardinalityBounds fields changed')

    # _card_to_bounds
    f = _fn(mod.body, '_card_to_bounds', rel)
    span(rel, f)
    body = _strip_doc(f.body)
    need(_argnames(f) == ['card'] and len(body) == 2 and ast.unparse(body[0]) == 'lower, upper = card.to_schema_value()'
         and isinstance(body[1], ast.Return) and isinstance(body[1].value, ast.Call)
         and ast.unparse(body[1].value.func) == 'CardinalityBounds' and len(body[1].value.args) == 2,
         f'{rel}: _card_to_bounds shape')
    e2 = {'lower': ('bool', 'lower'), 'upper': ('scard', 'upper')}
    k1, t1 = tx.expr(body[1].value.args[0], e2)
    k2, t2 = tx.expr(body[1].value.args[1], e2)
    need((k1, k2) == ('cb', 'cb'), '_card_to_bounds kinds')
    out.append('Definition card_to_bounds (c : card) : option (cb * cb) :=\n'
               f'  match card_to_schema_value c with Some (lower, upper) => Some ({t1}, {t2}) | None => None end.')

    # _bounds_to_card
    f = _fn(mod.body, '_bounds_to_card', rel)
    span(rel, f)
    need(_argnames(f) == ['lower', 'upper'], '_bounds_to_card signature')
    k, t = tx.expr(_single_return(f, rel), {'lower': ('cb', 'lower'), 'upper': ('cb', 'upper')})
    need(k == 'ocard', '_bounds_to_card kind')
    out.append(f'Definition bounds_to_card (lower upper : cb) : option card := {t}.')

    # _card_unzip  (exact idiom)
    f = _fn(mod.body, '_card_unzip', rel)
    span(rel, f)
    want = ['card = list(zip(*(_card_to_bounds(a) for a in args)))',
            'lower, upper = card if card else ((), ())',
            'return (lower, upper)']
    got = [ast.unparse(s) for s in _strip_doc(f.body)]
    need(got == want and _argnames(f) == ['args'], f'{rel}: _card_unzip idiom changed: {got}')
    out.append('(* zip of the argument bounds: the lists of lower and of upper bounds, in argument order *)\n'
               'Definition card_unzip (args : list card) : option (list cb * list cb) :=\n'
               '  obind (omap_list card_to_bounds args) (fun bs => Some (map fst bs, map snd bs)).')

    # product  (accumulate loop)
    f = _fn(mod.body, 'product', rel)
    span(rel, f)
    body = _strip_doc(f.body)
    need(_argnames(f) == ['arg'] and len(body) == 3 and isinstance(body[0], ast.Assign)
         and ast.unparse(body[0].targets[0]) == 'res' and ast.unparse(body[1]) == 'for x in arg:\n    res *= x'
         and ast.unparse(body[2]) == 'return res', f'{rel}: product shape')
    k, t = tx.expr(body[0].value, {})
    need(k == 'cb', 'product start')
    out.append(f'Definition product (arg : list cb) : option cb :=\n'
               f'  fold_left (fun res x => obind res (fun r => cb_mul r x)) arg (Some {t}).')

    # cartesian / max / min / union
    for nm, coq in (('cartesian_cardinality', 'cartesian_cardinality'), ('max_cardinality', 'max_cardinality'),
                    ('min_cardinality', 'min_cardinality'), ('_union_cardinality', 'union_cardinality')):
        f = _fn(mod.body, nm, rel)
        span(rel, f)
        body = _strip_doc(f.body)
        need(_argnames(f) == ['args'] and body and ast.unparse(body[0]) == 'lower, upper = _card_unzip(args)',
             f'{rel}: {nm}: first statement')
        rest = body[1:]
        guard = 'true'
        if len(rest) == 2:
            need(isinstance(rest[0], ast.Assert) and isinstance(rest[0].test, ast.Name)
                 and rest[0].test.id in ('lower', 'upper'), f'{rel}: {nm}: assert shape')
            guard = f'negb (is_nil {rest[0].test.id})'
            rest = rest[1:]
        need(len(rest) == 1 and isinstance(rest[0], ast.Return) and isinstance(rest[0].value, ast.Call)
             and ast.unparse(rest[0].value.func) == '_bounds_to_card' and len(rest[0].value.args) == 2,
             f'{rel}: {nm}: return shape')
        t = tx.bounds_to_card(rest[0].value.args[0], rest[0].value.args[1],
                              {'lower': ('lcb', 'lower'), 'upper': ('lcb', 'upper')})
        out.append(f'Definition {coq} (args : list card) : option card :=\n'
                   f'  obind (card_unzip args) (fun lu => let lower := fst lu in let upper := snd lu in\n'
                   f'    if {guard} then {t} else None).')

    # _typemod_to_card
    f = _fn(mod.body, '_typemod_to_card', rel)
    span(rel, f)
    need(_argnames(f) == ['typemod'], '_typemod_to_card signature')
    k, t = tx.expr(_single_return(f, rel), {'typemod': ('tm', 'typemod')})
    need(k == 'card', '_typemod_to_card kind')
    out.append(f'Definition typemod_to_card (typemod : typemod) : card := {t}.')

    # _standard_call_cardinality  (typemod dispatch loop)
    f = _fn(mod.body, '_standard_call_cardinality', rel)
    span(rel, f)
    body = [s for s in _strip_doc(f.body)]
    need(len(body) == 5 and ast.unparse(body[0]) == 'non_aggregate_args = []'
         and ast.unparse(body[1]) == 'non_aggregate_arg_cards = []' and isinstance(body[2], ast.For)
         and ast.unparse(body[2].target) == '(arg, card)' and ast.unparse(body[2].iter) == 'zip(ir.args.values(), cards)'
         and ast.unparse(body[3]) == '_check_op_volatility(non_aggregate_args, non_aggregate_arg_cards, ctx=ctx)'
         and ast.unparse(body[4]) ==
         'return cartesian_cardinality(non_aggregate_arg_cards + [_typemod_to_card(ir.typemod)])',
         f'{rel}: _standard_call_cardinality shape')
    loop = body[2].body
    need(len(loop) == 2 and ast.unparse(loop[0]) == 'typemod = arg.param_typemod' and isinstance(loop[1], ast.If),
         f'{rel}: _standard_call_cardinality loop body')
    branches = []
    node = loop[1]
    while True:
        need(isinstance(node.test, ast.Compare) and isinstance(node.test.ops[0], ast.Is)
             and ast.unparse(node.test.left) == 'typemod', f'{rel}: typemod dispatch test')
        km, tm_ = tx.expr(node.test.comparators[0], {})
        need(km == 'tm', 'dispatch on a non-typemod')
        need(len(node.body) == 2 and ast.unparse(node.body[0]) == 'non_aggregate_args.append(arg.expr)'
             and isinstance(node.body[1], ast.Expr) and isinstance(node.body[1].value, ast.Call)
             and ast.unparse(node.body[1].value.func) == 'non_aggregate_arg_cards.append'
             and len(node.body[1].value.args) == 1, f'{rel}: dispatch branch body')
        ke, te = tx.expr(node.body[1].value.args[0], {'card': ('card', 'c'), 'typemod': ('tm', 'typemod')})
        te = f'(Some {te})' if ke == 'card' else te
        need(ke in ('card', 'ocard'), 'appended value is not a cardinality')
        branches.append((tm_, te))
        if not node.orelse:
            break
        need(len(node.orelse) == 1 and isinstance(node.orelse[0], ast.If), f'{rel}: dispatch else-branch')
        node = node.orelse[0]
    need(len({b for b, _ in branches}) == len(branches), 'duplicate dispatch branch')
    chain = ''
    for tm_, te in branches:
        chain += f'if tm_eqb typemod {tm_} then obind {te} (fun x => obind rest (fun r => Some (x :: r))) else '
    chain += 'rest'
    out.append('(* the non-SET OF argument cardinalities, optional ones with the lower bound forced *)\n'
               'Fixpoint non_aggregate_arg_cards (args : list (typemod * card)) : option (list card) :=\n'
               '  match args with\n  | [] => Some []\n  | (typemod, c) :: tl =>\n'
               '      let rest := non_aggregate_arg_cards tl in\n      ' + chain + '\n  end.')
    out.append('Definition standard_call_cardinality (args : list (typemod * card)) (ret : typemod) : option card :=\n'
               '  obind (non_aggregate_arg_cards args) (fun l => cartesian_cardinality (l ++ [typemod_to_card ret])).')
    man['sources'].append({'file': rel, 'sha256': sha, 'lines': spans.get(rel)})

    # ================================================================= multiplicity.py
    rel = 'edb/edgeql/compiler/inference/multiplicity.py'
    src, mod, sha = _read(repo, rel)
    tx.rel = rel
    out.append('\n(* ---- edb/edgeql/compiler/inference/multiplicity.py *)')
    for nm, coq, var in (('_max_multiplicity', 'max_multiplicity', 'max_mult'),
                         ('_min_multiplicity', 'min_multiplicity', 'min_mult')):
        f = _fn(mod.body, nm, rel)
        span(rel, f)
        body = _strip_doc(f.body)
        need(_argnames(f) == ['args'] and len(body) == 3 and ast.unparse(body[0]) == 'arg_list = [a.own for a in args]'
             and isinstance(body[1], ast.If) and ast.unparse(body[1].test) == 'not arg_list'
             and len(body[1].body) == 1 and len(body[1].orelse) == 1
             and isinstance(body[1].body[0], ast.Assign) and isinstance(body[1].orelse[0], ast.Assign)
             and ast.unparse(body[1].body[0].targets[0]) == var and ast.unparse(body[1].orelse[0].targets[0]) == var
             and ast.unparse(body[2]) == f'return inf_ctx.MultiplicityInfo(own={var})', f'{rel}: {nm} shape')
        kd, td = tx.expr(body[1].body[0].value, {})
        need(kd == 'mult', f'{nm} default')
        red = body[1].orelse[0].value
        need(isinstance(red, ast.Call) and isinstance(red.func, ast.Name) and red.func.id in ('max', 'min')
             and ast.unparse(red.args[0]) == 'arg_list' and len(red.args) == 1, f'{rel}: {nm} reduction')
        out.append(f'(* own of the result; the result is a NEW MultiplicityInfo object *)\n'
                   f'Definition {coq} (args : list mult) : mult :=\n'
                   f'  match args with [] => {td} | a :: tl => mult_list_{red.func.id} a tl end.')
    man['sources'].append({'file': rel, 'sha256': sha, 'lines': spans.get(rel)})

    header = ('(* GENERATED by harness/translate/c06_card.py -- DO NOT EDIT.\n'
              '   Translation of the cardinality-bounds algebra (see the translator docstring for the\n'
              '   recognised shapes).  Regenerated from the working tree on every run. *)\n'
              'From Coq Require Import List NArith Bool.\nImport ListNotations.\nOpen Scope bool_scope.\n')
    return header + '\n'.join(out) + '\n', man


PRELUDE = '''(* fixed helpers (Python builtins used by the translated code) *)
Definition obind {A B} (o : option A) (f : A -> option B) : option B :=
  match o with Some a => f a | None => None end.
Fixpoint omap_list {A B} (f : A -> option B) (l : list A) : option (list B) :=
  match l with
  | [] => Some []
  | a :: tl => obind (f a) (fun b => obind (omap_list f tl) (fun r => Some (b :: r)))
  end.
Definition is_nil {A} (l : list A) : bool := match l with [] => true | _ => false end.
(* max()/min() of a non-empty list of int-enum members: first extremal element wins, as in Python *)
Definition cb_max2 (a b : cb) : cb := if N.ltb (cb_value a) (cb_value b) then b else a.
Definition cb_min2 (a b : cb) : cb := if N.ltb (cb_value b) (cb_value a) then b else a.
Definition cb_list_max (l : list cb) : option cb :=
  match l with [] => None | a :: tl => Some (fold_left cb_max2 tl a) end.
Definition cb_list_min (l : list cb) : option cb :=
  match l with [] => None | a :: tl => Some (fold_left cb_min2 tl a) end.'''

PRELUDE2 = '''(* sum(xs, start=s): s + x1 + x2 ... through CardinalityBound.__add__ *)
Definition cb_list_sum (start : cb) (l : list cb) : option cb :=
  fold_left (fun acc x => obind acc (fun a => cb_add a x)) l (Some start).
Definition mult_max2 (a b : mult) : mult := if N.ltb (mult_index a) (mult_index b) then b else a.
Definition mult_min2 (a b : mult) : mult := if N.ltb (mult_index b) (mult_index a) then b else a.
Definition mult_list_max (a : mult) (tl : list mult) : mult := fold_left mult_max2 tl a.
Definition mult_list_min (a : mult) (tl : list mult) : mult := fold_left mult_min2 tl a.'''


def generate(repo, coq_dir):
    """regenerate Gen_Card.v (+ manifest); returns the manifest.  Raises TranslateError."""
    text, man = translate(repo)
    # cb_list_sum needs cb_add: place PRELUDE2 right after the definition of cb_mul
    marker = 'Definition cb_as_required'
    need(marker in text, 'internal: marker')
    text = text.replace(marker, PRELUDE2 + '\n' + marker, 1)
    path = os.path.join(coq_dir, 'theories', 'C06', 'Gen_Card.v')
    os.makedirs(os.path.dirname(path), exist_ok=True)
    old = open(path).read() if os.path.exists(path) else None
    if old != text:
        with open(path, 'w') as f:
            f.write(text)
    man['output_sha256'] = hashlib.sha256(text.encode()).hexdigest()
    with open(os.path.join(coq_dir, 'theories', 'C06', 'Gen_Card.manifest.json'), 'w') as f:
        json.dump(man, f, indent=1)
    return man


if __name__ == '__main__':
    import sys
    repo = sys.argv[1] if len(sys.argv) > 1 else '/repo'
    t, m = translate(repo)
    sys.stdout.write(t.replace('Definition cb_as_required', PRELUDE2 + '\nDefinition cb_as_required', 1))
