"""Translator for C18:  /repo source  ->  coq/theories/C18/Gen_Quote.v   (fail-closed)

What is translated are the *tables and constants* of the quoting functions; the *shape* of each
function (its AST with every constant replaced by a hole) must be exactly the shape the
hand-written Gallina model in theories/C18/Model.v mirrors -- it is compared by SHA-256 of the
normalised `ast.dump`.  Any other shape raises TranslateError: the tie is then broken and the
check reports it (and searches for a failing input); the translator never guesses.

  edb/edgeql/quote.py
      _re_ident, _re_ident_or_num        pattern text must be the modelled one
      escape_string                      chain `result = result.replace(A, B)` -> g_ql_escape_table (in order)
      quote_literal                      `"'" + escape_string(string) + "'"`  -> g_ql_lit_quote
      dollar_quote_literal               constants '$$', 16, 10, '${:x}$'     -> g_dq_*
      needs_quoting                      '@', '::', '__' / '__' (reserved dunder names stay bare) -> g_ql_*
      _quote_ident / quote_ident         '`' / '``'
  edb/edgeql/codegen.py
      _BYTES_ESCAPE_RE, _NON_PRINTABLE_RE  single character class -> ranges
      _ESCAPES, _bytes_escape ('\\x%02x'), param_to_str, ident_to_str,
      visit_Constant (delimiter tuple), visit_BytesConstant
  edb/edgeql/parser/grammar/keywords.py  how reserved / partial sets are assembled (shape only)
  edb/edgeql-parser/src/keywords.rs      phf_set! blocks + lookup/lookup_all bodies
  edb/pgsql/common.py                    quote_literal, _quote_ident, quote_ident, quote_bytea_literal,
                                         needs_quoting, qname
  edb/pgsql/codegen.py                   visit_StringConstant / visit_ByteaConstant
  edb/pgsql/dbops/base.py                encode_value + `from ..common import quote_literal as ql`
  edb/pgsql/keywords.py                  pg_keywords dict literal, class constants
"""
from __future__ import annotations

import ast
import hashlib
import json
import os
import re
import sys


class TranslateError(Exception):
    pass


def _need(cond, msg):
    if not cond:
        raise TranslateError(msg)


# ----------------------------------------------------------------------------- shapes

class _Holes(ast.NodeTransformer):
    def __init__(self):
        self.consts = []

    def visit_Constant(self, node):
        self.consts.append(node.value)
        return ast.copy_location(ast.Constant(value='?'), node)


def shape_of(node):
    """(sha256 of the AST with constants replaced by holes and annotations/docstrings dropped,
    list of the constants in source order)"""
    node = ast.parse(ast.unparse(node))          # detach + normalise positions
    for n in ast.walk(node):
        if isinstance(n, (ast.FunctionDef, ast.AsyncFunctionDef)):
            n.returns = None
            for a in n.args.args + n.args.kwonlyargs + n.args.posonlyargs:
                a.annotation = None
            if (n.body and isinstance(n.body[0], ast.Expr) and isinstance(n.body[0].value, ast.Constant)
                    and isinstance(n.body[0].value.value, str)):
                n.body = n.body[1:] or [ast.Pass()]
    h = _Holes()
    node = h.visit(node)
    dump = ast.dump(node, annotate_fields=True, include_attributes=False)
    return hashlib.sha256(dump.encode()).hexdigest()[:20], h.consts


def _find(mod, kind, name, within=None):
    body = within.body if within is not None else mod.body
    for n in body:
        if isinstance(n, kind) and getattr(n, 'name', None) == name:
            return n
    raise TranslateError(f'{name} not found')


def _assign(mod, name):
    for n in mod.body:
        if isinstance(n, ast.Assign) and len(n.targets) == 1 and isinstance(n.targets[0], ast.Name) \
                and n.targets[0].id == name:
            return n
        if isinstance(n, ast.AnnAssign) and isinstance(n.target, ast.Name) and n.target.id == name:
            return n
    raise TranslateError(f'assignment to {name} not found')


# expected shapes (computed from the pinned tree; see `--print-shapes`)
SHAPES = {
    'quote.quote_literal': '',
    'quote.dollar_quote_literal': '',
    'quote.needs_quoting': '',
    'quote._quote_ident': '',
    'quote.quote_ident': '',
    'codegen._bytes_escape': '',
    'codegen.param_to_str': '',
    'codegen.ident_to_str': '',
    'codegen.visit_Constant': '',
    'codegen.visit_BytesConstant': '',
    'codegen.visit_Parameter': '',
    'qlkeywords.module': '',
    'pg.quote_literal': '',
    'pg._quote_ident': '',
    'pg.quote_ident': '',
    'pg.quote_bytea_literal': '',
    'pg.needs_quoting': '',
    'pg.qname': '',
    'pgcodegen.visit_StringConstant': '',
    'pgcodegen.visit_ByteaConstant': '',
    'dbops.encode_value': '',
    'pgkeywords.header': '',
}
SHAPES_FILE = os.path.join(os.path.dirname(os.path.abspath(__file__)), 'c18_shapes.json')
if os.path.exists(SHAPES_FILE):
    SHAPES = json.load(open(SHAPES_FILE))

RE_IDENT = "(?x)\n    [^\\W\\d]\\w*  # alphanumeric identifier\n"
RE_IDENT_NUM = ("(?x)\n    [^\\W\\d]\\w*  # alphanumeric identifier\n    |\n"
                "    ([1-9]\\d* | 0)  # purely integer identifier\n")


class Tr:
    def __init__(self, repo, print_shapes=False):
        self.repo = repo
        self.sources = []
        self.print_shapes = print_shapes
        self.seen_shapes = {}

    def load(self, rel):
        p = os.path.join(self.repo, rel)
        _need(os.path.exists(p), f'{rel} missing')
        src = open(p, encoding='utf-8').read()
        self.sources.append({'file': rel, 'sha256': hashlib.sha256(src.encode()).hexdigest()})
        return src

    def shape(self, key, node):
        sh, consts = shape_of(node)
        self.seen_shapes[key] = sh
        if not self.print_shapes:
            _need(SHAPES.get(key) == sh,
                  f'{key}: source shape {sh} is not the modelled shape {SHAPES.get(key)} '
                  f'(the function was edited; the Gallina model no longer mirrors it)')
        return consts


def _class_ranges(pattern, what):
    import re._parser as P
    try:
        tree = list(P.parse(pattern))
    except Exception as e:
        raise TranslateError(f'{what}: cannot parse pattern: {e}')
    _need(len(tree) == 1 and str(tree[0][0]) == 'IN', f'{what}: not a single character class')
    out = []
    for op, arg in tree[0][1]:
        if str(op) == 'LITERAL':
            out.append((arg, arg))
        elif str(op) == 'RANGE':
            out.append((arg[0], arg[1]))
        else:
            raise TranslateError(f'{what}: unsupported class item {op}')
    return out


def _re_compile_arg(mod, name):
    a = _assign(mod, name)
    v = a.value
    _need(isinstance(v, ast.Call) and isinstance(v.func, ast.Attribute) and v.func.attr == 'compile'
          and isinstance(v.func.value, ast.Name) and v.func.value.id == 're'
          and len(v.args) == 1 and not v.keywords and isinstance(v.args[0], ast.Constant),
          f'{name}: not re.compile(<literal>)')
    return v.args[0].value


def cps(s):
    if isinstance(s, bytes):
        return list(s)
    return [ord(c) for c in s]


def translate(repo, print_shapes=False):
    t = Tr(repo, print_shapes)
    G = {}

    # ------------------------------------------------------------------ edb/edgeql/quote.py
    src = t.load('edb/edgeql/quote.py')
    mod = ast.parse(src)
    _need(_re_compile_arg(mod, '_re_ident') == RE_IDENT, '_re_ident pattern changed')
    _need(_re_compile_arg(mod, '_re_ident_or_num') == RE_IDENT_NUM, '_re_ident_or_num pattern changed')

    fn = _find(mod, ast.FunctionDef, 'escape_string')
    # body: result = s ; (result = result.replace(A, B))* ;
    #       for c in _BIDI_CONTROLS: if c in result: result = result.replace(c, '\\u{:04x}'.format(ord(c))) ;
    #       return result
    body = [n for n in fn.body]
    _need(len(body) >= 3 and isinstance(body[0], ast.Assign) and ast.unparse(body[0]) == 'result = s'
          and ast.unparse(body[-1]) == 'return result', 'escape_string: frame')
    table = []
    for n in body[1:-2]:
        ok = (isinstance(n, ast.Assign) and ast.unparse(n.targets[0]) == 'result'
              and isinstance(n.value, ast.Call) and ast.unparse(n.value.func) == 'result.replace'
              and len(n.value.args) == 2 and not n.value.keywords
              and all(isinstance(a, ast.Constant) and isinstance(a.value, str) for a in n.value.args))
        _need(ok, 'escape_string: statement is not result = result.replace(<str>, <str>)')
        a, b = n.value.args[0].value, n.value.args[1].value
        _need(len(a) == 1, 'escape_string: pattern is not a single character')
        table.append((ord(a), cps(b)))
    G['g_ql_escape_table'] = table
    loop = body[-2]
    _need(isinstance(loop, ast.For) and ast.unparse(loop) ==
          "for c in _BIDI_CONTROLS:\n    if c in result:\n        "
          "result = result.replace(c, '\\\\u{:04x}'.format(ord(c)))",
          'escape_string: the loop over _BIDI_CONTROLS is not the modelled one: ' + ast.unparse(loop))
    bd = _assign(mod, '_BIDI_CONTROLS').value
    _need(isinstance(bd, ast.Constant) and isinstance(bd.value, str), '_BIDI_CONTROLS: not a str literal')
    _need(all(0x100 <= ord(ch) < 0x10000 for ch in bd.value), '_BIDI_CONTROLS: outside U+0100..U+FFFF')
    G['g_ql_escape_bidi'] = cps(bd.value)

    c = t.shape('quote.quote_literal', _find(mod, ast.FunctionDef, 'quote_literal'))
    _need(len(c) == 2 and c[0] == c[1] and isinstance(c[0], str) and len(c[0]) == 1, 'quote_literal consts')
    G['g_ql_lit_quote'] = ord(c[0])

    c = t.shape('quote.dollar_quote_literal', _find(mod, ast.FunctionDef, 'dollar_quote_literal'))
    # consts: '$$', 0, 1 (quote[:-1]), 16, 10, 10, 16, '${:x}$', 1 ([::-1]), 1
    _need(len(c) == 10 and c[1] == 0 and c[2] == 1 and c[3] == c[6] and c[4] == c[5] and c[8] == 1 and c[9] == 1
          and isinstance(c[0], str) and isinstance(c[7], str), f'dollar_quote_literal consts {c}')
    c = [c[0], c[1]] + c[3:]
    m = re.fullmatch(r'([^{}]*)\{:x\}([^{}]*)', c[6])
    _need(m is not None, 'dollar_quote_literal: format string')
    G['g_dq_init'] = cps(c[0])
    G['g_dq_mod'] = c[2]
    G['g_dq_thr'] = c[3]
    # '${:x}$'.format(qq)[::-1]  ==  reversed(post) + reversed(hex) + reversed(pre)
    G['g_dq_open'] = cps(m.group(2)[::-1])
    G['g_dq_close'] = cps(m.group(1)[::-1])

    c = t.shape('quote.needs_quoting', _find(mod, ast.FunctionDef, 'needs_quoting'))
    _need(len(c) == 6 and c[0] is True and c[3] is False and all(isinstance(x, str) for x in c[1:3] + c[4:]),
          f'needs_quoting consts {c}')
    c = c[1:]      # drop the default allow_partial_reserved=True
    _need(len(c[0]) == 1, 'needs_quoting: startswith arg')
    G['g_ql_bad_start'] = ord(c[0])
    G['g_ql_bad_sub'] = cps(c[1])
    # not (lower.startswith(A) and lower.endswith(B)) and lower in reserved
    G['g_ql_exempt_start'] = cps(c[3])
    G['g_ql_exempt_end'] = cps(c[4])

    c = t.shape('quote._quote_ident', _find(mod, ast.FunctionDef, '_quote_ident'))
    _need(len(c) == 4 and c[0] == c[1] == c[3] and len(c[0]) == 1, f'_quote_ident consts {c}')
    G['g_ql_id_quote'] = ord(c[0])
    G['g_ql_id_rep'] = cps(c[2])
    c = t.shape('quote.quote_ident', _find(mod, ast.FunctionDef, 'quote_ident'))
    _need(c == [False, False, False, True], f'quote_ident defaults {c}')

    # ------------------------------------------------------------------ edb/edgeql/codegen.py
    src = t.load('edb/edgeql/codegen.py')
    mod = ast.parse(src)
    pat = _re_compile_arg(mod, '_BYTES_ESCAPE_RE')
    _need(isinstance(pat, bytes), '_BYTES_ESCAPE_RE: not a bytes pattern')
    G['g_qlb_class'] = _class_ranges(pat, '_BYTES_ESCAPE_RE')
    pat = _re_compile_arg(mod, '_NON_PRINTABLE_RE')
    _need(isinstance(pat, str), '_NON_PRINTABLE_RE: not a str pattern')
    G['g_ql_nonprintable'] = _class_ranges(pat, '_NON_PRINTABLE_RE')
    a = _assign(mod, '_REPR_ESCAPE_RE').value
    _need(ast.unparse(a) == "re.compile('\\\\\\\\(?:x([89a-f][0-9a-f])|.)', re.DOTALL)",
          '_REPR_ESCAPE_RE is not the modelled pattern: ' + ast.unparse(a))
    esc = _assign(mod, '_ESCAPES').value
    _need(isinstance(esc, ast.Dict), '_ESCAPES: not a dict literal')
    tab = []
    for k, v in zip(esc.keys, esc.values):
        _need(isinstance(k, ast.Constant) and isinstance(v, ast.Constant) and isinstance(k.value, bytes)
              and isinstance(v.value, bytes) and len(k.value) == 1, '_ESCAPES: entry')
        tab.append((k.value[0], list(v.value)))
    _need(len({k for k, _ in tab}) == len(tab), '_ESCAPES: duplicate key')
    G['g_qlb_escapes'] = tab
    c = t.shape('codegen._bytes_escape', _find(mod, ast.FunctionDef, '_bytes_escape'))
    _need(c == [0, b'\\x%02x', 0], f'_bytes_escape consts {c}')
    c = t.shape('codegen.param_to_str', _find(mod, ast.FunctionDef, 'param_to_str'))
    _need(c == ['`', '$', '$', True, True], f'param_to_str consts {c}')
    c = t.shape('codegen.ident_to_str', _find(mod, ast.FunctionDef, 'ident_to_str'))
    _need(c == [False, False, '::', '::'], f'ident_to_str consts {c}')
    cls = _find(mod, ast.ClassDef, 'EdgeQLSourceGenerator')
    c = t.shape('codegen.visit_Constant', _find(mod, ast.FunctionDef, 'visit_Constant', cls))
    _need(len(c) == 8 and c[2] == '\\' and c[3] == 'r' and c[4] == 1 and c[5] == '\\u00' and c[6] == 1 and c[7] == 0
          and all(isinstance(x, str) for x in c[:4]), f'visit_Constant consts {c}')
    G['g_ql_delims'] = [cps(c[0]), cps(c[1])]
    c = t.shape('codegen.visit_BytesConstant', _find(mod, ast.FunctionDef, 'visit_BytesConstant', cls))
    _need(c == ["b'", 'utf-8', 'backslashreplace', "'"], f'visit_BytesConstant consts {c}')
    c = t.shape('codegen.visit_Parameter', _find(mod, ast.FunctionDef, 'visit_Parameter', cls))
    _need(c == [], 'visit_Parameter consts')

    # ------------------------------------------------------------------ grammar/keywords.py
    src = t.load('edb/edgeql/parser/grammar/keywords.py')
    mod = ast.parse(src)
    t.shape('qlkeywords.module', mod)

    # ------------------------------------------------------------------ keywords.rs
    src = t.load('edb/edgeql-parser/src/keywords.rs')
    sets = {}
    for m in re.finditer(r'pub const (\w+): phf::Set<&str> = phf_set!\((.*?)\);', src, re.S):
        body = m.group(2)
        items = re.findall(r'"((?:[^"\\])*)"', body)
        rest = re.sub(r'"(?:[^"\\])*"', '', body)
        _need(re.fullmatch(r'[\s,]*', rest) is not None, f'keywords.rs {m.group(1)}: unexpected text in set')
        _need(all(all(ord(ch) < 128 for ch in it) for it in items), 'keywords.rs: non-ascii keyword')
        sets[m.group(1)] = items
    _need(sorted(sets) == ['COMBINED_KEYWORDS', 'CURRENT_RESERVED_KEYWORDS', 'FUTURE_RESERVED_KEYWORDS',
                           'PARTIAL_RESERVED_KEYWORDS', 'UNRESERVED_KEYWORDS'], f'keywords.rs sets {sorted(sets)}')
    norm = re.sub(r'\s+', ' ', src)
    _need('pub fn lookup(s: &str) -> Option<Keyword> { None.or_else(|| PARTIAL_RESERVED_KEYWORDS.get_key(s)) '
          '.or_else(|| FUTURE_RESERVED_KEYWORDS.get_key(s)) .or_else(|| CURRENT_RESERVED_KEYWORDS.get_key(s)) '
          '.map(|x| Keyword(x)) }' in norm, 'keywords.rs: lookup body changed')
    _need('pub fn lookup_all(s: &str) -> Option<Keyword> { lookup(s).or_else(|| { None.or_else(|| '
          'COMBINED_KEYWORDS.get_key(s)) .or_else(|| UNRESERVED_KEYWORDS.get_key(s)) .map(|x| Keyword(x)) }) }'
          in norm, 'keywords.rs: lookup_all body changed')
    G['g_kw_unreserved'] = [cps(x) for x in sets['UNRESERVED_KEYWORDS']]
    G['g_kw_partial'] = [cps(x) for x in sets['PARTIAL_RESERVED_KEYWORDS']]
    G['g_kw_future'] = [cps(x) for x in sets['FUTURE_RESERVED_KEYWORDS']]
    G['g_kw_current'] = [cps(x) for x in sets['CURRENT_RESERVED_KEYWORDS']]
    G['g_kw_combined'] = [cps(x) for x in sets['COMBINED_KEYWORDS']]

    # ------------------------------------------------------------------ edb/pgsql/common.py
    src = t.load('edb/pgsql/common.py')
    mod = ast.parse(src)
    c = t.shape('pg.quote_literal', _find(mod, ast.FunctionDef, 'quote_literal'))
    _need(len(c) == 4 and c[0] == c[1] == c[3] and len(c[0]) == 1, f'pg quote_literal consts {c}')
    G['g_pg_lit_quote'] = ord(c[0])
    G['g_pg_lit_rep'] = cps(c[2])
    c = t.shape('pg._quote_ident', _find(mod, ast.FunctionDef, '_quote_ident'))
    _need(len(c) == 4 and c[0] == c[1] == c[3] and len(c[0]) == 1, f'pg _quote_ident consts {c}')
    G['g_pg_id_quote'] = ord(c[0])
    G['g_pg_id_rep'] = cps(c[2])
    c = t.shape('pg.quote_ident', _find(mod, ast.FunctionDef, 'quote_ident'))
    _need(c == [False, False, '*'], f'pg quote_ident consts {c}')
    c = t.shape('pg.quote_bytea_literal', _find(mod, ast.FunctionDef, 'quote_bytea_literal'))
    _need(c == ['ascii', "'\\x", "'::bytea", "''::bytea"], f'pg quote_bytea_literal consts {c}')
    G['g_pg_bytea_open'] = cps("'\\x")
    G['g_pg_bytea_close'] = cps("'::bytea")
    G['g_pg_bytea_empty'] = cps("''::bytea")
    c = t.shape('pg.needs_quoting', _find(mod, ast.FunctionDef, 'needs_quoting'))
    _need(c == [False, 0, '_', 'a'], f'pg needs_quoting consts {c}')
    c = t.shape('pg.qname', _find(mod, ast.FunctionDef, 'qname'))
    _need(c == [False, 3, '.'], f'pg qname consts {c}')
    G['g_pg_qname_sep'] = cps('.')

    src = t.load('edb/pgsql/codegen.py')
    mod = ast.parse(src)
    cls = None
    for n in mod.body:
        if isinstance(n, ast.ClassDef):
            for f in n.body:
                if isinstance(f, ast.FunctionDef) and f.name == 'visit_StringConstant':
                    cls = n
    _need(cls is not None, 'pgsql/codegen.py: visit_StringConstant not found')
    t.shape('pgcodegen.visit_StringConstant', _find(mod, ast.FunctionDef, 'visit_StringConstant', cls))
    t.shape('pgcodegen.visit_ByteaConstant', _find(mod, ast.FunctionDef, 'visit_ByteaConstant', cls))

    src = t.load('edb/pgsql/dbops/base.py')
    mod = ast.parse(src)
    t.shape('dbops.encode_value', _find(mod, ast.FunctionDef, 'encode_value'))
    imp = [ast.unparse(n) for n in mod.body if isinstance(n, ast.ImportFrom)]
    _need('from ..common import quote_literal as ql' in imp, 'dbops/base.py: ql is not common.quote_literal')

    # ------------------------------------------------------------------ edb/pgsql/keywords.py
    src = t.load('edb/pgsql/keywords.py')
    mod = ast.parse(src)
    hdr = [n for n in mod.body if not (isinstance(n, ast.Assign) and ast.unparse(n.targets[0]) == 'pg_keywords')]
    t.shape('pgkeywords.header', ast.Module(body=hdr, type_ignores=[]))
    names = {}
    for n in mod.body:
        if isinstance(n, ast.Assign) and isinstance(n.targets[0], ast.Tuple) \
                and ast.unparse(n.value) == 'keyword_types':
            for i, e in enumerate(n.targets[0].elts):
                names[e.id] = i + 1
    _need(names == {'UNRESERVED_KEYWORD': 1, 'RESERVED_KEYWORD': 2, 'TYPE_FUNC_NAME_KEYWORD': 3,
                    'COL_NAME_KEYWORD': 4}, f'pgsql/keywords.py: class constants {names}')
    kr = _assign(mod, 'keyword_types').value
    _need(ast.unparse(kr) == 'range(1, 5)', 'pgsql/keywords.py: keyword_types')
    d = _assign(mod, 'pg_keywords').value
    _need(isinstance(d, ast.Dict), 'pg_keywords: not a dict literal')
    kws = []
    for k, v in zip(d.keys, d.values):
        ok = (isinstance(k, ast.Constant) and isinstance(k.value, str) and isinstance(v, ast.Tuple)
              and len(v.elts) == 2 and isinstance(v.elts[1], ast.Name) and v.elts[1].id in names)
        _need(ok, 'pg_keywords: entry shape')
        _need(all(ord(ch) < 128 for ch in k.value), 'pg_keywords: non-ascii')
        kws.append((cps(k.value), names[v.elts[1].id]))
    seen = {}
    for k, cl in kws:          # dict literal: last duplicate wins
        seen[tuple(k)] = cl
    G['g_pg_keywords'] = [(list(k), cl) for k, cl in seen.items()]
    return G, t


# ----------------------------------------------------------------------------- emit

def _n(x):
    return str(int(x))


def _l(xs):
    return '[' + '; '.join(_n(x) for x in xs) + ']'


def emit(G):
    o = ['(* GENERATED by harness/translate/c18_quote.py from the /repo working tree -- do not edit. *)',
         'From Coq Require Import List NArith.', 'Import ListNotations.', 'Open Scope N_scope.', '']

    def d(name, ty, body):
        o.append(f'Definition {name} : {ty} :=\n  {body}.')

    def strs(name, xs):
        d(name, 'list (list N)', '[' + ';\n   '.join(_l(x) for x in xs) + ']')

    def pairs(name, xs):
        d(name, 'list (N * list N)', '[' + '; '.join(f'({_n(a)}, {_l(b)})' for a, b in xs) + ']')

    def ranges(name, xs):
        d(name, 'list (N * N)', '[' + '; '.join(f'({_n(a)}, {_n(b)})' for a, b in xs) + ']')

    pairs('g_ql_escape_table', G['g_ql_escape_table'])
    d('g_ql_lit_quote', 'N', _n(G['g_ql_lit_quote']))
    d('g_dq_init', 'list N', _l(G['g_dq_init']))
    d('g_dq_mod', 'N', _n(G['g_dq_mod']))
    d('g_dq_thr', 'N', _n(G['g_dq_thr']))
    d('g_dq_open', 'list N', _l(G['g_dq_open']))
    d('g_dq_close', 'list N', _l(G['g_dq_close']))
    d('g_ql_bad_start', 'N', _n(G['g_ql_bad_start']))
    d('g_ql_bad_sub', 'list N', _l(G['g_ql_bad_sub']))
    d('g_ql_exempt_start', 'list N', _l(G['g_ql_exempt_start']))
    d('g_ql_exempt_end', 'list N', _l(G['g_ql_exempt_end']))
    d('g_ql_id_quote', 'N', _n(G['g_ql_id_quote']))
    d('g_ql_id_rep', 'list N', _l(G['g_ql_id_rep']))
    ranges('g_qlb_class', G['g_qlb_class'])
    ranges('g_ql_nonprintable', G['g_ql_nonprintable'])
    pairs('g_qlb_escapes', G['g_qlb_escapes'])
    strs('g_ql_delims', G['g_ql_delims'])
    d('g_ql_escape_bidi', 'list N', _l(G['g_ql_escape_bidi']))
    for k in ('g_kw_unreserved', 'g_kw_partial', 'g_kw_future', 'g_kw_current', 'g_kw_combined'):
        strs(k, G[k])
    d('g_pg_lit_quote', 'N', _n(G['g_pg_lit_quote']))
    d('g_pg_lit_rep', 'list N', _l(G['g_pg_lit_rep']))
    d('g_pg_id_quote', 'N', _n(G['g_pg_id_quote']))
    d('g_pg_id_rep', 'list N', _l(G['g_pg_id_rep']))
    d('g_pg_bytea_open', 'list N', _l(G['g_pg_bytea_open']))
    d('g_pg_bytea_close', 'list N', _l(G['g_pg_bytea_close']))
    d('g_pg_bytea_empty', 'list N', _l(G['g_pg_bytea_empty']))
    d('g_pg_qname_sep', 'list N', _l(G['g_pg_qname_sep']))
    d('g_pg_keywords', 'list (list N * N)',
      '[' + ';\n   '.join(f'({_l(k)}, {_n(c)})' for k, c in G['g_pg_keywords']) + ']')
    return '\n'.join(o) + '\n'


def run(repo, outdir):
    """Regenerate Gen_Quote.v (+ manifest) from `repo`.  Returns the table dict.  Raises
    TranslateError (nothing is written) when a source shape is not recognised."""
    G, t = translate(repo)
    txt = emit(G)
    os.makedirs(outdir, exist_ok=True)
    p = os.path.join(outdir, 'Gen_Quote.v')
    old = open(p).read() if os.path.exists(p) else None
    if old != txt:
        with open(p, 'w') as f:
            f.write(txt)
    man = {'generated': 'coq/theories/C18/Gen_Quote.v', 'sources': t.sources, 'shapes': t.seen_shapes}
    mp = os.path.join(outdir, 'Gen_Quote.manifest.json')
    mtxt = json.dumps(man, indent=1)
    if not os.path.exists(mp) or open(mp).read() != mtxt:
        open(mp, 'w').write(mtxt)
    G['_manifest'] = man
    return G


if __name__ == '__main__':
    if len(sys.argv) > 1 and sys.argv[1] == '--print-shapes':
        G, t = translate(sys.argv[2] if len(sys.argv) > 2 else '/repo', print_shapes=True)
        json.dump(t.seen_shapes, open(SHAPES_FILE, 'w'), indent=1, sort_keys=True)
        print(json.dumps(t.seen_shapes, indent=1))
    else:
        G = run(sys.argv[1] if len(sys.argv) > 1 else '/repo', sys.argv[2])
        print('ok', len(G))
