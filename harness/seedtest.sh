#!/bin/sh
# usage: seedtest.sh <PROP> <seed dir> [tier]   — applies the seeded patch in a scratch worktree,
# confirms the demo fails there (and passes on the clean tree), runs the check against it.
PROP=$1; DIR=$2; TIER=${3:-quick}
WT=/tmp/seedwt_$$_$PROP
git -C /repo worktree add -q --detach $WT HEAD || exit 2
trap 'git -C /repo worktree remove --force $WT' EXIT
echo "== demo on clean tree"; (cd $DIR && VRT_CACHE_DIR=/tmp/vrt_tool/cache PYTHONPATH=$WT:/tmp/vrt_tool/harness/rt /venv/bin/python demo.py >/dev/null 2>&1; echo "exit $?")
git -C $WT apply $DIR/patch.diff || { echo "patch does not apply"; exit 2; }
echo "== demo on patched tree"; (cd $DIR && VRT_CACHE_DIR=/tmp/vrt_tool/cache PYTHONPATH=$WT:/tmp/vrt_tool/harness/rt /venv/bin/python demo.py > /tmp/demo_out_$$ 2>&1; rc=$?; tail -3 /tmp/demo_out_$$; rm -f /tmp/demo_out_$$; echo "exit $rc")
if [ -n "$RUN_TESTS" ]; then
  echo "== pinned tests on patched tree"
  (cd $WT && /venv/bin/python -m pytest -q -p no:cacheprovider --timeout=900 --continue-on-collection-errors tests/common tests/test_sourcecode.py tests/test_profiling.py 2>&1 | tail -2)
fi
echo "== check $PROP ($TIER) on patched tree"
mkdir -p /tmp/seed_evidence /tmp/seed_replays
cd /verif && VERIF_EVIDENCE_DIR=/tmp/seed_evidence VERIF_REPLAYS_DIR=/tmp/seed_replays VERIF_REPO=$WT ./harness/check $PROP --tier $TIER 2>&1 | grep -E "^VIOLATION|ok in|FAIL in" | head -6
