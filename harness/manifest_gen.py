"""Regenerates MANIFEST.json from the table below (keeps it schema-valid)."""
import json, os
HERE = os.path.dirname(os.path.abspath(__file__))
VERIF = os.path.dirname(HERE)
props = [json.loads(l) for l in open(os.path.join(VERIF, 'properties.jsonl'))]

CHECKS = {
 'C20': dict(
   category='proof', design_ref='DESIGN.md section 4, C20',
   technique='Coq proof (induction on DFS fuel with stack/order invariants) about a hand-written Gallina model of sort_ex + differential correspondence model vs real sort_ex',
   text='Machine-checked Coq theorems for every finite graph (no size bound) about a faithful executable model of '
        'edb.common.topological.sort_ex: permutation, hard precedence, cycle soundness and completeness (hard ∪ loop-control), '
        'soft edges never fail / honoured when acyclic, unresolved-reference reporting, fuel sufficiency. The model is tied to the '
        'code on every run by running the OCaml-extracted model and the real sort_ex on the same graphs (all 2-node graphs, sampled/all '
        '3-node graphs, random and structured graphs) and comparing the exact output order or error+item; monitors of the property '
        'are also evaluated directly on the implementation.',
   note='Trusted: Coq kernel; ExtrOcamlBasic extraction (cross-checked by vm_compute on a sample); harness generators/monitors; '
        'Python try/except/finally + OrderedSet semantics as mirrored by the model. No axioms (all theorems closed under the global context).'),
 'C09': dict(
   category='proof', design_ref='DESIGN.md section 4, C09',
   technique='Coq refinement proof (simulation invariant over all histories) of a PostgreSQL-style transaction spec by a model of dbstate.py + compile_in_tx + server/worker bookkeeping; differential correspondence model vs real code; independent PG oracle as monitor',
   text='Machine-checked refinement theorem: for every finite history of START/COMMIT/ROLLBACK/DECLARE/RELEASE/ROLLBACK TO/SET ALIAS/DDL/query '
        'requests with any placement of compile-time rejections (incl. scripts rejected after an effectful prefix), backend failures, worker '
        'reuse choices and client-side alias changes that satisfies the stated side condition hist_ok, the implementation model (CompilerConnectionState/'
        'Transaction, Compiler.compile_in_tx, worker LAST_STATE reuse, dbview bookkeeping) gives exactly the replies and compiles every statement against '
        'exactly the payload of a PostgreSQL-style transaction specification; plus refutation witnesses for the three defects found (two repaired by fix: '
        'commits, one known finding). The model is tied to /repo on every run: the real dbstate, compile_in_tx, _compile_ql_transaction, worker.compile_in_tx '
        'and AbstractPool.compile_in_tx execute the same histories as the extracted model and all replies/seen payloads are compared; the server side '
        '(edb/server/dbview/dbview.pyx: DatabaseIndex, Database, DatabaseConnectionView incl. parse/_compile/start/on_success/on_error/savepoint bookkeeping; '
        'edb/server/protocol/execute.pyx: execute(); edb/server/cache/stmt_cache.pyx) is no longer transliterated: a fail-closed source translator '
        '(harness/translate/pyx2py.py, which strips only the Cython declaration layer and applies the .pxd attribute defaults) turns the CURRENT text of those '
        'files into Python on every run and the histories are executed by that text against a scripted backend connection.',
   note='Trusted: Coq kernel; extraction (cross-checked by vm_compute on a sample); harness. The pyx2py translator and its loader (Cython semantics assumed identical to Python for the '
        'translated bodies; C integer attributes as Python ints). Modelled, not executed: the three-way dispatch of binary.pyx EdgeConnection.execute, _execute_rollback '
        'and the main-loop error handler (transliterated), dbview.serialize_state (constant), the per-statement compile loop for SET ALIAS/DDL, PostgreSQL itself (oracle). No axioms.'),
 'C04': dict(
   category='proof', design_ref='DESIGN.md section 4, C04 (+ section 9 change log)',
   technique='Coq invariant proof over all raw-operation histories of a model of FlatSchema/ChainedSchema indexes; differential correspondence model vs real FlatSchema op by op; referential-integrity / frozen-snapshot monitors on real DDL histories',
   text='Layer 1 (full proof): for every class table and every finite history of add/add_raw/update_obj/set_obj_field/unset_obj_field/delete/discard/delist '
        '(rejected operations included) the name, global-name, short-name, type and reverse-reference indexes of the FlatSchema model are exactly what the objects\' own '
        'data determine, a deleted id is in none of them, a rejected operation changes nothing, ChainedSchema never touches its base; tied to /repo by running the real '
        'FlatSchema/ChainedSchema on the same histories over all 64 registered schema classes and comparing the full state after every operation, with monitors that recompute every index '
        'from scratch and deep-compare all earlier schema values with their snapshots. Layer 2 (partial): an abstract guarded create/alter/drop layer is proved reference-safe in Coq; '
        'the real delta commands are exercised by generated DDL histories through the real parser/DDL pipeline with monitors only (every reference resolves, lookups agree with object data, '
        'rejected command leaves the schema identical, earlier schema values unchanged).',
   note='Trusted: Coq kernel; extraction (vm_compute cross-check); harness generators/monitors; vrt substrate (stubs, parser, std schema). Modelled not verified: immutables.Map/frozenset semantics, '
        'schema_reduce/refs abstraction, shortname function as a table computed from the real function. The real delta.py command layer (~15 kloc) is NOT modelled: mutations there are caught by the monitors, '
        'not by a broken proof. No axioms.'),
 'C19': dict(
   category='proof', design_ref='DESIGN.md section 4, C19 (+ section 9 change log)',
   technique='Coq proofs over all operation sequences / all integers about a model of config ops, lookup, JSON and duration/memory codecs with constants regenerated from source by a fail-closed translator; differential correspondence vs real edb.server.config on synthetic, exotic and the real spec',
   text='15 machine-checked theorems for every spec, operation sequence and payload (valid or not): effective value = most specific defining scope else default; frame properties; a rejected operation '
        'changes nothing; typedness of stored values and the 128-element bound; RESET; duration ISO-8601 and memory-size text round trips for ALL integers; JSON round trip of scalar and scalar-set '
        'settings; INSERT / filtered RESET set semantics; plus refutation witnesses for the remaining known findings. Unit constants, parse tables and limits are regenerated from edb/ir/statypes.py '
        'and config/ops.py on every run. Correspondence: the real Operation.apply / lookup / to_json / from_json / to_edgeql run the same sequences as the extracted model (synthetic specs covering every '
        'setting kind and the real spec loaded from the std schema, with SET/RESET compiled from CONFIGURE text by the real compiler front end); to_edgeql output is re-parsed by the real parser.',
   note='Trusted: Coq kernel; extraction; translator harness/translate/c19_units.py; harness; vrt substrate. Tested only (not proved): JSON round trip of object values, to_edgeql. Outside the model: PostgreSQL-style '
        'duration text, non-ASCII digits, GLOBAL scope. No axioms.'),
 'C17': dict(
   category='proof', design_ref='DESIGN.md section 4, C17 (+ section 9 change log)',
   technique='Coq invariant proofs over all request histories / fault placements of a server-belief vs worker-reality model of compiler_pool (pool.py/worker.py); differential correspondence vs the real pool + worker modules in-process over a pickling transport with fault injection',
   text='8 machine-checked theorems for all histories over any number of workers and databases, all truthiness/content functions and all placements of lost requests, unpickle failures of each state field, '
        'compiler exceptions and status-2 replies: the compiler entry sees exactly the five supplied state values (C17_args_exact, C17_noreturn_args_exact), compile_in_tx runs on the supplied state, '
        'whatever is transmitted is used, the server never believes a worker holds what it does not (C17_belief_sound, C17_keys_sound); refutation witnesses for the two repaired defects (model variants fx1/fx2) '
        'and the status-2 known finding. Tie: the real _compute_compile_preargs / sync_worker_state_cb / BaseWorker.call / compile* / worker.__sync__ / compile / compile_in_tx run the same histories as the extracted model; '
        'replies, what the compiler saw, the wire mask, the full belief and the worker globals are compared after every request; monitors run independently of the model. The multi-tenant path has monitors only.',
   note='Trusted: Coq kernel; extraction (vm_compute cross-check); harness (fake transport, pickle proxy, generators, monitors); vrt stubs. Assumes one request at a time per worker and immutable state objects. '
        'MultiTenantPool / multitenant_worker.py: monitors only (no model). RemotePool/server.py, adaptive scaling, real processes: not covered. No axioms.'),
 'C18': dict(
   category='proof', design_ref='DESIGN.md section 4, C18 (+ section 9 change log)',
   technique='Coq proofs for all strings about models of the EdgeQL/SQL quoting functions and of the lexer (tables regenerated from source by a fail-closed translator); differential correspondence vs the real Python functions and the REAL Rust lexer binary; exhaustive 0x110000 code-point sweep for the Unicode-class hypotheses',
   text='15 machine-checked theorems for every string (list of code points), every continuation and every Unicode class table: quote_literal, dollar_quote_literal (with fuel sufficiency), codegen.visit_Constant (all branches incl. repr), '
        'visit_BytesConstant, quote_ident (all flag combinations; partial: under explicit Python-vs-Rust class compatibility conditions that are vacuous on ASCII), param_to_str, back-quoted identifiers, and the pgsql quote_literal / quote_ident / '
        'quote_bytea forms against a hand-written PostgreSQL lexical spec: the produced text is read back as ONE token with the original value and the rest untouched; refutation witnesses for the remaining known finding. Escape tables, regex classes, '
        'keyword sets are regenerated from quote.py/codegen.py/common.py/keywords on every run (shapes pinned). Tie: the real Python functions vs the extracted model (exhaustive short strings over an adversarial alphabet + random), the lexer model vs the real Rust lexer built '
        'from the unmodified tokenizer sources, monitors = real function -> real lexer; the compatibility hypotheses are discharged outside Coq by sweeping all 0x110000 code points against the real re/str methods and the real lexer.',
   note='Trusted: Coq kernel; extraction; translator; harness; the qllex crate (bigdecimal shim) and vrt stubs; hand-written PG lexical spec (PostgreSQL absent); CPython str/re/repr semantics as mirrored; the code-point sweep is a checked hypothesis, not a proof. No axioms.'),
 'C14': dict(
   category='proof', design_ref='DESIGN.md section 4, C14 (+ section 9 change log)',
   technique='Coq proofs (codec round trip, id construction injectivity relative to a collision-free hash) about a Gallina model of sertypes describe/parse incl. SHA-1/uuid5, tags regenerated from source; differential correspondence vs the real sertypes on real schema objects',
   text='11 machine-checked theorems, unbounded in term size, both protocol generations: every record the encoder emits is parsed back (C14_codec_roundtrip, C14_stream_parses), parse (describe t) = expect t and the returned id is a pure function of the term (C14_roundtrip, C14_root_id), '
        'no duplicate ids in a stream, v2 length prefixes, the hashed strings determine their components when names contain no NUL/colon, equal ids imply equal skeletons / terms under stated hypotheses (C14_id_injective, C14_id_functional); Refuted.v holds witnesses for the three id-collision '
        'known findings. Tags/flags/struct formats are regenerated from sertypes.py (and cross-checked with typedesc.rst) on every run. Tie: describe / describe_params / describe_input_shape / parse of the real sertypes.py run on generated type terms built as real schema objects; bytes, ids, decoded trees and error classes compared exactly.',
   note='Trusted: Coq kernel; extraction; translator; harness (term builder, canonicalisers, monitors); vrt stubs. SHA-1 collision- and cycle-freedom is a hypothesis of the id theorems. PARTIAL: the EdgeQL compiler that feeds sertypes is not executed in this check (sertypes tier only); describe_params/input shapes are compared and monitored but not covered by a theorem. No axioms.'),
 'C01': dict(
   category='proof', design_ref='DESIGN.md section 4, C01 (+ section 9 change log)',
   technique='Coq proofs (round trip, idempotence, token non-fusion) about a model of the EdgeQL expression printer and a precedence-climbing parser driven by tables regenerated from the grammar sources; differential correspondence vs the real printer and the real LR parser; grammar-driven exploration of the whole language on the real code',
   text='PARTIAL proof + exploration. Proved for every tree of the expression core (unbounded depth/width): parse (pp e) = Some e for every e in the parser image (C01_roundtrip, C01_in_context), pp is idempotent through the parser, no two adjacent printed tokens fuse (C01_lex_stable); '
        'Refuted.v proves the full statement false with witnesses for the printer defects found. Operator/precedence/token tables are regenerated fail-closed from precedence.py, tokens.py, expressions.py on every run. Correspondence: generated core trees -> real qlast -> real generate_source == model text and the real parser returns the same tree. '
        'The rest of the language (statements, DDL, SDL, migrations, config, describe) is covered by exploration on the REAL parser/printer: texts derived from the repo grammar and mutated upstream corpora, in every entry point and printer mode: parse -> print -> parse -> AST-equal -> print byte-identical; 42 genuine defects are listed as known findings, anything unrecognised is a VIOLATION.',
   note='Trusted: Coq kernel; extraction; translator; harness (term<->qlast conversion, AST canonicaliser with six documented normalisations, finding predicates); vrt substrate: real Rust lexer, own LR(1) tables validated on upstream corpora and against a canonical LR(1) oracle (6 table cells for `a NOT LIKE b LIKE c` shapes undetermined and excluded). '
        'Statement skeletons and DDL are NOT in the Coq core (exploration only). No axioms.'),
 'C02': dict(
   category='proof', design_ref='DESIGN.md section 4, C02/C10/C03/C11 (+ section 9 change log)',
   technique='Coq proofs about an abstract schema-evolution model (diff for an arbitrary valid matching, any dependency-respecting order, apply) reusing the C20 sort model, and about a transliteration of delta_objects; differential correspondence vs the real delta_objects; end-to-end differential monitors on the real diff/DDL/migration code',
   text='PARTIAL. Proved for all abstract schemas A, B, all valid matchings (whichever plan the similarity heuristic picks) and all dependency-respecting orders: applying the diff to A gives exactly B, nothing of A outside B remains, the planner (using the C20 sort_ex model) never returns a plan that errors; partition theorems for the delta_objects transliteration '
        '(every new object created xor paired, every old object deleted xor paired, alter only for 0.6 < similarity < 1). Tie: the real edb.schema.delta.delta_objects on stub objects with scripted compare vs the model (exact), and the real top-level partition of every accepted migration checked by the extracted checker. '
        'The end-to-end statement is decided on the REAL code by differential monitors (not proofs): generated schema pairs over a feature grammar with ~80 mutation operators through apply_sdl -> delta_schemas -> ddlast_from_delta -> CREATE MIGRATION, in three forms (committed schema, command tree applied directly, migration text replayed); '
        'equivalence = the repo\'s own delta_schemas is empty AND an independent structural dump is equal. Six genuine defects are known findings. Since round 2 every fifth generated pair is also driven through the SERVER compiler\'s migration block (edb/server/compiler/ddl.py) on a compiler connection state: START/POPULATE/COMMIT MIGRATION, and an interactive session (DESCRIBE CURRENT MIGRATION AS JSON; proposals executed or rejected with ALTER CURRENT MIGRATION REJECT PROPOSED by a deterministic policy; POPULATE; COMMIT): whenever COMMIT MIGRATION is accepted the result must be the target.',
   note='Trusted: Coq kernel; extraction; harness (generator, structural dump, classifier); vrt substrate. NOT modelled: the real compare / as_alter_delta / _get_ast / linearize_delta / apply code of ~40 object classes — mutations there are caught by the monitors, not by a broken proof. Planner completeness is not proved. The testbase migration path (run_ddl) is used, not the server compiler path. No axioms.'),
 'C10': dict(
   category='proof', design_ref='DESIGN.md section 4, C02/C10/C03/C11 (+ section 9 change log)',
   technique='Coq proofs of path independence over the abstract schema-evolution model (shared with C02); chain-vs-direct and back-to-empty differential monitors on the real migration code',
   text='PARTIAL. Proved for all chains of abstract schemas where each step may use any partitioned command list in any valid order computed from the actual previous result: the chain ends in the last schema, two paths to the same target agree, a final migration to the empty schema removes everything. '
        'On the REAL code (monitors): generated chains of schemas (renames, re-parenting, re-typing of objects created by earlier steps) are migrated step by step and directly, and finally to empty; results compared by the repo\'s own delta_schemas and an independent structural dump; residues of the C02 known findings are classified by id.',
   note='Same trusted base and partiality as C02 (shared model coq/theories/Evo, shared generator and driver). No axioms.'),
 'C15': dict(
   category='proof', design_ref='DESIGN.md section 4, C15 + Appendix A.2 (+ section 9 change log)',
   technique='Coq invariant proof over all event sequences and all oracle values of a deterministic asyncio-atomic-section state-machine model of connpool.Pool; differential correspondence vs the real Pool on a deterministic event loop with a ghost-truth fake backend',
   text='9 machine-checked theorems for every state reachable from init for any capacity, any event sequence (acquire, release, discard, connect/disconnect completion or failure, ticks, GC, prune, single ready callbacks), any number of databases and tasks and ANY value of the float/clock-dependent oracles: '
        '|open| - handed-back-broken + opening <= max; reported usage = open + opening + completions still queued (exact at quiescence); a lent connection is distinct, open, not being closed, in use in exactly one block, on no stack and was opened for the requested database; stack entries are idle and open; '
        'the pool\'s own assertions about connection state never fire. Tie: the real Pool runs on a harness-owned event loop (clock shim, harness-owned connect/disconnect futures, explicit timers); after EVERY event and every single ready callback the full state (counters, per-block dicts, stacks, waiter queues, ready-queue labels, waitlists) is compared with the extracted model; '
        'ghost-truth monitors in the fake backend check the property directly on the implementation.',
   note='Trusted: Coq kernel; extraction; harness (event loop, clock shim, fake backend, Task introspection, oracle read-off); CPython Task/Future/gather scheduling and dict/deque ordering as observed; assumption: a disconnect that raises still leaves the connection closed. '
        'Not modelled: prune_all_connections (HA failover), caller cancellation of acquire(), logging/snapshots, _NaivePool, pool2. No axioms.'),
 'C16': dict(
   category='proof', design_ref='DESIGN.md section 4, C16 (+ section 9 change log)',
   technique='Coq invariants (no lost wake-up, retry-or-abort, tick chain never stops while an acquire() is pending) over the shared pool model plus a machine-checked refutation of the full liveness statement; fair-drain liveness monitor on the real Pool',
   text='PARTIAL. Proved for every reachable state of the pool model (any events, any oracle values): a block with queued waiters never has more idle connections than wake-ups already scheduled (no lost wake-up), at quiescence no block has both an idle connection and a queued waiter, a failed connect schedules exactly one retry or (retries exhausted / 3D000) fails every waiter of the block; while any acquire() is pending the periodic tick timer is armed and a firing tick re-arms it first (C16_tick_chain_alive / C16_tick_rearms, Pool/TickProofs.v) - the precondition of every Mode C/D rescue path. '
        'The full statement "a state at rest has no blocked acquire" is REFUTED in Coq (C16_full_refuted) by a recorded real trace that is replayed on the implementation on every run; the progress theorems sketched in DESIGN were dropped because the faithful model exhibits stuck states. '
        'On the real Pool every generated schedule is driven to quiescence by a fair, progress-based scheduler (all holders release, connects complete, ticks/GC fire) and every acquire must have returned or received the connect error; starved requests are classified by three known-finding ids (only when the tick timer is still armed, as the theorem says it must be), anything else is a VIOLATION.',
   note='Same model, harness and trusted base as C15. Liveness itself is NOT proved (it is false of the pinned code in the three known-finding classes); the fair-drain monitor is an exploration, not a proof. No axioms.'),
 'C08': dict(
   category='proof', design_ref='DESIGN.md section 4, C08 (+ section 9 change log)',
   technique='Coq proofs over all expression trees / function schemas / scripts about a model of DML recording, volatility inference and the statement-kind capability dispatch (flag values and the isinstance chain regenerated from source by a fail-closed translator); differential correspondence vs the real Compiler.compile; independent SQL/AST ground-truth monitors',
   text='PARTIAL (the migration case is a known finding). 12 machine-checked theorems: a write anywhere inside an expression (any nesting position: WITH, FOR, shapes, FILTER/ORDER BY, UNLESS CONFLICT, calls of user functions to any depth) is recorded (C08_mod_complete_expr); an accepted statement that can write carries MODIFICATIONS unless it is CREATE/COMMIT MIGRATION (C08_mod_complete), and unconditionally carries a WRITE capability (C08_write_complete / C08_readonly_no_write); '
        'a function whose body can write is stored Modifying; every one of the 162 statement classes gets DDL / TRANSACTION / SESSION_CONFIG / PERSISTENT_CONFIG as required by the generated dispatch chain (C08_kind_caps); group capabilities are the union of the units. Capability flag values and the _compile_dispatch_ql chain are regenerated from enums.py / compiler.py on every run (class table cross-checked by issubclass). '
        'Tie: the complete real compiler.compile (down to _make_query_unit and QueryUnitGroup.append) on generated statements x nesting contexts x DML kinds x function/alias/global holders over a schema built through real migrations; per-unit capabilities, len(dml_exprs), group capabilities, reject class and stored volatilities compared with the extracted model; '
        'monitors independent of the model: an INSERT/UPDATE/DELETE on a user table in the emitted SQL text or pgast tree requires MODIFICATIONS; DML in the parsed statement (through function bodies) requires MODIFICATIONS; kind capabilities; group = union.',
   note='Trusted: Coq kernel; extraction; translator; harness; vrt substrate (real parser substitute, std schema). Not modelled: types, cardinality, scoping, SQL generation (writes are read off the emitted SQL / AST; nothing is executed). Documented model deviations (function DDL / DESCRIBE / CONFIGURE inside migration blocks not compared). No axioms.'),
 'C03': dict(
   category='proof', design_ref='DESIGN.md section 4, C02/C10/C03/C11 (+ section 9 change log)',
   technique='Coq proofs about an abstract describe/replay model and a model of module-alias name resolution (apply_module_aliases, tracer.resolve_name, _classname_from_ast); differential correspondence vs the real resolution functions; describe -> replay differential monitors on the real code under several session alias maps',
   text='PARTIAL. Proved: for every well-formed abstract schema the printed DDL replayed on a base-only database rebuilds the same schema, identically in all sessions whose aliases leave the schema\'s module names alone; fully-qualified names resolve to themselves; lookups and created names are session-independent under that side condition (refutation witnesses show the side condition is necessary = known finding C03-alias-shadows-module); the SDL route inherits the C11 theorems. '
        'Name-resolution model tied by exact correspondence to the real functions. End-to-end (monitors, not proofs): DESCRIBE SCHEMA AS DDL / AS SDL of generated schemas (shared feature grammar) replayed on a std-only schema under 4-5 harmless and one colliding session alias map; equivalence = repo delta_schemas empty AND independent structural dump equal.',
   note='Trusted: Coq kernel; extraction; harness; vrt substrate. NOT modelled: the printer (per-class _get_ast, codegen, expression normalisation), reference tracing, linearize_delta — mutations there are caught by the monitors, not by a broken proof. No axioms.'),
 'C11': dict(
   category='proof', design_ref='DESIGN.md section 4, C02/C10/C03/C11 (+ section 9 change log)',
   technique='Coq proofs of order-independence of SDL processing composed from the C20 sort theorems plus a commutation lemma, over a model of sdl_to_ddl/apply_sdl top level; differential correspondence vs real dependency graphs and apply_sdl; permutation monitors on the real code',
   text='PARTIAL. 9 theorems for documents of any size over an arbitrary base schema: any permutation of declarations, module blocks and body members gives the same outcome class and the same declarations (C11_order_irrelevant, C11_nested_order_irrelevant); a cycle error iff the strong/loop-control reference relation is cyclic (C11_cycle_iff); the outcome is exactly one of duplicate/unresolved/cycle/ok; listing order and multiplicity of traced references are irrelevant; composed from C20_perm, C20_hard, C20_cycle_sound/complete, C20_unresolved_*, C20_fuel_enough. '
        'Tie: real dependency graphs produced by declarative.py/tracer.py vs the model, abstract documents vs real apply_sdl. Monitors on the real code: generated SDL documents in all permutations (<= 3 declarations quick, <= 5 thorough; sampled above), equal schemas required (repo diff + structural dump), cycle errors checked against an independent reference graph, PYTHONHASHSEED probe; three order-dependence defects are known findings.',
   note='Trusted: Coq kernel; extraction; harness (text-level SDL permuter, dump comparison); vrt substrate. NOT modelled: how the tracer finds references (monitors + the exploration-level pairwise commutation probe). No axioms.'),
 'C07': dict(
   category='translation_validation', design_ref='DESIGN.md section 4, C07 (+ section 9 change log)',
   technique='Coq-verified validator (noninterference theorem for the `guarded` checker, completeness w.r.t. scan leaks, exact condition check, registration model theorems) run on an abstraction of every SQL tree the real compiler emits for generated queries x policy placements',
   text='Translation validation with a machine-checked validator. Proved: if guarded t = true then any two databases with equal policy views give equal results, for every interpretation of the non-scan operators and every policy meaning (C07_noninterference); a rejected tree is genuinely distinguishable (C07_guarded_complete); the WHERE-formula check against (OR allow) AND NOT (OR deny) is exact; theorems about a model of new_set / try_type_rewrite / should_ignore_rewrite registration (with refutation witnesses for the cached-in-policy and children-overlap defects). '
        'Tie: the real compiler (compile_ast_to_ir with apply_query_rewrites, compile_ir_to_sql_tree) runs on generated read-only queries (direct, link, backlink, shape, [is], aggregates, subqueries, aliases, computeds, globals; nesting <= 3) x policy placements (type/ancestor/descendant/link target, allow/deny select/all); its pgast is abstracted by following the real SQL code generator and fed to the EXTRACTED validator; the real registration path is compared with the extracted registration model; an independent region monitor runs on the real pgast. Two genuine bypasses are known findings, one was repaired (fix 4fd4967).',
   note='Trusted: Coq kernel; extraction; the pgast -> tree abstraction (row-preserving projections, Guard recognition, policy-clause marker constants, two-valued clauses); vrt substrate; policy specs computed by the generator. Out of scope: link tables, DML/triggers, SQL function bodies, compound types in the registration model, EdgeQL->SQL compilation of each clause. No axioms.'),
 'C12': dict(
   category='proof', design_ref='DESIGN.md section 4, C12 (+ section 9 change log)',
   technique='Coq soundness proof of a type-inference calculus (overload resolution, implicit-cast distance, common types, call binding) over signatures regenerated from edb/lib by a fail-closed translator; differential correspondence vs the real compiler; dynamic typing of reference-evaluator results as monitor',
   text='PARTIAL (core calculus). 10 machine-checked theorems: for all signatures, all expressions of the calculus, all conforming databases and all primitive semantics returning their declared types, every evaluated value belongs to the inferred type when the model reports the binding clean (C12_sound, C12_stmt_type_sound); the inferred type does not depend on values; overload resolution is independent of candidate order; subsumption and union types are sound; '
        'on the std signature table regenerated from edb/lib/**/*.edgeql on every run: well-formedness, the common type is an upper bound for implicit castability at any nesting, symmetric on scalars and independent of set-iteration order; refutation witnesses for the tuple-arity known finding and range/multirange asymmetry. '
        'Tie: the translator output is compared with the real schema objects (scalars, ancestors, casts, operators, functions) each run; model type_of vs the real compile_ast_to_ir(...).stype for generated expressions (all argument-type combinations of every binary operator and the polymorphic functions, sets, tuples, arrays, ranges, IF/??/UNION, casts, indirection), type-algebra pairs exhaustively over scalar kinds; '
        'monitors: toy_eval_model results dynamically typed against the inferred type, the output descriptor reporting the inferred type, an IR monitor for non-conforming arguments.',
   note='Trusted: Coq kernel; extraction; translator (compared with the real schema every run); harness; vrt substrate. Only tested: shapes, aliases, DML, FOR, GROUP, backlinks, json/object casts (the model abstains); hypotheses that primitives and casts return their declared types (std library SQL bodies are not modelled). No axioms.'),
 'C05': dict(
   category='proof', design_ref='DESIGN.md section 4, C05 (+ section 9 change log)',
   technique='Coq invariant proof over all command histories of a catalog state machine mirroring the table/column decisions of pgsql/delta.py, with the storage predicates translated fail-closed from pgsql/types.py; differential correspondence vs the real pgsql delta pipeline interpreted by a catalog simulator; layout monitors against get_pointer_storage_info and SQL probes',
   text='PARTIAL. 11 machine-checked theorems: for every sequence of adapted storage commands (any length, from any good state) that avoids the one refuted decision, a table/column exists in the catalog iff the layout of the resulting schema addresses it (C05_tracks, C05_no_orphans, C05_no_missing), no emitted command fails in the backend (C05_no_backend_error), every DDL-level history from the empty database keeps the state good (C05_history_tracks), renames / abstract<->concrete / required<->optional emit no storage command (C05_rename_free), the compiler-side and schema-side storage predicates translated from source are the same function (C05_ptrref_agrees); C05_full_refuted shows the unrestricted statement is false of the faithful model (known finding C05-F1). '
        'Tie: generated DDL histories (create/drop/rename of types and pointers, single<->multi, required<->optional, link properties, bases, abstract<->concrete, computed<->stored) through the REAL schema delta + pgsql/delta adaptation; the emitted dbops stream is interpreted by a PostgreSQL-strict catalog simulator (unknown constructs => abstain, counted) and compared per step with the model and with the real get_pointer_storage_info / ptrref storage info of every pointer; real EdgeQL->SQL compilations of probe queries are looked up in the simulated catalog.',
   note='Trusted: Coq kernel; extraction; translator; harness incl. the catalog simulator (stands for PostgreSQL DDL semantics; no real backend); vrt substrate. Not modelled: constraints, indexes, triggers, views, data-copy SQL, column types, NOT NULL, pointer merges under multiple inheritance (declared out of scope per history). No axioms.'),
 'C06': dict(
   category='proof', design_ref='DESIGN.md section 4, C06 (+ section 9 change log)',
   technique='Coq soundness proof of a core cardinality/multiplicity inference calculus against a list-based set semantics, with the bounds algebra regenerated from cardinality.py/multiplicity.py/qltypes.py by a fail-closed translator; differential correspondence vs the real compiler; reference-evaluator (toy_eval_model) monitor',
   text='PARTIAL (core calculus; the full multiplicity statement is refuted). Proved on the translated bounds algebra (Gen_Card.v): n-ary product / union / coalesce / intersect bounds are sound, the partial enum/dict operations never fail, bounds<->cardinality round trip. Proved for every schema, conforming database, expression of the calculus and evaluation: when no over-claiming rule fires (executable side condition run_tags = []), |eval e| lies within the reported cardinality (C06_card_sound), UNIQUE implies NoDup (C06_mult_sound), every computed shape element lies within its out_cardinality (C06_shape_sound); '
        'Refuted.v holds vm_compute witnesses that each statement without the side condition is false of the faithful model (known findings C06-F1..F6, F9). Tie: generated binder-explicit core queries over generated schemas compiled by the REAL compiler — ir.cardinality / ir.multiplicity / shape out_cardinality must equal the model\'s; the Coq eval agrees with toy_eval_model on the common fragment; upstream\'s 260 pinned inference labels must hold; '
        'monitor independent of the model: every query (incl. an exploration stream with implicit path factoring) is evaluated by toy_eval_model on random conforming databases incl. empty tables and compared with the compiler\'s answer. Ten genuine over-claims are known findings.',
   note='Trusted: Coq kernel; extraction; translator; harness; vrt substrate; toy_eval_model as reference semantics (plus harness-added assert_*, array_get, empty-safe min/max). Outside the calculus (monitors only): implicit path factoring, GROUP, DML, globals, schema-computed pointers, inheritance, link properties; FOR-disjointness (TFor) instances are covered by monitors only. Not modelled: the compiler\'s second inference of a re-applied shape (viewgen.late_compile_view_shapes), which can only add rejections; those rejections are observed inside the real compiler by the driver, counted in the evidence and left out of the accept/reject comparison. No axioms.'),
 'C13': dict(
   category='translation_validation', design_ref='DESIGN.md section 4, C13 (+ section 9 change log)',
   technique='Coq-verified SQL scope checker (sound and complete w.r.t. a declarative transcription of PostgreSQL name resolution) and parameter checker, run on an abstraction of every SQL tree the real compiler emits; two-compilation / cross-hash-seed determinism test',
   text='Translation validation with machine-checked validators. Proved for all abstract SQL statements (unbounded nesting, range variables, CTEs, sub-selects, parameters): well_scoped q = true <-> Scoped q, where Scoped transcribes PostgreSQL\'s rules (nearest enclosing level, LATERAL visibility, JOIN ... ON scope, LIMIT/OFFSET, WITH ordering, DML target / RETURNING / excluded, ORDER BY / GROUP BY output names, duplicate aliases); params_ok <-> the physical indexes of the argument map are distinct, exactly 1..k and exactly the $n of the statement. '
        'Tie: the real compile_ast_to_ir -> compile_ir_to_sql_tree -> codegen (NATIVE and JSON), and for a slice the server compiler on a NormalizedSource, run on generated and harvested queries (SELECT/INSERT/UPDATE/DELETE/FOR/GROUP, nesting, 0-17 parameters, globals); the pgast is abstracted to terms (fidelity to the SQL text checked through a token skeleton) and fed to the EXTRACTED checkers (cross-checked against a Python reference and vm_compute). '
        'Determinism is a TEST, not a theorem: every statement is compiled twice in one process and a sample under other PYTHONHASHSEED values; three determinism defects are known findings (one parameter defect was repaired, fix 6be7b20).',
   note='Trusted: Coq kernel; extraction; the hand-written Scoped transcription (PostgreSQL absent; no type/aggregate/grouping rules); the pgast -> term abstraction (FigureColname port, table catalog; unknown relations are wildcards); harness; vrt substrate. Nothing of the compiler is modelled. No axioms.'),
}

NA_DEFAULT = 'check not built yet (round 1 in progress); see DESIGN.md section 6'
NA = {}

def main():
    checks = []
    for pid, c in CHECKS.items():
        checks.append({
            'property_id': pid,
            'quick_cmd': f'./harness/check {pid} --tier quick',
            'thorough_cmd': f'./harness/check {pid} --tier thorough',
            'evidence_file': f'/verif/evidence/{pid}.json',
            'replay_cmd_template': f'./harness/check {pid} --replay {{path}}',
            'engine': 'coq+correspondence',
            'level_claimed': {'category': c['category'], 'text': c['text'], 'design_ref': c['design_ref']},
            'level_note': c['note'],
            'technique': c['technique'],
        })
    m = {
        'version': 1,
        'setup_cmd': './harness/setup.sh',
        'hooks': {'guard': 'EDGEDB_VERIF', 'enable': 'no hooks in /repo are needed; checks run /repo\'s working tree directly (PYTHONPATH=/repo)',
                  'baseline_off_cmd': 'cd /repo && /venv/bin/python -m pytest -ra -q -p no:cacheprovider --timeout=900 --continue-on-collection-errors',
                  'source_commits': [], 'add_only': True},
        'engines': [{'name': 'coq+correspondence', 'path': 'harness/check', 'serves_properties': sorted(CHECKS),
                     'kind_free_text': 'Coq 8.16 proofs about executable Gallina models; models tied to /repo by differential runs (OCaml-extracted model vs real Python) and fail-closed translators'}],
        'checks': checks,
        'notes': 'see DESIGN.md; known findings in known_findings.json',
        'not_applicable': [{'property_id': p['id'], 'reason': NA.get(p['id'], NA_DEFAULT)} for p in props if p['id'] not in CHECKS],
    }
    json.dump(m, open(os.path.join(VERIF, 'MANIFEST.json'), 'w'), indent=1)

main()
