"""Regenerates MANIFEST.json from the table below (keeps it schema-valid)."""
import json, os
HERE = os.path.dirname(os.path.abspath(__file__))
VERIF = os.path.dirname(HERE)
props = [json.loads(l) for l in open(os.path.join(VERIF, 'properties.jsonl'))]

CHECKS = {
 'C20': dict(
   category='proof', design_ref='DESIGN.md section 4, C20',
   technique='Coq proof (induction on DFS fuel with stack/order invariants) about a hand-written Gallina model of sort_ex + differential correspondence model vs real sort_ex',
   text='Machine-checked Coq theorems for every finite graph (no size bound) about a faithful executable model of '
        'edb.common.topological.sort_ex: permutation, hard precedence, cycle soundness and completeness (hard ∪ loop-control), '
        'soft edges never fail / honoured when acyclic, unresolved-reference reporting, fuel sufficiency. The model is tied to the '
        'code on every run by running the OCaml-extracted model and the real sort_ex on the same graphs (all 2-node graphs, sampled/all '
        '3-node graphs, random and structured graphs) and comparing the exact output order or error+item; monitors of the property '
        'are also evaluated directly on the implementation.',
   note='Trusted: Coq kernel; ExtrOcamlBasic extraction (cross-checked by vm_compute on a sample); harness generators/monitors; '
        'Python try/except/finally + OrderedSet semantics as mirrored by the model. No axioms (all theorems closed under the global context).'),
 'C09': dict(
   category='proof', design_ref='DESIGN.md section 4, C09',
   technique='Coq refinement proof (simulation invariant over all histories) of a PostgreSQL-style transaction spec by a model of dbstate.py + compile_in_tx + server/worker bookkeeping; differential correspondence model vs real code; independent PG oracle as monitor',
   text='Machine-checked refinement theorem: for every finite history of START/COMMIT/ROLLBACK/DECLARE/RELEASE/ROLLBACK TO/SET ALIAS/DDL/query '
        'requests with any placement of compile-time rejections (incl. scripts rejected after an effectful prefix), backend failures, worker '
        'reuse choices and client-side alias changes that satisfies the stated side condition hist_ok, the implementation model (CompilerConnectionState/'
        'Transaction, Compiler.compile_in_tx, worker LAST_STATE reuse, dbview bookkeeping) gives exactly the replies and compiles every statement against '
        'exactly the payload of a PostgreSQL-style transaction specification; plus refutation witnesses for the three defects found (two repaired by fix: '
        'commits, one known finding). The model is tied to /repo on every run: the real dbstate, compile_in_tx, _compile_ql_transaction, worker.compile_in_tx '
        'and AbstractPool.compile_in_tx execute the same histories as the extracted model and all replies/seen payloads are compared.',
   note='Trusted: Coq kernel; extraction (cross-checked by vm_compute on a sample); harness. Modelled, not executed: dbview.pyx/execute.pyx/binary.pyx '
        'bookkeeping (transliterated), the per-statement compile loop for SET ALIAS/DDL, PostgreSQL itself (oracle). No axioms.'),
 'C04': dict(
   category='proof', design_ref='DESIGN.md section 4, C04 (+ section 9 change log)',
   technique='Coq invariant proof over all raw-operation histories of a model of FlatSchema/ChainedSchema indexes; differential correspondence model vs real FlatSchema op by op; referential-integrity / frozen-snapshot monitors on real DDL histories',
   text='Layer 1 (full proof): for every class table and every finite history of add/add_raw/update_obj/set_obj_field/unset_obj_field/delete/discard/delist '
        '(rejected operations included) the name, global-name, short-name, type and reverse-reference indexes of the FlatSchema model are exactly what the objects\' own '
        'data determine, a deleted id is in none of them, a rejected operation changes nothing, ChainedSchema never touches its base; tied to /repo by running the real '
        'FlatSchema/ChainedSchema on the same histories over all 64 registered schema classes and comparing the full state after every operation, with monitors that recompute every index '
        'from scratch and deep-compare all earlier schema values with their snapshots. Layer 2 (partial): an abstract guarded create/alter/drop layer is proved reference-safe in Coq; '
        'the real delta commands are exercised by generated DDL histories through the real parser/DDL pipeline with monitors only (every reference resolves, lookups agree with object data, '
        'rejected command leaves the schema identical, earlier schema values unchanged).',
   note='Trusted: Coq kernel; extraction (vm_compute cross-check); harness generators/monitors; vrt substrate (stubs, parser, std schema). Modelled not verified: immutables.Map/frozenset semantics, '
        'schema_reduce/refs abstraction, shortname function as a table computed from the real function. The real delta.py command layer (~15 kloc) is NOT modelled: mutations there are caught by the monitors, '
        'not by a broken proof. No axioms.'),
 'C19': dict(
   category='proof', design_ref='DESIGN.md section 4, C19 (+ section 9 change log)',
   technique='Coq proofs over all operation sequences / all integers about a model of config ops, lookup, JSON and duration/memory codecs with constants regenerated from source by a fail-closed translator; differential correspondence vs real edb.server.config on synthetic, exotic and the real spec',
   text='15 machine-checked theorems for every spec, operation sequence and payload (valid or not): effective value = most specific defining scope else default; frame properties; a rejected operation '
        'changes nothing; typedness of stored values and the 128-element bound; RESET; duration ISO-8601 and memory-size text round trips for ALL integers; JSON round trip of scalar and scalar-set '
        'settings; INSERT / filtered RESET set semantics; plus refutation witnesses for the remaining known findings. Unit constants, parse tables and limits are regenerated from edb/ir/statypes.py '
        'and config/ops.py on every run. Correspondence: the real Operation.apply / lookup / to_json / from_json / to_edgeql run the same sequences as the extracted model (synthetic specs covering every '
        'setting kind and the real spec loaded from the std schema, with SET/RESET compiled from CONFIGURE text by the real compiler front end); to_edgeql output is re-parsed by the real parser.',
   note='Trusted: Coq kernel; extraction; translator harness/translate/c19_units.py; harness; vrt substrate. Tested only (not proved): JSON round trip of object values, to_edgeql. Outside the model: PostgreSQL-style '
        'duration text, non-ASCII digits, GLOBAL scope. No axioms.'),
}

NA_DEFAULT = 'check not built yet (round 1 in progress); see DESIGN.md section 6'
NA = {}

def main():
    checks = []
    for pid, c in CHECKS.items():
        checks.append({
            'property_id': pid,
            'quick_cmd': f'./harness/check {pid} --tier quick',
            'thorough_cmd': f'./harness/check {pid} --tier thorough',
            'evidence_file': f'/verif/evidence/{pid}.json',
            'replay_cmd_template': f'./harness/check {pid} --replay {{path}}',
            'engine': 'coq+correspondence',
            'level_claimed': {'category': c['category'], 'text': c['text'], 'design_ref': c['design_ref']},
            'level_note': c['note'],
            'technique': c['technique'],
        })
    m = {
        'version': 1,
        'setup_cmd': './harness/setup.sh',
        'hooks': {'guard': 'EDGEDB_VERIF', 'enable': 'no hooks in /repo are needed; checks run /repo\'s working tree directly (PYTHONPATH=/repo)',
                  'baseline_off_cmd': 'cd /repo && /venv/bin/python -m pytest -ra -q -p no:cacheprovider --timeout=900 --continue-on-collection-errors',
                  'source_commits': [], 'add_only': True},
        'engines': [{'name': 'coq+correspondence', 'path': 'harness/check', 'serves_properties': sorted(CHECKS),
                     'kind_free_text': 'Coq 8.16 proofs about executable Gallina models; models tied to /repo by differential runs (OCaml-extracted model vs real Python) and fail-closed translators'}],
        'checks': checks,
        'notes': 'see DESIGN.md; known findings in known_findings.json',
        'not_applicable': [{'property_id': p['id'], 'reason': NA.get(p['id'], NA_DEFAULT)} for p in props if p['id'] not in CHECKS],
    }
    json.dump(m, open(os.path.join(VERIF, 'MANIFEST.json'), 'w'), indent=1)

main()
