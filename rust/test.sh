#!/bin/sh
# Run upstream's Rust unit/integration/doc tests for the lexer-level modules
# (tests/tokenizer.rs, tests/expr.rs, tests/preparser.rs, the #[cfg(test)]
# modules inside position.rs, helpers/*.rs, schema_file.rs, and the doctests)
# against the harness build, plus the bigdecimal shim's own tests.  Offline.
set -eu
HERE="$(cd "$(dirname "$0")" && pwd)"
export CARGO_NET_OFFLINE=true
export CARGO_TARGET_DIR="${CARGO_TARGET_DIR:-$(dirname "$HERE")/cache/rust-target}"
export RUSTFLAGS="${RUSTFLAGS:--Awarnings}"
export RUSTDOCFLAGS="${RUSTDOCFLAGS:--Awarnings}"
cd "$HERE/lexer"
cargo test --release --offline "$@"
cd "$HERE/bigdecimal-shim"
cargo test --release --offline "$@"
