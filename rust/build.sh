#!/bin/sh
# Build the qllex binary fully offline from the vendored crates.
# Prints the absolute path of the binary on the last line of stdout;
# cargo's own output goes to stderr.
set -eu
HERE="$(cd "$(dirname "$0")" && pwd)"
export CARGO_NET_OFFLINE=true
export CARGO_TARGET_DIR="${CARGO_TARGET_DIR:-$(dirname "$HERE")/cache/rust-target}"
export RUSTFLAGS="${RUSTFLAGS:--Awarnings}"
mkdir -p "$CARGO_TARGET_DIR"
cd "$HERE/lexer"
cargo build --release --offline 1>&2
echo "$CARGO_TARGET_DIR/release/qllex"
