//! Minimal stand-in for the `bigdecimal` crate (0.4.x), which is not available
//! in the sealed sandbox.  It implements ONLY what
//! `/repo/edb/edgeql-parser/src/{tokenizer,validation}.rs` use:
//!
//!   * `BigDecimal: FromStr + Debug + Clone + PartialEq + Display`
//!   * `bigdecimal::num_bigint::ToBigInt` for `BigDecimal` (`to_bigint()`)
//!   * `bigdecimal::num_bigint::BigInt::to_str_radix(16)` (and 10)
//!
//! Parsing follows bigdecimal 0.4.5 `from_str_radix(s, 10)`:
//! `<digits>[.<digits>][(e|E)[+-]<digits>]`, optional leading sign;
//! scale = (#fraction digits) - exponent.
//!
//! Known divergences from the real crate (documented, deliberate):
//!   * |exponent| larger than `EXP_LIMIT` is rejected with an error (the real
//!     crate would accept anything fitting i64 and then try to materialise
//!     10^exp in `to_bigint`, i.e. hang / OOM).
//!   * `Display` prints `<digits>e<-scale>` (exact value, not the real crate's
//!     pretty format).  The Python side only ever does `float(str(v))`, which
//!     is insensitive to the format as long as the value is exact.

use std::fmt;
use std::str::FromStr;

pub const EXP_LIMIT: i128 = 1_000_000;

#[derive(Debug, Clone, PartialEq)]
pub struct ParseBigDecimalError(pub String);

impl fmt::Display for ParseBigDecimalError {
    fn fmt(&self, f: &mut fmt::Formatter) -> fmt::Result {
        f.write_str(&self.0)
    }
}

impl std::error::Error for ParseBigDecimalError {}

/// value = (-1)^neg * digits * 10^(-scale); `digits` has no leading zeros
/// (except the single digit "0").
#[derive(Debug, Clone, PartialEq)]
pub struct BigDecimal {
    neg: bool,
    digits: String,
    scale: i64,
}

impl BigDecimal {
    pub fn digits(&self) -> &str {
        &self.digits
    }
    pub fn scale(&self) -> i64 {
        self.scale
    }
    pub fn is_negative(&self) -> bool {
        self.neg && self.digits != "0"
    }
}

fn strip_leading_zeros(s: &str) -> String {
    let t = s.trim_start_matches('0');
    if t.is_empty() {
        "0".to_string()
    } else {
        t.to_string()
    }
}

impl FromStr for BigDecimal {
    type Err = ParseBigDecimalError;

    fn from_str(s: &str) -> Result<Self, Self::Err> {
        let (base_part, exponent_value): (&str, i128) = match s.find(['e', 'E']) {
            None => (s, 0),
            Some(loc) => {
                let (base, e_exp) = s.split_at(loc);
                let exp = i128::from_str(&e_exp[1..])
                    .map_err(|e| ParseBigDecimalError(format!("{}", e)))?;
                (base, exp)
            }
        };
        if base_part.is_empty() {
            return Err(ParseBigDecimalError(
                "Failed to parse empty string".to_string(),
            ));
        }
        let (neg, unsigned) = if let Some(rest) = base_part.strip_prefix('-') {
            (true, rest)
        } else if let Some(rest) = base_part.strip_prefix('+') {
            (false, rest)
        } else {
            (false, base_part)
        };
        let (digits, decimal_offset): (String, i128) = match unsigned.find('.') {
            None => (unsigned.to_string(), 0),
            Some(loc) => {
                let lead = &unsigned[..loc];
                let trail = &unsigned[loc + 1..];
                (format!("{}{}", lead, trail), trail.len() as i128)
            }
        };
        if digits.is_empty() || !digits.bytes().all(|b| b.is_ascii_digit()) {
            return Err(ParseBigDecimalError(format!(
                "invalid digit found in string {:?}",
                s
            )));
        }
        if exponent_value.abs() > EXP_LIMIT {
            return Err(ParseBigDecimalError(format!(
                "bigdecimal-shim: exponent {} beyond supported limit {}",
                exponent_value, EXP_LIMIT
            )));
        }
        let scale = decimal_offset - exponent_value;
        Ok(BigDecimal {
            neg,
            digits: strip_leading_zeros(&digits),
            scale: scale as i64,
        })
    }
}

impl fmt::Display for BigDecimal {
    fn fmt(&self, f: &mut fmt::Formatter) -> fmt::Result {
        if self.is_negative() {
            f.write_str("-")?;
        }
        write!(f, "{}e{}", self.digits, -(self.scale as i128))
    }
}

pub mod num_bigint {
    /// Arbitrary-size integer kept as sign + decimal digit string.
    #[derive(Debug, Clone, PartialEq)]
    pub struct BigInt {
        pub(crate) neg: bool,
        pub(crate) digits: String,
    }

    pub trait ToBigInt {
        fn to_bigint(&self) -> Option<BigInt>;
    }

    impl BigInt {
        pub fn to_str_radix(&self, radix: u32) -> String {
            assert!(radix == 16 || radix == 10, "shim supports radix 10/16");
            let body = if radix == 10 {
                self.digits.clone()
            } else {
                dec_to_hex(&self.digits)
            };
            if self.neg && body != "0" {
                format!("-{}", body)
            } else {
                body
            }
        }
    }

    /// Convert a decimal digit string to lowercase hex (no prefix).
    fn dec_to_hex(dec: &str) -> String {
        // little-endian limbs, base 2^32
        let mut limbs: Vec<u32> = vec![0];
        for b in dec.bytes() {
            let d = (b - b'0') as u64;
            let mut carry = d;
            for limb in limbs.iter_mut() {
                let v = (*limb as u64) * 10 + carry;
                *limb = (v & 0xffff_ffff) as u32;
                carry = v >> 32;
            }
            if carry > 0 {
                limbs.push(carry as u32);
            }
        }
        let mut out = String::new();
        let mut first = true;
        for limb in limbs.iter().rev() {
            if first {
                out.push_str(&format!("{:x}", limb));
                first = false;
            } else {
                out.push_str(&format!("{:08x}", limb));
            }
        }
        let t = out.trim_start_matches('0');
        if t.is_empty() {
            "0".to_string()
        } else {
            t.to_string()
        }
    }
}

impl num_bigint::ToBigInt for BigDecimal {
    /// Mirrors `BigDecimal::to_bigint` = `with_scale(0).int_val`:
    /// truncates any fractional digits (toward zero).
    fn to_bigint(&self) -> Option<num_bigint::BigInt> {
        let digits = if self.scale <= 0 {
            if self.digits == "0" {
                "0".to_string()
            } else {
                let mut d = self.digits.clone();
                d.extend(std::iter::repeat('0').take((-self.scale) as usize));
                d
            }
        } else {
            let n = self.digits.len() as i64 - self.scale;
            if n <= 0 {
                "0".to_string()
            } else {
                self.digits[..n as usize].to_string()
            }
        };
        Some(num_bigint::BigInt {
            neg: self.neg,
            digits,
        })
    }
}

#[cfg(test)]
mod test {
    use super::num_bigint::ToBigInt;
    use super::*;

    #[test]
    fn basics() {
        let d: BigDecimal = "1e2".parse().unwrap();
        assert_eq!(d.to_bigint().unwrap().to_str_radix(16), "64");
        let d: BigDecimal = "255".parse().unwrap();
        assert_eq!(d.to_bigint().unwrap().to_str_radix(16), "ff");
        let d: BigDecimal = "1.50".parse().unwrap();
        assert_eq!(d.to_string(), "150e-2");
        let d: BigDecimal = "18446744073709551616".parse().unwrap();
        assert_eq!(d.to_bigint().unwrap().to_str_radix(16), "10000000000000000");
        let d: BigDecimal = "0".parse().unwrap();
        assert_eq!(d.to_bigint().unwrap().to_str_radix(16), "0");
    }
}
