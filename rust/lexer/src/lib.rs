//! The REAL EdgeQL lexer-level sources of /repo, compiled unmodified through
//! `#[path]` under the crate name `edgeql_parser` (so that upstream's own
//! integration tests in /repo/edb/edgeql-parser/tests/*.rs, which `use
//! edgeql_parser::...`, compile against this harness build unchanged).
//!
//! Not included: parser.rs / ast.rs (need bumpalo, indexmap, append-only-vec,
//! serde, pyo3 which are not available offline) and hash.rs (needs base32).
//! `bigdecimal` is the local shim crate ../bigdecimal-shim.

#![allow(dead_code)]
#![allow(clippy::all)]

#[path = "/repo/edb/edgeql-parser/src/expr.rs"]
pub mod expr;
#[path = "/repo/edb/edgeql-parser/src/helpers/mod.rs"]
pub mod helpers;
#[path = "/repo/edb/edgeql-parser/src/keywords.rs"]
pub mod keywords;
#[path = "/repo/edb/edgeql-parser/src/position.rs"]
pub mod position;
#[path = "/repo/edb/edgeql-parser/src/preparser.rs"]
pub mod preparser;
#[path = "/repo/edb/edgeql-parser/src/schema_file.rs"]
pub mod schema_file;
#[path = "/repo/edb/edgeql-parser/src/tokenizer.rs"]
pub mod tokenizer;
#[path = "/repo/edb/edgeql-parser/src/validation.rs"]
pub mod validation;
