//! qllex -- the REAL EdgeQL tokenizer of /repo behind a line protocol.
//!
//! The tokenizer sources are NOT copied: they are compiled straight out of
//! /repo through `#[path]` in lib.rs (tokenizer.rs, validation.rs,
//! keywords.rs, position.rs, helpers/*, ...).  Only `bigdecimal` is replaced
//! by a local shim (see ../bigdecimal-shim).
//!
//! Protocol (one request per stdin line, one JSON answer per stdout line,
//! stdout flushed after every answer):
//!
//!   <hex>                  tokenize like edgeql-parser-python/src/tokenizer.rs:
//!                          Tokenizer::new(s).validated_values().with_eof();
//!                          stop at first error.
//!       -> {"ok":[TOKEN,...]}
//!       -> {"err":"<msg>","pos":<start>,"end":<end>,"hint":null|"..",
//!           "details":null|"..","partial":[TOKEN,...]}
//!      TOKEN = {"kind":"<Kind Debug>","text":"<hex>","value":VALUE,
//!               "start":<byte off>,"end":<byte off>}
//!      VALUE = null | {"t":"str","v":"<hex utf8>"} | {"t":"bytes","v":"<hex>"}
//!            | {"t":"int","v":"<i64 decimal>"} | {"t":"float","v":"<repr>"}
//!            | {"t":"bigint","v":"<radix-16 digits>"}
//!            | {"t":"decimal","v":"<digits>e<exp>"}
//!
//!   raw:<hex>              plain `Tokenizer::new(s)` (no validation, no EOI),
//!                          what hash.rs iterates over.  On error "pos" is
//!                          tokenizer.current_pos().offset (as hash.rs reports).
//!       -> {"ok":[{"kind","text","start","end"}...]} | {"err","pos"}
//!
//!   pos:<hex>:<o1,o2,...>  position::InflatedPos::from_offsets(data, offsets)
//!       -> {"ok":[{"line","column","utf16column","offset","char_offset"}..]}
//!       -> {"err":"<msg>","pos":null}
//!
//!   quote_name:<hex>       helpers::quote_name
//!       -> {"ok":"<hex>"}
//!
//! `qllex --keywords` prints one JSON object with the four keyword lists
//! (sorted) plus the combined multi-word keywords and exits.

#![allow(dead_code)]
#![allow(clippy::all)]

use edgeql_parser::{helpers, keywords, position, tokenizer};

use std::fmt::Write as FmtWrite;
use std::io::{self, BufRead, Write};

use tokenizer::{Token, Tokenizer, Value};

fn hex_encode(data: &[u8], out: &mut String) {
    const H: &[u8; 16] = b"0123456789abcdef";
    for b in data {
        out.push(H[(b >> 4) as usize] as char);
        out.push(H[(b & 15) as usize] as char);
    }
}

fn hex_decode(s: &str) -> Result<Vec<u8>, String> {
    let b = s.as_bytes();
    if b.len() % 2 != 0 {
        return Err("odd-length hex".into());
    }
    fn nib(c: u8) -> Result<u8, String> {
        match c {
            b'0'..=b'9' => Ok(c - b'0'),
            b'a'..=b'f' => Ok(c - b'a' + 10),
            b'A'..=b'F' => Ok(c - b'A' + 10),
            _ => Err(format!("bad hex digit {:?}", c as char)),
        }
    }
    let mut out = Vec::with_capacity(b.len() / 2);
    for i in (0..b.len()).step_by(2) {
        out.push((nib(b[i])? << 4) | nib(b[i + 1])?);
    }
    Ok(out)
}

fn json_str(s: &str, out: &mut String) {
    out.push('"');
    for c in s.chars() {
        match c {
            '"' => out.push_str("\\\""),
            '\\' => out.push_str("\\\\"),
            '\n' => out.push_str("\\n"),
            '\r' => out.push_str("\\r"),
            '\t' => out.push_str("\\t"),
            c if (c as u32) < 0x20 || (c as u32) == 0x7f => {
                write!(out, "\\u{:04x}", c as u32).unwrap();
            }
            c if (c as u32) > 0xffff => {
                let v = c as u32 - 0x10000;
                write!(out, "\\u{:04x}\\u{:04x}", 0xd800 + (v >> 10), 0xdc00 + (v & 0x3ff))
                    .unwrap();
            }
            c if (c as u32) > 0x7e => {
                write!(out, "\\u{:04x}", c as u32).unwrap();
            }
            c => out.push(c),
        }
    }
    out.push('"');
}

fn json_opt_str(s: &Option<String>, out: &mut String) {
    match s {
        None => out.push_str("null"),
        Some(s) => json_str(s, out),
    }
}

fn value_json(v: &Option<Value>, out: &mut String) {
    match v {
        None => out.push_str("null"),
        Some(Value::String(s)) => {
            out.push_str("{\"t\":\"str\",\"v\":\"");
            hex_encode(s.as_bytes(), out);
            out.push_str("\"}");
        }
        Some(Value::Bytes(b)) => {
            out.push_str("{\"t\":\"bytes\",\"v\":\"");
            hex_encode(b, out);
            out.push_str("\"}");
        }
        Some(Value::Int(i)) => {
            write!(out, "{{\"t\":\"int\",\"v\":\"{}\"}}", i).unwrap();
        }
        Some(Value::Float(f)) => {
            write!(out, "{{\"t\":\"float\",\"v\":\"{:?}\"}}", f).unwrap();
        }
        Some(Value::BigInt(s)) => {
            out.push_str("{\"t\":\"bigint\",\"v\":");
            json_str(s, out);
            out.push('}');
        }
        Some(Value::Decimal(d)) => {
            out.push_str("{\"t\":\"decimal\",\"v\":");
            json_str(&d.to_string(), out);
            out.push('}');
        }
    }
}

fn token_json(t: &Token, out: &mut String, with_value: bool) {
    out.push_str("{\"kind\":");
    json_str(&format!("{:?}", t.kind), out);
    out.push_str(",\"text\":\"");
    hex_encode(t.text.as_bytes(), out);
    out.push('"');
    if with_value {
        out.push_str(",\"value\":");
        value_json(&t.value, out);
    }
    write!(out, ",\"start\":{},\"end\":{}}}", t.span.start, t.span.end).unwrap();
}

fn tokens_json(tokens: &[Token], out: &mut String, with_value: bool) {
    out.push('[');
    for (i, t) in tokens.iter().enumerate() {
        if i > 0 {
            out.push(',');
        }
        token_json(t, out, with_value);
    }
    out.push(']');
}

/// Mirrors edgeql-parser-python/src/tokenizer.rs::tokenize
fn do_tokenize(data: &str, out: &mut String) {
    let token_stream = Tokenizer::new(data).validated_values().with_eof();
    let mut tokens = vec![];
    let mut error = None;
    for res in token_stream {
        match res {
            Ok(token) => tokens.push(token),
            Err(e) => {
                error = Some(e);
                // upstream: "TODO: fix tokenizer to skip bad tokens and continue"
                break;
            }
        }
    }
    match error {
        None => {
            out.push_str("{\"ok\":");
            tokens_json(&tokens, out, true);
            out.push('}');
        }
        Some(e) => {
            out.push_str("{\"err\":");
            json_str(&e.message, out);
            write!(out, ",\"pos\":{},\"end\":{}", e.span.start, e.span.end).unwrap();
            out.push_str(",\"hint\":");
            json_opt_str(&e.hint, out);
            out.push_str(",\"details\":");
            json_opt_str(&e.details, out);
            out.push_str(",\"partial\":");
            tokens_json(&tokens, out, true);
            out.push('}');
        }
    }
}

/// Mirrors the loop of edgeql-parser/src/hash.rs::Hasher::add_source
fn do_raw(data: &str, out: &mut String) {
    let mut parser = &mut Tokenizer::new(data);
    let mut tokens = vec![];
    for token in &mut parser {
        match token {
            Ok(t) => tokens.push(t),
            Err(e) => {
                out.push_str("{\"err\":");
                json_str(&e.message, out);
                write!(out, ",\"pos\":{}}}", parser.current_pos().offset).unwrap();
                return;
            }
        }
    }
    out.push_str("{\"ok\":");
    tokens_json(&tokens, out, false);
    out.push('}');
}

fn do_pos(data: &[u8], offsets: &str, out: &mut String) {
    let mut list: Vec<usize> = Vec::new();
    for part in offsets.split(',') {
        if part.is_empty() {
            continue;
        }
        match part.parse::<usize>() {
            Ok(v) => list.push(v),
            Err(e) => {
                out.push_str("{\"err\":");
                json_str(&format!("bad offset {:?}: {}", part, e), out);
                out.push_str(",\"pos\":null}");
                return;
            }
        }
    }
    // the python binding sorts the offsets
    list.sort();
    match position::InflatedPos::from_offsets(data, &list) {
        Ok(res) => {
            out.push_str("{\"ok\":[");
            for (i, p) in res.iter().enumerate() {
                if i > 0 {
                    out.push(',');
                }
                write!(
                    out,
                    "{{\"line\":{},\"column\":{},\"utf16column\":{},\"offset\":{},\"char_offset\":{}}}",
                    p.line, p.column, p.utf16column, p.offset, p.char_offset
                )
                .unwrap();
            }
            out.push_str("]}");
        }
        Err(e) => {
            out.push_str("{\"err\":");
            json_str(&e.to_string(), out);
            out.push_str(",\"pos\":null}");
        }
    }
}

fn proto_err(msg: &str, out: &mut String) {
    out.push_str("{\"err\":");
    json_str(&format!("qllex protocol error: {}", msg), out);
    out.push_str(",\"pos\":null,\"protocol\":true}");
}

fn decode_utf8(hex: &str, out: &mut String) -> Option<String> {
    let bytes = match hex_decode(hex) {
        Ok(b) => b,
        Err(e) => {
            proto_err(&e, out);
            return None;
        }
    };
    match String::from_utf8(bytes) {
        Ok(s) => Some(s),
        Err(e) => {
            proto_err(&format!("invalid utf-8: {}", e), out);
            None
        }
    }
}

fn handle_line(line: &str, out: &mut String) {
    if let Some(rest) = line.strip_prefix("raw:") {
        if let Some(s) = decode_utf8(rest, out) {
            do_raw(&s, out);
        }
    } else if let Some(rest) = line.strip_prefix("pos:") {
        let (hex, offs) = match rest.find(':') {
            Some(i) => (&rest[..i], &rest[i + 1..]),
            None => (rest, ""),
        };
        match hex_decode(hex) {
            Ok(b) => do_pos(&b, offs, out),
            Err(e) => proto_err(&e, out),
        }
    } else if let Some(rest) = line.strip_prefix("quote_name:") {
        if let Some(s) = decode_utf8(rest, out) {
            let q = helpers::quote_name(&s);
            out.push_str("{\"ok\":\"");
            hex_encode(q.as_bytes(), out);
            out.push_str("\"}");
        }
    } else if let Some(s) = decode_utf8(line, out) {
        do_tokenize(&s, out);
    }
}

fn sorted(set: &phf::Set<&'static str>) -> Vec<&'static str> {
    let mut v: Vec<&'static str> = set.iter().copied().collect();
    v.sort();
    v
}

fn print_keywords() {
    let mut out = String::new();
    out.push('{');
    let sets: [(&str, &phf::Set<&'static str>); 5] = [
        ("unreserved", &keywords::UNRESERVED_KEYWORDS),
        ("partial", &keywords::PARTIAL_RESERVED_KEYWORDS),
        ("future", &keywords::FUTURE_RESERVED_KEYWORDS),
        ("current", &keywords::CURRENT_RESERVED_KEYWORDS),
        ("combined", &keywords::COMBINED_KEYWORDS),
    ];
    for (i, (name, set)) in sets.iter().enumerate() {
        if i > 0 {
            out.push(',');
        }
        json_str(name, &mut out);
        out.push_str(":[");
        for (j, kw) in sorted(set).iter().enumerate() {
            if j > 0 {
                out.push(',');
            }
            json_str(kw, &mut out);
        }
        out.push(']');
    }
    out.push('}');
    println!("{}", out);
}

fn main() {
    let args: Vec<String> = std::env::args().collect();
    if args.len() > 1 {
        match args[1].as_str() {
            "--keywords" => {
                print_keywords();
                return;
            }
            other => {
                eprintln!("qllex: unknown argument {:?}", other);
                std::process::exit(2);
            }
        }
    }
    let stdin = io::stdin();
    let stdout = io::stdout();
    let mut stdout = stdout.lock();
    let mut out = String::new();
    for line in stdin.lock().lines() {
        let line = match line {
            Ok(l) => l,
            Err(_) => break,
        };
        let line = line.trim_end_matches(['\r', '\n']);
        out.clear();
        handle_line(line, &mut out);
        out.push('\n');
        if stdout.write_all(out.as_bytes()).is_err() {
            break;
        }
        if stdout.flush().is_err() {
            break;
        }
    }
}
