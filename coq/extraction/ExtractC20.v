From Coq Require Extraction.
From Coq Require Import ExtrOcamlBasic.
From Verif.C20 Require Import Model.
Extraction "c20_ext.ml" sort_ex.
