From Coq Require Extraction.
From Coq Require Import ExtrOcamlBasic.
From Verif.C13 Require Import Model.
Extraction "c13_ext.ml" check well_scoped params_of params_ok.
