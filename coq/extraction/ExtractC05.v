From Coq Require Extraction.
From Coq Require Import ExtrOcamlBasic.
From Verif.C05 Require Import Gen_Layout Model.
Extraction "c05_ext.ml" s_empty sstep step_effects final_summary type_name ptr_name lp_name_of layout
  ptr_in_source ptr_in_pointer ref_in_source ref_in_pointer.
