From Coq Require Extraction.
From Coq Require Import ExtrOcamlBasic.
From Coq Require Import ZArith NArith.
From Verif.C19 Require Import Model.
Extraction "c19_ext.ml" run_case case_fp print_Z to_iso parse_iso mem_to_str mem_of_str Z.add Z.mul Z.opp.
