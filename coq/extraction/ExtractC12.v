From Coq Require Extraction.
From Coq Require Import ExtrOcamlBasic.
From Verif.C12 Require Import Model Gen_StdSig.
Extraction "c12_ext.ml" std_sig s_int64 sig_extend stmt_type_clean type_of find_common cast_dist issub compat
  impl_castable is_poly parent_dist.
