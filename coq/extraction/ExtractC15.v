From Coq Require Extraction.
From Coq Require Import ExtrOcamlBasic.
From Verif.Pool Require Import Model.
Extraction "c15_ext.ml" init step run.
