From Coq Require Extraction.
From Coq Require Import ExtrOcamlBasic.
From Verif.C04 Require Import Model.
Extraction "c04_ext.ml" empty run trace ch_trace ser_trace ser_ch_trace.
