From Coq Require Extraction.
From Coq Require Import ExtrOcamlBasic.
From Verif.C09 Require Import Model.
Extraction "c09_ext.ml" run agree hist_ok srv_init spec_init impl_step spec_step.
