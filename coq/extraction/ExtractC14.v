From Coq Require Extraction.
From Coq Require Import ExtrOcamlBasic.
From Verif.C14 Require Import Gen_Tags Model.
Extraction "c14_ext.ml" describe_c describe_params_c describe_input_c make_state_c parse dict_of uuid5.
