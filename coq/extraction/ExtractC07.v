From Coq Require Extraction.
From Coq Require Import ExtrOcamlBasic.
From Verif.C07 Require Import Model.
Extraction "c07_ext.ml" guarded guards_valid closed spec_falsifiable cond_ok new_set has_policies_in_force.
