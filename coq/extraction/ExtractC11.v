From Coq Require Extraction.
From Coq Require Import ExtrOcamlBasic.
From Verif.Decl Require Import Model.
Extraction "c11_ext.ml" sdl_apply sdl_order graph_of norm dkeys.
