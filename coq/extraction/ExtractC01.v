From Coq Require Extraction.
From Coq Require Import ExtrOcamlBasic.
From Verif.C01 Require Import Gen_Grammar Model.
Extraction "c01_ext.ml" pp_items pp parse no_fuse fuses wf image binop_table.
