From Coq Require Extraction.
From Coq Require Import ExtrOcamlBasic.
From Verif.C17 Require Import Model.
Extraction "c17_ext.ml" trace0 digest0 clean0 noret0 trace step run final sys0 fal0 cont0.
