From Coq Require Extraction.
From Coq Require Import ExtrOcamlBasic.
From Verif.C08 Require Import Gen_Caps Model.
Extraction "c08_ext.ml" run_case dispatch_caps valuation all_classes class_branch group_caps cap_flags cap_WRITE cap_ALL.
