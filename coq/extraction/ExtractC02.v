From Coq Require Extraction.
From Coq Require Import ExtrOcamlBasic.
From Verif.Evo Require Import Model.
Extraction "c02_ext.ml" dobj alter_pairs plan migrate apply_all partition_okb deps_okb sch_eqb wfb valid_mb diff lookup.
