From Coq Require Extraction.
From Coq Require Import ExtrOcamlBasic.
From Verif.C18 Require Import Model.
Extraction "c18_ext.ml" Build_uni ql_escape_string ql_quote_literal ql_dollar_quote_literal ql_visit_constant
  ql_visit_bytes ql_quote_ident ql_param_to_str pg_quote_literal pg_quote_ident pg_quote_bytea pg_qname
  ql_lex1 pg_lex1 pg_bytea_in pg_lex_qname.
