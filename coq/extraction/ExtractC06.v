From Coq Require Extraction.
From Coq Require Import ExtrOcamlBasic.
From Verif.C06 Require Import Gen_Card Model.
Extraction "c06_ext.ml" run_infer run_tags eval eval_els db_okb strip_sel.
