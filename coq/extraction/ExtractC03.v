From Coq Require Extraction.
From Coq Require Import ExtrOcamlBasic.
From Verif.C03 Require Import Model.
Extraction "c03_ext.ml" search resolve_name classname roundtrip describe_ddl replay schema_eqb qname_eqb mod_eqb.
