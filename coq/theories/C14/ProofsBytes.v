(* C14 — byte level: every descriptor record serialised by [ser] is read back by
   [parse_desc] (both protocol generations), whatever follows it in the stream. *)
From Coq Require Import List NArith Bool Lia.
From Verif.C14 Require Import Gen_Tags Model.
Import ListNotations.
Open Scope N_scope.

(* ------------------------------------------------------------------ ocat *)

Lemma ocat_cons : forall x l b, ocat (x :: l) = Some b ->
  exists a b', x = Some a /\ ocat l = Some b' /\ b = a ++ b'.
Proof.
  intros [a|] l b H; simpl in H; [|discriminate].
  destruct (ocat l) as [b'|]; [|discriminate]. inversion H; eauto.
Qed.

Lemma ocat_app : forall l1 l2 b, ocat (l1 ++ l2) = Some b ->
  exists b1 b2, ocat l1 = Some b1 /\ ocat l2 = Some b2 /\ b = b1 ++ b2.
Proof.
  induction l1 as [|x l1 IH]; intros l2 b H; simpl in *.
  - exists [], b; auto.
  - destruct x as [a|]; [|discriminate].
    destruct (ocat (l1 ++ l2)) as [b'|] eqn:E; [|discriminate]. inversion H; subst.
    destruct (IH _ _ E) as (b1 & b2 & H1 & H2 & ->).
    exists (a ++ b1), b2. rewrite H1. rewrite app_assoc. auto.
Qed.

Lemma ocat_nil : ocat [] = Some []. Proof. reflexivity. Qed.

Arguments ocat : simpl never.

Ltac ocat_nil H := cbn [ocat] in H; inversion H; subst; clear H.

Ltac ocat_split H :=
  repeat match type of H with
  | ocat (_ :: _) = Some _ =>
      let a := fresh "a" in let b := fresh "b" in let Ha := fresh "Ha" in let Hb := fresh "Hb" in
      apply ocat_cons in H; destruct H as (a & b & Ha & H & ->)
  end.

(* ------------------------------------------------------------------ integers *)

Lemma u8_rd : forall n b r, u8 n = Some b -> rd_u8 (b ++ r) = Some (n, r).
Proof. unfold u8; intros n b r H. destruct (n <? 256); inversion H; reflexivity. Qed.

Lemma u16_rd : forall n b r, u16 n = Some b -> rd_u16 (b ++ r) = Some (n, r).
Proof.
  unfold u16; intros n b r H. destruct (n <? 65536) eqn:E; inversion H; subst. simpl.
  f_equal. f_equal. rewrite N.mul_comm. symmetry. apply N.div_mod'.
Qed.

Lemma be32_word_bytes : forall n, n < M32 ->
  match word_bytes n with [a; b; c; d] => be32 a b c d | _ => 0 end = n.
Proof.
  intros n Hn. unfold word_bytes, be32, M32 in *.
  assert (H1 := N.div_mod' n 256).
  assert (H2 := N.div_mod' (n / 256) 256).
  assert (H3 := N.div_mod' (n / 256 / 256) 256).
  assert (E2 : n / 65536 = n / 256 / 256) by (rewrite N.div_div by lia; reflexivity).
  assert (E3 : n / 16777216 = n / 256 / 256 / 256) by (rewrite !N.div_div by lia; reflexivity).
  rewrite E2, E3.
  assert (n / 256 / 256 / 256 < 256).
  { apply N.div_lt_upper_bound; [lia|]. apply N.div_lt_upper_bound; [lia|].
    apply N.div_lt_upper_bound; lia. }
  rewrite (N.mod_small (n / 256 / 256 / 256) 256) by assumption.
  lia.
Qed.

Lemma u32_rd : forall n b r, u32 n = Some b -> rd_u32 (b ++ r) = Some (n, r).
Proof.
  unfold u32; intros n b r H. destruct (n <? M32) eqn:E; inversion H; subst.
  apply N.ltb_lt in E. pose proof (be32_word_bytes n E) as W.
  unfold word_bytes in *. simpl. rewrite W. reflexivity.
Qed.

Lemma u8_len : forall n b, u8 n = Some b -> length b = 1%nat.
Proof. unfold u8; intros n b H; destruct (n <? 256); inversion H; reflexivity. Qed.
Lemma u16_len : forall n b, u16 n = Some b -> length b = 2%nat.
Proof. unfold u16; intros n b H; destruct (n <? 65536); inversion H; reflexivity. Qed.
Lemma u32_len : forall n b, u32 n = Some b -> length b = 4%nat.
Proof. unfold u32; intros n b H; destruct (n <? M32); inversion H; reflexivity. Qed.

(* ------------------------------------------------------------------ bytes, strings *)

Lemma rd_bytes_app : forall (a r : bytes), rd_bytes (length a) (a ++ r) = Some (a, r).
Proof.
  intros a r. unfold rd_bytes. rewrite app_length.
  replace (Nat.leb (length a) (length a + length r)) with true
    by (symmetry; apply PeanoNat.Nat.leb_le; lia).
  rewrite firstn_app, PeanoNat.Nat.sub_diag, firstn_all, skipn_app, PeanoNat.Nat.sub_diag, skipn_all.
  simpl. rewrite app_nil_r. reflexivity.
Qed.

Lemma len_app_le : forall (a r : bytes), len a <=? len (a ++ r) = true.
Proof. intros. apply N.leb_le. unfold len. rewrite app_length. lia. Qed.

Lemma pstr_rd : forall s b r, pstr s = Some b -> valid_utf8 s = true ->
  rd_str (b ++ r) = Some (s, r).
Proof.
  unfold pstr; intros s b r H V. ocat_split H. ocat_nil H.
  inversion Ha0; subst. rewrite app_nil_r, <- app_assoc.
  unfold rd_str. rewrite (u32_rd _ _ _ Ha). rewrite len_app_le.
  unfold len. rewrite Nnat.Nat2N.id, rd_bytes_app, V. reflexivity.
Qed.

(* ------------------------------------------------------------------ counted sequences *)

Lemma rd_many_app : forall {A} (enc : A -> option bytes) (rd : bytes -> option (A * bytes))
  (l : list A) bl r,
  (forall x, In x l -> forall bx r', enc x = Some bx -> rd (bx ++ r') = Some (x, r')) ->
  ocat (map enc l) = Some bl ->
  rd_many rd (length l) (bl ++ r) = Some (l, r).
Proof.
  intros A enc rd. induction l as [|x l IH]; intros bl r Hx H; simpl in *.
  - cbn [ocat] in H. inversion H; reflexivity.
  - apply ocat_cons in H. destruct H as (a & b' & Ha & Hb & ->).
    rewrite <- app_assoc. rewrite (Hx x (or_introl eq_refl) _ _ Ha).
    rewrite (IH b' r); auto.
Qed.

Lemma rd_counted_app : forall {A} (enc : A -> option bytes) (rd : bytes -> option (A * bytes))
  (l : list A) bn bl r,
  (forall x, In x l -> forall bx r', enc x = Some bx -> rd (bx ++ r') = Some (x, r')) ->
  u16 (len l) = Some bn ->
  ocat (map enc l) = Some bl ->
  rd_counted rd (bn ++ bl ++ r) = Some (l, r).
Proof.
  intros. unfold rd_counted. rewrite (u16_rd _ _ _ H0). unfold len.
  rewrite Nnat.Nat2N.id. eapply rd_many_app; eauto.
Qed.

Lemma u16_item : forall x, In x (@nil N) \/ True -> forall bx r', u16 x = Some bx ->
  rd_u16 (bx ++ r') = Some (x, r').
Proof. intros; apply u16_rd; auto. Qed.

(* ------------------------------------------------------------------ well-formed records *)

Definition wf_id (u : uuid) : Prop := length u = 16%nat.

Definition wf_selem (e : selem) : Prop :=
  valid_card (se_card e) = true /\ valid_utf8 (se_name e) = true.

Definition wf_hd (h : hd) : Prop := valid_utf8 (h_name h) = true.

(* the records the encoder can emit for a protocol generation, with decodable strings *)
Definition wf_node (c : cfg) (n : node) : Prop :=
  wf_id (node_id n) /\
  match n with
  | NSet _ _ => True
  | NObject _ name _ => v2 c = true /\ valid_utf8 name = true
  | NCompound _ name _ op _ =>
      v2 c = true /\ valid_utf8 name = true /\ (op = OP_UNION \/ op = OP_INTERSECTION)
  | NShape _ _ _ els => Forall wf_selem els
  | NInput _ els => Forall wf_selem els
  | NBaseScalar _ => v2 c = false
  | NScalar _ h _ => wf_hd h
  | NTuple _ h _ => wf_hd h
  | NNamedTuple _ h els => wf_hd h /\ Forall (fun p => valid_utf8 (fst p) = true) els
  | NEnum _ h labels => wf_hd h /\ Forall (fun s => valid_utf8 s = true) labels
  | NArray _ h _ | NRange _ h _ | NMultiRange _ h _ => wf_hd h
  end.

(* what of a record is on the wire in a given protocol generation *)
Definition hd0 : hd := mkHd [] false [].
Definition erase_hd (c : cfg) (h : hd) : hd := if v2 c then h else hd0.
Definition erase_selem (c : cfg) (with_src : bool) (e : selem) : selem :=
  mkSelem (se_flags e) (se_card e) (se_name e) (se_type e)
          (if v2 c && with_src then se_src e else 0).
Definition erase (c : cfg) (n : node) : node :=
  match n with
  | NSet i k => NSet i k
  | NObject i name sd => NObject i name sd
  | NCompound i name sd op cs => NCompound i name sd op cs
  | NShape i free ot els =>
      NShape i (if v2 c then free else false) (if v2 c then ot else 0) (map (erase_selem c true) els)
  | NInput i els => NInput i (map (erase_selem c false) els)
  | NBaseScalar i => NBaseScalar i
  | NScalar i h base => if v2 c then NScalar i h 0 else NScalar i hd0 base
  | NTuple i h els => NTuple i (erase_hd c h) els
  | NNamedTuple i h els => NNamedTuple i (erase_hd c h) els
  | NEnum i h labels => NEnum i (erase_hd c h) labels
  | NArray i h k => NArray i (erase_hd c h) k
  | NRange i h k => NRange i (erase_hd c h) k
  | NMultiRange i h k => NMultiRange i (erase_hd c h) k
  end.

(* ------------------------------------------------------------------ pieces *)

Lemma with_id_app : forall id r k, wf_id id -> with_id (id ++ r) k = k id r.
Proof.
  intros id r k H. unfold with_id. unfold wf_id in H. rewrite <- H, rd_bytes_app. reflexivity.
Qed.

Lemma b2n_back : forall b, negb (b2n b =? 0) = b.
Proof. destruct b; reflexivity. Qed.

Lemma hdr2_rd : forall c h b r, ocat (hdr2 c h) = Some b -> wf_hd h ->
  rd_hdr2 c (b ++ r) = Some (erase_hd c h, r).
Proof.
  intros c h b r H W. unfold hdr2, rd_hdr2, erase_hd in *. destruct (v2 c).
  - change ([pstr (h_name h); Some [b2n (h_sd h)]; u16 (len (h_anc h))] ++ map u16 (h_anc h))
      with (pstr (h_name h) :: Some [b2n (h_sd h)] :: u16 (len (h_anc h)) :: map u16 (h_anc h)) in H.
    ocat_split H. inversion Ha0; subst. rewrite <- !app_assoc.
    rewrite (pstr_rd _ _ _ Ha W). simpl.
    erewrite (rd_counted_app u16 rd_u16); eauto.
    + rewrite b2n_back. destruct h; reflexivity.
    + intros; apply u16_rd; auto.
  - ocat_nil H. reflexivity.
Qed.

Lemma selem_rd : forall c ws e b r, ser_selem c ws e = Some b -> wf_selem e ->
  rd_selem c ws (b ++ r) = Some (erase_selem c ws e, r).
Proof.
  intros c ws e b r H [Wc Wn]. unfold ser_selem in H.
  change ([u32 (se_flags e); u8 (se_card e); pstr (se_name e); u16 (se_type e)] ++
          (if v2 c && ws then [u16 (se_src e)] else []))
    with (u32 (se_flags e) :: u8 (se_card e) :: pstr (se_name e) :: u16 (se_type e) ::
          (if v2 c && ws then [u16 (se_src e)] else [])) in H.
  ocat_split H. unfold rd_selem, erase_selem. rewrite <- !app_assoc.
  rewrite (u32_rd _ _ _ Ha), (u8_rd _ _ _ Ha0), Wc, (pstr_rd _ _ _ Ha1 Wn), (u16_rd _ _ _ Ha2).
  destruct (v2 c && ws).
  - ocat_split H. ocat_nil H. rewrite app_nil_r, (u16_rd _ _ _ Ha3). reflexivity.
  - ocat_nil H. reflexivity.
Qed.

Lemma named_item_rd : forall (p : str * N) b r,
  ocat [pstr (fst p); u16 (snd p)] = Some b -> valid_utf8 (fst p) = true ->
  match rd_str (b ++ r) with
  | Some (n, y) => match rd_u16 y with Some (k, z) => Some ((n, k), z) | None => None end
  | None => None
  end = Some (p, r).
Proof.
  intros [n k] b r H V. cbn [fst snd] in *. ocat_split H. ocat_nil H.
  rewrite app_nil_r, <- app_assoc, (pstr_rd _ _ _ Ha V), (u16_rd _ _ _ Ha0). reflexivity.
Qed.

(* ------------------------------------------------------------------ one descriptor *)

Ltac tagtests :=
  repeat match goal with
  | |- context [N.eqb ?a ?b] =>
      let v := eval vm_compute in (N.eqb a b) in
      match v with
      | true => change (N.eqb a b) with true
      | false => change (N.eqb a b) with false
      end
  end; cbv iota.

Lemma skip_len : forall c body b, lenpfx c (Some body) = Some b ->
  exists p, b = p ++ body /\ (if v2 c then length p = 4%nat else p = []).
Proof.
  intros c body b H. unfold lenpfx in H. destruct (v2 c).
  - ocat_split H. ocat_nil H. inversion Ha0; subst. exists a. rewrite app_nil_r. split; auto.
    eapply u32_len; eauto.
  - inversion H. exists []. auto.
Qed.

Lemma parse_desc_strip : forall c p body r,
  (if v2 c then length p = 4%nat else p = []) ->
  parse_desc c ((p ++ body) ++ r) = parse_desc c ((if v2 c then [0;0;0;0] else []) ++ body ++ r).
Proof.
  intros c p body r Hp. unfold parse_desc. destruct (v2 c).
  - destruct p as [|p0 [|p1 [|p2 [|p3 [|]]]]]; simpl in Hp; try discriminate. reflexivity.
  - subst p. reflexivity.
Qed.

Lemma Forall_in_rd : forall {A} (P : A -> Prop) (l : list A) (enc : A -> option bytes)
  (rd : bytes -> option (A * bytes)) (g : A -> A),
  Forall P l ->
  (forall x bx r', P x -> enc x = Some bx -> rd (bx ++ r') = Some (g x, r')) ->
  forall bl r, ocat (map enc l) = Some bl ->
  rd_many rd (length l) (bl ++ r) = Some (map g l, r).
Proof.
  intros A P l enc rd g HF Hx. induction HF as [|x l Px HF IH]; intros bl r H; simpl in *.
  - cbn [ocat] in H. inversion H; reflexivity.
  - apply ocat_cons in H. destruct H as (a & b' & Ha & Hb & ->).
    rewrite <- app_assoc, (Hx _ _ _ Px Ha), (IH _ _ Hb). reflexivity.
Qed.

Lemma rd_counted_map : forall {A} (P : A -> Prop) (l : list A) (enc : A -> option bytes)
  (rd : bytes -> option (A * bytes)) (g : A -> A) bn bl r,
  Forall P l ->
  (forall x bx r', P x -> enc x = Some bx -> rd (bx ++ r') = Some (g x, r')) ->
  u16 (len l) = Some bn -> ocat (map enc l) = Some bl ->
  rd_counted rd (bn ++ bl ++ r) = Some (map g l, r).
Proof.
  intros. unfold rd_counted. rewrite (u16_rd _ _ _ H1). unfold len. rewrite Nnat.Nat2N.id.
  eapply Forall_in_rd; eauto.
Qed.

Lemma rd_counted_u16 : forall (l : list N) bn bl r,
  u16 (len l) = Some bn -> ocat (map u16 l) = Some bl ->
  rd_counted rd_u16 (bn ++ bl ++ r) = Some (l, r).
Proof.
  intros. eapply rd_counted_app; eauto. intros; apply u16_rd; auto.
Qed.

Ltac norm_app := repeat rewrite <- app_assoc; repeat rewrite app_nil_r.

Ltac open_cons H :=
  repeat match type of H with
  | ocat ((_ :: _) ++ _) = Some _ => rewrite <- app_comm_cons in H
  | ocat ([] ++ _) = Some _ => rewrite app_nil_l in H
  end.

Theorem parse_desc_ser : forall c n b r,
  ser c n = Some b -> wf_node c n -> parse_desc c (b ++ r) = PNode (erase c n) r.
Proof.
  intros c n b r H [Wid W]. unfold ser in H.
  destruct (ser_body c n) as [body|] eqn:B; [|discriminate].
  destruct (skip_len _ _ _ H) as (p & -> & Hp). rewrite (parse_desc_strip _ _ _ _ Hp). clear H Hp p.
  destruct n; cbn [ser_body] in B; cbn [node_id] in Wid; cbn [erase].
  - (* NSet *)
    ocat_split B. ocat_nil B. inversion Ha; inversion Ha0; subst. norm_app.
    unfold parse_desc. destruct (v2 c); cbn [app rd_bytes length Nat.leb firstn skipn rd_u8]; tagtests;
      rewrite with_id_app by assumption; cbn [opt_pres]; rewrite (u16_rd _ _ _ Ha1); reflexivity.
  - (* NObject *)
    destruct W as [V Wn]. ocat_split B. ocat_nil B. inversion Ha; inversion Ha0; inversion Ha2; subst.
    norm_app. unfold parse_desc. rewrite V.
    cbn [app rd_bytes length Nat.leb firstn skipn rd_u8]; tagtests.
    rewrite with_id_app by assumption. cbn [opt_pres]. rewrite (pstr_rd _ _ _ Ha1 Wn).
    cbn [opt_pres app rd_u8]. rewrite b2n_back. reflexivity.
  - (* NCompound *)
    destruct W as (V & Wn & Wop).
    change ([Some [TAG_COMPOUND]; Some id; pstr name; Some [b2n sd]; u8 op; u16 (len comps)] ++ map u16 comps)
      with (Some [TAG_COMPOUND] :: Some id :: pstr name :: Some [b2n sd] :: u8 op :: u16 (len comps) :: map u16 comps) in B.
    ocat_split B. inversion Ha; inversion Ha0; inversion Ha2; subst.
    norm_app. unfold parse_desc. rewrite V.
    cbn [app rd_bytes length Nat.leb firstn skipn rd_u8]; tagtests.
    rewrite with_id_app by assumption. cbn [opt_pres]. rewrite (pstr_rd _ _ _ Ha1 Wn).
    cbn [opt_pres app rd_u8]. rewrite (u8_rd _ _ _ Ha3). cbn [opt_pres].
    replace ((op =? OP_UNION) || (op =? OP_INTERSECTION)) with true
      by (destruct Wop; subst; reflexivity).
    rewrite (rd_counted_u16 _ _ _ _ Ha4 B). cbn [opt_pres]. rewrite b2n_back. reflexivity.
  - (* NShape *)
    unfold parse_desc. destruct (v2 c) eqn:V.
    + change ([Some [TAG_SHAPE]; Some id] ++ [Some [b2n free]; u16 otype] ++ [u16 (len els)] ++ map (ser_selem c true) els)
        with (Some [TAG_SHAPE] :: Some id :: Some [b2n free] :: u16 otype :: u16 (len els) :: map (ser_selem c true) els) in B.
      ocat_split B. inversion Ha; inversion Ha0; inversion Ha1; subst. norm_app.
      cbn [app rd_bytes length Nat.leb firstn skipn rd_u8]; tagtests.
      rewrite with_id_app by assumption. cbn [app rd_u8]. rewrite (u16_rd _ _ _ Ha2). cbn [opt_pres].
      erewrite (rd_counted_map wf_selem els (ser_selem c true) (rd_selem c true) (erase_selem c true)); eauto.
      * cbn [fst snd]. rewrite b2n_back. reflexivity.
      * intros; apply selem_rd; auto.
    + change ([Some [TAG_SHAPE]; Some id] ++ [] ++ [u16 (len els)] ++ map (ser_selem c true) els)
        with (Some [TAG_SHAPE] :: Some id :: u16 (len els) :: map (ser_selem c true) els) in B.
      ocat_split B. inversion Ha; inversion Ha0; subst. norm_app.
      cbn [app rd_u8]; tagtests.
      rewrite with_id_app by assumption. cbn [opt_pres].
      erewrite (rd_counted_map wf_selem els (ser_selem c true) (rd_selem c true) (erase_selem c true)); eauto.
      intros; apply selem_rd; auto.
  - (* NInput *)
    change ([Some [TAG_INPUT_SHAPE]; Some id; u16 (len els)] ++ map (ser_selem c false) els)
      with (Some [TAG_INPUT_SHAPE] :: Some id :: u16 (len els) :: map (ser_selem c false) els) in B.
    ocat_split B. inversion Ha; inversion Ha0; subst. norm_app.
    unfold parse_desc.
    destruct (v2 c) eqn:V; cbn [app rd_bytes length Nat.leb firstn skipn rd_u8]; tagtests;
      rewrite with_id_app by assumption; cbn [opt_pres];
      (erewrite (rd_counted_map wf_selem els (ser_selem c false) (rd_selem c false) (erase_selem c false));
       [reflexivity | eauto | intros; apply selem_rd; auto | eauto | eauto]).
  - (* NBaseScalar *)
    ocat_split B. ocat_nil B. inversion Ha; inversion Ha0; subst. norm_app.
    unfold parse_desc. rewrite W. cbn [app rd_u8]; tagtests.
    rewrite with_id_app by assumption. reflexivity.
  - (* NScalar *)
    unfold parse_desc. destruct (v2 c) eqn:V.
    + change ([Some [TAG_SCALAR]; Some id] ++ hdr2 c h) with (Some [TAG_SCALAR] :: Some id :: hdr2 c h) in B.
      ocat_split B. inversion Ha; inversion Ha0; subst. norm_app.
      cbn [app rd_bytes length Nat.leb firstn skipn rd_u8]; tagtests.
      rewrite with_id_app by assumption.
      pose proof (hdr2_rd c h _ r B W) as HH. unfold erase_hd in HH. rewrite V in HH.
      rewrite HH. reflexivity.
    + ocat_split B. ocat_nil B. inversion Ha; inversion Ha0; subst. norm_app.
      cbn [app rd_u8]; tagtests. rewrite with_id_app by assumption. cbn [opt_pres].
      rewrite (u16_rd _ _ _ Ha1). reflexivity.
  - (* NTuple *)
    change ([Some [TAG_TUPLE]; Some id] ++ hdr2 c h ++ [u16 (len els)] ++ map u16 els)
      with (Some [TAG_TUPLE] :: Some id :: (hdr2 c h ++ u16 (len els) :: map u16 els)) in B.
    ocat_split B. inversion Ha; inversion Ha0; subst.
    apply ocat_app in B. destruct B as (bh & bt & Bh & Bt & ->). ocat_split Bt. norm_app.
    unfold parse_desc.
    destruct (v2 c) eqn:V; cbn [app rd_bytes length Nat.leb firstn skipn rd_u8]; tagtests;
      rewrite with_id_app by assumption; rewrite (hdr2_rd c h _ _ Bh W); cbn [opt_pres];
      rewrite (rd_counted_u16 _ _ _ _ Ha1 Bt); reflexivity.
  - (* NNamedTuple *)
    destruct W as [W WE].
    change ([Some [TAG_NAMEDTUPLE]; Some id] ++ hdr2 c h ++ [u16 (len els)] ++ map (fun p => ocat [pstr (fst p); u16 (snd p)]) els)
      with (Some [TAG_NAMEDTUPLE] :: Some id :: (hdr2 c h ++ u16 (len els) :: map (fun p => ocat [pstr (fst p); u16 (snd p)]) els)) in B.
    ocat_split B. inversion Ha; inversion Ha0; subst.
    apply ocat_app in B. destruct B as (bh & bt & Bh & Bt & ->). ocat_split Bt. norm_app.
    unfold parse_desc.
    destruct (v2 c) eqn:V; cbn [app rd_bytes length Nat.leb firstn skipn rd_u8]; tagtests;
      rewrite with_id_app by assumption; rewrite (hdr2_rd c h _ _ Bh W); cbn [opt_pres];
      (erewrite (rd_counted_map (fun p : str * N => valid_utf8 (fst p) = true) els _ _ (fun p => p));
       [rewrite map_id; reflexivity | eauto | intros ? ? ? Hv He; apply named_item_rd; [exact He | exact Hv] | eauto | eauto]).
  - (* NEnum *)
    destruct W as [W WE].
    change ([Some [TAG_ENUM]; Some id] ++ hdr2 c h ++ [u16 (len labels)] ++ map pstr labels)
      with (Some [TAG_ENUM] :: Some id :: (hdr2 c h ++ u16 (len labels) :: map pstr labels)) in B.
    ocat_split B. inversion Ha; inversion Ha0; subst.
    apply ocat_app in B. destruct B as (bh & bt & Bh & Bt & ->). ocat_split Bt. norm_app.
    unfold parse_desc.
    destruct (v2 c) eqn:V; cbn [app rd_bytes length Nat.leb firstn skipn rd_u8]; tagtests;
      rewrite with_id_app by assumption; rewrite (hdr2_rd c h _ _ Bh W); cbn [opt_pres];
      (erewrite (rd_counted_map (fun s : str => valid_utf8 s = true) labels pstr rd_str (fun p => p));
       [rewrite map_id; reflexivity | eauto | intros; apply pstr_rd; auto | eauto | eauto]).
  - (* NArray *)
    change ([Some [TAG_ARRAY]; Some id] ++ hdr2 c h ++ [u16 sub; u16 1; Some [255; 255; 255; 255]])
      with (Some [TAG_ARRAY] :: Some id :: (hdr2 c h ++ [u16 sub; u16 1; Some [255; 255; 255; 255]])) in B.
    ocat_split B. inversion Ha; inversion Ha0; subst.
    apply ocat_app in B. destruct B as (bh & bt & Bh & Bt & ->). ocat_split Bt. ocat_nil Bt.
    inversion Ha2; inversion Ha3; subst. norm_app.
    unfold parse_desc.
    destruct (v2 c) eqn:V; cbn [app rd_bytes length Nat.leb firstn skipn rd_u8]; tagtests;
      rewrite with_id_app by assumption; rewrite (hdr2_rd c h _ _ Bh W); cbn [opt_pres];
      rewrite (u16_rd _ _ _ Ha1); reflexivity.
  - (* NRange *)
    change ([Some [TAG_RANGE]; Some id] ++ hdr2 c h ++ [u16 sub])
      with (Some [TAG_RANGE] :: Some id :: (hdr2 c h ++ [u16 sub])) in B.
    ocat_split B. inversion Ha; inversion Ha0; subst.
    apply ocat_app in B. destruct B as (bh & bt & Bh & Bt & ->). ocat_split Bt. ocat_nil Bt. norm_app.
    unfold parse_desc.
    destruct (v2 c) eqn:V; cbn [app rd_bytes length Nat.leb firstn skipn rd_u8]; tagtests;
      rewrite with_id_app by assumption; rewrite (hdr2_rd c h _ _ Bh W); cbn [opt_pres];
      rewrite (u16_rd _ _ _ Ha1); reflexivity.
  - (* NMultiRange *)
    change ([Some [TAG_MULTIRANGE]; Some id] ++ hdr2 c h ++ [u16 sub])
      with (Some [TAG_MULTIRANGE] :: Some id :: (hdr2 c h ++ [u16 sub])) in B.
    ocat_split B. inversion Ha; inversion Ha0; subst.
    apply ocat_app in B. destruct B as (bh & bt & Bh & Bt & ->). ocat_split Bt. ocat_nil Bt. norm_app.
    unfold parse_desc.
    destruct (v2 c) eqn:V; cbn [app rd_bytes length Nat.leb firstn skipn rd_u8]; tagtests;
      rewrite with_id_app by assumption; rewrite (hdr2_rd c h _ _ Bh W); cbn [opt_pres];
      rewrite (u16_rd _ _ _ Ha1); reflexivity.
Qed.

(* ------------------------------------------------------------------ the whole stream *)

Fixpoint resolve_all (c : cfg) (acc : list desc) (ns : list node) : option (list desc) :=
  match ns with
  | [] => Some acc
  | n :: r => match resolve c acc n with
              | Some d => resolve_all c (acc ++ [d]) r
              | None => None
              end
  end.

Lemma res_selems_erase : forall c ws acc els,
  res_selems c ws acc (map (erase_selem c ws) els) = res_selems c ws acc els.
Proof.
  induction els as [|e els IH]; simpl; auto.
  destruct (nth_desc acc (se_type e)); auto.
  destruct (v2 c && ws) eqn:E; rewrite IH; reflexivity.
Qed.

Lemma hdr_of_erase : forall c acc h, hdr_of c acc (erase_hd c h) = hdr_of c acc h.
Proof. intros. unfold hdr_of, erase_hd. destruct (v2 c); reflexivity. Qed.

Lemma resolve_erase : forall c acc n, resolve c acc (erase c n) = resolve c acc n.
Proof.
  intros c acc n. destruct n; cbn [erase resolve]; try reflexivity;
    try (rewrite hdr_of_erase; reflexivity).
  - rewrite res_selems_erase. destruct (v2 c); reflexivity.
  - rewrite res_selems_erase. reflexivity.
  - destruct (v2 c) eqn:V; cbn [resolve]; rewrite V; reflexivity.
Qed.

Lemma ser_nonempty : forall c n b, ser c n = Some b -> b <> [].
Proof.
  intros c n b H. unfold ser in H. destruct (ser_body c n) as [body|] eqn:B; [|discriminate].
  assert (body <> []).
  { destruct n; cbn [ser_body] in B; try destruct (v2 c); cbn [app] in B;
      apply ocat_cons in B; destruct B as (x & y & Hx & _ & ->); inversion Hx; discriminate. }
  destruct (skip_len _ _ _ H) as (p & -> & _). destruct p; simpl; [assumption|discriminate].
Qed.

Lemma parse_loop_nodes : forall c ns bs acc fuel,
  Forall (wf_node c) ns -> ocat (map (ser c) ns) = Some bs -> (length ns <= fuel)%nat ->
  parse_loop fuel c bs acc = resolve_all c acc ns.
Proof.
  intros c. induction ns as [|n ns IH]; intros bs acc fuel W H F.
  - cbn [map ocat] in H. inversion H; subst. destruct fuel; reflexivity.
  - cbn [map] in H. apply ocat_cons in H. destruct H as (b1 & b2 & H1 & H2 & ->).
    inversion W; subst.
    destruct fuel as [|fuel]; [simpl in F; lia|].
    cbn [parse_loop resolve_all].
    destruct (b1 ++ b2) eqn:E.
    { apply app_eq_nil in E. destruct E as [E _]. exfalso. eapply ser_nonempty; eauto. }
    rewrite <- E. rewrite (parse_desc_ser _ _ _ _ H1 H3). rewrite resolve_erase.
    destruct (resolve c acc n); [|reflexivity].
    apply IH; auto. simpl in F. lia.
Qed.

Lemma ser_list_len : forall c ns bs, ocat (map (ser c) ns) = Some bs -> (length ns <= length bs)%nat.
Proof.
  induction ns as [|n ns IH]; intros bs H; cbn [map] in H.
  - simpl; lia.
  - apply ocat_cons in H. destruct H as (b1 & b2 & H1 & H2 & ->).
    apply ser_nonempty in H1. specialize (IH _ H2). rewrite app_length. simpl.
    destruct b1; [congruence|simpl; lia].
Qed.

(* decoding a stream of serialised records = resolving the records *)
Theorem parse_stream : forall c ns bs,
  Forall (wf_node c) ns -> ocat (map (ser c) ns) = Some bs ->
  parse c bs = match resolve_all c [] ns with
               | Some acc => last (map Some acc) None
               | None => None
               end.
Proof.
  intros c ns bs W H. unfold parse.
  rewrite (parse_loop_nodes c ns bs [] (S (length bs)) W H).
  - reflexivity.
  - apply ser_list_len in H. lia.
Qed.
