(* C14 — where the full statement "equal descriptor ids imply byte-identical descriptors and
   structurally different types get different ids" is FALSE of the faithful model (with the
   real hash: uuid5 over SHA-1, computed inside Coq).  Each witness is replayed on the real
   sertypes by the check (corpus/C14) and is registered in known_findings.json. *)
From Coq Require Import List NArith Bool.
From Verif.C14 Require Import Gen_Tags Model Spec ProofsInj.
Import ListNotations.
Open Scope N_scope.

Definition sc_int64 : scalar :=
  Scalar [0;0;0;0;0;0;0;0;0;0;0;0;0;0;1;5] [115;116;100;58;58;105;110;116;54;52] false [] [].
Definition sc_str : scalar :=
  Scalar ID_STR [115;116;100;58;58;115;116;114] false [] [].
Definition sc_uuid : scalar :=
  Scalar ID_UUID [115;116;100;58;58;117;117;105;100] false [] [].
Definition cfg2 : cfg := mkCfg true false true [] sc_uuid.
Definition cfg1 : cfg := mkCfg false false true [] sc_uuid.

(* (`a:b` := <int64>, c := <int64>)  vs  (a := <int64>, `b:c` := <int64>) *)
Definition colon_a : ty :=
  TTuple true false [116] [([97;58;98], TScalar sc_int64); ([99], TScalar sc_int64)].
Definition colon_b : ty :=
  TTuple true false [116] [([97], TScalar sc_int64); ([98;58;99], TScalar sc_int64)].

Theorem C14_colon_join_refuted : exists c t1 t2,
  tid uuid5 c t1 = tid uuid5 c t2 /\ skel t1 <> skel t2 /\ describe_c c t1 <> describe_c c t2.
Proof.
  exists cfg1, colon_a, colon_b. split; [vm_compute; reflexivity|]. split.
  - intro E. vm_compute in E. discriminate.
  - intro E. vm_compute in E. discriminate.
Qed.

(* Obj { [is A].x }  vs  Obj { [is B].x } : only the element's source type differs *)
Definition ot_obj : objtype := ORegular (repeat 51 16) [100;101;102;97;117;108;116;58;58;79;98;106].
Definition ot_a : objtype := ORegular (repeat 17 16) [100;101;102;97;117;108;116;58;58;65].
Definition ot_b : objtype := ORegular (repeat 34 16) [100;101;102;97;117;108;116;58;58;66].
Definition src_a : ty :=
  TShape ot_obj false false [(mkPinfo [120] false false false ot_a, TScalar sc_str)] [].
Definition src_b : ty :=
  TShape ot_obj false false [(mkPinfo [120] false false false ot_b, TScalar sc_str)] [].

Theorem C14_shape_source_refuted : exists c t1 t2,
  tid uuid5 c t1 = tid uuid5 c t2 /\ skel t1 = skel t2 /\ describe_c c t1 <> describe_c c t2.
Proof.
  exists cfg2, src_a, src_b. split; [vm_compute; reflexivity|]. split; [reflexivity|].
  intro E. vm_compute in E. discriminate.
Qed.

(* tuple<view1> vs tuple<view8>: the same structure under two schema names *)
Definition shp_x : ty :=
  TShape ot_obj false false [(mkPinfo [120] false false false ot_obj, TScalar sc_str)] [].
Definition cname_a : ty := TTuple false false [118;49] [([48], shp_x)].
Definition cname_b : ty := TTuple false false [118;56] [([48], shp_x)].

Theorem C14_collection_name_refuted : exists c t1 t2,
  tid uuid5 c t1 = tid uuid5 c t2 /\ skel t1 = skel t2 /\ describe_c c t1 <> describe_c c t2.
Proof.
  exists cfg2, cname_a, cname_b. split; [vm_compute; reflexivity|]. split; [reflexivity|].
  intro E. vm_compute in E. discriminate.
Qed.

(* a named tuple without elements (not expressible in EdgeQL) shares the empty tuple's id *)
Theorem C14_named_empty_tuple_refuted : exists c t1 t2,
  tid uuid5 c t1 = tid uuid5 c t2 /\ describe_c c t1 <> describe_c c t2.
Proof.
  exists cfg1, (TTuple true false [] []), (TTuple false false [] []).
  split; [reflexivity|]. intro E. vm_compute in E. discriminate.
Qed.

(* parse() cannot read a protocol < 2 stream with inline type-name annotations *)
Definition sc_user : scalar :=
  Scalar (repeat 7 16) [100;101;102;97;117;108;116;58;58;83] false [sc_str] [].

Theorem C14_parse_annotations_refuted : exists c t b i,
  describe_c c t = Ok (b, i) /\ parse c b = None.
Proof.
  exists (mkCfg false true true [] sc_uuid), (TScalar sc_user).
  eexists. eexists. split; [vm_compute; reflexivity|]. vm_compute. reflexivity.
Qed.

Print Assumptions C14_colon_join_refuted.
Print Assumptions C14_shape_source_refuted.
Print Assumptions C14_collection_name_refuted.
Print Assumptions C14_named_empty_tuple_refuted.
Print Assumptions C14_parse_annotations_refuted.
