(* C14 — graph level: the records emitted while a type is described resolve, position by
   position, to the expected descriptions of the described entities. *)
From Coq Require Import List NArith Bool Lia.
From Verif.C14 Require Import Gen_Tags Model Spec ProofsBytes ProofsIds.
Import ListNotations.
Open Scope N_scope.

(* ------------------------------------------------------------------ equality tests, lookup *)

Lemma list_eqb_N : forall a b : list N, list_eqb N.eqb a b = true <-> a = b.
Proof.
  induction a as [|x a IH]; intros [|y b]; simpl; split; intro E; try discriminate; auto.
  - apply andb_true_iff in E. destruct E as [E1 E2]. apply N.eqb_eq in E1. apply IH in E2. congruence.
  - inversion E; subst. apply andb_true_iff. split; [apply N.eqb_refl|apply IH; reflexivity].
Qed.

Lemma uuid_eqb_eq : forall a b, uuid_eqb a b = true <-> a = b.
Proof. exact list_eqb_N. Qed.
Lemma str_eqb_eq : forall a b, str_eqb a b = true <-> a = b.
Proof. exact list_eqb_N. Qed.

Lemma uuid_eqb_refl : forall a, uuid_eqb a a = true.
Proof. intros; apply uuid_eqb_eq; reflexivity. Qed.

Lemma index_of_some : forall u l k, index_of u l = Some k -> nth_error l (N.to_nat k) = Some u.
Proof.
  induction l as [|x l IH]; intros k E; simpl in E; [discriminate|].
  destruct (uuid_eqb u x) eqn:Q.
  - inversion E; subst. apply uuid_eqb_eq in Q. subst. reflexivity.
  - destruct (index_of u l) as [k'|]; [|discriminate]. inversion E; subst.
    rewrite N.add_1_r, Nnat.N2Nat.inj_succ. simpl. auto.
Qed.

Lemma index_of_lt : forall u l k, index_of u l = Some k -> (N.to_nat k < length l)%nat.
Proof. intros u l k E. apply index_of_some in E. apply nth_error_Some. congruence. Qed.

Lemma index_of_none : forall u l, index_of u l = None -> ~ In u l.
Proof.
  induction l as [|x l IH]; intros E Hi; simpl in *; auto.
  destruct (uuid_eqb u x) eqn:Q; [discriminate|].
  destruct (index_of u l); [discriminate|].
  destruct Hi as [->|Hi]; [rewrite uuid_eqb_refl in Q; discriminate|]. apply IH; auto.
Qed.

Lemma index_of_in : forall u l, In u l -> exists k, index_of u l = Some k.
Proof.
  induction l as [|x l IH]; intros Hi; simpl in *; [contradiction|].
  destruct (uuid_eqb u x) eqn:Q; [eauto|].
  destruct Hi as [->|Hi]; [rewrite uuid_eqb_refl in Q; discriminate|].
  destruct (IH Hi) as [k ->]. eauto.
Qed.

Lemma registered_in : forall u s, registered u s = true <-> In u (pos s).
Proof.
  intros u s. unfold registered. split; intro E.
  - destruct (index_of u (pos s)) eqn:Q; [|discriminate]. apply index_of_some in Q.
    eapply nth_error_In; eauto.
  - destruct (index_of_in _ _ E) as [k ->]. reflexivity.
Qed.

Lemma registered_not_in : forall u s, registered u s = false <-> ~ In u (pos s).
Proof.
  intros u s. split; intro E.
  - intro Hi. apply registered_in in Hi. congruence.
  - destruct (registered u s) eqn:Q; auto. apply registered_in in Q. contradiction.
Qed.

(* ------------------------------------------------------------------ resolve_all *)

Lemma resolve_all_snoc : forall c ns acc n,
  resolve_all c acc (ns ++ [n]) =
  match resolve_all c acc ns with
  | Some ds => match resolve c ds n with Some d => Some (ds ++ [d]) | None => None end
  | None => None
  end.
Proof.
  induction ns as [|m ns IH]; intros acc n; simpl.
  - destruct (resolve c acc n); reflexivity.
  - destruct (resolve c acc m); auto.
Qed.

Lemma resolve_all_length : forall c ns acc ds,
  resolve_all c acc ns = Some ds -> length ds = (length acc + length ns)%nat.
Proof.
  induction ns as [|m ns IH]; intros acc ds E; simpl in E.
  - inversion E; subst; simpl; lia.
  - destruct (resolve c acc m); [|discriminate]. apply IH in E. rewrite app_length in E. simpl in *. lia.
Qed.

Lemma NoDup_snoc : forall {A} (l : list A) x, ~ In x l -> NoDup l -> NoDup (l ++ [x]).
Proof.
  induction l as [|a l IH]; intros x Hx Hn; simpl.
  - constructor; auto.
  - inversion Hn; subst. constructor.
    + intro Hi. apply in_app_or in Hi. destruct Hi as [Hi|[Hi|[]]]; auto. subst. apply Hx. left; reflexivity.
    + apply IH; auto. intro Hi. apply Hx. right; assumption.
Qed.

Section Graph.
Variable H : str -> uuid.
Variable c : cfg.
Variable U : entity -> Prop.

Notation eid' := (eid H c).
Notation eexp' := (eexp H c).
Notation tid' := (tid H c).

Definition hd0 (ds : list desc) : desc := List.hd (DBase []) ds.
Definition ds_of (s : st) : option (list desc) := resolve_all c [] (nodes s).

Hypothesis IdDet : forall e1 e2 z, U e1 -> U e2 -> eid' e1 = eid' e2 -> eexp' z e1 = eexp' z e2.

Definition registry (s : st) (ds : list desc) : Prop :=
  forall k u, nth_error (pos s) k = Some u ->
    exists e, U e /\ eid' e = u /\ nth_error ds k = Some (eexp' (hd0 ds) e).

Record Inv (s : st) : Prop := mkInv {
  inv_ds : exists ds, ds_of s = Some ds /\ registry s ds;
  inv_ids : map node_id (nodes s) = pos s;
  inv_nodup : NoDup (pos s);
  inv_wf : Forall (wf_node c) (nodes s)
}.

Lemma inv_len : forall s ds, Inv s -> ds_of s = Some ds -> length ds = length (pos s).
Proof.
  intros s ds I E. unfold ds_of in E. apply resolve_all_length in E. simpl in E.
  rewrite <- (inv_ids _ I), map_length. exact E.
Qed.

Lemma inv_st0 : Inv st0.
Proof.
  apply mkInv; simpl.
  - exists []. split; [reflexivity|]. intros k u E. destruct k; discriminate.
  - reflexivity.
  - constructor.
  - constructor.
Qed.

(* an entity of the universe whose id is registered sits at that position with its
   expected description *)
Lemma lookup : forall s ds e k, Inv s -> ds_of s = Some ds -> U e ->
  index_of (eid' e) (pos s) = Some k ->
  nth_desc ds k = Some (eexp' (hd0 ds) e).
Proof.
  intros s ds e k I E Ue Q. destruct (inv_ds _ I) as (ds' & E' & R). rewrite E in E'. inversion E'; subst ds'.
  apply index_of_some in Q. destruct (R _ _ Q) as (e' & Ue' & Ee & Hn).
  unfold nth_desc. rewrite Hn. f_equal. apply IdDet; auto.
Qed.

Lemma hd0_app : forall ds d, ds <> [] -> hd0 (ds ++ [d]) = hd0 ds.
Proof. intros [|x ds] d Hn; [contradiction|reflexivity]. Qed.

(* _finish_typedesc of a record whose id is not registered yet *)
Lemma finish_step : forall s ds n e d,
  Inv s -> ds_of s = Some ds -> U e -> eid' e = node_id n ->
  registered (node_id n) s = false -> wf_node c n ->
  resolve c ds n = Some d -> d = eexp' (hd0 (ds ++ [d])) e ->
  let s' := snd (finish n s) in
  Inv s' /\ ds_of s' = Some (ds ++ [d]) /\ pos s' = pos s ++ [node_id n]
  /\ nodes s' = nodes s ++ [n] /\ anno s' = anno s.
Proof.
  intros s ds n e d I E Ue Ee Rg W Rs Hd s'. unfold s', finish. rewrite Rg. cbn [snd nodes pos anno].
  assert (DS : ds_of (mkSt (nodes s ++ [n]) (pos s ++ [node_id n]) (anno s)) = Some (ds ++ [d])).
  { unfold ds_of. cbn [nodes]. rewrite resolve_all_snoc. unfold ds_of in E. rewrite E, Rs. reflexivity. }
  split; [|repeat split; auto].
  apply mkInv; cbn [nodes pos].
  - exists (ds ++ [d]). split; auto.
    intros k u Hk. cbn [pos] in Hk. pose proof (inv_len _ _ I E) as L.
    destruct (PeanoNat.Nat.lt_ge_cases k (length (pos s))) as [Lt|Ge].
    + rewrite nth_error_app1 in Hk by assumption.
      destruct (inv_ds _ I) as (ds' & E' & R). rewrite E in E'. inversion E'; subst ds'.
      destruct (R _ _ Hk) as (e' & Ue' & Ee' & Hn). exists e'. repeat split; auto.
      rewrite nth_error_app1 by lia. rewrite hd0_app; auto.
      intro Z. subst ds. simpl in L. lia.
    + rewrite nth_error_app2 in Hk by assumption.
      destruct (k - length (pos s))%nat eqn:Q; simpl in Hk; [|destruct n0; discriminate].
      inversion Hk; subst u. exists e. repeat split; auto.
      rewrite nth_error_app2 by lia. replace (k - length ds)%nat with 0%nat by lia. simpl. f_equal. exact Hd.
  - rewrite map_app, (inv_ids _ I). reflexivity.
  - apply NoDup_snoc; [apply registered_not_in in Rg; exact Rg|apply (inv_nodup _ I)].
  - apply Forall_app. split; [apply (inv_wf _ I)|constructor; auto].
Qed.

Ltac splits := repeat match goal with |- _ /\ _ => split end.

(* ------------------------------------------------------------------ universe, conditions *)

Definition ents_e (e : entity) : list entity :=
  match e with
  | EScalar s => ents_scalar s
  | EObj o => ents_obj o
  | ETy t => ents c t
  | ESet t => ESet t :: ents c t
  end.

Hypothesis Uclosed : forall e e', U e -> In e' (ents_e e) -> U e'.
Hypothesis Acyclic : forall e, U e -> ~ In (eid' e) (map eid' (proper c e)).

Definition wf_ent (e : entity) : Prop :=
  wf_id (eid' e) /\
  match e with
  | EScalar sc => valid_utf8 (sname sc) = true /\ Forall (fun x => valid_utf8 x = true) (senum sc)
  | EObj o => valid_utf8 (oname o) = true
  | ETy (TTuple _ _ name els) =>
      valid_utf8 name = true /\ Forall (fun p => valid_utf8 (fst p) = true) els
  | ETy (TArray _ name _) | ETy (TRange _ name _) | ETy (TMultiRange _ name _) => valid_utf8 name = true
  | ETy (TShape _ _ _ ptrs lps) =>
      Forall (fun p => valid_utf8 (pname (fst p)) = true) (ptrs ++ lps)
  | _ => True
  end.
Hypothesis Uwf : forall e, U e -> wf_ent e.

Lemma lookup_z : forall s ds e k z', Inv s -> ds_of s = Some ds -> U e ->
  index_of (eid' e) (pos s) = Some k -> (ds <> [] -> z' = hd0 ds) ->
  nth_desc ds k = Some (eexp' z' e).
Proof.
  intros s ds e k z' I E Ue Q Hz. pose proof (lookup _ _ _ _ I E Ue Q) as L.
  rewrite L. rewrite Hz; auto. intro Z. subst ds. unfold nth_desc in L. destruct (N.to_nat k); discriminate.
Qed.

(* what describing an entity [e] from state [s] achieves *)
Definition Post (e : entity) (s s' : st) : Prop :=
  Inv s' /\ incl (pos s) (pos s') /\ In (eid' e) (pos s')
  /\ incl (pos s') (pos s ++ map eid' (ents_e e))
  /\ (~ In (eid' e) (pos s) -> exists ns n, nodes s' = ns ++ [n] /\ node_id n = eid' e)
  /\ anno s' = anno s.

Lemma post_early : forall e s, Inv s -> In (eid' e) (pos s) -> Post e s s.
Proof.
  intros e s I Hi. unfold Post. splits; auto.
  - apply incl_refl.
  - apply incl_appl, incl_refl.
  - intro N. contradiction.
Qed.

Lemma ents_e_head : forall e, In (eid' e) (map eid' (ents_e e)).
Proof.
  intros e. apply in_map_iff.
  destruct e as [sc|o|t|t]; [exists (EScalar sc)|exists (EObj o)|exists (ETy t)|exists (ESet t)];
    split; auto; simpl; auto.
  - destruct sc; simpl; auto.
  - destruct o; simpl; auto.
  - destruct t; simpl; auto.
Qed.

Lemma proper_incl : forall e, incl (proper c e) (ents_e e).
Proof.
  intros e x Hx. destruct e as [sc|o|t|t]; simpl in *; auto.
  - destruct sc; simpl in *; auto.
  - destruct o; simpl in *; auto.
  - destruct t; simpl in *; auto. right. destruct s; simpl in *; auto.
Qed.

(* describing [e] = describing entities below it, then emitting one record *)
Lemma post_finish : forall e s s1 ds n d,
  Inv s1 -> ds_of s1 = Some ds -> incl (pos s) (pos s1) ->
  incl (pos s1) (pos s ++ map eid' (proper c e)) -> anno s1 = anno s ->
  U e -> eid' e = node_id n -> registered (node_id n) s1 = false -> wf_node c n ->
  resolve c ds n = Some d -> (forall z', (ds <> [] -> z' = hd0 ds) -> d = eexp' z' e) ->
  Post e s (snd (finish n s1)).
Proof.
  intros e s s1 ds n d I E In1 Bd An Ue Ee Rg W Rs Hd.
  assert (Hd' : d = eexp' (hd0 (ds ++ [d])) e) by (apply Hd; intro Z; apply hd0_app; auto).
  destruct (finish_step s1 ds n e d I E Ue Ee Rg W Rs Hd') as (I' & DS & P & Nn & A).
  unfold Post. rewrite P, Nn, A. splits; auto.
  - apply incl_appl; auto.
  - apply in_or_app. right. left. auto.
  - intros x Hx. apply in_app_or in Hx. destruct Hx as [Hx|[<-|[]]].
    + apply Bd in Hx. apply in_app_or in Hx. destruct Hx as [Hx|Hx]; apply in_or_app; auto.
      right. apply in_map_iff in Hx. destruct Hx as (y & <- & Hy). apply in_map. apply proper_incl; auto.
    + apply in_or_app. right. rewrite <- Ee. apply ents_e_head.
  - intros _. eauto.
Qed.

(* the situation after some entities below [e] have been described *)
Definition Mid (es : list entity) (s s1 : st) : Prop :=
  Inv s1 /\ incl (pos s) (pos s1) /\ (forall x, In x es -> In (eid' x) (pos s1))
  /\ incl (pos s1) (pos s ++ map eid' (flat_map ents_e es)) /\ anno s1 = anno s.

Lemma mid_nil : forall s, Inv s -> Mid [] s s.
Proof.
  intros s I. unfold Mid. splits; auto.
  - apply incl_refl.
  - intros x [].
  - simpl. rewrite app_nil_r. apply incl_refl.
Qed.

Lemma mid_snoc : forall es e s s1 s2, Mid es s s1 -> Post e s1 s2 -> Mid (es ++ [e]) s s2.
Proof.
  intros es e s s1 s2 (I1 & In1 & R1 & B1 & A1) (I2 & In2 & R2 & B2 & _ & A2). unfold Mid. splits; auto.
  - eapply incl_tran; eauto.
  - intros x Hx. apply in_app_or in Hx. destruct Hx as [Hx|[<-|[]]]; auto.
  - intros x Hx. apply B2 in Hx. rewrite flat_map_app, map_app. simpl. rewrite app_nil_r.
    apply in_app_or in Hx. destruct Hx as [Hx|Hx].
    + apply B1 in Hx. apply in_app_or in Hx. destruct Hx; apply in_or_app; auto.
      right. apply in_or_app; auto.
    + apply in_or_app. right. apply in_or_app; auto.
  - congruence.
Qed.

Lemma mid_inv : forall es s s1, Mid es s s1 -> Inv s1.
Proof. intros es s s1 M. apply M. Qed.

(* references to described entities resolve to their expected descriptions *)
Lemma ref_lookup : forall s ds e k z', Inv s -> ds_of s = Some ds -> U e ->
  ref (eid' e) s = Ok k -> (ds <> [] -> z' = hd0 ds) -> nth_desc ds k = Some (eexp' z' e).
Proof.
  intros s ds e k z' I E Ue R Hz. unfold ref in R.
  destruct (index_of (eid' e) (pos s)) eqn:Q; inversion R; subst. eapply lookup_z; eauto.
Qed.

Lemma refs_lookup : forall s ds es ks z', Inv s -> ds_of s = Some ds -> Forall U es ->
  refs (map eid' es) s = Ok ks -> (ds <> [] -> z' = hd0 ds) ->
  nth_descs ds ks = Some (map (eexp' z') es).
Proof.
  intros s ds es. induction es as [|e es IH]; intros ks z' I E Ue R Hz; simpl in R.
  - inversion R; reflexivity.
  - bind_inv R. bind_inv R. inversion R; subst. inversion Ue; subst. simpl.
    rewrite (ref_lookup _ _ _ _ _ I E H2 E0 Hz), (IH _ _ I E H3 E1 Hz). reflexivity.
Qed.

Lemma refs_length : forall us s ks, refs us s = Ok ks -> length ks = length us.
Proof.
  induction us; intros s ks R; simpl in R.
  - inversion R; reflexivity.
  - bind_inv R. bind_inv R. inversion R; subst. simpl. f_equal. eauto.
Qed.

(* ------------------------------------------------------------------ generic loop *)

Lemma mapM_mid : forall {A} (f : A -> st -> res (uuid * st)) (ent : A -> entity) (l : list A),
  Forall (fun a => forall s i s', U (ent a) -> Inv s -> f a s = Ok (i, s') ->
                                  i = eid' (ent a) /\ Post (ent a) s s') l ->
  Forall (fun a => U (ent a)) l ->
  forall es s0 s bs s', Mid es s0 s -> mapM f l s = Ok (bs, s') ->
    Mid (es ++ map ent l) s0 s' /\ bs = map (fun a => eid' (ent a)) l.
Proof.
  intros A f ent l HF. induction HF as [|a l Ha HF IH]; intros HU es s0 s bs s' M E; simpl in E.
  - inversion E; subst. simpl. rewrite app_nil_r. auto.
  - bind_inv E. destruct a0 as [b s1]. bind_inv E. destruct a0 as [bs' s2]. inversion E; subst.
    inversion HU; subst.
    destruct (Ha _ _ _ H2 (mid_inv _ _ _ M) E0) as [-> P].
    pose proof (mid_snoc _ _ _ _ _ M P) as M1.
    destruct (IH H3 _ _ _ _ _ M1 E1) as [M2 ->].
    split; [|reflexivity]. simpl. rewrite <- app_assoc in M2. exact M2.
Qed.

Lemma flat_map_map : forall {A B C} (g : A -> B) (f : B -> list C) l,
  flat_map f (map g l) = flat_map (fun a => f (g a)) l.
Proof. induction l; simpl; congruence. Qed.

Lemma mid_not_registered : forall e es s s1,
  Mid es s s1 -> U e -> incl (flat_map ents_e es) (proper c e) ->
  registered (eid' e) s = false -> registered (eid' e) s1 = false.
Proof.
  intros e es s s1 (I1 & In1 & R1 & B1 & A1) Ue Sub Rg.
  apply registered_not_in. intro Hi. apply B1 in Hi. apply in_app_or in Hi. destruct Hi as [Hi|Hi].
  - apply registered_not_in in Rg. contradiction.
  - apply (Acyclic e Ue). apply in_map_iff in Hi. destruct Hi as (y & Ey & Hy).
    apply in_map_iff. exists y. split; auto.
Qed.

Lemma mid_bound : forall e es s s1,
  Mid es s s1 -> incl (flat_map ents_e es) (proper c e) ->
  incl (pos s1) (pos s ++ map eid' (proper c e)).
Proof.
  intros e es s s1 (I1 & In1 & R1 & B1 & A1) Sub x Hx. apply B1 in Hx.
  apply in_app_or in Hx. destruct Hx as [Hx|Hx]; apply in_or_app; auto. right.
  apply in_map_iff in Hx. destruct Hx as (y & Ey & Hy). apply in_map_iff. exists y. auto.
Qed.

Lemma inv_ds_ex : forall s, Inv s -> exists ds, ds_of s = Some ds.
Proof. intros s I. destruct (inv_ds _ I) as (ds & E & _). eauto. Qed.

(* ------------------------------------------------------------------ object types *)

Lemma regular_post : forall o id name s i s',
  exp_obj o = DObject id name true -> oid o = id -> oname o = name ->
  U (EObj o) -> Inv s -> desc_regular c id name s = Ok (i, s') -> i = id /\ Post (EObj o) s s'.
Proof.
  intros o id name s i s' Ex Eo En Ue I E. subst id name. unfold desc_regular in E.
  destruct (v2 c) eqn:V; cbn [negb] in E; [|discriminate].
  destruct (registered (oid o) s) eqn:Rg.
  - inversion E; subst. split; auto. apply post_early; auto. simpl. apply registered_in; auto.
  - inversion E; subst. split; auto. destruct (inv_ds_ex _ I) as [ds D].
    destruct (Uwf _ Ue) as [Wi Wn]. cbn [eid] in Wi.
    eapply post_finish with (s1 := s) (ds := ds) (n := NObject (oid o) (oname o) true).
    + exact I.
    + exact D.
    + apply incl_refl.
    + apply incl_appl, incl_refl.
    + reflexivity.
    + exact Ue.
    + reflexivity.
    + exact Rg.
    + split; [exact Wi|]. cbn. auto.
    + reflexivity.
    + intros z' _. cbn [eexp]. rewrite Ex. reflexivity.
Qed.

Lemma objtype_post : forall o s i s', U (EObj o) -> Inv s ->
  desc_objtype c o s = Ok (i, s') -> i = oid o /\ Post (EObj o) s s'.
Proof.
  intros o. induction o using objtype_ind'; intros s i0 s' Ue I E; cbn [desc_objtype] in E.
  - apply (regular_post (ORegular i n) i n s i0 s'); auto.
  - assert (Hcomp : forall comps op,
              (comps = un /\ op = OP_UNION /\ un <> []) \/ (comps = it /\ op = OP_INTERSECTION /\ un = [] /\ it <> []) ->
              (if negb (v2 c) then Err EAssert
               else if registered i s then Ok (i, s)
               else bind (mapM (desc_objtype c) comps s) (fun x => match x with (ids, s1) =>
                      bind (refs ids s1) (fun ks => Ok (finish (NCompound i n false op ks) s1)) end)) = Ok (i0, s') ->
              i0 = i /\ Post (EObj (OCompound i n un it)) s s').
    { intros comps op Hc E'. destruct (v2 c) eqn:V; cbn [negb] in E'; [|discriminate].
      destruct (registered i s) eqn:Rg.
      - inversion E'; subst. split; auto. apply post_early; auto. apply registered_in; auto.
      - bind_inv E'. destruct a as [ids s1]. bind_inv E'.
        assert (EE : i0 = i /\ s' = snd (finish (NCompound i n false op a) s1)) by (inversion E'; auto).
        destruct EE as [-> ->]. clear E'. split; auto.
        assert (HFc : Forall (fun o => forall s i s', U (EObj o) -> Inv s -> desc_objtype c o s = Ok (i, s') ->
                                      i = oid o /\ Post (EObj o) s s') comps)
          by (destruct Hc as [(-> & _)|(-> & _)]; assumption).
        assert (HUc : Forall (fun o => U (EObj o)) comps).
        { apply Forall_forall. intros x Hx. apply (Uclosed _ _ Ue). simpl. right.
          apply in_or_app. destruct Hc as [(-> & _)|(-> & _)]; [left|right]; apply in_flat_map; exists x; split; auto;
            destruct x; simpl; auto. }
        destruct (mapM_mid (desc_objtype c) EObj comps HFc HUc [] s s ids s1 (mid_nil _ I) E0) as [M ->].
        simpl in M.
        assert (Sub : incl (flat_map ents_e (map EObj comps)) (proper c (EObj (OCompound i n un it)))).
        { rewrite flat_map_map. simpl. destruct Hc as [(-> & _)|(-> & _)]; [apply incl_appl|apply incl_appr]; apply incl_refl. }
        destruct (inv_ds_ex _ (mid_inv _ _ _ M)) as [ds D].
        destruct (Uwf _ Ue) as [Wi Wn]. cbn [eid oid oname] in Wi, Wn.
        assert (RL : forall z', (ds <> [] -> z' = hd0 ds) -> nth_descs ds a = Some (map exp_obj comps)).
        { intros z' Hz. rewrite <- (map_map EObj (eexp' z')).
          apply (refs_lookup s1 ds (map EObj comps) a z' (mid_inv _ _ _ M) D); auto.
          - apply Forall_map. exact HUc.
          - rewrite map_map. exact E1. }
        eapply post_finish with (s1 := s1) (ds := ds).
        + apply (mid_inv _ _ _ M).
        + exact D.
        + apply M.
        + eapply mid_bound; eauto.
        + apply M.
        + exact Ue.
        + reflexivity.
        + cbn [node_id]. eapply (mid_not_registered (EObj (OCompound i n un it))); eauto.
        + split; [exact Wi|]. cbn. splits; auto. destruct Hc as [(_ & -> & _)|(_ & -> & _)]; auto.
        + cbn [resolve]. rewrite (RL (hd0 ds)) by auto. reflexivity.
        + intros z' Hz. cbn [eexp exp_obj].
          destruct Hc as [(-> & -> & Hn)|(-> & -> & -> & Hn)].
          * destruct un; [contradiction|]. reflexivity.
          * destruct it; [contradiction|]. reflexivity. }
    destruct un as [|u0 un].
    + destruct it as [|i1 it].
      * apply (regular_post (OCompound i n [] []) i n s i0 s'); auto.
      * eapply Hcomp; [right; splits; auto; discriminate|exact E].
    + eapply Hcomp; [left; splits; auto; discriminate|exact E].
Qed.

(* ------------------------------------------------------------------ scalars *)

Hypothesis Hanno : inline_tn c && negb (v2 c) = false.   (* parse() cannot read annotations *)

Fixpoint take_until {A} (stop : A -> bool) (l : list A) : list A :=
  match l with
  | [] => []
  | a :: r => if stop a then [a] else a :: take_until stop r
  end.

Lemma map_until_take : forall {A B} (stop : A -> bool) (f : A -> B) l,
  map_until stop f l = map f (take_until stop l).
Proof. induction l; simpl; auto. destruct (stop a); simpl; congruence. Qed.

Lemma mapM_until_take : forall {A B} (stop : A -> bool) (f : A -> st -> res (B * st)) l s,
  mapM_until stop f l s = mapM f (take_until stop l) s.
Proof.
  induction l as [|a l IH]; intros s; simpl; auto.
  destruct (f a s) as [[b s1]|e]; simpl; auto.
  destruct (stop a); simpl; auto. rewrite IH. reflexivity.
Qed.

Lemma take_until_incl : forall {A} (stop : A -> bool) l, incl (take_until stop l) l.
Proof.
  induction l as [|a l IH]; simpl; [apply incl_refl|].
  destruct (stop a); intros x Hx; simpl in *; intuition.
Qed.

Lemma desc_topmost_pick : forall {B} (f : scalar -> st -> res (B * st)) l s,
  desc_topmost f l s = option_map (fun a => f a s) (topmost_in l).
Proof.
  induction l as [|a l IH]; intros s; simpl; auto.
  rewrite IH. destruct (topmost_in l); simpl; auto. destruct (sabstract a); reflexivity.
Qed.

Lemma exp_topmost_pick : forall (g : scalar -> desc) l,
  exp_topmost g l = option_map g (topmost_in l).
Proof.
  induction l as [|a l IH]; simpl; auto.
  rewrite IH. destruct (topmost_in l); simpl; auto. destruct (sabstract a); reflexivity.
Qed.

Lemma topmost_in_In : forall l a, topmost_in l = Some a -> In a l.
Proof.
  induction l as [|x l IH]; intros a E; simpl in E; [discriminate|].
  destruct (topmost_in l) eqn:Q.
  - inversion E; subst. right; auto.
  - destruct (sabstract x); inversion E; subst. left; reflexivity.
Qed.

Lemma ents_scalar_anc : forall sc a, In a (sanc sc) -> incl (ents_scalar a) (proper c (EScalar sc)).
Proof.
  intros [i n ab anc en] a Ha x Hx. simpl in *. apply in_flat_map. exists a. auto.
Qed.

Lemma noanno_v1 : v2 c = false -> inline_tn c = false.
Proof. intro V. rewrite V in Hanno. simpl in Hanno. rewrite andb_true_r in Hanno. exact Hanno. Qed.

Lemma scalar_post : forall sc s i s', U (EScalar sc) -> Inv s ->
  desc_scalar c sc s = Ok (i, s') -> i = sid sc /\ Post (EScalar sc) s s'.
Proof.
  intros sc. induction sc using scalar_ind'. rename H0 into IHanc.
  intros s i0 s' Ue I E. cbn [desc_scalar] in E.
  set (sc := Scalar i n a anc en) in *.
  destruct (registered i s) eqn:Rg.
  { inversion E; subst. split; auto. apply post_early; auto. apply registered_in; auto. }
  destruct (Uwf _ Ue) as [Wi [Wn Wen]]. cbn [eid sid sname senum] in Wi, Wn, Wen.
  destruct (inv_ds_ex _ I) as [ds0 D0].
  assert (IHU : forall x, In x anc -> U (EScalar x)).
  { intros x Hx. apply (Uclosed _ _ Ue). simpl. right. apply in_flat_map. exists x. split; auto.
    destruct x; simpl; auto. }
  destruct (topmost sc) as [top|] eqn:T.
  2: { (* v1 enum without a concrete base *)
    destruct (negb (is_nil en) && negb (v2 c)) eqn:Q; [|discriminate].
    apply andb_true_iff in Q. destruct Q as [Qe Qv]. apply negb_true_iff in Qv.
    rewrite (noanno_v1 Qv) in E.
    assert (EE : i0 = i /\ s' = snd (finish (NEnum i (mkHd n true []) en) s)) by (inversion E; auto).
    destruct EE as [-> ->]. split; auto.
    eapply post_finish with (s1 := s) (ds := ds0).
    - exact I.
    - exact D0.
    - apply incl_refl.
    - apply incl_appl, incl_refl.
    - reflexivity.
    - exact Ue.
    - reflexivity.
    - exact Rg.
    - split; [exact Wi|]. cbn. split; auto.
    - cbn [resolve]. unfold hdr_of. rewrite Qv. reflexivity.
    - intros z' _. cbn [eexp exp_scalar]. fold sc. rewrite T. reflexivity. }
  destruct (v2 c) eqn:V.
  - (* protocol >= 2 *)
    bind_inv E. destruct a0 as [aids s1]. bind_inv E.
    assert (EE : i0 = i /\ s' = snd (finish (if is_nil en then NScalar i (mkHd n true a0) 0
                                              else NEnum i (mkHd n true a0) en) s1)) by (inversion E; auto).
    destruct EE as [-> ->]. clear E. split; auto.
    set (described := if uuid_eqb i (sid top) then [] else take_until (fun x => uuid_eqb (sid x) (sid top)) anc).
    assert (M : Mid (map EScalar described) s s1 /\ aids = map sid described).
    { unfold described. destruct (uuid_eqb i (sid top)).
      - inversion E0; subst. split; [apply mid_nil; auto|reflexivity].
      - rewrite mapM_until_take in E0.
        pose proof (take_until_incl (fun x => uuid_eqb (sid x) (sid top)) anc) as TI.
        destruct (mapM_mid (desc_scalar c) EScalar (take_until (fun x => uuid_eqb (sid x) (sid top)) anc)) with
            (es := @nil entity) (s0 := s) (s := s) (bs := aids) (s' := s1) as [M ->]; auto.
        + apply Forall_forall. intros x Hx. rewrite Forall_forall in IHanc. apply IHanc. apply TI; auto.
        + apply Forall_forall. intros x Hx. apply IHU. apply TI; auto.
        + apply mid_nil; auto. }
    destruct M as [M ->].
    assert (DI : incl described anc).
    { unfold described. destruct (uuid_eqb i (sid top)); [intros x []|apply take_until_incl]. }
    assert (Sub : incl (flat_map ents_e (map EScalar described)) (proper c (EScalar sc))).
    { rewrite flat_map_map. intros x Hx. apply in_flat_map in Hx. destruct Hx as (y & Hy & Hx).
      eapply ents_scalar_anc; eauto. simpl. apply DI; auto. }
    destruct (inv_ds_ex _ (mid_inv _ _ _ M)) as [ds D].
    assert (RL : forall z', (ds <> [] -> z' = hd0 ds) -> nth_descs ds a0 = Some (map (exp_scalar c) described)).
    { intros z' Hz. rewrite <- (map_map EScalar (eexp' z')).
      apply (refs_lookup s1 ds (map EScalar described) a0 z' (mid_inv _ _ _ M) D); auto.
      - apply Forall_map. apply Forall_forall. intros x Hx. apply IHU. apply DI; auto.
      - rewrite map_map. exact E1. }
    assert (EXP : forall z', eexp' z' (EScalar sc) =
                   if is_nil en then DScalar i (Some (n, true)) (last (map Some (map (exp_scalar c) described)) None)
                                             (Some (map (exp_scalar c) described))
                   else DEnum i (Some (n, true, map (exp_scalar c) described)) en).
    { intros z'. cbn [eexp]. unfold sc. cbn [exp_scalar]. fold sc. rewrite T, V. unfold described.
      destruct (uuid_eqb i (sid top)); [reflexivity|]. rewrite map_until_take. reflexivity. }
    eapply post_finish with (s1 := s1) (ds := ds).
    + apply (mid_inv _ _ _ M).
    + exact D.
    + apply M.
    + eapply mid_bound; eauto.
    + apply M.
    + exact Ue.
    + destruct (is_nil en); reflexivity.
    + replace (node_id (if is_nil en then NScalar i (mkHd n true a0) 0 else NEnum i (mkHd n true a0) en)) with i
        by (destruct (is_nil en); reflexivity).
      eapply (mid_not_registered (EScalar sc)); eauto.
    + destruct (is_nil en); (split; [exact Wi|]); cbn; auto.
    + destruct (is_nil en); cbn [resolve]; unfold hdr_of; rewrite V; cbn [h_anc h_name h_sd];
        rewrite (RL (hd0 ds)) by auto; reflexivity.
    + intros z' Hz. rewrite EXP. destruct (is_nil en); reflexivity.
  - (* protocol < 2 *)
    rewrite (noanno_v1 V) in E.
    destruct (negb (is_nil en)) eqn:Qe.
    { assert (EE : i0 = i /\ s' = snd (finish (NEnum i (mkHd n true []) en) s)) by (inversion E; auto).
      destruct EE as [-> ->]. split; auto.
      eapply post_finish with (s1 := s) (ds := ds0).
      - exact I.
      - exact D0.
      - apply incl_refl.
      - apply incl_appl, incl_refl.
      - reflexivity.
      - exact Ue.
      - reflexivity.
      - exact Rg.
      - split; [exact Wi|]. cbn. split; auto.
      - cbn [resolve]. unfold hdr_of. rewrite V. reflexivity.
      - intros z' _. cbn [eexp]. unfold sc. cbn [exp_scalar]. fold sc. rewrite T, V, Qe. reflexivity. }
    destruct (uuid_eqb i (sid top)) eqn:Qf.
    { assert (EE : i0 = i /\ s' = snd (finish (NBaseScalar i) s)) by (inversion E; auto).
      destruct EE as [-> ->]. split; auto.
      eapply post_finish with (s1 := s) (ds := ds0).
      - exact I.
      - exact D0.
      - apply incl_refl.
      - apply incl_appl, incl_refl.
      - reflexivity.
      - exact Ue.
      - reflexivity.
      - exact Rg.
      - split; [exact Wi|]. exact V.
      - reflexivity.
      - intros z' _. cbn [eexp]. unfold sc. cbn [exp_scalar]. fold sc. rewrite T, V, Qe, Qf. reflexivity. }
    rewrite desc_topmost_pick in E.
    destruct (topmost_in anc) as [b|] eqn:TP; cbn [option_map] in E; [|discriminate].
    bind_inv E. destruct a0 as [bid s1]. bind_inv E.
    assert (EE : i0 = i /\ s' = snd (finish (NScalar i (mkHd n true []) a0) s1)) by (inversion E; auto).
    destruct EE as [-> ->]. clear E. split; auto.
    pose proof (topmost_in_In _ _ TP) as Hb.
    rewrite Forall_forall in IHanc.
    destruct (IHanc b Hb s bid s1 (IHU b Hb) I E0) as [-> Pb].
    pose proof (mid_snoc _ _ _ _ _ (mid_nil _ I) Pb) as M. simpl in M.
    assert (Sub : incl (flat_map ents_e [EScalar b]) (proper c (EScalar sc))).
    { simpl. rewrite app_nil_r. apply ents_scalar_anc. exact Hb. }
    destruct (inv_ds_ex _ (mid_inv _ _ _ M)) as [ds D].
    eapply post_finish with (s1 := s1) (ds := ds).
    + apply (mid_inv _ _ _ M).
    + exact D.
    + apply M.
    + eapply mid_bound; eauto.
    + apply M.
    + exact Ue.
    + reflexivity.
    + eapply (mid_not_registered (EScalar sc)); eauto.
    + split; [exact Wi|]. cbn. auto.
    + cbn [resolve]. rewrite V.
      rewrite (ref_lookup s1 ds (EScalar b) a0 (hd0 ds) (mid_inv _ _ _ M) D (IHU b Hb) E1) by auto.
      reflexivity.
    + intros z' Hz. cbn [eexp]. unfold sc. cbn [exp_scalar]. fold sc. rewrite T, V, Qe, Qf.
      rewrite exp_topmost_pick, TP. reflexivity.
Qed.

End Graph.
