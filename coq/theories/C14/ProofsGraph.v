(* C14 — graph level: the records emitted while a type is described resolve, position by
   position, to the expected descriptions of the described entities. *)
From Coq Require Import List NArith Bool Lia.
From Verif.C14 Require Import Gen_Tags Model Spec ProofsBytes ProofsIds.
Import ListNotations.
Open Scope N_scope.

(* ------------------------------------------------------------------ equality tests, lookup *)

Lemma list_eqb_N : forall a b : list N, list_eqb N.eqb a b = true <-> a = b.
Proof.
  induction a as [|x a IH]; intros [|y b]; simpl; split; intro E; try discriminate; auto.
  - apply andb_true_iff in E. destruct E as [E1 E2]. apply N.eqb_eq in E1. apply IH in E2. congruence.
  - inversion E; subst. apply andb_true_iff. split; [apply N.eqb_refl|apply IH; reflexivity].
Qed.

Lemma uuid_eqb_eq : forall a b, uuid_eqb a b = true <-> a = b.
Proof. exact list_eqb_N. Qed.
Lemma str_eqb_eq : forall a b, str_eqb a b = true <-> a = b.
Proof. exact list_eqb_N. Qed.

Lemma uuid_eqb_refl : forall a, uuid_eqb a a = true.
Proof. intros; apply uuid_eqb_eq; reflexivity. Qed.

Lemma index_of_some : forall u l k, index_of u l = Some k -> nth_error l (N.to_nat k) = Some u.
Proof.
  induction l as [|x l IH]; intros k E; simpl in E; [discriminate|].
  destruct (uuid_eqb u x) eqn:Q.
  - inversion E; subst. apply uuid_eqb_eq in Q. subst. reflexivity.
  - destruct (index_of u l) as [k'|]; [|discriminate]. inversion E; subst.
    rewrite N.add_1_r, Nnat.N2Nat.inj_succ. simpl. auto.
Qed.

Lemma index_of_lt : forall u l k, index_of u l = Some k -> (N.to_nat k < length l)%nat.
Proof. intros u l k E. apply index_of_some in E. apply nth_error_Some. congruence. Qed.

Lemma index_of_none : forall u l, index_of u l = None -> ~ In u l.
Proof.
  induction l as [|x l IH]; intros E Hi; simpl in *; auto.
  destruct (uuid_eqb u x) eqn:Q; [discriminate|].
  destruct (index_of u l); [discriminate|].
  destruct Hi as [->|Hi]; [rewrite uuid_eqb_refl in Q; discriminate|]. apply IH; auto.
Qed.

Lemma index_of_in : forall u l, In u l -> exists k, index_of u l = Some k.
Proof.
  induction l as [|x l IH]; intros Hi; simpl in *; [contradiction|].
  destruct (uuid_eqb u x) eqn:Q; [eauto|].
  destruct Hi as [->|Hi]; [rewrite uuid_eqb_refl in Q; discriminate|].
  destruct (IH Hi) as [k ->]. eauto.
Qed.

Lemma registered_in : forall u s, registered u s = true <-> In u (pos s).
Proof.
  intros u s. unfold registered. split; intro E.
  - destruct (index_of u (pos s)) eqn:Q; [|discriminate]. apply index_of_some in Q.
    eapply nth_error_In; eauto.
  - destruct (index_of_in _ _ E) as [k ->]. reflexivity.
Qed.

Lemma registered_not_in : forall u s, registered u s = false <-> ~ In u (pos s).
Proof.
  intros u s. split; intro E.
  - intro Hi. apply registered_in in Hi. congruence.
  - destruct (registered u s) eqn:Q; auto. apply registered_in in Q. contradiction.
Qed.

Lemma finish_ok : forall n s i s', @Ok (uuid * st) (finish n s) = Ok (i, s') ->
  i = node_id n /\ s' = snd (finish n s).
Proof. intros n s i s' E. inversion E as [E']. unfold finish in *. inversion E'. split; reflexivity. Qed.

(* ------------------------------------------------------------------ resolve_all *)

Lemma resolve_all_snoc : forall c ns acc n,
  resolve_all c acc (ns ++ [n]) =
  match resolve_all c acc ns with
  | Some ds => match resolve c ds n with Some d => Some (ds ++ [d]) | None => None end
  | None => None
  end.
Proof.
  induction ns as [|m ns IH]; intros acc n; simpl.
  - destruct (resolve c acc n); reflexivity.
  - destruct (resolve c acc m); auto.
Qed.

Lemma resolve_all_length : forall c ns acc ds,
  resolve_all c acc ns = Some ds -> length ds = (length acc + length ns)%nat.
Proof.
  induction ns as [|m ns IH]; intros acc ds E; simpl in E.
  - inversion E; subst; simpl; lia.
  - destruct (resolve c acc m); [|discriminate]. apply IH in E. rewrite app_length in E. simpl in *. lia.
Qed.

Lemma NoDup_snoc : forall {A} (l : list A) x, ~ In x l -> NoDup l -> NoDup (l ++ [x]).
Proof.
  induction l as [|a l IH]; intros x Hx Hn; simpl.
  - constructor; auto.
  - inversion Hn; subst. constructor.
    + intro Hi. apply in_app_or in Hi. destruct Hi as [Hi|[Hi|[]]]; auto. subst. apply Hx. left; reflexivity.
    + apply IH; auto. intro Hi. apply Hx. right; assumption.
Qed.

Section Graph.
Variable H : str -> uuid.
Variable c : cfg.
Variable U : entity -> Prop.

Notation eid' := (eid H c).
Notation eexp' := (eexp H c).
Notation tid' := (tid H c).

Definition hd0 (ds : list desc) : desc := List.hd (DBase []) ds.
Definition ds_of (s : st) : option (list desc) := resolve_all c [] (nodes s).

Hypothesis IdDet : forall e1 e2 z, U e1 -> U e2 -> eid' e1 = eid' e2 -> eexp' z e1 = eexp' z e2.

Definition registry (s : st) (ds : list desc) : Prop :=
  forall k u, nth_error (pos s) k = Some u ->
    exists e, U e /\ eid' e = u /\ nth_error ds k = Some (eexp' (hd0 ds) e).

Record Inv (s : st) : Prop := mkInv {
  inv_ds : exists ds, ds_of s = Some ds /\ registry s ds;
  inv_ids : map node_id (nodes s) = pos s;
  inv_nodup : NoDup (pos s);
  inv_wf : Forall (wf_node c) (nodes s)
}.

Lemma inv_len : forall s ds, Inv s -> ds_of s = Some ds -> length ds = length (pos s).
Proof.
  intros s ds I E. unfold ds_of in E. apply resolve_all_length in E. simpl in E.
  rewrite <- (inv_ids _ I), map_length. exact E.
Qed.

Lemma inv_st0 : Inv st0.
Proof.
  apply mkInv; simpl.
  - exists []. split; [reflexivity|]. intros k u E. destruct k; discriminate.
  - reflexivity.
  - constructor.
  - constructor.
Qed.

(* an entity of the universe whose id is registered sits at that position with its
   expected description *)
Lemma lookup : forall s ds e k, Inv s -> ds_of s = Some ds -> U e ->
  index_of (eid' e) (pos s) = Some k ->
  nth_desc ds k = Some (eexp' (hd0 ds) e).
Proof.
  intros s ds e k I E Ue Q. destruct (inv_ds _ I) as (ds' & E' & R). rewrite E in E'. inversion E'; subst ds'.
  apply index_of_some in Q. destruct (R _ _ Q) as (e' & Ue' & Ee & Hn).
  unfold nth_desc. rewrite Hn. f_equal. apply IdDet; auto.
Qed.

Lemma hd0_app : forall ds d, ds <> [] -> hd0 (ds ++ [d]) = hd0 ds.
Proof. intros [|x ds] d Hn; [contradiction|reflexivity]. Qed.

(* _finish_typedesc of a record whose id is not registered yet *)
Lemma finish_step : forall s ds n e d,
  Inv s -> ds_of s = Some ds -> U e -> eid' e = node_id n ->
  registered (node_id n) s = false -> wf_node c n ->
  resolve c ds n = Some d -> d = eexp' (hd0 (ds ++ [d])) e ->
  let s' := snd (finish n s) in
  Inv s' /\ ds_of s' = Some (ds ++ [d]) /\ pos s' = pos s ++ [node_id n]
  /\ nodes s' = nodes s ++ [n] /\ anno s' = anno s.
Proof.
  intros s ds n e d I E Ue Ee Rg W Rs Hd s'. unfold s', finish. rewrite Rg. cbn [snd nodes pos anno].
  assert (DS : ds_of (mkSt (nodes s ++ [n]) (pos s ++ [node_id n]) (anno s)) = Some (ds ++ [d])).
  { unfold ds_of. cbn [nodes]. rewrite resolve_all_snoc. unfold ds_of in E. rewrite E, Rs. reflexivity. }
  split; [|repeat split; auto].
  apply mkInv; cbn [nodes pos].
  - exists (ds ++ [d]). split; auto.
    intros k u Hk. cbn [pos] in Hk. pose proof (inv_len _ _ I E) as L.
    destruct (PeanoNat.Nat.lt_ge_cases k (length (pos s))) as [Lt|Ge].
    + rewrite nth_error_app1 in Hk by assumption.
      destruct (inv_ds _ I) as (ds' & E' & R). rewrite E in E'. inversion E'; subst ds'.
      destruct (R _ _ Hk) as (e' & Ue' & Ee' & Hn). exists e'. repeat split; auto.
      rewrite nth_error_app1 by lia. rewrite hd0_app; auto.
      intro Z. subst ds. simpl in L. lia.
    + rewrite nth_error_app2 in Hk by assumption.
      destruct (k - length (pos s))%nat eqn:Q; simpl in Hk; [|destruct n0; discriminate].
      inversion Hk; subst u. exists e. repeat split; auto.
      rewrite nth_error_app2 by lia. replace (k - length ds)%nat with 0%nat by lia. simpl. f_equal. exact Hd.
  - rewrite map_app, (inv_ids _ I). reflexivity.
  - apply NoDup_snoc; [apply registered_not_in in Rg; exact Rg|apply (inv_nodup _ I)].
  - apply Forall_app. split; [apply (inv_wf _ I)|constructor; auto].
Qed.

Ltac splits := repeat match goal with |- _ /\ _ => split end.

(* ------------------------------------------------------------------ universe, conditions *)

Definition ents_e (e : entity) : list entity :=
  match e with
  | EScalar s => ents_scalar s
  | EObj o => ents_obj o
  | ETy t => ents c t
  | ESet t => ESet t :: ents c t
  end.

Hypothesis Uclosed : forall e e', U e -> In e' (ents_e e) -> U e'.
Hypothesis Acyclic : forall e, U e -> ~ In (eid' e) (map eid' (proper c e)).

Definition wf_ent (e : entity) : Prop :=
  wf_id (eid' e) /\
  match e with
  | EScalar sc => valid_utf8 (sname sc) = true /\ Forall (fun x => valid_utf8 x = true) (senum sc)
  | EObj o => valid_utf8 (oname o) = true
  | ETy (TTuple _ _ name els) =>
      valid_utf8 name = true /\ Forall (fun p => valid_utf8 (fst p) = true) els
  | ETy (TArray _ name _) | ETy (TRange _ name _) | ETy (TMultiRange _ name _) => valid_utf8 name = true
  | ETy (TShape mt _ _ ptrs lps) =>
      Forall (fun e => valid_utf8 (e_name e) = true) (shape_elems H c mt ptrs lps)
  | _ => True
  end.
Hypothesis Uwf : forall e, U e -> wf_ent e.

Lemma lookup_z : forall s ds e k z', Inv s -> ds_of s = Some ds -> U e ->
  index_of (eid' e) (pos s) = Some k -> (ds <> [] -> z' = hd0 ds) ->
  nth_desc ds k = Some (eexp' z' e).
Proof.
  intros s ds e k z' I E Ue Q Hz. pose proof (lookup _ _ _ _ I E Ue Q) as L.
  rewrite L. rewrite Hz; auto. intro Z. subst ds. unfold nth_desc in L. destruct (N.to_nat k); discriminate.
Qed.

Definition pfx (s s' : st) : Prop := exists more, pos s' = pos s ++ more.
Lemma pfx_refl : forall s, pfx s s.
Proof. intros s. exists []. rewrite app_nil_r. reflexivity. Qed.
Lemma pfx_trans : forall a b d, pfx a b -> pfx b d -> pfx a d.
Proof. intros a b d [m1 E1] [m2 E2]. exists (m1 ++ m2). rewrite E2, E1, app_assoc. reflexivity. Qed.
Lemma pfx_incl : forall a b, pfx a b -> incl (pos a) (pos b).
Proof. intros a b [m E]. rewrite E. apply incl_appl, incl_refl. Qed.
Lemma index_of_app : forall u l more k, index_of u l = Some k -> index_of u (l ++ more) = Some k.
Proof.
  induction l as [|x l IH]; intros more k E; simpl in *; [discriminate|].
  destruct (uuid_eqb u x); auto. destruct (index_of u l) eqn:Q; [|discriminate].
  rewrite (IH more n eq_refl). exact E.
Qed.
Lemma pfx_index : forall a b u k, pfx a b -> index_of u (pos a) = Some k -> index_of u (pos b) = Some k.
Proof. intros a b u k [m E] Q. rewrite E. apply index_of_app; auto. Qed.

(* what describing an entity [e] from state [s] achieves *)
Definition Post (e : entity) (s s' : st) : Prop :=
  Inv s' /\ pfx s s' /\ In (eid' e) (pos s')
  /\ incl (pos s') (pos s ++ map eid' (ents_e e))
  /\ (~ In (eid' e) (pos s) -> exists ns n, nodes s' = ns ++ [n] /\ node_id n = eid' e)
  /\ anno s' = anno s.

Lemma post_early : forall e s, Inv s -> In (eid' e) (pos s) -> Post e s s.
Proof.
  intros e s I Hi. unfold Post. splits; auto.
  - apply pfx_refl.
  - apply incl_appl, incl_refl.
  - intro N. contradiction.
Qed.

Lemma ents_e_head : forall e, In (eid' e) (map eid' (ents_e e)).
Proof.
  intros e. apply in_map_iff.
  destruct e as [sc|o|t|t]; [exists (EScalar sc)|exists (EObj o)|exists (ETy t)|exists (ESet t)];
    split; auto; simpl; auto.
  - destruct sc; simpl; auto.
  - destruct o; simpl; auto.
  - destruct t; simpl; auto.
Qed.

Lemma proper_incl : forall e, incl (proper c e) (ents_e e).
Proof.
  intros e x Hx. destruct e as [sc|o|t|t]; simpl in *; auto.
  - destruct sc; simpl in *; auto.
  - destruct o; simpl in *; auto.
  - destruct t; simpl in *; auto. right. destruct s; simpl in *; auto.
Qed.

(* describing [e] = describing entities below it, then emitting one record *)
Lemma post_finish : forall e s s1 ds n d,
  Inv s1 -> ds_of s1 = Some ds -> pfx s s1 ->
  incl (pos s1) (pos s ++ map eid' (proper c e)) -> anno s1 = anno s ->
  U e -> eid' e = node_id n -> registered (node_id n) s1 = false -> wf_node c n ->
  resolve c ds n = Some d -> (forall z', (ds <> [] -> z' = hd0 ds) -> d = eexp' z' e) ->
  Post e s (snd (finish n s1)).
Proof.
  intros e s s1 ds n d I E In1 Bd An Ue Ee Rg W Rs Hd.
  assert (Hd' : d = eexp' (hd0 (ds ++ [d])) e) by (apply Hd; intro Z; apply hd0_app; auto).
  destruct (finish_step s1 ds n e d I E Ue Ee Rg W Rs Hd') as (I' & DS & P & Nn & A).
  unfold Post. rewrite P, Nn, A. splits; auto.
  - destruct In1 as [m Em]. exists (m ++ [node_id n]). unfold pfx. rewrite P, Em, app_assoc. reflexivity.
  - apply in_or_app. right. left. auto.
  - intros x Hx. apply in_app_or in Hx. destruct Hx as [Hx|[<-|[]]].
    + apply Bd in Hx. apply in_app_or in Hx. destruct Hx as [Hx|Hx]; apply in_or_app; auto.
      right. apply in_map_iff in Hx. destruct Hx as (y & <- & Hy). apply in_map. apply proper_incl; auto.
    + apply in_or_app. right. rewrite <- Ee. apply ents_e_head.
  - intros _. eauto.
Qed.

(* the situation after some entities below [e] have been described *)
Definition Mid (es : list entity) (s s1 : st) : Prop :=
  Inv s1 /\ pfx s s1 /\ (forall x, In x es -> In (eid' x) (pos s1))
  /\ incl (pos s1) (pos s ++ map eid' (flat_map ents_e es)) /\ anno s1 = anno s.

Lemma mid_nil : forall s, Inv s -> Mid [] s s.
Proof.
  intros s I. unfold Mid. splits; auto.
  - apply pfx_refl.
  - intros x [].
  - simpl. rewrite app_nil_r. apply incl_refl.
Qed.

Lemma mid_snoc : forall es e s s1 s2, Mid es s s1 -> Post e s1 s2 -> Mid (es ++ [e]) s s2.
Proof.
  intros es e s s1 s2 (I1 & In1 & R1 & B1 & A1) (I2 & In2 & R2 & B2 & _ & A2). unfold Mid. splits; auto.
  - eapply pfx_trans; eauto.
  - intros x Hx. apply in_app_or in Hx. destruct Hx as [Hx|[<-|[]]]; auto.
    apply (pfx_incl _ _ In2). auto.
  - intros x Hx. apply B2 in Hx. rewrite flat_map_app, map_app. simpl. rewrite app_nil_r.
    apply in_app_or in Hx. destruct Hx as [Hx|Hx].
    + apply B1 in Hx. apply in_app_or in Hx. destruct Hx; apply in_or_app; auto.
      right. apply in_or_app; auto.
    + apply in_or_app. right. apply in_or_app; auto.
  - congruence.
Qed.

Lemma mid_inv : forall es s s1, Mid es s s1 -> Inv s1.
Proof. intros es s s1 M. apply M. Qed.

(* references to described entities resolve to their expected descriptions *)
Lemma ref_lookup : forall s ds e k z', Inv s -> ds_of s = Some ds -> U e ->
  ref (eid' e) s = Ok k -> (ds <> [] -> z' = hd0 ds) -> nth_desc ds k = Some (eexp' z' e).
Proof.
  intros s ds e k z' I E Ue R Hz. unfold ref in R.
  destruct (index_of (eid' e) (pos s)) eqn:Q; inversion R; subst. eapply lookup_z; eauto.
Qed.

Lemma refs_lookup : forall s ds es ks z', Inv s -> ds_of s = Some ds -> Forall U es ->
  refs (map eid' es) s = Ok ks -> (ds <> [] -> z' = hd0 ds) ->
  nth_descs ds ks = Some (map (eexp' z') es).
Proof.
  intros s ds es. induction es as [|e es IH]; intros ks z' I E Ue R Hz; simpl in R.
  - inversion R; reflexivity.
  - bind_inv R. bind_inv R. inversion R; subst. inversion Ue; subst. simpl.
    rewrite (ref_lookup _ _ _ _ _ I E H2 E0 Hz), (IH _ _ I E H3 E1 Hz). reflexivity.
Qed.

Lemma refs_length : forall us s ks, refs us s = Ok ks -> length ks = length us.
Proof.
  induction us; intros s ks R; simpl in R.
  - inversion R; reflexivity.
  - bind_inv R. bind_inv R. inversion R; subst. simpl. f_equal. eauto.
Qed.

(* ------------------------------------------------------------------ generic loop *)

Lemma mapM_mid : forall {A} (f : A -> st -> res (uuid * st)) (ent : A -> entity) (l : list A),
  Forall (fun a => forall s i s', U (ent a) -> Inv s -> f a s = Ok (i, s') ->
                                  i = eid' (ent a) /\ Post (ent a) s s') l ->
  Forall (fun a => U (ent a)) l ->
  forall es s0 s bs s', Mid es s0 s -> mapM f l s = Ok (bs, s') ->
    Mid (es ++ map ent l) s0 s' /\ bs = map (fun a => eid' (ent a)) l.
Proof.
  intros A f ent l HF. induction HF as [|a l Ha HF IH]; intros HU es s0 s bs s' M E; simpl in E.
  - inversion E; subst. simpl. rewrite app_nil_r. auto.
  - bind_inv E. destruct a0 as [b s1]. bind_inv E. destruct a0 as [bs' s2]. inversion E; subst.
    inversion HU; subst.
    destruct (Ha _ _ _ H2 (mid_inv _ _ _ M) E0) as [-> P].
    pose proof (mid_snoc _ _ _ _ _ M P) as M1.
    destruct (IH H3 _ _ _ _ _ M1 E1) as [M2 ->].
    split; [|reflexivity]. simpl. rewrite <- app_assoc in M2. exact M2.
Qed.

Lemma flat_map_map : forall {A B C} (g : A -> B) (f : B -> list C) l,
  flat_map f (map g l) = flat_map (fun a => f (g a)) l.
Proof. induction l; simpl; congruence. Qed.

Lemma mid_not_registered : forall e es s s1,
  Mid es s s1 -> U e -> incl (flat_map ents_e es) (proper c e) ->
  registered (eid' e) s = false -> registered (eid' e) s1 = false.
Proof.
  intros e es s s1 (I1 & In1 & R1 & B1 & A1) Ue Sub Rg.
  apply registered_not_in. intro Hi. apply B1 in Hi. apply in_app_or in Hi. destruct Hi as [Hi|Hi].
  - apply registered_not_in in Rg. contradiction.
  - apply (Acyclic e Ue). apply in_map_iff in Hi. destruct Hi as (y & Ey & Hy).
    apply in_map_iff. exists y. split; auto.
Qed.

Lemma mid_bound : forall e es s s1,
  Mid es s s1 -> incl (flat_map ents_e es) (proper c e) ->
  incl (pos s1) (pos s ++ map eid' (proper c e)).
Proof.
  intros e es s s1 (I1 & In1 & R1 & B1 & A1) Sub x Hx. apply B1 in Hx.
  apply in_app_or in Hx. destruct Hx as [Hx|Hx]; apply in_or_app; auto. right.
  apply in_map_iff in Hx. destruct Hx as (y & Ey & Hy). apply in_map_iff. exists y. auto.
Qed.

Lemma inv_ds_ex : forall s, Inv s -> exists ds, ds_of s = Some ds.
Proof. intros s I. destruct (inv_ds _ I) as (ds & E & _). eauto. Qed.

(* ------------------------------------------------------------------ object types *)

Lemma regular_post : forall o id name s i s',
  exp_obj o = DObject id name true -> oid o = id -> oname o = name ->
  U (EObj o) -> Inv s -> desc_regular c id name s = Ok (i, s') -> i = id /\ Post (EObj o) s s'.
Proof.
  intros o id name s i s' Ex Eo En Ue I E. subst id name. unfold desc_regular in E.
  destruct (v2 c) eqn:V; cbn [negb] in E; [|discriminate].
  destruct (registered (oid o) s) eqn:Rg.
  - inversion E; subst. split; auto. apply post_early; auto. simpl. apply registered_in; auto.
  - inversion E; subst. split; auto. destruct (inv_ds_ex _ I) as [ds D].
    destruct (Uwf _ Ue) as [Wi Wn]. cbn [eid] in Wi.
    eapply post_finish with (s1 := s) (ds := ds) (n := NObject (oid o) (oname o) true).
    + exact I.
    + exact D.
    + apply pfx_refl.
    + apply incl_appl, incl_refl.
    + reflexivity.
    + exact Ue.
    + reflexivity.
    + exact Rg.
    + split; [exact Wi|]. cbn. auto.
    + reflexivity.
    + intros z' _. cbn [eexp]. rewrite Ex. reflexivity.
Qed.

Lemma objtype_post : forall o s i s', U (EObj o) -> Inv s ->
  desc_objtype c o s = Ok (i, s') -> i = oid o /\ Post (EObj o) s s'.
Proof.
  intros o. induction o using objtype_ind'; intros s i0 s' Ue I E; cbn [desc_objtype] in E.
  - apply (regular_post (ORegular i n) i n s i0 s'); auto.
  - assert (Hcomp : forall comps op,
              (comps = un /\ op = OP_UNION /\ un <> []) \/ (comps = it /\ op = OP_INTERSECTION /\ un = [] /\ it <> []) ->
              (if negb (v2 c) then Err EAssert
               else if registered i s then Ok (i, s)
               else bind (mapM (desc_objtype c) comps s) (fun x => match x with (ids, s1) =>
                      bind (refs ids s1) (fun ks => Ok (finish (NCompound i n false op ks) s1)) end)) = Ok (i0, s') ->
              i0 = i /\ Post (EObj (OCompound i n un it)) s s').
    { intros comps op Hc E'. destruct (v2 c) eqn:V; cbn [negb] in E'; [|discriminate].
      destruct (registered i s) eqn:Rg.
      - inversion E'; subst. split; auto. apply post_early; auto. apply registered_in; auto.
      - bind_inv E'. destruct a as [ids s1]. bind_inv E'.
        assert (EE : i0 = i /\ s' = snd (finish (NCompound i n false op a) s1)) by (inversion E'; auto).
        destruct EE as [-> ->]. clear E'. split; auto.
        assert (HFc : Forall (fun o => forall s i s', U (EObj o) -> Inv s -> desc_objtype c o s = Ok (i, s') ->
                                      i = oid o /\ Post (EObj o) s s') comps)
          by (destruct Hc as [(-> & _)|(-> & _)]; assumption).
        assert (HUc : Forall (fun o => U (EObj o)) comps).
        { apply Forall_forall. intros x Hx. apply (Uclosed _ _ Ue). simpl. right.
          apply in_or_app. destruct Hc as [(-> & _)|(-> & _)]; [left|right]; apply in_flat_map; exists x; split; auto;
            destruct x; simpl; auto. }
        destruct (mapM_mid (desc_objtype c) EObj comps HFc HUc [] s s ids s1 (mid_nil _ I) E0) as [M ->].
        simpl in M.
        assert (Sub : incl (flat_map ents_e (map EObj comps)) (proper c (EObj (OCompound i n un it)))).
        { rewrite flat_map_map. simpl. destruct Hc as [(-> & _)|(-> & _)]; [apply incl_appl|apply incl_appr]; apply incl_refl. }
        destruct (inv_ds_ex _ (mid_inv _ _ _ M)) as [ds D].
        destruct (Uwf _ Ue) as [Wi Wn]. cbn [eid oid oname] in Wi, Wn.
        assert (RL : forall z', (ds <> [] -> z' = hd0 ds) -> nth_descs ds a = Some (map exp_obj comps)).
        { intros z' Hz. rewrite <- (map_map EObj (eexp' z')).
          apply (refs_lookup s1 ds (map EObj comps) a z' (mid_inv _ _ _ M) D); auto.
          - apply Forall_map. exact HUc.
          - rewrite map_map. exact E1. }
        eapply post_finish with (s1 := s1) (ds := ds).
        + apply (mid_inv _ _ _ M).
        + exact D.
        + apply M.
        + eapply mid_bound; eauto.
        + apply M.
        + exact Ue.
        + reflexivity.
        + cbn [node_id]. eapply (mid_not_registered (EObj (OCompound i n un it))); eauto.
        + split; [exact Wi|]. cbn. splits; auto. destruct Hc as [(_ & -> & _)|(_ & -> & _)]; auto.
        + cbn [resolve]. rewrite (RL (hd0 ds)) by auto. reflexivity.
        + intros z' Hz. cbn [eexp exp_obj].
          destruct Hc as [(-> & -> & Hn)|(-> & -> & -> & Hn)].
          * destruct un; [contradiction|]. reflexivity.
          * destruct it; [contradiction|]. reflexivity. }
    destruct un as [|u0 un].
    + destruct it as [|i1 it].
      * apply (regular_post (OCompound i n [] []) i n s i0 s'); auto.
      * eapply Hcomp; [right; splits; auto; discriminate|exact E].
    + eapply Hcomp; [left; splits; auto; discriminate|exact E].
Qed.

(* ------------------------------------------------------------------ scalars *)

Hypothesis Hanno : inline_tn c && negb (v2 c) = false.   (* parse() cannot read annotations *)

Fixpoint take_until {A} (stop : A -> bool) (l : list A) : list A :=
  match l with
  | [] => []
  | a :: r => if stop a then [a] else a :: take_until stop r
  end.

Lemma map_until_take : forall {A B} (stop : A -> bool) (f : A -> B) l,
  map_until stop f l = map f (take_until stop l).
Proof. induction l; simpl; auto. destruct (stop a); simpl; congruence. Qed.

Lemma mapM_until_take : forall {A B} (stop : A -> bool) (f : A -> st -> res (B * st)) l s,
  mapM_until stop f l s = mapM f (take_until stop l) s.
Proof.
  intros A B stop f. unfold mapM_until, mapM.
  induction l as [|a l IH]; intros s; simpl; auto.
  destruct (stop a); simpl; destruct (f a s) as [[b s1]|e]; simpl; auto.
  rewrite IH. reflexivity.
Qed.

Lemma take_until_incl : forall {A} (stop : A -> bool) l, incl (take_until stop l) l.
Proof.
  induction l as [|a l IH]; simpl; [apply incl_refl|].
  destruct (stop a); intros x Hx; simpl in *; intuition.
Qed.

Lemma desc_topmost_pick : forall {B} (f : scalar -> st -> res (B * st)) l s,
  desc_topmost f l s = option_map (fun a => f a s) (topmost_in l).
Proof.
  induction l as [|a l IH]; intros s; simpl; auto.
  rewrite IH. destruct (topmost_in l); simpl; auto. destruct (sabstract a); reflexivity.
Qed.

Lemma exp_topmost_pick : forall (g : scalar -> desc) l,
  exp_topmost g l = option_map g (topmost_in l).
Proof.
  induction l as [|a l IH]; simpl; auto.
  rewrite IH. destruct (topmost_in l); simpl; auto. destruct (sabstract a); reflexivity.
Qed.

Lemma topmost_in_In : forall l a, topmost_in l = Some a -> In a l.
Proof.
  induction l as [|x l IH]; intros a E; simpl in E; [discriminate|].
  destruct (topmost_in l) eqn:Q.
  - inversion E; subst. right; auto.
  - destruct (sabstract x); inversion E; subst. left; reflexivity.
Qed.

Lemma ents_scalar_anc : forall sc a, In a (sanc sc) -> incl (ents_scalar a) (proper c (EScalar sc)).
Proof.
  intros [i n ab anc en] a Ha x Hx. simpl in *. apply in_flat_map. exists a. auto.
Qed.

Lemma noanno_v1 : v2 c = false -> inline_tn c = false.
Proof. intro V. rewrite V in Hanno. simpl in Hanno. rewrite andb_true_r in Hanno. exact Hanno. Qed.

Lemma scalar_post : forall sc s i s', U (EScalar sc) -> Inv s ->
  desc_scalar c sc s = Ok (i, s') -> i = sid sc /\ Post (EScalar sc) s s'.
Proof.
  intros sc. induction sc using scalar_ind'. rename H0 into IHanc.
  intros s i0 s' Ue I E. cbn [desc_scalar] in E. pose proof noanno_v1 as NA.
  set (sc := Scalar i n a anc en) in *.
  destruct (registered i s) eqn:Rg.
  { inversion E; subst. split; auto. apply post_early; auto. apply registered_in; auto. }
  destruct (Uwf _ Ue) as [Wi [Wn Wen]]. cbn [eid sid sname senum] in Wi, Wn, Wen.
  destruct (inv_ds_ex _ I) as [ds0 D0].
  assert (IHU : forall x, In x anc -> U (EScalar x)).
  { intros x Hx. apply (Uclosed _ _ Ue). simpl. right. apply in_flat_map. exists x. split; auto.
    destruct x; simpl; auto. }
  destruct (topmost sc) as [top|] eqn:T.
  2: { (* v1 enum without a concrete base *)
    destruct (negb (is_nil en) && negb (v2 c)) eqn:Q; [|discriminate].
    apply andb_true_iff in Q. destruct Q as [Qe Qv]. apply negb_true_iff in Qv.
    rewrite (noanno_v1 Qv) in E.
    assert (EE : i0 = i /\ s' = snd (finish (NEnum i (mkHd n true []) en) s)) by (inversion E; auto).
    destruct EE as [-> ->]. split; auto.
    eapply post_finish with (s1 := s) (ds := ds0).
    - exact I.
    - exact D0.
    - apply pfx_refl.
    - apply incl_appl, incl_refl.
    - reflexivity.
    - exact Ue.
    - reflexivity.
    - exact Rg.
    - split; [exact Wi|]. cbn. split; auto.
    - cbn [resolve]. unfold hdr_of. rewrite Qv. reflexivity.
    - intros z' _. cbn [eexp]. unfold sc. cbn [exp_scalar]. fold sc. rewrite T. reflexivity. }
  destruct (v2 c) eqn:V.
  - (* protocol >= 2 *)
    cbv iota in E. bind_inv E. destruct a0 as [aids s1]. bind_inv E.
    apply finish_ok in E. destruct E as [-> ->].
    replace (node_id (if is_nil en then NScalar i (mkHd n true a0) 0 else NEnum i (mkHd n true a0) en)) with i
      by (destruct (is_nil en); reflexivity).
    split; auto.
    set (described := if uuid_eqb i (sid top) then [] else take_until (fun x => uuid_eqb (sid x) (sid top)) anc).
    assert (M : Mid (map EScalar described) s s1 /\ aids = map sid described).
    { unfold described. destruct (uuid_eqb i (sid top)).
      - inversion E0; subst. split; [apply mid_nil; auto|reflexivity].
      - rewrite mapM_until_take in E0.
        pose proof (take_until_incl (fun x => uuid_eqb (sid x) (sid top)) anc) as TI.
        destruct (mapM_mid (desc_scalar c) EScalar (take_until (fun x => uuid_eqb (sid x) (sid top)) anc)) with
            (es := @nil entity) (s0 := s) (s := s) (bs := aids) (s' := s1) as [M ->]; auto.
        + apply Forall_forall. intros x Hx. rewrite Forall_forall in IHanc. apply IHanc. apply TI; auto.
        + apply Forall_forall. intros x Hx. apply IHU. apply TI; auto.
        + apply mid_nil; auto. }
    destruct M as [M ->].
    assert (DI : incl described anc).
    { unfold described. destruct (uuid_eqb i (sid top)); [intros x []|apply take_until_incl]. }
    assert (Sub : incl (flat_map ents_e (map EScalar described)) (proper c (EScalar sc))).
    { rewrite flat_map_map. intros x Hx. apply in_flat_map in Hx. destruct Hx as (y & Hy & Hx).
      eapply ents_scalar_anc; eauto. }
    destruct (inv_ds_ex _ (mid_inv _ _ _ M)) as [ds D].
    assert (RL : forall z', (ds <> [] -> z' = hd0 ds) -> nth_descs ds a0 = Some (map (exp_scalar c) described)).
    { intros z' Hz. rewrite <- (map_map EScalar (eexp' z')).
      apply (refs_lookup s1 ds (map EScalar described) a0 z' (mid_inv _ _ _ M) D); auto.
      - apply Forall_map. apply Forall_forall. intros x Hx. apply IHU. apply DI; auto.
      - rewrite map_map. exact E1. }
    assert (EXP : forall z', eexp' z' (EScalar sc) =
                   if is_nil en then DScalar i (Some (n, true)) (last (map Some (map (exp_scalar c) described)) None)
                                             (Some (map (exp_scalar c) described))
                   else DEnum i (Some (n, true, map (exp_scalar c) described)) en).
    { intros z'. cbn [eexp]. unfold sc. cbn [exp_scalar]. fold sc. rewrite T, V. unfold described.
      destruct (uuid_eqb i (sid top)); [reflexivity|]. rewrite map_until_take. reflexivity. }
    destruct (is_nil en) eqn:Qn.
    + eapply post_finish with (s1 := s1) (ds := ds).
      * apply (mid_inv _ _ _ M).
      * exact D.
      * apply M.
      * eapply mid_bound; eauto.
      * apply M.
      * exact Ue.
      * reflexivity.
      * eapply (mid_not_registered (EScalar sc)); eauto.
      * split; [exact Wi|]; cbn; auto.
      * cbn [resolve]. rewrite V. cbn [h_anc h_name h_sd]. rewrite (RL (hd0 ds)) by auto. reflexivity.
      * intros z' Hz. rewrite EXP. reflexivity.
    + eapply post_finish with (s1 := s1) (ds := ds).
      * apply (mid_inv _ _ _ M).
      * exact D.
      * apply M.
      * eapply mid_bound; eauto.
      * apply M.
      * exact Ue.
      * reflexivity.
      * eapply (mid_not_registered (EScalar sc)); eauto.
      * split; [exact Wi|]; cbn; auto.
      * cbn [resolve]. unfold hdr_of. rewrite V. cbn [h_anc h_name h_sd]. rewrite (RL (hd0 ds)) by auto. reflexivity.
      * intros z' Hz. rewrite EXP. reflexivity.
  - (* protocol < 2 *)
    cbv iota in E. rewrite (NA eq_refl) in E.
    destruct (negb (is_nil en)) eqn:Qe.
    { assert (EE : i0 = i /\ s' = snd (finish (NEnum i (mkHd n true []) en) s)) by (inversion E; auto).
      destruct EE as [-> ->]. split; auto.
      eapply post_finish with (s1 := s) (ds := ds0).
      - exact I.
      - exact D0.
      - apply pfx_refl.
      - apply incl_appl, incl_refl.
      - reflexivity.
      - exact Ue.
      - reflexivity.
      - exact Rg.
      - split; [exact Wi|]. cbn. split; auto.
      - cbn [resolve]. unfold hdr_of. rewrite V. reflexivity.
      - intros z' _. cbn [eexp]. unfold sc. cbn [exp_scalar]. fold sc. rewrite T, V, Qe. reflexivity. }
    destruct (uuid_eqb i (sid top)) eqn:Qf.
    { assert (EE : i0 = i /\ s' = snd (finish (NBaseScalar i) s)) by (inversion E; auto).
      destruct EE as [-> ->]. split; auto.
      eapply post_finish with (s1 := s) (ds := ds0).
      - exact I.
      - exact D0.
      - apply pfx_refl.
      - apply incl_appl, incl_refl.
      - reflexivity.
      - exact Ue.
      - reflexivity.
      - exact Rg.
      - split; [exact Wi|]. exact V.
      - reflexivity.
      - intros z' _. cbn [eexp]. unfold sc. cbn [exp_scalar]. fold sc. rewrite T, V, Qe, Qf. reflexivity. }
    rewrite desc_topmost_pick in E.
    destruct (topmost_in anc) as [b|] eqn:TP; cbn [option_map] in E; [|discriminate].
    bind_inv E. destruct a0 as [bid s1]. bind_inv E.
    assert (EE : i0 = i /\ s' = snd (finish (NScalar i (mkHd n true []) a0) s1)) by (inversion E; auto).
    destruct EE as [-> ->]. clear E. split; auto.
    pose proof (topmost_in_In _ _ TP) as Hb.
    rewrite Forall_forall in IHanc.
    destruct (IHanc b Hb s bid s1 (IHU b Hb) I E0) as [-> Pb].
    pose proof (mid_snoc _ _ _ _ _ (mid_nil _ I) Pb) as M. simpl in M.
    assert (Sub : incl (flat_map ents_e [EScalar b]) (proper c (EScalar sc))).
    { cbn [flat_map ents_e]. rewrite app_nil_r. apply (ents_scalar_anc sc b). exact Hb. }
    destruct (inv_ds_ex _ (mid_inv _ _ _ M)) as [ds D].
    eapply post_finish with (s1 := s1) (ds := ds).
    + apply (mid_inv _ _ _ M).
    + exact D.
    + apply M.
    + eapply mid_bound; eauto.
    + apply M.
    + exact Ue.
    + reflexivity.
    + eapply (mid_not_registered (EScalar sc)); eauto.
    + split; [exact Wi|]. cbn. auto.
    + cbn [resolve]. rewrite V.
      rewrite (ref_lookup s1 ds (EScalar b) a0 (hd0 ds) (mid_inv _ _ _ M) D (IHU b Hb) E1) by auto.
      reflexivity.
    + intros z' Hz. cbn [eexp]. unfold sc. cbn [exp_scalar]. fold sc. rewrite T, V, Qe, Qf.
      rewrite exp_topmost_pick, TP. reflexivity.
Qed.

(* ------------------------------------------------------------------ types *)

Lemma post_mid_registered : forall e es s s1,
  Mid es s s1 -> incl (flat_map ents_e es) (proper c e) -> U e ->
  registered (eid' e) s1 = true -> Post e s s1.
Proof.
  intros e es s s1 M Sub Ue Rg. pose proof (mid_bound e es s s1 M Sub) as Bd.
  destruct M as (I1 & P1 & R1 & B1 & A1). unfold Post. splits; auto.
  - apply registered_in; auto.
  - intros x Hx. apply Bd in Hx. apply in_app_or in Hx. destruct Hx as [Hx|Hx]; apply in_or_app; auto.
    right. apply in_map_iff in Hx. destruct Hx as (y & <- & Hy). apply in_map. apply proper_incl; auto.
  - intros Nn. exfalso. apply registered_in in Rg. apply Bd in Rg. apply in_app_or in Rg.
    destruct Rg as [Rg|Rg]; [contradiction|]. apply (Acyclic e Ue); auto.
Qed.

Lemma post_weaken : forall e e' s s', eid' e = eid' e' -> incl (ents_e e) (ents_e e') ->
  Post e s s' -> Post e' s s'.
Proof.
  intros e e' s s' Ee Sub (I & P & Hi & B & L & A). unfold Post. rewrite <- Ee. splits; auto.
  intros x Hx. apply B in Hx. apply in_app_or in Hx. destruct Hx as [Hx|Hx]; apply in_or_app; auto.
  right. apply in_map_iff in Hx. destruct Hx as (y & <- & Hy). apply in_map. auto.
Qed.

Lemma mapM_gen : forall {A B} (f : A -> st -> res (B * st)) (entl : A -> list entity) (r : A -> B) l,
  Forall (fun a => forall es s0 s b s', Mid es s0 s -> f a s = Ok (b, s') ->
                                        Mid (es ++ entl a) s0 s' /\ b = r a) l ->
  forall es s0 s bs s', Mid es s0 s -> mapM f l s = Ok (bs, s') ->
    Mid (es ++ flat_map entl l) s0 s' /\ bs = map r l.
Proof.
  intros A B f entl r l HF. induction HF as [|a l Ha HF IH]; intros es s0 s bs s' M E; simpl in E.
  - inversion E; subst. simpl. rewrite app_nil_r. auto.
  - bind_inv E. destruct a0 as [b s1]. bind_inv E. destruct a0 as [bs' s2]. inversion E; subst.
    destruct (Ha _ _ _ _ _ M E0) as [M1 ->].
    destruct (IH _ _ _ _ _ M1 E1) as [M2 ->].
    split; [|reflexivity]. simpl. rewrite app_assoc. exact M2.
Qed.

Definition PT (t : ty) : Prop :=
  forall s i s', U (ETy t) -> Inv s -> desc_ty H c t s = Ok (i, s') -> i = tid' t /\ Post (ETy t) s s'.

Lemma ents_head : forall t, In (ETy t) (ents c t).
Proof. intros t. destruct t; simpl; auto. Qed.

Lemma ty_mid : forall t, PT t -> U (ETy t) -> forall es s0 s i s',
  Mid es s0 s -> desc_ty H c t s = Ok (i, s') -> Mid (es ++ [ETy t]) s0 s' /\ i = tid' t.
Proof.
  intros t IH Ut es s0 s i s' M E. destruct (IH _ _ _ Ut (mid_inv _ _ _ M) E) as [-> P].
  split; auto. eapply mid_snoc; eauto.
Qed.

Lemma set_mid : forall t, PT t -> U (ETy t) -> U (ESet t) -> forall es s0 s i s',
  Mid es s0 s -> desc_set H c (desc_ty H c) t s = Ok (i, s') ->
  Mid (es ++ [ETy t; ESet t]) s0 s' /\ i = set_id H (tid' t).
Proof.
  intros t IH Ut Us es s0 s i s' M E. unfold desc_set in E.
  bind_inv E. destruct a as [ti s1]. destruct (ty_mid t IH Ut _ _ _ _ _ M E0) as [M1 ->].
  change (es ++ [ETy t; ESet t]) with (es ++ [ETy t] ++ [ESet t]). rewrite app_assoc.
  destruct (registered (set_id H (tid' t)) s1) eqn:Rg.
  - inversion E; subst. split; auto. eapply mid_snoc; eauto. apply post_early.
    + apply (mid_inv _ _ _ M1).
    + apply registered_in; auto.
  - bind_inv E. apply finish_ok in E. destruct E as [-> ->]. cbn [node_id]. split; auto.
    eapply mid_snoc; eauto.
    destruct (inv_ds_ex _ (mid_inv _ _ _ M1)) as [ds D].
    destruct (Uwf _ Us) as [Wi _]. cbn [eid] in Wi.
    eapply post_finish with (s1 := s1) (ds := ds) (e := ESet t).
    + apply (mid_inv _ _ _ M1).
    + exact D.
    + apply pfx_refl.
    + apply incl_appl, incl_refl.
    + reflexivity.
    + exact Us.
    + reflexivity.
    + exact Rg.
    + split; [exact Wi|exact I].
    + cbn [resolve].
      rewrite (ref_lookup s1 ds (ETy t) a (hd0 ds) (mid_inv _ _ _ M1) D Ut E1) by auto. reflexivity.
    + intros z' Hz. cbn [eexp resolve].
      pose proof (ref_lookup s1 ds (ETy t) a z' (mid_inv _ _ _ M1) D Ut E1 Hz) as L1.
      pose proof (ref_lookup s1 ds (ETy t) a (hd0 ds) (mid_inv _ _ _ M1) D Ut E1 ltac:(auto)) as L2.
      rewrite L1 in L2. inversion L2. reflexivity.
Qed.

Lemma combine_map_fst : forall {A B} (l : list A) (k : list B), length k = length l ->
  map fst (combine l k) = l /\ map snd (combine l k) = k.
Proof.
  induction l as [|a l IH]; intros [|b k] L; simpl in *; try discriminate; auto.
  destruct (IH k) as [E1 E2]; auto. rewrite E1, E2. auto.
Qed.

Lemma combine_expect : forall {A} (g : ty -> desc) (els : list (A * ty)),
  combine (map fst els) (map (fun p => g (snd p)) els) = map (fun p => (fst p, g (snd p))) els.
Proof. induction els; simpl; congruence. Qed.

Lemma hdr_of_plain : forall ds name pers, hdr_of c ds (mkHd name pers []) = Some (hdr_exp c name pers).
Proof. intros. unfold hdr_of, hdr_exp. destruct (v2 c); reflexivity. Qed.

Lemma Forall_combine_fst : forall {A B} (P : A -> Prop) (l : list A) (k : list B),
  Forall P l -> Forall (fun q => P (fst q)) (combine l k).
Proof.
  induction l as [|a l IH]; intros k HF; simpl; auto. destruct k; auto. inversion HF; subst.
  constructor; auto.
Qed.

Lemma tuple_post : forall named pers name els,
  Forall (fun p => PT (snd p)) els -> PT (TTuple named pers name els).
Proof.
  intros named pers name els IH s i0 s' Ue I E. cbn [desc_ty] in E.
  set (t := TTuple named pers name els) in *.
  bind_inv E. destruct a as [subs s1].
  assert (HU : Forall (fun p => U (ETy (snd p))) els).
  { apply Forall_forall. intros p Hp. apply (Uclosed _ _ Ue). cbn [ents_e]. unfold t. cbn [ents]. right.
    apply in_flat_map. exists p. split; auto. apply ents_head. }
  assert (HF : Forall (fun p => forall s i s', U (ETy (snd p)) -> Inv s -> desc_ty H c (snd p) s = Ok (i, s') ->
                                      i = eid' (ETy (snd p)) /\ Post (ETy (snd p)) s s') els).
  { eapply Forall_impl; [|exact IH]. intros p Hp s2 i2 s3 U2 I2 E2. apply Hp; auto. }
  destruct (mapM_mid (fun p => desc_ty H c (snd p)) (fun p => ETy (snd p)) els HF HU [] s s subs s1
                     (mid_nil _ I) E0) as [M ->].
  cbn [app eid] in M, E.
  assert (Sub : incl (flat_map ents_e (map (fun p => ETy (snd p)) els)) (proper c (ETy t))).
  { rewrite flat_map_map. unfold t. cbn [proper ents tl ents_e]. apply incl_refl. }
  assert (Eid : tuple_id H (map (fun p => tid' (snd p)) els) (if named then Some (map fst els) else None) = tid' t)
    by reflexivity.
  rewrite Eid in E.
  destruct (registered (tid' t) s1) eqn:Rg.
  { inversion E; subst. split; auto. eapply post_mid_registered; eauto. }
  bind_inv E. apply finish_ok in E. destruct E as [-> ->].
  replace (node_id (if named then NNamedTuple (tid' t) (mkHd name pers []) (combine (map fst els) a)
                    else NTuple (tid' t) (mkHd name pers []) a)) with (tid' t) by (destruct named; reflexivity).
  split; auto.
  destruct (inv_ds_ex _ (mid_inv _ _ _ M)) as [ds D].
  destruct (Uwf _ Ue) as [Wi [Wn Wels]]. cbn [eid] in Wi.
  assert (La : length a = length els) by (apply refs_length in E1; rewrite map_length in E1; auto).
  assert (RL : forall z', (ds <> [] -> z' = hd0 ds) ->
                          nth_descs ds a = Some (map (fun p => expect H c z' (snd p)) els)).
  { intros z' Hz.
    replace (map (fun p => expect H c z' (snd p)) els)
      with (map (eexp' z') (map (fun p : str * ty => ETy (snd p)) els)) by (rewrite map_map; reflexivity).
    apply (refs_lookup s1 ds (map (fun p => ETy (snd p)) els) a z' (mid_inv _ _ _ M) D); auto.
    - apply Forall_map. exact HU.
    - rewrite map_map. exact E1. }
  destruct named.
  - destruct (combine_map_fst (map fst els) a) as [CF CS]; [rewrite map_length; auto|].
    eapply post_finish with (s1 := s1) (ds := ds).
    + apply (mid_inv _ _ _ M).
    + exact D.
    + apply M.
    + eapply mid_bound; eauto.
    + apply M.
    + exact Ue.
    + reflexivity.
    + exact Rg.
    + change (wf_id (tid' t) /\ (wf_hd (mkHd name pers []) /\
              Forall (fun p : str * N => valid_utf8 (fst p) = true) (combine (map fst els) a))).
      split; [exact Wi|]. split; [exact Wn|].
      apply (Forall_combine_fst (fun x : str => valid_utf8 x = true)). apply Forall_map. exact Wels.
    + cbn [resolve]. rewrite hdr_of_plain, CS, CF, (RL (hd0 ds)) by auto. reflexivity.
    + intros z' Hz. cbn [eexp]. unfold t. cbn [expect]. fold t.
      pose proof (RL z' Hz) as R1. pose proof (RL (hd0 ds) ltac:(auto)) as R2. rewrite R1 in R2.
      inversion R2 as [R3]. try rewrite <- R3. rewrite combine_expect. reflexivity.
  - eapply post_finish with (s1 := s1) (ds := ds).
    + apply (mid_inv _ _ _ M).
    + exact D.
    + apply M.
    + eapply mid_bound; eauto.
    + apply M.
    + exact Ue.
    + reflexivity.
    + exact Rg.
    + split; [exact Wi|exact Wn].
    + cbn [resolve]. rewrite hdr_of_plain, (RL (hd0 ds)) by auto. reflexivity.
    + intros z' Hz. cbn [eexp]. unfold t. cbn [expect]. fold t.
      pose proof (RL z' Hz) as R1. pose proof (RL (hd0 ds) ltac:(auto)) as R2. rewrite R1 in R2.
      inversion R2 as [R3]. try rewrite <- R3. reflexivity.
Qed.

Lemma array_post : forall pers name el, PT el -> PT (TArray pers name el).
Proof.
  intros pers name el IH s i0 s' Ue I E. cbn [desc_ty] in E.
  set (t := TArray pers name el) in *.
  bind_inv E. destruct a as [sub s1].
  assert (Uel : U (ETy el)).
  { apply (Uclosed _ _ Ue). cbn [ents_e]. unfold t. cbn [ents]. right. apply ents_head. }
  destruct (ty_mid el IH Uel _ _ _ _ _ (mid_nil _ I) E0) as [M ->]. cbn [app] in M.
  assert (Sub : incl (flat_map ents_e [ETy el]) (proper c (ETy t))).
  { cbn [flat_map ents_e]. rewrite app_nil_r. unfold t. cbn [proper ents tl]. apply incl_refl. }
  assert (Eid : coll1_id H s_array (tid' el) = tid' t) by reflexivity.
  rewrite Eid in E.
  destruct (registered (tid' t) s1) eqn:Rg.
  { inversion E; subst. split; auto. eapply post_mid_registered; eauto. }
  bind_inv E. apply finish_ok in E. destruct E as [-> ->]. cbn [node_id]. split; auto.
  destruct (inv_ds_ex _ (mid_inv _ _ _ M)) as [ds D].
  destruct (Uwf _ Ue) as [Wi Wn]. cbn [eid] in Wi.
  eapply post_finish with (s1 := s1) (ds := ds).
  + apply (mid_inv _ _ _ M).
  + exact D.
  + apply M.
  + eapply mid_bound; eauto.
  + apply M.
  + exact Ue.
  + reflexivity.
  + exact Rg.
  + split; [exact Wi|exact Wn].
  + cbn [resolve]. rewrite hdr_of_plain.
    rewrite (ref_lookup s1 ds (ETy el) a (hd0 ds) (mid_inv _ _ _ M) D Uel E1) by auto. reflexivity.
  + intros z' Hz. cbn [eexp]. unfold t. cbn [expect]. fold t.
    pose proof (ref_lookup s1 ds (ETy el) a z' (mid_inv _ _ _ M) D Uel E1 Hz) as L1.
    pose proof (ref_lookup s1 ds (ETy el) a (hd0 ds) (mid_inv _ _ _ M) D Uel E1 ltac:(auto)) as L2.
    rewrite L1 in L2. inversion L2. reflexivity.
Qed.

Lemma range_post : forall pers name el, PT el -> PT (TRange pers name el).
Proof.
  intros pers name el IH s i0 s' Ue I E. cbn [desc_ty] in E.
  set (t := TRange pers name el) in *.
  bind_inv E. destruct a as [sub s1].
  assert (Uel : U (ETy el)).
  { apply (Uclosed _ _ Ue). cbn [ents_e]. unfold t. cbn [ents]. right. apply ents_head. }
  destruct (ty_mid el IH Uel _ _ _ _ _ (mid_nil _ I) E0) as [M ->]. cbn [app] in M.
  assert (Sub : incl (flat_map ents_e [ETy el]) (proper c (ETy t))).
  { cbn [flat_map ents_e]. rewrite app_nil_r. unfold t. cbn [proper ents tl]. apply incl_refl. }
  assert (Eid : coll1_id H s_range (tid' el) = tid' t) by reflexivity.
  rewrite Eid in E.
  destruct (registered (tid' t) s1) eqn:Rg.
  { inversion E; subst. split; auto. eapply post_mid_registered; eauto. }
  bind_inv E. apply finish_ok in E. destruct E as [-> ->]. cbn [node_id]. split; auto.
  destruct (inv_ds_ex _ (mid_inv _ _ _ M)) as [ds D].
  destruct (Uwf _ Ue) as [Wi Wn]. cbn [eid] in Wi.
  eapply post_finish with (s1 := s1) (ds := ds).
  + apply (mid_inv _ _ _ M).
  + exact D.
  + apply M.
  + eapply mid_bound; eauto.
  + apply M.
  + exact Ue.
  + reflexivity.
  + exact Rg.
  + split; [exact Wi|exact Wn].
  + cbn [resolve]. rewrite hdr_of_plain.
    rewrite (ref_lookup s1 ds (ETy el) a (hd0 ds) (mid_inv _ _ _ M) D Uel E1) by auto. reflexivity.
  + intros z' Hz. cbn [eexp]. unfold t. cbn [expect]. fold t.
    pose proof (ref_lookup s1 ds (ETy el) a z' (mid_inv _ _ _ M) D Uel E1 Hz) as L1.
    pose proof (ref_lookup s1 ds (ETy el) a (hd0 ds) (mid_inv _ _ _ M) D Uel E1 ltac:(auto)) as L2.
    rewrite L1 in L2. inversion L2. reflexivity.
Qed.

Lemma multirange_post : forall pers name el, PT el -> PT (TMultiRange pers name el).
Proof.
  intros pers name el IH s i0 s' Ue I E. cbn [desc_ty] in E.
  set (t := TMultiRange pers name el) in *.
  bind_inv E. destruct a as [sub s1].
  assert (Uel : U (ETy el)).
  { apply (Uclosed _ _ Ue). cbn [ents_e]. unfold t. cbn [ents]. right. apply ents_head. }
  destruct (ty_mid el IH Uel _ _ _ _ _ (mid_nil _ I) E0) as [M ->]. cbn [app] in M.
  assert (Sub : incl (flat_map ents_e [ETy el]) (proper c (ETy t))).
  { cbn [flat_map ents_e]. rewrite app_nil_r. unfold t. cbn [proper ents tl]. apply incl_refl. }
  assert (Eid : coll1_id H s_multirange (tid' el) = tid' t) by reflexivity.
  rewrite Eid in E.
  destruct (registered (tid' t) s1) eqn:Rg.
  { inversion E; subst. split; auto. eapply post_mid_registered; eauto. }
  bind_inv E. apply finish_ok in E. destruct E as [-> ->]. cbn [node_id]. split; auto.
  destruct (inv_ds_ex _ (mid_inv _ _ _ M)) as [ds D].
  destruct (Uwf _ Ue) as [Wi Wn]. cbn [eid] in Wi.
  eapply post_finish with (s1 := s1) (ds := ds).
  + apply (mid_inv _ _ _ M).
  + exact D.
  + apply M.
  + eapply mid_bound; eauto.
  + apply M.
  + exact Ue.
  + reflexivity.
  + exact Rg.
  + split; [exact Wi|exact Wn].
  + cbn [resolve]. rewrite hdr_of_plain.
    rewrite (ref_lookup s1 ds (ETy el) a (hd0 ds) (mid_inv _ _ _ M) D Uel E1) by auto. reflexivity.
  + intros z' Hz. cbn [eexp]. unfold t. cbn [expect]. fold t.
    pose proof (ref_lookup s1 ds (ETy el) a z' (mid_inv _ _ _ M) D Uel E1 Hz) as L1.
    pose proof (ref_lookup s1 ds (ETy el) a (hd0 ds) (mid_inv _ _ _ M) D Uel E1 ltac:(auto)) as L2.
    rewrite L1 in L2. inversion L2. reflexivity.
Qed.

(* ------------------------------------------------------------------ shapes *)

Definition entl_ptr (p : pinfo * ty) : list entity :=
  if negb (is_prefix (flt c) (pname (fst p))) then []
  else if negb (pmulti (fst p)) then
         (if plink (fst p) && negb (follow c) then [EScalar (uuid_sc c)] else [ETy (snd p)])
       else [ETy (snd p); ESet (snd p)].

Definition entl_lp (p : pinfo * ty) : list entity :=
  if pmulti (fst p) then [ETy (snd p); ESet (snd p)] else [ETy (snd p)].

Lemma ptr_mid : forall p, PT (snd p) -> U (ETy (snd p)) -> U (ESet (snd p)) -> U (EScalar (uuid_sc c)) ->
  forall es s0 s oe s', Mid es s0 s -> desc_ptr H c (desc_ty H c) p s = Ok (oe, s') ->
  Mid (es ++ entl_ptr p) s0 s' /\ oe = ptr_elem H c tid' p.
Proof.
  intros p IH Ut Us Uu es s0 s oe s' M E. unfold desc_ptr in E. unfold entl_ptr, ptr_elem.
  destruct (negb (is_prefix (flt c) (pname (fst p)))).
  { inversion E; subst. rewrite app_nil_r. auto. }
  bind_inv E. destruct a as [sub s1]. inversion E; subst oe s'. clear E.
  destruct (pmulti (fst p)); cbn [negb] in *.
  - destruct (plink (fst p) && negb (follow c)); [discriminate|].
    destruct (set_mid _ IH Ut Us _ _ _ _ _ M E0) as [M1 ->]. auto.
  - destruct (plink (fst p) && negb (follow c)).
    + destruct (scalar_post _ _ _ _ Uu (mid_inv _ _ _ M) E0) as [-> P]. split; auto.
      eapply mid_snoc; eauto.
    + destruct (ty_mid _ IH Ut _ _ _ _ _ M E0) as [M1 ->]. auto.
Qed.

Lemma lprop_mid : forall mt p, PT (snd p) -> U (ETy (snd p)) -> U (ESet (snd p)) ->
  forall es s0 s e s', Mid es s0 s -> desc_lprop H c (desc_ty H c) mt p s = Ok (e, s') ->
  Mid (es ++ entl_lp p) s0 s' /\ e = lprop_elem H tid' mt p.
Proof.
  intros mt p IH Ut Us es s0 s e s' M E. unfold desc_lprop in E. unfold entl_lp, lprop_elem.
  bind_inv E. destruct a as [sub s1]. inversion E; subst e s'. clear E.
  destruct (pmulti (fst p)); cbn [negb] in *.
  - destruct (set_mid _ IH Ut Us _ _ _ _ _ M E0) as [M1 ->]. auto.
  - destruct (ty_mid _ IH Ut _ _ _ _ _ M E0) as [M1 ->]. auto.
Qed.

(* the entity whose descriptor an element refers to *)
Definition sub_ent_ptr (p : pinfo * ty) : entity :=
  if pmulti (fst p) then ESet (snd p)
  else if plink (fst p) && negb (follow c) then EScalar (uuid_sc c) else ETy (snd p).
Definition sub_ent_lp (p : pinfo * ty) : entity :=
  if pmulti (fst p) then ESet (snd p) else ETy (snd p).

(* element records paired with the entity they refer to *)
Fixpoint ptr_pairs (ptrs : list (pinfo * ty)) : list (elem * entity) :=
  match ptrs with
  | [] => []
  | p :: r => match ptr_elem H c tid' p with
              | Some e => (e, sub_ent_ptr p) :: ptr_pairs r
              | None => ptr_pairs r
              end
  end.
Definition lp_pairs (mt : objtype) (lps : list (pinfo * ty)) : list (elem * entity) :=
  map (fun p => (lprop_elem H tid' mt p, sub_ent_lp p)) lps.

Lemma ptr_pairs_fst : forall ptrs, map fst (ptr_pairs ptrs) = somes (map (ptr_elem H c tid') ptrs).
Proof. induction ptrs as [|p r IH]; simpl; auto. destruct (ptr_elem H c tid' p); simpl; congruence. Qed.

Lemma lp_pairs_fst : forall mt lps, map fst (lp_pairs mt lps) = map (lprop_elem H tid' mt) lps.
Proof. intros. unfold lp_pairs. rewrite map_map. reflexivity. Qed.

Definition ptr_sane (p : pinfo * ty) : Prop :=
  negb (is_prefix (flt c) (pname (fst p))) = true
  \/ pmulti (fst p) && (plink (fst p) && negb (follow c)) = false.

Lemma desc_ptr_sane : forall p s r, desc_ptr H c (desc_ty H c) p s = Ok r -> ptr_sane p.
Proof.
  intros p s r E. unfold desc_ptr in E. unfold ptr_sane.
  destruct (negb (is_prefix (flt c) (pname (fst p)))); auto. right.
  destruct (pmulti (fst p)); auto. cbn [negb andb] in *.
  destruct (plink (fst p) && negb (follow c)); auto. simpl in E. discriminate.
Qed.

Lemma mapM_all_ok : forall {A B} (f : A -> st -> res (B * st)) (P : A -> Prop) l s r,
  (forall a s r, f a s = Ok r -> P a) -> mapM f l s = Ok r -> Forall P l.
Proof.
  intros A B f P l. induction l as [|a l IH]; intros s r HP E; simpl in E; auto.
  bind_inv E. destruct a0 as [b s1]. bind_inv E. destruct a0 as [bs s2]. constructor; eauto.
Qed.

Lemma ptr_pairs_ok : forall ptrs es, Forall ptr_sane ptrs -> (forall p, In p ptrs -> incl (entl_ptr p) es) ->
  Forall (fun x => eid' (snd x) = e_sub (fst x) /\ In (snd x) es) (ptr_pairs ptrs).
Proof.
  induction ptrs as [|p r IH]; intros es HS Hes; simpl; auto. inversion HS as [|? ? Sp Sr]; subst.
  assert (IHr : Forall (fun x => eid' (snd x) = e_sub (fst x) /\ In (snd x) es) (ptr_pairs r))
    by (apply IH; auto; intros q Hq; apply Hes; right; auto).
  destruct (ptr_elem H c tid' p) as [e|] eqn:Q; auto. constructor; auto. cbn [fst snd].
  specialize (Hes p (or_introl eq_refl)). unfold entl_ptr in Hes. unfold ptr_elem in Q. unfold sub_ent_ptr.
  destruct Sp as [Sp|Sp]; [rewrite Sp in Q; discriminate|].
  destruct (negb (is_prefix (flt c) (pname (fst p)))); [discriminate|]. inversion Q; subst e. cbn [e_sub].
  destruct (pmulti (fst p)); cbn [negb andb] in *.
  - rewrite Sp. cbn [eid]. split; auto. apply Hes. right; left; reflexivity.
  - destruct (plink (fst p) && negb (follow c)); cbn [eid]; split; auto; apply Hes; left; reflexivity.
Qed.

Lemma mapM_rel : forall {A B} (f : A -> st -> res (B * st)) (entl : A -> list entity)
  (R : A -> B -> st -> Prop) l,
  (forall a b s s', R a b s -> pfx s s' -> R a b s') ->
  Forall (fun a => forall es s0 s b s', Mid es s0 s -> f a s = Ok (b, s') ->
                   Mid (es ++ entl a) s0 s' /\ pfx s s' /\ R a b s') l ->
  forall es s0 s bs s', Mid es s0 s -> mapM f l s = Ok (bs, s') ->
    Mid (es ++ flat_map entl l) s0 s' /\ pfx s s' /\ Forall2 (fun a b => R a b s') l bs.
Proof.
  intros A B f entl R l Mono HF. induction HF as [|a l Ha HF IH]; intros es s0 s bs s' M E; simpl in E.
  - inversion E; subst. simpl. rewrite app_nil_r. splits; auto. apply pfx_refl.
  - bind_inv E. destruct a0 as [b s1]. bind_inv E. destruct a0 as [bs' s2]. inversion E; subst.
    destruct (Ha _ _ _ _ _ M E0) as (M1 & P1 & R1).
    destruct (IH _ _ _ _ _ M1 E1) as (M2 & P2 & R2).
    splits.
    + simpl. rewrite app_assoc. exact M2.
    + eapply pfx_trans; eauto.
    + constructor; auto. eapply Mono; eauto.
Qed.

Definition selem_rel (free impl : bool) (e : elem) (se : selem) (sF : st) : Prop :=
  se_flags se = elem_flags impl e /\ se_card se = e_card e /\ se_name se = e_name e /\
  index_of (e_sub e) (pos sF) = Some (se_type se) /\
  (if v2 c && negb free then index_of (oid (e_src e)) (pos sF) = Some (se_src se)
   else se_src se = 0).

Lemma selem_rel_mono : forall free impl e se s s', selem_rel free impl e se s -> pfx s s' ->
  selem_rel free impl e se s'.
Proof.
  intros free impl e se s s' (F & Cd & Nm & T & S) P. unfold selem_rel. splits; auto.
  - eapply pfx_index; eauto.
  - destruct (v2 c && negb free); auto. eapply pfx_index; eauto.
Qed.

Definition entl_src (free : bool) (e : elem) : list entity :=
  if v2 c && negb free then [EObj (e_src e)] else [].

Lemma shape_elem_mid : forall free impl e, (v2 c && negb free = true -> U (EObj (e_src e))) ->
  forall es s0 s se s', Mid es s0 s -> shape_elem c free impl e s = Ok (se, s') ->
  Mid (es ++ entl_src free e) s0 s' /\ pfx s s' /\ selem_rel free impl e se s'.
Proof.
  intros free impl e Uo es s0 s se s' M E. unfold shape_elem in E. unfold entl_src.
  bind_inv E. bind_inv E.
  assert (FL : (if e_lp e then FLAG_IS_LINKPROP else 0) + a + (if e_link e then FLAG_IS_LINK else 0)
               = elem_flags impl e).
  { unfold elem_flags. f_equal. f_equal.
    destruct ((impl && str_eqb (e_name e) s_id) || str_eqb (e_name e) s_tid).
    - cbn [orb]. destruct (uuid_eqb (e_sub e) ID_UUID); inversion E0; reflexivity.
    - cbn [orb]. destruct (str_eqb (e_name e) s_tname).
      + destruct (uuid_eqb (e_sub e) ID_STR); inversion E0; reflexivity.
      + inversion E0; reflexivity. }
  unfold ref in E1. destruct (index_of (e_sub e) (pos s)) as [k|] eqn:Q; inversion E1; subst a0. clear E1.
  destruct (v2 c && negb free) eqn:VF.
  - bind_inv E. destruct a0 as [srcid s1]. bind_inv E. inversion E; subst se s'. clear E.
    destruct (objtype_post _ _ _ _ (Uo eq_refl) (mid_inv _ _ _ M) E1) as [-> P].
    splits.
    + eapply mid_snoc; eauto.
    + apply P.
    + unfold selem_rel. cbn [se_flags se_card se_name se_type se_src]. rewrite VF. splits; auto.
      * eapply pfx_index; [apply P|exact Q].
      * unfold ref in E2. destruct (index_of (oid (e_src e)) (pos s1)); inversion E2; reflexivity.
  - inversion E; subst se s'. rewrite app_nil_r. splits; auto; [apply pfx_refl|].
    unfold selem_rel. cbn [se_flags se_card se_name se_type se_src]. rewrite VF. splits; auto.
Qed.

Lemma mid_compose : forall es es' s s2 s4, Mid es s s2 -> Mid es' s2 s4 -> Mid (es ++ es') s s4.
Proof.
  intros es es' s s2 s4 (I1 & P1 & R1 & B1 & A1) (I2 & P2 & R2 & B2 & A2). unfold Mid. splits; auto.
  - eapply pfx_trans; eauto.
  - intros x Hx. apply in_app_or in Hx. destruct Hx as [Hx|Hx]; auto. apply (pfx_incl _ _ P2). auto.
  - intros x Hx. apply B2 in Hx. rewrite flat_map_app, map_app.
    apply in_app_or in Hx. destruct Hx as [Hx|Hx].
    + apply B1 in Hx. apply in_app_or in Hx. destruct Hx; apply in_or_app; auto. right. apply in_or_app; auto.
    + apply in_or_app. right. apply in_or_app; auto.
  - congruence.
Qed.

Lemma nth_desc_nonempty : forall (ds : list desc) k d, nth_desc ds k = Some d -> ds <> [].
Proof. intros ds k d E Z. subst. unfold nth_desc in E. destruct (N.to_nat k); discriminate. Qed.

Lemma nth_desc_0 : forall (ds : list desc), ds <> [] -> nth_desc ds 0 = Some (hd0 ds).
Proof. intros [|d ds] Hn; [contradiction|reflexivity]. Qed.

Lemma res_selems_ok : forall free impl sF ds (xs : list (elem * entity)) ses,
  Inv sF -> ds_of sF = Some ds ->
  Forall2 (fun e se => selem_rel free impl e se sF) (map fst xs) ses ->
  Forall (fun x => eid' (snd x) = e_sub (fst x) /\ U (snd x)
                   /\ (v2 c && negb free = true -> U (EObj (e_src (fst x))))) xs ->
  forall z', (ds <> [] -> z' = hd0 ds) ->
  res_selems c true ds ses
  = Some (map (fun x => delem_of c z' free impl (fst x, eexp' z' (snd x))) xs).
Proof.
  intros free impl sF ds xs. induction xs as [|x xs IH]; intros ses I D F2 HX z' Hz.
  - inversion F2; subst. reflexivity.
  - simpl in F2. inversion F2 as [|e se l1 l2 Rel F2' E1 E2]; subst.
    inversion HX as [|? ? (Ex & Ux & Uo) HX']; subst.
    destruct Rel as (Fl & Cd & Nm & Ty & Sr).
    cbn [res_selems map].
    assert (LT : nth_desc ds (se_type se) = Some (eexp' z' (snd x))).
    { eapply lookup_z; eauto. rewrite Ex. exact Ty. }
    rewrite LT. rewrite andb_true_r.
    assert (LS : (if v2 c then match nth_desc ds (se_src se) with Some y => Some (Some y) | None => None end
                  else Some None)
                 = Some (if v2 c then (if free then Some z' else Some (exp_obj (e_src (fst x)))) else None)).
    { destruct (v2 c) eqn:V; auto. destruct free; cbn [negb andb] in Sr.
      - rewrite Sr. pose proof (nth_desc_nonempty _ _ _ LT) as NE. rewrite (nth_desc_0 _ NE), (Hz NE). reflexivity.
      - rewrite (lookup_z sF ds (EObj (e_src (fst x))) (se_src se) z' I D (Uo eq_refl) Sr Hz). reflexivity. }
    rewrite LS. rewrite (IH l2 I D F2' HX' z' Hz). unfold delem_of. cbn [fst snd].
    rewrite Fl, Cd, Nm. reflexivity.
Qed.

Lemma valid_card_of : forall r m, valid_card (card_of r m) = true.
Proof. intros [|] [|]; reflexivity. Qed.

Lemma Forall2_map_l : forall {A B C} (R : B -> C -> Prop) (g : A -> B) l k,
  Forall2 R (map g l) k -> Forall2 (fun a b => R (g a) b) l k.
Proof.
  intros A B C R g l. induction l as [|a l IH]; intros k F; simpl in F; inversion F; subst; constructor; auto.
Qed.

Lemma shape_finish_post : forall t mt free impl (xs : list (elem * entity)) es s s2 i s',
  U (ETy t) -> eid' (ETy t) = shape_id_of H mt impl (map fst xs) ->
  (forall z', eexp' z' (ETy t)
              = DShape (eid' (ETy t)) (shape_otype c mt free)
                       (map (fun x => delem_of c z' free impl (fst x, eexp' z' (snd x))) xs)) ->
  Forall (fun x => valid_utf8 (e_name (fst x)) = true /\ valid_card (e_card (fst x)) = true) xs ->
  Forall (fun x => eid' (snd x) = e_sub (fst x) /\ U (snd x)
                   /\ (v2 c && negb free = true -> U (EObj (e_src (fst x))))) xs ->
  (v2 c && negb free = true -> U (EObj mt)) ->
  (v2 c && negb free = true ->
   incl (ents_obj mt ++ flat_map (fun x => ents_obj (e_src (fst x))) xs) (proper c (ETy t))) ->
  incl (flat_map ents_e es) (proper c (ETy t)) ->
  Mid es s s2 -> shape_finish H c mt free impl (map fst xs) s2 = Ok (i, s') ->
  i = eid' (ETy t) /\ Post (ETy t) s s'.
Proof.
  intros t mt free impl xs es s s2 i s' Ue Eid Hexp Wx HX Umt SubO Sub M E.
  unfold shape_finish in E. fold (shape_id_of H mt impl (map fst xs)) in E. rewrite <- Eid in E.
  destruct (registered (eid' (ETy t)) s2) eqn:Rg.
  { inversion E; subst. split; auto. eapply post_mid_registered; eauto. }
  bind_inv E. destruct a as [otref s3]. bind_inv E. destruct a as [ses s4].
  apply finish_ok in E. destruct E as [-> ->]. cbn [node_id]. split; auto.
  pose proof (mid_inv _ _ _ M) as I2.
  (* object type of the shape *)
  assert (OT : Mid (if v2 c && negb free then [EObj mt] else []) s2 s3 /\
               (if v2 c && negb free then index_of (oid mt) (pos s3) = Some otref else otref = 0)).
  { destruct (v2 c && negb free) eqn:VF.
    - bind_inv E0. destruct a as [oi s3']. bind_inv E0. inversion E0; subst otref s3'. clear E0.
      destruct (objtype_post _ _ _ _ (Umt eq_refl) I2 E) as [-> P]. split.
      + apply (mid_snoc [] _ _ _ _ (mid_nil _ I2) P).
      + unfold ref in E2. destruct (index_of (oid mt) (pos s3)); inversion E2; reflexivity.
    - inversion E0; subst. split; auto. apply mid_nil; auto. }
  destruct OT as [M3 OT].
  (* the elements *)
  assert (HFe : Forall (fun e => forall es s0 s se s', Mid es s0 s -> shape_elem c free impl e s = Ok (se, s') ->
                   Mid (es ++ entl_src free e) s0 s' /\ pfx s s' /\ selem_rel free impl e se s') (map fst xs)).
  { apply Forall_map. eapply Forall_impl; [|exact HX]. intros x (_ & _ & Uo) es0 s0 sa se sb Ma Ea.
    eapply shape_elem_mid; eauto. }
  destruct (mapM_rel (shape_elem c free impl) (entl_src free) (selem_rel free impl) (map fst xs)
                     (selem_rel_mono free impl) HFe _ _ _ _ _ M3 E1) as (M4 & P34 & F2).
  set (ES2 := (if v2 c && negb free then [EObj mt] else []) ++ flat_map (entl_src free) (map fst xs)) in *.
  pose proof (mid_compose _ _ _ _ _ M M4) as MF.
  assert (Sub2 : incl (flat_map ents_e ES2) (proper c (ETy t))).
  { unfold ES2, entl_src. destruct (v2 c && negb free) eqn:VF.
    - eapply incl_tran; [|apply (SubO eq_refl)]. rewrite flat_map_app. cbn [flat_map ents_e]. rewrite app_nil_r.
      apply incl_app; [apply incl_appl, incl_refl|apply incl_appr].
      rewrite flat_map_map. clear. induction xs as [|x xs IH]; simpl; [apply incl_refl|].
      apply incl_app; [apply incl_appl, incl_refl|apply incl_appr; exact IH].
    - simpl. clear. induction (map fst xs); simpl; auto. intros y []. }
  assert (SubF : incl (flat_map ents_e (es ++ ES2)) (proper c (ETy t))).
  { rewrite flat_map_app. apply incl_app; auto. }
  destruct (inv_ds_ex _ (mid_inv _ _ _ MF)) as [ds D].
  pose proof (mid_inv _ _ _ MF) as I4.
  assert (RS : forall z', (ds <> [] -> z' = hd0 ds) ->
              res_selems c true ds ses
              = Some (map (fun x => delem_of c z' free impl (fst x, eexp' z' (snd x))) xs)).
  { intros z' Hz. eapply res_selems_ok; eauto. }
  assert (RO : forall z', (ds <> [] -> z' = hd0 ds) ->
              (if v2 c && negb free then match nth_desc ds otref with Some x => Some (Some x) | None => None end
               else Some None) = Some (shape_otype c mt free)).
  { intros z' Hz. unfold shape_otype. destruct (v2 c && negb free) eqn:VF; auto.
    rewrite (lookup_z s4 ds (EObj mt) otref z' I4 D (Umt eq_refl)); auto.
    eapply pfx_index; [exact P34|exact OT]. }
  eapply post_finish with (s1 := s4) (ds := ds).
  - exact I4.
  - exact D.
  - apply MF.
  - eapply mid_bound; eauto.
  - apply MF.
  - exact Ue.
  - reflexivity.
  - cbn [node_id]. eapply (mid_not_registered (ETy t) ES2 s2 s4); eauto.
  - split; [exact (proj1 (Uwf _ Ue))|]. cbn [node_id].
    clear -F2 Wx. revert ses F2. induction xs as [|x xs IH]; intros ses F2; simpl in F2;
      inversion F2 as [|? ? ? ? Rel F2']; subst; constructor.
    + inversion Wx as [|? ? (Wn & Wc) Wr]; subst. destruct Rel as (_ & Cd & Nm & _). unfold wf_selem. rewrite Cd, Nm. auto.
    + inversion Wx; subst. apply IH; auto.
  - cbn [resolve]. rewrite (RO (hd0 ds)) by auto. rewrite (RS (hd0 ds)) by auto. reflexivity.
  - intros z' Hz. rewrite Hexp.
    pose proof (RS z' Hz) as R1. pose proof (RS (hd0 ds) ltac:(auto)) as R2. rewrite R1 in R2.
    inversion R2 as [R3]. try rewrite <- R3. reflexivity.
Qed.

(* membership in the entities below a shape *)
Section ShapeMembers.
Variables (mt : objtype) (free impl : bool) (ptrs lps : list (pinfo * ty)).
Let t := TShape mt free impl ptrs lps.

Lemma shp_proper : proper c (ETy t) =
  ents_obj mt ++ ents_scalar (uuid_sc c)
    ++ flat_map (fun p => ESet (snd p) :: ents_obj (psource (fst p)) ++ ents c (snd p)) ptrs
    ++ flat_map (fun p => ESet (snd p) :: ents c (snd p)) lps.
Proof. reflexivity. Qed.

Lemma shp_mt : incl (ents_obj mt) (proper c (ETy t)).
Proof. rewrite shp_proper. apply incl_appl, incl_refl. Qed.

Lemma shp_uuid : incl (ents_scalar (uuid_sc c)) (proper c (ETy t)).
Proof. rewrite shp_proper. apply incl_appr, incl_appl, incl_refl. Qed.

Lemma shp_ptr : forall p, In p ptrs ->
  incl (ESet (snd p) :: ents_obj (psource (fst p)) ++ ents c (snd p)) (proper c (ETy t)).
Proof.
  intros p Hp x Hx. rewrite shp_proper. apply in_or_app. right. apply in_or_app. right.
  apply in_or_app. left. apply in_flat_map. exists p. auto.
Qed.

Lemma shp_lp : forall p, In p lps -> incl (ESet (snd p) :: ents c (snd p)) (proper c (ETy t)).
Proof.
  intros p Hp x Hx. rewrite shp_proper. apply in_or_app. right. apply in_or_app. right.
  apply in_or_app. right. apply in_flat_map. exists p. auto.
Qed.

Lemma shp_entl_ptr : forall p, In p ptrs -> incl (flat_map ents_e (entl_ptr p)) (proper c (ETy t)).
Proof.
  intros p Hp. unfold entl_ptr.
  destruct (negb (is_prefix (flt c) (pname (fst p)))); [intros x []|].
  destruct (negb (pmulti (fst p))).
  - destruct (plink (fst p) && negb (follow c)); cbn [flat_map ents_e]; rewrite app_nil_r.
    + apply shp_uuid.
    + intros x Hx. apply (shp_ptr p Hp). right. apply in_or_app. right. exact Hx.
  - cbn [flat_map ents_e]. rewrite app_nil_r. intros x Hx. apply (shp_ptr p Hp).
    apply in_app_or in Hx. destruct Hx as [Hx|[<-|Hx]].
    + right. apply in_or_app. right. exact Hx.
    + left. reflexivity.
    + right. apply in_or_app. right. exact Hx.
Qed.

Lemma shp_entl_lp : forall p, In p lps -> incl (flat_map ents_e (entl_lp p)) (proper c (ETy t)).
Proof.
  intros p Hp. unfold entl_lp. destruct (pmulti (fst p)); cbn [flat_map ents_e]; rewrite app_nil_r;
    intros x Hx; apply (shp_lp p Hp).
  - apply in_app_or in Hx. destruct Hx as [Hx|[<-|Hx]]; [right; exact Hx|left; reflexivity|right; exact Hx].
  - right. exact Hx.
Qed.

Lemma flat_map_incl : forall {A B} (f : A -> list B) (l : list A) (tgt : list B),
  (forall a, In a l -> incl (f a) tgt) -> incl (flat_map f l) tgt.
Proof.
  intros A B f l tgt Hf x Hx. apply in_flat_map in Hx. destruct Hx as (a & Ha & Hx). eapply Hf; eauto.
Qed.

End ShapeMembers.

Lemma ptr_pairs_forall : forall (Q : elem * entity -> Prop) ptrs,
  (forall p e, In p ptrs -> ptr_elem H c tid' p = Some e -> Q (e, sub_ent_ptr p)) ->
  Forall Q (ptr_pairs ptrs).
Proof.
  intros Q ptrs. induction ptrs as [|p r IH]; intros HQ; simpl; auto.
  assert (IHr : Forall Q (ptr_pairs r)) by (apply IH; intros q e Hq; apply HQ; right; auto).
  destruct (ptr_elem H c tid' p) eqn:E; auto. constructor; auto. apply HQ; auto. left; reflexivity.
Qed.

(* the element descriptions used by [expect] are the expected descriptions of the paired entities *)
Lemma ptr_pairs_exp : forall z ptrs, Forall ptr_sane ptrs ->
  map (fun x => (fst x, eexp' z (snd x))) (ptr_pairs ptrs)
  = somes (map (ptr_ed H c tid' (expect H c z)) ptrs).
Proof.
  intros z ptrs HS. induction HS as [|p r Sp Sr IH]; simpl; auto.
  unfold ptr_ed at 1. destruct (ptr_elem H c tid' p) as [e|] eqn:Q; simpl; auto.
  f_equal; auto. f_equal. unfold sub_ent_ptr. unfold ptr_elem in Q.
  destruct Sp as [Sp|Sp]; [rewrite Sp in Q; discriminate|].
  destruct (negb (is_prefix (flt c) (pname (fst p)))); [discriminate|]. inversion Q; subst e. cbn [e_sub].
  destruct (pmulti (fst p)); cbn [andb] in *.
  - rewrite Sp. reflexivity.
  - destruct (plink (fst p) && negb (follow c)); reflexivity.
Qed.

Lemma lp_pairs_exp : forall z mt lps,
  map (fun x => (fst x, eexp' z (snd x))) (lp_pairs mt lps)
  = map (lprop_ed H tid' (expect H c z) mt) lps.
Proof.
  intros z mt lps. unfold lp_pairs. rewrite map_map. apply map_ext. intros p. cbn [fst snd].
  unfold lprop_ed, sub_ent_lp. f_equal. unfold lprop_elem. cbn [e_sub].
  destruct (pmulti (fst p)); reflexivity.
Qed.

Lemma flat_map_flat_map : forall {A B C} (f : B -> list C) (g : A -> list B) l,
  flat_map f (flat_map g l) = flat_map (fun a => flat_map f (g a)) l.
Proof. induction l; simpl; auto. rewrite flat_map_app. congruence. Qed.

Lemma shape_post : forall mt free impl ptrs lps,
  Forall (fun p => PT (snd p)) ptrs -> Forall (fun p => PT (snd p)) lps ->
  PT (TShape mt free impl ptrs lps).
Proof.
  intros mt free impl ptrs lps IHp IHl s i0 s' Ue I E. cbn [desc_ty] in E.
  set (t := TShape mt free impl ptrs lps) in *.
  bind_inv E. destruct a as [e1 s1]. bind_inv E. destruct a as [e2 s2].
  assert (UP : forall x, In x (proper c (ETy t)) -> U x).
  { intros x Hx. apply (Uclosed _ _ Ue). cbn [ents_e]. unfold t. cbn [ents]. right. exact Hx. }
  assert (Uu : U (EScalar (uuid_sc c))).
  { apply UP. apply (shp_uuid mt free impl ptrs lps). destruct (uuid_sc c); simpl; auto. }
  assert (Umt : U (EObj mt)).
  { apply UP. apply (shp_mt mt free impl ptrs lps). destruct mt; simpl; auto. }
  assert (UPt : forall p, In p ptrs -> U (ETy (snd p)) /\ U (ESet (snd p)) /\ U (EObj (psource (fst p)))).
  { intros p Hp. splits; apply UP; apply (shp_ptr mt free impl ptrs lps p Hp).
    - right. apply in_or_app. right. apply ents_head.
    - left; reflexivity.
    - right. apply in_or_app. left. destruct (psource (fst p)); simpl; auto. }
  assert (ULp : forall p, In p lps -> U (ETy (snd p)) /\ U (ESet (snd p))).
  { intros p Hp. splits; apply UP; apply (shp_lp mt free impl ptrs lps p Hp).
    - right. apply ents_head.
    - left; reflexivity. }
  (* the two loops *)
  assert (HFp : Forall (fun p => forall es s0 s b s', Mid es s0 s -> desc_ptr H c (desc_ty H c) p s = Ok (b, s') ->
                          Mid (es ++ entl_ptr p) s0 s' /\ b = ptr_elem H c tid' p) ptrs).
  { apply Forall_forall. intros p Hp. rewrite Forall_forall in IHp. destruct (UPt p Hp) as (A1 & A2 & _).
    intros; eapply ptr_mid; eauto. }
  destruct (mapM_gen _ entl_ptr (ptr_elem H c tid') ptrs HFp [] s s e1 s1 (mid_nil _ I) E0) as [M1 ->].
  assert (HFl : Forall (fun p => forall es s0 s b s', Mid es s0 s -> desc_lprop H c (desc_ty H c) mt p s = Ok (b, s') ->
                          Mid (es ++ entl_lp p) s0 s' /\ b = lprop_elem H tid' mt p) lps).
  { apply Forall_forall. intros p Hp. rewrite Forall_forall in IHl. destruct (ULp p Hp) as (A1 & A2).
    intros; eapply lprop_mid; eauto. }
  destruct (mapM_gen _ entl_lp (lprop_elem H tid' mt) lps HFl _ s s1 e2 s2 M1 E1) as [M2 ->].
  cbn [app] in M2.
  pose proof (mapM_all_ok _ ptr_sane _ _ _ (fun a s r => desc_ptr_sane a s r) E0) as Sane.
  set (xs := ptr_pairs ptrs ++ lp_pairs mt lps).
  assert (Exs : map fst xs = somes (map (ptr_elem H c tid') ptrs) ++ map (lprop_elem H tid' mt) lps).
  { unfold xs. rewrite map_app, ptr_pairs_fst, lp_pairs_fst. reflexivity. }
  rewrite <- Exs in E.
  destruct (Uwf _ Ue) as [Wi Wn]. cbn [eid] in Wi. unfold t in Wn. unfold shape_elems in Wn.
  fold t in Wn. rewrite <- Exs in Wn.
  eapply (shape_finish_post t mt free impl xs (flat_map entl_ptr ptrs ++ flat_map entl_lp lps)); eauto.
  - cbn [eid]. unfold t. cbn [tid]. fold t. rewrite <- Exs. reflexivity.
  - intros z'. cbn [eexp]. unfold t. cbn [expect]. fold t. cbn [eid]. f_equal.
    rewrite <- (ptr_pairs_exp z' ptrs Sane), <- (lp_pairs_exp z' mt lps), <- map_app, map_map.
    reflexivity.
  - unfold xs. apply Forall_app. split.
    + apply ptr_pairs_forall. intros p e Hp Q. cbn [fst snd].
      rewrite Forall_forall in Wn. split.
      * apply Wn. rewrite Exs. apply in_or_app. left. clear -Hp Q. induction ptrs as [|q r IH]; simpl in *; [contradiction|].
        destruct Hp as [->|Hp]; [rewrite Q; left; reflexivity|].
        destruct (ptr_elem H c tid' q); [right|]; auto.
      * unfold ptr_elem in Q. destruct (negb (is_prefix (flt c) (pname (fst p)))); [discriminate|].
        inversion Q; subst. apply valid_card_of.
    + unfold lp_pairs. apply Forall_map. apply Forall_forall. intros p Hp. cbn [fst snd].
      rewrite Forall_forall in Wn. split.
      * apply Wn. rewrite Exs. apply in_or_app. right. apply in_map. exact Hp.
      * apply valid_card_of.
  - unfold xs. apply Forall_app. split.
    + apply ptr_pairs_forall. intros p e Hp Q. cbn [fst snd]. destruct (UPt p Hp) as (A1 & A2 & A3).
      rewrite Forall_forall in Sane. pose proof (Sane p Hp) as Sp.
      unfold ptr_elem in Q. unfold sub_ent_ptr.
      destruct Sp as [Sp|Sp]; [rewrite Sp in Q; discriminate|].
      destruct (negb (is_prefix (flt c) (pname (fst p)))); [discriminate|]. inversion Q; subst e. cbn [e_sub e_src].
      destruct (pmulti (fst p)); cbn [andb] in *.
      * rewrite Sp. cbn [eid]. auto.
      * destruct (plink (fst p) && negb (follow c)); cbn [eid]; auto.
    + unfold lp_pairs. apply Forall_map. apply Forall_forall. intros p Hp. cbn [fst snd].
      destruct (ULp p Hp) as (A1 & A2). unfold sub_ent_lp, lprop_elem. cbn [e_sub e_src].
      destruct (pmulti (fst p)); cbn [eid]; auto.
  - intros _. apply incl_app; [apply (shp_mt mt free impl ptrs lps)|].
    unfold xs. rewrite flat_map_app. apply incl_app.
    + apply flat_map_incl. intros x Hx.
      assert (Q : Forall (fun x => exists p, In p ptrs /\ e_src (fst x) = psource (fst p)) (ptr_pairs ptrs)).
      { apply ptr_pairs_forall. intros p e Hp Q. exists p. split; auto. cbn [fst].
        unfold ptr_elem in Q. destruct (negb (is_prefix (flt c) (pname (fst p)))); [discriminate|].
        inversion Q; reflexivity. }
      rewrite Forall_forall in Q. destruct (Q x Hx) as (p & Hp & ->).
      intros y Hy. apply (shp_ptr mt free impl ptrs lps p Hp). right. apply in_or_app. left. exact Hy.
    + apply flat_map_incl. intros x Hx. unfold lp_pairs in Hx. apply in_map_iff in Hx.
      destruct Hx as (p & <- & Hp). cbn [fst]. unfold lprop_elem. cbn [e_src].
      apply (shp_mt mt free impl ptrs lps).
  - rewrite flat_map_app. apply incl_app; rewrite flat_map_flat_map; apply flat_map_incl; intros p Hp.
    + apply (shp_entl_ptr mt free impl ptrs lps p Hp).
    + apply (shp_entl_lp mt free impl ptrs lps p Hp).
Qed.

Lemma input_post : forall mt free els, PT (TInput mt free els).
Proof.
  intros mt free els s i0 s' Ue I E. cbn [desc_ty] in E.
  set (t := TInput mt free els) in *.
  assert (Umt : U (EObj mt)).
  { apply (Uclosed _ _ Ue). cbn [ents_e]. unfold t. cbn [ents]. right. destruct mt; simpl; auto. }
  apply (shape_finish_post t mt free false [] [] s s i0 s' Ue).
  - reflexivity.
  - intros z'. reflexivity.
  - constructor.
  - constructor.
  - intros _. exact Umt.
  - intros _. cbn [flat_map]. rewrite app_nil_r. unfold t. cbn [proper ents tl]. apply incl_refl.
  - intros x [].
  - apply mid_nil; auto.
  - exact E.
Qed.

Theorem ty_post : forall t, PT t.
Proof.
  induction t using ty_ind'.
  - intros s0 i s' Ue I E. cbn [desc_ty] in E.
    assert (Us : U (EScalar s)).
    { apply (Uclosed _ _ Ue). cbn [ents_e ents]. right. destruct s; simpl; auto. }
    destruct (scalar_post _ _ _ _ Us I E) as [-> P]. split; auto.
    eapply post_weaken; [| |exact P]; [reflexivity|]. cbn [ents_e ents]. apply incl_tl, incl_refl.
  - apply tuple_post; auto.
  - apply array_post; auto.
  - apply range_post; auto.
  - apply multirange_post; auto.
  - apply shape_post; auto.
  - apply input_post.
Qed.

Lemma last_some : forall {A} (l : list A) d, nth_error l (length l - 1) = Some d -> l <> [] ->
  last (map Some l) None = Some d.
Proof.
  induction l as [|a l IH]; intros d E Hn; [contradiction|].
  destruct l as [|b l]; simpl in *.
  - inversion E; reflexivity.
  - apply IH; [|discriminate]. simpl. rewrite PeanoNat.Nat.sub_0_r in *. exact E.
Qed.

(* sertypes.describe followed by sertypes.parse *)
Theorem describe_parse : forall t b i,
  U (ETy t) -> describe H c t = Ok (b, i) ->
  i = tid' t /\ exists z, parse c b = Some (expect H c z t).
Proof.
  intros t b i Ue E. unfold describe in E. bind_inv E. destruct a as [i0 s]. bind_inv E. inversion E; subst b i. clear E.
  destruct (ty_post t st0 i0 s Ue inv_st0 E0) as [-> (I & P & Hi & B & L & A)]. split; auto.
  destruct (L ltac:(simpl; auto)) as (ns & n & En & Eid).
  unfold stream in E1. rewrite A in E1. cbn [anno st0 map ocat] in E1.
  destruct (ocat (map (ser c) (nodes s))) as [b1|] eqn:Q; [|discriminate]. inversion E1; subst a. clear E1.
  rewrite app_nil_r. rewrite (parse_stream c (nodes s) b1 (inv_wf _ I) Q).
  destruct (inv_ds _ I) as (ds & D & R). unfold ds_of in D. rewrite D.
  exists (hd0 ds).
  pose proof (inv_len _ _ I D) as Ld. pose proof (inv_ids _ I) as Ids. rewrite En, map_app in Ids. cbn [map] in Ids.
  assert (Hk : nth_error (pos s) (length ds - 1) = Some (eid' (ETy t))).
  { rewrite Ld, <- Ids, app_length. cbn [length]. rewrite PeanoNat.Nat.add_sub, nth_error_app2 by lia.
    rewrite PeanoNat.Nat.sub_diag. cbn. rewrite Eid. reflexivity. }
  destruct (R _ _ Hk) as (e & Ue' & Ee & Hn).
  apply last_some.
  - rewrite Hn. f_equal. apply (IdDet e (ETy t)); auto.
  - intro Z. subst ds. rewrite <- Ids, app_length in Ld. simpl in Ld. lia.
Qed.

End Graph.
