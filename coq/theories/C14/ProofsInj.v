(* C14 — injectivity of the id construction.
   The strings hashed by _get_collection_type_id / _get_object_shape_id / _get_set_type_id
   determine their components (kind, element type ids, element names, cardinalities, flags)
   provided names contain neither NUL nor ':' — and, relative to a hash without collisions
   on the strings at hand, equal ids imply equal type skeletons. *)
From Coq Require Import List NArith Bool Lia.
From Verif.C14 Require Import Gen_Tags Model Spec ProofsIds ProofsStr.
Import ListNotations.
Open Scope N_scope.

Definition nonul (s : str) : Prop := ~ In 0 s.
Definition nocolon (s : str) : Prop := ~ In 58 s.
Definition okname (s : str) : Prop := nonul s /\ nocolon s.

(* `if element_names:` — an empty list of names is the same as no names *)
Definition names_norm (n : option (list str)) : option (list str) :=
  match n with Some (x :: r) => Some (x :: r) | _ => None end.

Lemma tail_split : forall (J1 J2 T1 T2 : list N),
  ~ In 0 J1 -> ~ In 0 J2 ->
  (T1 = [] \/ exists r, T1 = 0 :: r) -> (T2 = [] \/ exists r, T2 = 0 :: r) ->
  J1 ++ T1 = J2 ++ T2 -> J1 = J2 /\ T1 = T2.
Proof.
  intros J1 J2 T1 T2 N1 N2 [->|[r1 ->]] [->|[r2 ->]] E.
  - rewrite !app_nil_r in E. auto.
  - exfalso. rewrite app_nil_r in E. apply N1. rewrite E. apply in_or_app. right. left; reflexivity.
  - exfalso. rewrite app_nil_r in E. apply N2. rewrite <- E. apply in_or_app. right. left; reflexivity.
  - apply split_first in E; auto. destruct E as [-> ->]. auto.
Qed.

Definition names_tail (n : option (list str)) : str :=
  match n with Some (x :: ns) => [0] ++ join [58] (x :: ns) | _ => [] end.

Lemma names_tail_form : forall n, names_tail n = [] \/ exists r, names_tail n = 0 :: r.
Proof. intros [[|x ns]|]; simpl; eauto. Qed.

Lemma coll_idstr_inj : forall k1 k2 subs1 subs2 n1 n2,
  nonul k1 -> nonul k2 -> Forall wf_uuid subs1 -> Forall wf_uuid subs2 ->
  (forall l, n1 = Some l -> length l = length subs1 /\ Forall okname l) ->
  (forall l, n2 = Some l -> length l = length subs2 /\ Forall okname l) ->
  coll_idstr k1 subs1 n1 = coll_idstr k2 subs2 n2 ->
  k1 = k2 /\ subs1 = subs2 /\ names_norm n1 = names_norm n2.
Proof.
  intros k1 k2 subs1 subs2 n1 n2 K1 K2 W1 W2 N1 N2 E. unfold coll_idstr in E.
  fold (names_tail n1) in E. fold (names_tail n2) in E.
  change (k1 ++ [0] ++ join [58] (map uuid_str subs1) ++ names_tail n1)
    with (k1 ++ 0 :: (join [58] (map uuid_str subs1) ++ names_tail n1)) in E.
  change (k2 ++ [0] ++ join [58] (map uuid_str subs2) ++ names_tail n2)
    with (k2 ++ 0 :: (join [58] (map uuid_str subs2) ++ names_tail n2)) in E.
  apply split_first in E; auto. destruct E as [-> E]. split; auto.
  apply tail_split in E; try apply names_tail_form; try (apply join_uuid_nonul; auto).
  destruct E as [EJ ET]. apply join_uuid_inj in EJ; auto. subst subs2. split; auto.
  destruct n1 as [[|x1 ns1]|]; destruct n2 as [[|x2 ns2]|]; cbn [names_tail names_norm app] in *;
    try reflexivity; try discriminate.
  inversion ET as [EN].
  destruct (N1 _ eq_refl) as [L1 O1]. destruct (N2 _ eq_refl) as [L2 O2].
  f_equal. apply (join_nosep_inj 58 []); auto.
  - congruence.
  - eapply Forall_impl; [|exact O1]. intros a [_ Ha]; exact Ha.
  - eapply Forall_impl; [|exact O2]. intros a [_ Ha]; exact Ha.
Qed.

Lemma set_idstr_inj : forall u v, wf_uuid u -> wf_uuid v ->
  s_setof ++ uuid_str u = s_setof ++ uuid_str v -> u = v.
Proof. intros u v Wu Wv E. apply app_inv_head in E. apply uuid_str_inj; auto. Qed.

(* ------------------------------------------------------------------ shape id strings *)

Definition okcard (c : N) : Prop := c <> 0 /\ c <> 58 /\ c <> 59.

Lemma cards_join_len : forall (l : list N), length (join [58] (map (fun c => [c]) l)) = (2 * length l - 1)%nat.
Proof.
  induction l as [|a l IH]; simpl; auto. destruct l as [|b l]; simpl in *; auto.
  rewrite IH. lia.
Qed.

Lemma cards_join_inj : forall l1 l2, length l1 = length l2 ->
  join [58] (map (fun c => [c]) l1) = join [58] (map (fun c : N => [c]) l2) -> l1 = l2.
Proof.
  intros l1 l2 L E.
  assert (M : map (fun c : N => [c]) l1 = map (fun c : N => [c]) l2).
  { apply (join_fixed_inj 1 [58]); auto; try lia; apply Forall_map; apply Forall_forall; intros; reflexivity. }
  clear -M. revert l2 M. induction l1; intros [|b l2] M; simpl in M; try discriminate; auto.
  inversion M; f_equal; auto.
Qed.

Definition shape_suffix (impl : bool) (lps links : option (list bool)) : str :=
  repr_bool impl ++ [59] ++ repr_obools lps ++ [59] ++ repr_obools links.

Lemma shape_idstr_unfold : forall base subs names cards impl lps links,
  shape_idstr base subs names cards impl lps links =
  base ++ 0 :: join [58] (map uuid_str subs)
       ++ match names with
          | [] => match cards with [] => [] | _ => 0 :: join [58] (map (fun c => [c]) cards) end
          | _ => 0 :: join [58] names
                   ++ match cards with [] => [] | _ => 0 :: join [58] (map (fun c => [c]) cards) end
          end
       ++ shape_suffix impl lps links.
Proof.
  intros. unfold shape_idstr, shape_suffix.
  destruct names as [|n ns]; destruct cards as [|cd cs]; cbn [app join];
    repeat (rewrite <- app_assoc || rewrite <- app_comm_cons); try reflexivity.
Qed.

Lemma repr_obools_no : forall o c, (c = 0 \/ c = 59) -> ~ In c (repr_obools o).
Proof.
  intros [l|] c Hc; simpl.
  - apply repr_bools_no_semi; auto.
  - unfold s_None. simpl. lia.
Qed.

Lemma shape_suffix_nonul : forall impl lps links, ~ In 0 (shape_suffix impl lps links).
Proof.
  intros. unfold shape_suffix. apply not_in_app; [apply repr_bool_chars; lia|].
  apply not_in_app; [simpl; lia|]. apply not_in_app; [apply repr_obools_no; lia|].
  apply not_in_app; [simpl; lia|]. apply repr_obools_no; lia.
Qed.

Lemma repr_obools_inj : forall o1 o2,
  (forall l1 l2, o1 = Some l1 -> o2 = Some l2 -> length l1 = length l2) ->
  repr_obools o1 = repr_obools o2 -> o1 = o2.
Proof.
  intros [l1|] [l2|] L E; simpl in E; auto.
  - f_equal. apply repr_bools_inj; auto.
  - unfold repr_bools, s_None in E. simpl in E. discriminate.
  - unfold repr_bools, s_None in E. simpl in E. discriminate.
Qed.

Lemma shape_suffix_inj : forall i1 i2 lp1 lp2 lk1 lk2,
  (forall l1 l2, lp1 = Some l1 -> lp2 = Some l2 -> length l1 = length l2) ->
  (forall l1 l2, lk1 = Some l1 -> lk2 = Some l2 -> length l1 = length l2) ->
  shape_suffix i1 lp1 lk1 = shape_suffix i2 lp2 lk2 -> i1 = i2 /\ lp1 = lp2 /\ lk1 = lk2.
Proof.
  intros i1 i2 lp1 lp2 lk1 lk2 L1 L2 E. unfold shape_suffix in E.
  apply repr_bool_inj in E. destruct E as [-> E]. split; auto.
  simpl in E. inversion E as [E']. clear E.
  apply split_first in E'; try (apply repr_obools_no; lia). destruct E' as [E1 E2].
  apply repr_obools_inj in E1; auto. apply repr_obools_inj in E2; auto.
Qed.

(* all per-element lists of a shape have the same length [n] *)
Lemma shape_idstr_inj : forall b1 b2 subs1 subs2 nm1 nm2 cd1 cd2 i1 i2 lp1 lp2 lk1 lk2,
  nonul b1 -> nonul b2 -> Forall wf_uuid subs1 -> Forall wf_uuid subs2 ->
  Forall okname nm1 -> Forall okname nm2 -> Forall okcard cd1 -> Forall okcard cd2 ->
  length nm1 = length subs1 -> length cd1 = length subs1 ->
  length nm2 = length subs2 -> length cd2 = length subs2 ->
  (forall l, lp1 = Some l -> length l = length subs1) ->
  (forall l, lp2 = Some l -> length l = length subs2) ->
  (forall l, lk1 = Some l -> length l = length subs1) ->
  (forall l, lk2 = Some l -> length l = length subs2) ->
  shape_idstr b1 subs1 nm1 cd1 i1 lp1 lk1 = shape_idstr b2 subs2 nm2 cd2 i2 lp2 lk2 ->
  b1 = b2 /\ subs1 = subs2 /\ nm1 = nm2 /\ cd1 = cd2 /\ i1 = i2 /\ lp1 = lp2 /\ lk1 = lk2.
Proof.
  intros b1 b2 subs1 subs2 nm1 nm2 cd1 cd2 i1 i2 lp1 lp2 lk1 lk2
         B1 B2 W1 W2 O1 O2 C1 C2 Ln1 Lc1 Ln2 Lc2 Lp1 Lp2 Lk1 Lk2 E.
  rewrite !shape_idstr_unfold in E.
  apply split_first in E; auto. destruct E as [-> E]. split; auto.
  set (J1 := join [58] (map uuid_str subs1)) in *. set (J2 := join [58] (map uuid_str subs2)) in *.
  assert (NJ1 : ~ In 0 J1) by (apply join_uuid_nonul; auto).
  assert (NJ2 : ~ In 0 J2) by (apply join_uuid_nonul; auto).
  assert (NS : forall i lp lk, ~ In 0 (shape_suffix i lp lk)) by (intros; apply shape_suffix_nonul).
  assert (SEMI1 : ~ In 59 J1) by (apply join_uuid_nonul; auto).
  assert (SEMI2 : ~ In 59 J2) by (apply join_uuid_nonul; auto).
  destruct nm1 as [|n1 ns1]; destruct nm2 as [|n2 ns2].
  - (* no elements on either side *)
    destruct subs1; simpl in Ln1; try discriminate. destruct subs2; simpl in Ln2; try discriminate.
    destruct cd1; simpl in Lc1; try discriminate. destruct cd2; simpl in Lc2; try discriminate.
    cbn [app] in E. unfold J1, J2 in E. simpl in E.
    apply shape_suffix_inj in E.
    + destruct E as (-> & -> & ->). auto 10.
    + intros l1 l2 -> ->. rewrite (Lp1 _ eq_refl), (Lp2 _ eq_refl). reflexivity.
    + intros l1 l2 -> ->. rewrite (Lk1 _ eq_refl), (Lk2 _ eq_refl). reflexivity.
  - exfalso. destruct subs1; simpl in Ln1; try discriminate. destruct cd1; simpl in Lc1; try discriminate.
    cbn [app] in E. unfold J1 in E. simpl in E.
    assert (X : In 0 (shape_suffix i1 lp1 lk1)).
    { rewrite E. apply in_or_app. right. left. reflexivity. }
    apply (NS _ _ _ X).
  - exfalso. destruct subs2; simpl in Ln2; try discriminate. destruct cd2; simpl in Lc2; try discriminate.
    cbn [app] in E. unfold J2 in E. simpl in E.
    assert (X : In 0 (shape_suffix i2 lp2 lk2)).
    { rewrite <- E. apply in_or_app. right. left. reflexivity. }
    apply (NS _ _ _ X).
  - destruct cd1 as [|c1 cs1]; [destruct subs1; simpl in *; discriminate|].
    destruct cd2 as [|c2 cs2]; [destruct subs2; simpl in *; discriminate|].
    rewrite <- !app_assoc in E. cbn [app] in E.
    apply split_first in E; auto. destruct E as [EJ E].
    apply join_uuid_inj in EJ; auto. subst subs2. split; auto.
    rewrite <- !app_assoc in E. cbn [app] in E.
    assert (NN : forall l, Forall okname l -> ~ In 0 (join [58] l)).
    { intros l Hl. apply join_not_in; [simpl; lia|]. eapply Forall_impl; [|exact Hl]. intros a [Ha _]; exact Ha. }
    apply split_first in E; auto. destruct E as [EN E].
    assert (n1 :: ns1 = n2 :: ns2).
    { apply (join_nosep_inj 58 []); auto; try congruence.
      - eapply Forall_impl; [|exact O1]. intros a [_ Ha]; exact Ha.
      - eapply Forall_impl; [|exact O2]. intros a [_ Ha]; exact Ha. }
    split; auto.
    assert (LC : length (c1 :: cs1) = length (c2 :: cs2)) by congruence.
    assert (LJ : length (join [58] (map (fun c : N => [c]) (c1 :: cs1)))
                 = length (join [58] (map (fun c : N => [c]) (c2 :: cs2))))
      by (rewrite !cards_join_len, LC; reflexivity).
    destruct (app_inv_len _ _ _ _ LJ E) as [EC ES].
    apply cards_join_inj in EC; auto. split; auto.
    apply shape_suffix_inj in ES.
    + destruct ES as (-> & -> & ->). auto.
    + intros l1 l2 -> ->. rewrite (Lp1 _ eq_refl), (Lp2 _ eq_refl). reflexivity.
    + intros l1 l2 -> ->. rewrite (Lk1 _ eq_refl), (Lk2 _ eq_refl). reflexivity.
Qed.
