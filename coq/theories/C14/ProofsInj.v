(* C14 — injectivity of the id construction.
   The strings hashed by _get_collection_type_id / _get_object_shape_id / _get_set_type_id
   determine their components (kind, element type ids, element names, cardinalities, flags)
   provided names contain neither NUL nor ':' — and, relative to a hash without collisions
   on the strings at hand, equal ids imply equal type skeletons. *)
From Coq Require Import List NArith Bool Lia.
From Verif.C14 Require Import Gen_Tags Model Spec ProofsIds ProofsStr.
Import ListNotations.
Open Scope N_scope.

Definition nonul (s : str) : Prop := ~ In 0 s.
Definition nocolon (s : str) : Prop := ~ In 58 s.
Definition okname (s : str) : Prop := nonul s /\ nocolon s.

(* `if element_names:` — an empty list of names is the same as no names *)
Definition names_norm (n : option (list str)) : option (list str) :=
  match n with Some (x :: r) => Some (x :: r) | _ => None end.

Lemma tail_split : forall (J1 J2 T1 T2 : list N),
  ~ In 0 J1 -> ~ In 0 J2 ->
  (T1 = [] \/ exists r, T1 = 0 :: r) -> (T2 = [] \/ exists r, T2 = 0 :: r) ->
  J1 ++ T1 = J2 ++ T2 -> J1 = J2 /\ T1 = T2.
Proof.
  intros J1 J2 T1 T2 N1 N2 [->|[r1 ->]] [->|[r2 ->]] E.
  - rewrite !app_nil_r in E. auto.
  - exfalso. rewrite app_nil_r in E. apply N1. rewrite E. apply in_or_app. right. left; reflexivity.
  - exfalso. rewrite app_nil_r in E. apply N2. rewrite <- E. apply in_or_app. right. left; reflexivity.
  - apply split_first in E; auto. destruct E as [-> ->]. auto.
Qed.

Definition names_tail (n : option (list str)) : str :=
  match n with Some (x :: ns) => [0] ++ join [58] (x :: ns) | _ => [] end.

Lemma names_tail_form : forall n, names_tail n = [] \/ exists r, names_tail n = 0 :: r.
Proof. intros [[|x ns]|]; simpl; eauto. Qed.

Lemma coll_idstr_inj : forall k1 k2 subs1 subs2 n1 n2,
  nonul k1 -> nonul k2 -> Forall wf_uuid subs1 -> Forall wf_uuid subs2 ->
  (forall l, n1 = Some l -> length l = length subs1 /\ Forall okname l) ->
  (forall l, n2 = Some l -> length l = length subs2 /\ Forall okname l) ->
  coll_idstr k1 subs1 n1 = coll_idstr k2 subs2 n2 ->
  k1 = k2 /\ subs1 = subs2 /\ names_norm n1 = names_norm n2.
Proof.
  intros k1 k2 subs1 subs2 n1 n2 K1 K2 W1 W2 N1 N2 E. unfold coll_idstr in E.
  fold (names_tail n1) in E. fold (names_tail n2) in E.
  change (k1 ++ [0] ++ join [58] (map uuid_str subs1) ++ names_tail n1)
    with (k1 ++ 0 :: (join [58] (map uuid_str subs1) ++ names_tail n1)) in E.
  change (k2 ++ [0] ++ join [58] (map uuid_str subs2) ++ names_tail n2)
    with (k2 ++ 0 :: (join [58] (map uuid_str subs2) ++ names_tail n2)) in E.
  apply split_first in E; auto. destruct E as [-> E]. split; auto.
  apply tail_split in E; try apply names_tail_form; try (apply join_uuid_nonul; auto).
  destruct E as [EJ ET]. apply join_uuid_inj in EJ; auto. subst subs2. split; auto.
  destruct n1 as [[|x1 ns1]|]; destruct n2 as [[|x2 ns2]|]; cbn [names_tail names_norm app] in *;
    try reflexivity; try discriminate.
  inversion ET as [EN].
  destruct (N1 _ eq_refl) as [L1 O1]. destruct (N2 _ eq_refl) as [L2 O2].
  f_equal. apply (join_nosep_inj 58 []); auto.
  - congruence.
  - eapply Forall_impl; [|exact O1]. intros a [_ Ha]; exact Ha.
  - eapply Forall_impl; [|exact O2]. intros a [_ Ha]; exact Ha.
Qed.

Lemma set_idstr_inj : forall u v, wf_uuid u -> wf_uuid v ->
  s_setof ++ uuid_str u = s_setof ++ uuid_str v -> u = v.
Proof. intros u v Wu Wv E. apply app_inv_head in E. apply uuid_str_inj; auto. Qed.

(* ------------------------------------------------------------------ shape id strings *)

Definition okcard (c : N) : Prop := c <> 0 /\ c <> 58 /\ c <> 59.

Lemma cards_join_len : forall (l : list N), length (join [58] (map (fun c => [c]) l)) = (2 * length l - 1)%nat.
Proof.
  induction l as [|a l IH]; simpl; auto. destruct l as [|b l]; simpl in *; auto.
  rewrite IH. lia.
Qed.

Lemma cards_join_inj : forall l1 l2, length l1 = length l2 ->
  join [58] (map (fun c => [c]) l1) = join [58] (map (fun c : N => [c]) l2) -> l1 = l2.
Proof.
  intros l1 l2 L E.
  assert (M : map (fun c : N => [c]) l1 = map (fun c : N => [c]) l2).
  { apply (join_fixed_inj 1 [58]); auto; try lia; apply Forall_map; apply Forall_forall; intros; reflexivity. }
  clear -M. revert l2 M. induction l1; intros [|b l2] M; simpl in M; try discriminate; auto.
  inversion M; f_equal; auto.
Qed.

Definition shape_suffix (impl : bool) (lps links : option (list bool)) : str :=
  repr_bool impl ++ [59] ++ repr_obools lps ++ [59] ++ repr_obools links.

Lemma shape_idstr_unfold : forall base subs names cards impl lps links,
  shape_idstr base subs names cards impl lps links =
  base ++ 0 :: join [58] (map uuid_str subs)
       ++ match names with
          | [] => match cards with [] => [] | _ => 0 :: join [58] (map (fun c => [c]) cards) end
          | _ => 0 :: join [58] names
                   ++ match cards with [] => [] | _ => 0 :: join [58] (map (fun c => [c]) cards) end
          end
       ++ shape_suffix impl lps links.
Proof.
  intros. unfold shape_idstr, shape_suffix.
  destruct names as [|n ns]; destruct cards as [|cd cs]; cbn [app join];
    repeat (rewrite <- app_assoc || rewrite <- app_comm_cons); try reflexivity.
Qed.

Lemma repr_obools_no : forall o c, (c = 0 \/ c = 59) -> ~ In c (repr_obools o).
Proof.
  intros [l|] c Hc; simpl.
  - apply repr_bools_no_semi; auto.
  - unfold s_None. simpl. lia.
Qed.

Lemma shape_suffix_nonul : forall impl lps links, ~ In 0 (shape_suffix impl lps links).
Proof.
  intros. unfold shape_suffix. apply not_in_app; [apply repr_bool_chars; lia|].
  apply not_in_app; [simpl; lia|]. apply not_in_app; [apply repr_obools_no; lia|].
  apply not_in_app; [simpl; lia|]. apply repr_obools_no; lia.
Qed.

Lemma repr_obools_inj : forall o1 o2,
  (forall l1 l2, o1 = Some l1 -> o2 = Some l2 -> length l1 = length l2) ->
  repr_obools o1 = repr_obools o2 -> o1 = o2.
Proof.
  intros [l1|] [l2|] L E; simpl in E; auto.
  - f_equal. apply repr_bools_inj; auto.
  - unfold repr_bools, s_None in E. simpl in E. discriminate.
  - unfold repr_bools, s_None in E. simpl in E. discriminate.
Qed.

Lemma shape_suffix_inj : forall i1 i2 lp1 lp2 lk1 lk2,
  (forall l1 l2, lp1 = Some l1 -> lp2 = Some l2 -> length l1 = length l2) ->
  (forall l1 l2, lk1 = Some l1 -> lk2 = Some l2 -> length l1 = length l2) ->
  shape_suffix i1 lp1 lk1 = shape_suffix i2 lp2 lk2 -> i1 = i2 /\ lp1 = lp2 /\ lk1 = lk2.
Proof.
  intros i1 i2 lp1 lp2 lk1 lk2 L1 L2 E. unfold shape_suffix in E.
  apply repr_bool_inj in E. destruct E as [-> E]. split; auto.
  simpl in E. inversion E as [E']. clear E.
  apply split_first in E'; try (apply repr_obools_no; lia). destruct E' as [E1 E2].
  apply repr_obools_inj in E1; auto. apply repr_obools_inj in E2; auto.
Qed.

(* all per-element lists of a shape have the same length [n] *)
Lemma shape_idstr_inj : forall b1 b2 subs1 subs2 nm1 nm2 cd1 cd2 i1 i2 lp1 lp2 lk1 lk2,
  nonul b1 -> nonul b2 -> Forall wf_uuid subs1 -> Forall wf_uuid subs2 ->
  Forall okname nm1 -> Forall okname nm2 -> Forall okcard cd1 -> Forall okcard cd2 ->
  length nm1 = length subs1 -> length cd1 = length subs1 ->
  length nm2 = length subs2 -> length cd2 = length subs2 ->
  (forall l, lp1 = Some l -> length l = length subs1) ->
  (forall l, lp2 = Some l -> length l = length subs2) ->
  (forall l, lk1 = Some l -> length l = length subs1) ->
  (forall l, lk2 = Some l -> length l = length subs2) ->
  shape_idstr b1 subs1 nm1 cd1 i1 lp1 lk1 = shape_idstr b2 subs2 nm2 cd2 i2 lp2 lk2 ->
  b1 = b2 /\ subs1 = subs2 /\ nm1 = nm2 /\ cd1 = cd2 /\ i1 = i2 /\ lp1 = lp2 /\ lk1 = lk2.
Proof.
  intros b1 b2 subs1 subs2 nm1 nm2 cd1 cd2 i1 i2 lp1 lp2 lk1 lk2
         B1 B2 W1 W2 O1 O2 C1 C2 Ln1 Lc1 Ln2 Lc2 Lp1 Lp2 Lk1 Lk2 E.
  rewrite !shape_idstr_unfold in E.
  apply split_first in E; auto. destruct E as [-> E]. split; auto.
  set (J1 := join [58] (map uuid_str subs1)) in *. set (J2 := join [58] (map uuid_str subs2)) in *.
  assert (NJ1 : ~ In 0 J1) by (apply join_uuid_nonul; auto).
  assert (NJ2 : ~ In 0 J2) by (apply join_uuid_nonul; auto).
  assert (NS : forall i lp lk, ~ In 0 (shape_suffix i lp lk)) by (intros; apply shape_suffix_nonul).
  assert (SEMI1 : ~ In 59 J1) by (apply join_uuid_nonul; auto).
  assert (SEMI2 : ~ In 59 J2) by (apply join_uuid_nonul; auto).
  destruct nm1 as [|n1 ns1]; destruct nm2 as [|n2 ns2].
  - (* no elements on either side *)
    destruct subs1; simpl in Ln1; try discriminate. destruct subs2; simpl in Ln2; try discriminate.
    destruct cd1; simpl in Lc1; try discriminate. destruct cd2; simpl in Lc2; try discriminate.
    cbn [app] in E. unfold J1, J2 in E. simpl in E.
    apply shape_suffix_inj in E.
    + destruct E as (-> & -> & ->). auto 10.
    + intros l1 l2 -> ->. rewrite (Lp1 _ eq_refl), (Lp2 _ eq_refl). reflexivity.
    + intros l1 l2 -> ->. rewrite (Lk1 _ eq_refl), (Lk2 _ eq_refl). reflexivity.
  - exfalso. destruct subs1; simpl in Ln1; try discriminate. destruct cd1; simpl in Lc1; try discriminate.
    cbn [app] in E. unfold J1 in E. simpl in E.
    assert (X : In 0 (shape_suffix i1 lp1 lk1)).
    { rewrite E. apply in_or_app. right. left. reflexivity. }
    apply (NS _ _ _ X).
  - exfalso. destruct subs2; simpl in Ln2; try discriminate. destruct cd2; simpl in Lc2; try discriminate.
    cbn [app] in E. unfold J2 in E. simpl in E.
    assert (X : In 0 (shape_suffix i2 lp2 lk2)).
    { rewrite <- E. apply in_or_app. right. left. reflexivity. }
    apply (NS _ _ _ X).
  - destruct cd1 as [|c1 cs1]; [destruct subs1; simpl in *; discriminate|].
    destruct cd2 as [|c2 cs2]; [destruct subs2; simpl in *; discriminate|].
    repeat (rewrite <- app_assoc in E || rewrite <- app_comm_cons in E).
    apply split_first in E; auto. destruct E as [EJ E].
    apply join_uuid_inj in EJ; auto. subst subs2. split; auto.
    repeat (rewrite <- app_assoc in E || rewrite <- app_comm_cons in E).
    assert (NN : forall l, Forall okname l -> ~ In 0 (join [58] l)).
    { intros l Hl. apply join_not_in; [simpl; lia|]. eapply Forall_impl; [|exact Hl]. intros a [Ha _]; exact Ha. }
    apply split_first in E; auto. destruct E as [EN E].
    assert (n1 :: ns1 = n2 :: ns2).
    { apply (join_nosep_inj 58 []); auto; try congruence.
      - eapply Forall_impl; [|exact O1]. intros a [_ Ha]; exact Ha.
      - eapply Forall_impl; [|exact O2]. intros a [_ Ha]; exact Ha. }
    split; auto.
    assert (LC : length (c1 :: cs1) = length (c2 :: cs2)) by congruence.
    assert (LJ : length (join [58] (map (fun c : N => [c]) (c1 :: cs1)))
                 = length (join [58] (map (fun c : N => [c]) (c2 :: cs2))))
      by (rewrite !cards_join_len, LC; reflexivity).
    destruct (app_inv_len _ _ _ _ LJ E) as [EC ES].
    apply cards_join_inj in EC; auto. split; auto.
    apply shape_suffix_inj in ES.
    + destruct ES as (-> & -> & ->). auto.
    + intros l1 l2 -> ->. rewrite (Lp1 _ eq_refl), (Lp2 _ eq_refl). reflexivity.
    + intros l1 l2 -> ->. rewrite (Lk1 _ eq_refl), (Lk2 _ eq_refl). reflexivity.
Qed.

(* ================================================================== terms *)

Definition kinds : list str := [s_tuple; s_array; s_range; s_multirange].

(* the structure the property talks about: what is left of a type term when the attributes
   that never enter an id (collection names / persistence, the material object type except
   its name, free-object flag, element sources) are blanked *)
Definition skel_pi (lp : bool) (pi : pinfo) : pinfo :=
  mkPinfo (pname pi) (if lp then false else plink pi) (preq pi) (pmulti pi) (ORegular [] []).

Fixpoint skel (t : ty) : ty :=
  match t with
  | TScalar s => TScalar s
  | TTuple named _ _ els =>
      TTuple named false [] (map (fun p => (if named then fst p else [], skel (snd p))) els)
  | TArray _ _ el => TArray false [] (skel el)
  | TRange _ _ el => TRange false [] (skel el)
  | TMultiRange _ _ el => TMultiRange false [] (skel el)
  | TShape mt _ impl ptrs lps =>
      TShape (ORegular [] (oname mt)) false impl
             (map (fun p => (skel_pi false (fst p), skel (snd p))) ptrs)
             (map (fun p => (skel_pi true (fst p), skel (snd p))) lps)
  | TInput mt _ _ => TInput (ORegular [] (oname mt)) false []
  end.

Section Main.
Variable H : str -> uuid.
Hypothesis H_wf : forall s, wf_uuid (H s).
Variable c : cfg.
Hypothesis Hflt : flt c = [].
Hypothesis Hfollow : follow c = true.

Variable Sset : str -> Prop.        (* the strings that get hashed for the types at hand *)
Variable Gset : uuid -> Prop.       (* ids that are given (schema object ids), not hashed *)
Variable ScSet : scalar -> Prop.    (* the scalar types of the schema at hand *)
Hypothesis NoCollide : forall a b, Sset a -> Sset b -> H a = H b -> a = b.
Hypothesis Fresh : forall s g, Sset s -> Gset g -> H s <> g.
Hypothesis G_empty : Gset ID_EMPTY_TUPLE.
Hypothesis ScById : forall a b, ScSet a -> ScSet b -> sid a = sid b -> a = b.

Notation tid' := (tid H c).

Definition plain_elem (p : pinfo * ty) : elem :=
  mkElem (if pmulti (fst p) then set_id H (tid' (snd p)) else tid' (snd p))
         (pname (fst p)) false (plink (fst p)) (card_of (preq (fst p)) (pmulti (fst p)))
         (psource (fst p)).

Lemma ptr_elem_plain : forall p, ptr_elem H c tid' p = Some (plain_elem p).
Proof.
  intros p. unfold ptr_elem, plain_elem. rewrite Hflt, Hfollow. cbn [is_prefix negb length skipn].
  rewrite andb_false_r. reflexivity.
Qed.

Lemma somes_map_some : forall {A B} (g : A -> B) l, somes (map (fun a => Some (g a)) l) = map g l.
Proof. induction l; simpl; congruence. Qed.

Lemma shape_elems_plain : forall mt ptrs lps,
  somes (map (ptr_elem H c tid') ptrs) ++ map (lprop_elem H tid' mt) lps
  = map plain_elem ptrs ++ map (lprop_elem H tid' mt) lps.
Proof.
  intros. f_equal. rewrite <- (somes_map_some plain_elem). f_equal. apply map_ext.
  intros; apply ptr_elem_plain.
Qed.

Definition set_str (t : ty) : str := s_setof ++ uuid_str (tid' t).
Definition elem_set_ok (p : pinfo * ty) : Prop := pmulti (fst p) = true -> Sset (set_str (snd p)).

Definition shape_str mt impl ptrs lps : str :=
  let els := map plain_elem ptrs ++ map (lprop_elem H tid' mt) lps in
  shape_idstr (oname mt) (map e_sub els) (map e_name els) (map e_card els) impl
              (Some (map e_lp els)) (Some (map e_link els)).

(* conditions on one node of a term *)
Definition own_ok (t : ty) : Prop :=
  match t with
  | TScalar sc => wf_uuid (sid sc) /\ sid sc <> ID_EMPTY_TUPLE /\ Gset (sid sc) /\ ScSet sc
  | TTuple named _ _ els =>
      (named = true -> els <> []) /\ (named = true -> Forall okname (map fst els)) /\
      (els <> [] -> Sset (coll_idstr s_tuple (map (fun p => tid' (snd p)) els)
                                     (if named then Some (map fst els) else None)))
  | TArray _ _ el => Sset (coll_idstr s_array [tid' el] None)
  | TRange _ _ el => Sset (coll_idstr s_range [tid' el] None)
  | TMultiRange _ _ el => Sset (coll_idstr s_multirange [tid' el] None)
  | TShape mt _ impl ptrs lps =>
      nonul (oname mt) /\ ~ In (oname mt) kinds /\
      Forall okname (map (fun p => pname (fst p)) (ptrs ++ lps)) /\
      Sset (shape_str mt impl ptrs lps) /\ Forall elem_set_ok (ptrs ++ lps)
  | TInput _ _ _ => False
  end.

Fixpoint all_ok (t : ty) : Prop :=
  own_ok t /\
  match t with
  | TTuple _ _ _ els =>
      (fix go (l : list (str * ty)) : Prop :=
         match l with [] => True | p :: r => all_ok (snd p) /\ go r end) els
  | TArray _ _ el | TRange _ _ el | TMultiRange _ _ el => all_ok el
  | TShape _ _ _ ptrs lps =>
      (fix go (l : list (pinfo * ty)) : Prop :=
         match l with [] => True | p :: r => all_ok (snd p) /\ go r end) ptrs /\
      (fix go (l : list (pinfo * ty)) : Prop :=
         match l with [] => True | p :: r => all_ok (snd p) /\ go r end) lps
  | _ => True
  end.

Lemma go_forall : forall {A} (l : list (A * ty)),
  (fix go (l : list (A * ty)) : Prop :=
     match l with [] => True | p :: r => all_ok (snd p) /\ go r end) l
  <-> Forall (fun p => all_ok (snd p)) l.
Proof.
  induction l as [|p r IH]; split; intro X; auto.
  - destruct X as [X1 X2]. constructor; auto. apply IH; auto.
  - inversion X; subst. split; auto. apply IH; auto.
Qed.

Lemma all_ok_own : forall t, all_ok t -> own_ok t.
Proof. intros t X. destruct t; cbn [all_ok] in X; destruct X as [X _]; exact X. Qed.

Lemma wf_empty : wf_uuid ID_EMPTY_TUPLE.
Proof. split; [reflexivity|]. repeat constructor. Qed.

Lemma tid_wf : forall t, all_ok t -> wf_uuid (tid' t).
Proof.
  intros t X. apply all_ok_own in X. destruct t; cbn [tid own_ok] in *.
  - tauto.
  - unfold tuple_id. destruct (map (fun p => tid' (snd p)) els); [apply wf_empty|apply H_wf].
  - apply H_wf.
  - apply H_wf.
  - apply H_wf.
  - apply H_wf.
  - contradiction.
Qed.

Lemma kinds_nonul : forall k, In k kinds -> nonul k.
Proof.
  intros k Hk. unfold kinds in Hk. simpl in Hk.
  destruct Hk as [<-|[<-|[<-|[<-|[]]]]]; intro Hi; simpl in Hi; lia.
Qed.

Lemma heads_eq : forall h1 h2 r1 r2, nonul h1 -> nonul h2 ->
  h1 ++ 0 :: r1 = h2 ++ 0 :: r2 -> h1 = h2.
Proof. intros h1 h2 r1 r2 N1 N2 E. apply split_first in E; auto. destruct E; auto. Qed.

Lemma coll_head : forall k subs n,
  coll_idstr k subs n = k ++ 0 :: (join [58] (map uuid_str subs) ++ names_tail n).
Proof. reflexivity. Qed.

Lemma shape_head : forall mt impl ptrs lps, exists r, shape_str mt impl ptrs lps = oname mt ++ 0 :: r.
Proof. intros. unfold shape_str. rewrite shape_idstr_unfold. eexists. reflexivity. Qed.

(* the id of a type is either given (scalar, empty tuple) or the hash of a string with a head *)
Inductive idkind := KGiven | KHash (head : str).

Definition tkind (t : ty) : idkind :=
  match t with
  | TScalar _ => KGiven
  | TTuple _ _ _ [] => KGiven
  | TTuple _ _ _ _ => KHash s_tuple
  | TArray _ _ _ => KHash s_array
  | TRange _ _ _ => KHash s_range
  | TMultiRange _ _ _ => KHash s_multirange
  | TShape mt _ _ _ _ => KHash (oname mt)
  | TInput mt _ _ => KHash (oname mt)
  end.

Lemma tid_kind : forall t, all_ok t ->
  match tkind t with
  | KGiven => Gset (tid' t)
  | KHash h => nonul h /\ exists r, tid' t = H (h ++ 0 :: r) /\ Sset (h ++ 0 :: r)
  end.
Proof.
  intros t X. apply all_ok_own in X.
  destruct t as [sc|named pers name els|pers name el|pers name el|pers name el|mt free impl ptrs lps|mt free els];
    cbn [tkind tid own_ok] in *.
  - tauto.
  - destruct els as [|e els]; [exact G_empty|].
    destruct X as (_ & _ & XS). specialize (XS ltac:(discriminate)).
    split; [apply kinds_nonul; simpl; auto|]. cbn [map tuple_id]. rewrite coll_head in *. eauto.
  - split; [apply kinds_nonul; simpl; auto|]. unfold coll1_id. rewrite coll_head in *. eauto.
  - split; [apply kinds_nonul; simpl; auto|]. unfold coll1_id. rewrite coll_head in *. eauto.
  - split; [apply kinds_nonul; simpl; auto 6|]. unfold coll1_id. rewrite coll_head in *. eauto.
  - destruct X as (Xn & _ & _ & XS & _). split; auto.
    unfold shape_id_of, shape_id. rewrite shape_elems_plain.
    destruct (shape_head mt impl ptrs lps) as [r Hr]. exists r. unfold shape_str in *.
    rewrite <- Hr. auto.
  - contradiction.
Qed.

(* equal ids => same kind of id, and for hashed ids the same head *)
Lemma same_kind : forall t1 t2, all_ok t1 -> all_ok t2 -> tid' t1 = tid' t2 -> tkind t1 = tkind t2.
Proof.
  intros t1 t2 X1 X2 E. pose proof (tid_kind _ X1) as K1. pose proof (tid_kind _ X2) as K2.
  destruct (tkind t1) as [|h1]; destruct (tkind t2) as [|h2]; auto.
  - exfalso. destruct K2 as (_ & r & Er & Sr). rewrite E, Er in K1. eapply Fresh; eauto.
  - exfalso. destruct K1 as (_ & r & Er & Sr). rewrite <- E, Er in K2. eapply Fresh; eauto.
  - destruct K1 as (N1 & r1 & E1 & S1). destruct K2 as (N2 & r2 & E2 & S2).
    rewrite E1, E2 in E. apply NoCollide in E; auto. f_equal. eapply heads_eq; eauto.
Qed.

Lemma kinds_distinct :
  s_tuple <> s_array /\ s_tuple <> s_range /\ s_tuple <> s_multirange /\
  s_array <> s_range /\ s_array <> s_multirange /\ s_range <> s_multirange.
Proof. repeat split; discriminate. Qed.

Lemma okcard_card_of : forall r m, okcard (card_of r m).
Proof. intros [|] [|]; unfold okcard, card_of; cbv; repeat split; discriminate. Qed.

Lemma card_of_inj : forall r1 m1 r2 m2, card_of r1 m1 = card_of r2 m2 -> r1 = r2 /\ m1 = m2.
Proof. intros [|] [|] [|] [|] E; cbv in E; try discriminate; auto. Qed.

(* two lists built as  (not link props) ++ (link props)  with equal flag lists split at the
   same place *)
Lemma lp_split : forall (a a' b b' : nat),
  repeat false a ++ repeat true b = repeat false a' ++ repeat true b' -> a = a' /\ b = b'.
Proof.
  induction a as [|a IH]; intros [|a'] b b' E; simpl in E.
  - split; auto. apply (f_equal (@length bool)) in E. rewrite !repeat_length in E. auto.
  - destruct b; simpl in E; discriminate.
  - destruct b'; simpl in E; discriminate.
  - inversion E as [E']. apply IH in E'. destruct E'; subst; auto.
Qed.

Lemma map_const : forall {A B} (f : A -> B) (l : list A) (v : B),
  (forall a, f a = v) -> map f l = repeat v (length l).
Proof. induction l; intros; simpl; auto. rewrite H0. f_equal. auto. Qed.

Lemma map_eq_pointwise : forall {A B} (f : A -> B) (l1 l2 : list A),
  map f l1 = map f l2 -> Forall2 (fun a b => f a = f b) l1 l2.
Proof.
  induction l1; intros [|b l2] E; simpl in E; try discriminate; constructor.
  - inversion E; auto.
  - apply IHl1. inversion E; auto.
Qed.

Lemma Forall2_app_split : forall {A} (R : A -> A -> Prop) (a a' b b' : list A),
  length a = length a' -> Forall2 R (a ++ b) (a' ++ b') -> Forall2 R a a' /\ Forall2 R b b'.
Proof.
  induction a; intros [|x a'] b b' L F; simpl in *; try discriminate; auto.
  inversion F; subst. destruct (IHa a' b b') as [F1 F2]; auto.
Qed.

Lemma app_eq_len : forall {A} (a a' b b' : list A),
  length a = length a' -> a ++ b = a' ++ b' -> a = a' /\ b = b'.
Proof. intros. apply app_inv_len; auto. Qed.

(* element-wise consequence of equal element ids + equal cardinalities *)
Lemma elem_sub_eq : forall p1 p2,
  all_ok (snd p1) -> all_ok (snd p2) -> elem_set_ok p1 -> elem_set_ok p2 ->
  pmulti (fst p1) = pmulti (fst p2) ->
  (if pmulti (fst p1) then set_id H (tid' (snd p1)) else tid' (snd p1))
  = (if pmulti (fst p2) then set_id H (tid' (snd p2)) else tid' (snd p2)) ->
  tid' (snd p1) = tid' (snd p2).
Proof.
  intros p1 p2 X1 X2 S1 S2 M E. rewrite <- M in E. destruct (pmulti (fst p1)) eqn:Mu; auto.
  unfold set_id in E. apply NoCollide in E.
  - apply set_idstr_inj in E; auto; apply tid_wf; auto.
  - apply S1; auto.
  - apply S2; congruence.
Qed.

Definition same_skel (t1 t2 : ty) : Prop := skel t1 = skel t2.

Lemma skel_list : forall {A} (g : A -> A) (l1 l2 : list (A * ty)),
  Forall2 (fun a b => g (fst a) = g (fst b) /\ skel (snd a) = skel (snd b)) l1 l2 ->
  map (fun p => (g (fst p), skel (snd p))) l1 = map (fun p => (g (fst p), skel (snd p))) l2.
Proof. induction 1; simpl; auto. destruct H0 as [-> ->]. f_equal; auto. Qed.

Lemma tuple_skel_list : forall named (l1 l2 : list (str * ty)),
  (named = true -> map fst l1 = map fst l2) ->
  Forall2 (fun a b => skel (snd a) = skel (snd b)) l1 l2 ->
  map (fun p => (if named then fst p else [], skel (snd p))) l1
  = map (fun p => (if named then fst p else ([] : str), skel (snd p))) l2.
Proof.
  intros named l1 l2 HN F. induction F as [|x y l1 l2 Hxy F IH]; simpl; auto.
  f_equal.
  - f_equal; [|exact Hxy]. destruct named; auto. specialize (HN eq_refl). simpl in HN.
    inversion HN; auto.
  - apply IH. intro Hn. specialize (HN Hn). simpl in HN. inversion HN; auto.
Qed.

Lemma Forall2_IH : forall {A} (l1 l2 : list (A * ty)),
  Forall (fun p => all_ok (snd p) -> forall t2, all_ok t2 -> tid' (snd p) = tid' t2 -> skel (snd p) = skel t2) l1 ->
  Forall (fun p => all_ok (snd p)) l1 -> Forall (fun p => all_ok (snd p)) l2 ->
  Forall2 (fun a b => tid' (snd a) = tid' (snd b)) l1 l2 ->
  Forall2 (fun a b => skel (snd a) = skel (snd b)) l1 l2.
Proof.
  intros A l1 l2 IH X1 X2 F. induction F; constructor.
  - inversion IH; inversion X1; inversion X2; subst. auto.
  - inversion IH; inversion X1; inversion X2; subst. auto.
Qed.

Lemma Forall2_and : forall {A B} (P Q : A -> B -> Prop) l1 l2,
  Forall2 P l1 l2 -> Forall2 Q l1 l2 -> Forall2 (fun a b => P a b /\ Q a b) l1 l2.
Proof.
  intros A B P Q l1 l2 F. induction F; intros G; inversion G; subst; constructor; auto.
Qed.

Lemma Forall2_len : forall {A B} (R : A -> B -> Prop) l1 l2, Forall2 R l1 l2 -> length l1 = length l2.
Proof. induction 1; simpl; auto. Qed.

(* pointers of two shapes whose per-element id-relevant data agree have equal skeletons *)
Lemma ptr_list_skel : forall (lp : bool) (l1 l2 : list (pinfo * ty)),
  Forall (fun p => all_ok (snd p) -> forall t2, all_ok t2 -> tid' (snd p) = tid' t2 -> skel (snd p) = skel t2) l1 ->
  Forall (fun p => all_ok (snd p)) l1 -> Forall (fun p => all_ok (snd p)) l2 ->
  Forall elem_set_ok l1 -> Forall elem_set_ok l2 ->
  Forall2 (fun p1 p2 =>
             (if pmulti (fst p1) then set_id H (tid' (snd p1)) else tid' (snd p1))
             = (if pmulti (fst p2) then set_id H (tid' (snd p2)) else tid' (snd p2))) l1 l2 ->
  Forall2 (fun p1 p2 => pname (fst p1) = pname (fst p2)) l1 l2 ->
  Forall2 (fun p1 p2 => card_of (preq (fst p1)) (pmulti (fst p1))
                        = card_of (preq (fst p2)) (pmulti (fst p2))) l1 l2 ->
  (lp = false -> Forall2 (fun p1 p2 => plink (fst p1) = plink (fst p2)) l1 l2) ->
  map (fun p => (skel_pi lp (fst p), skel (snd p))) l1
  = map (fun p => (skel_pi lp (fst p), skel (snd p))) l2.
Proof.
  intros lp l1 l2 IH X1 X2 S1 S2 FS. revert IH X1 X2 S1 S2.
  induction FS as [|p1 p2 l1 l2 Hs FS IHF]; intros IH X1 X2 S1 S2 FN FC FL; simpl; auto.
  inversion IH as [|? ? IHp IHr]; inversion X1 as [|? ? Xp1 Xr1]; inversion X2 as [|? ? Xp2 Xr2];
    inversion S1 as [|? ? Sp1 Sr1]; inversion S2 as [|? ? Sp2 Sr2];
    inversion FN as [|? ? ? ? Np Nr]; inversion FC as [|? ? ? ? Cp Cr]; subst.
  apply card_of_inj in Cp. destruct Cp as [Hr Hm].
  f_equal.
  - f_equal.
    + unfold skel_pi. rewrite Np, Hr, Hm. destruct lp; auto.
      specialize (FL eq_refl). inversion FL; subst. congruence.
    + apply IHp; auto. apply elem_sub_eq; auto.
  - apply IHF; auto. intro Hl. specialize (FL Hl). inversion FL; auto.
Qed.

Definition sub_of (p : pinfo * ty) : uuid :=
  if pmulti (fst p) then set_id H (tid' (snd p)) else tid' (snd p).

Lemma plain_maps : forall l,
  map e_sub (map plain_elem l) = map sub_of l /\
  map e_name (map plain_elem l) = map (fun p => pname (fst p)) l /\
  map e_card (map plain_elem l) = map (fun p => card_of (preq (fst p)) (pmulti (fst p))) l /\
  map e_lp (map plain_elem l) = repeat false (length l) /\
  map e_link (map plain_elem l) = map (fun p => plink (fst p)) l.
Proof.
  intros l. rewrite !map_map. repeat split; try reflexivity.
  induction l; cbn [map length repeat]; [reflexivity|]. f_equal. assumption.
Qed.

Lemma lprop_maps : forall mt l,
  map e_sub (map (lprop_elem H tid' mt) l) = map sub_of l /\
  map e_name (map (lprop_elem H tid' mt) l) = map (fun p => pname (fst p)) l /\
  map e_card (map (lprop_elem H tid' mt) l) = map (fun p => card_of (preq (fst p)) (pmulti (fst p))) l /\
  map e_lp (map (lprop_elem H tid' mt) l) = repeat true (length l).
Proof.
  intros mt l. rewrite !map_map. repeat split; try reflexivity.
  induction l; cbn [map length repeat]; [reflexivity|]. f_equal. assumption.
Qed.

Lemma Forall_app_l : forall {A} (P : A -> Prop) l1 l2, Forall P (l1 ++ l2) -> Forall P l1 /\ Forall P l2.
Proof. intros. apply Forall_app; auto. Qed.

Theorem id_inj : forall t1, all_ok t1 -> forall t2, all_ok t2 ->
  tid' t1 = tid' t2 -> skel t1 = skel t2.
Proof.
  intros t1. induction t1 using ty_ind'; intros X1 t2 X2 E;
    pose proof (same_kind _ _ X1 X2 E) as SK;
    pose proof (all_ok_own _ X1) as O1; pose proof (all_ok_own _ X2) as O2.
  - (* scalar *)
    destruct t2 as [sc|named pers name els|? ? ?|? ? ?|? ? ?|mt free impl ptrs lps|? ? ?];
      cbn [tkind] in SK; try discriminate.
    + cbn [tid own_ok skel] in *. f_equal. apply ScById; tauto.
    + destruct els; [|discriminate]. cbn [tid own_ok tuple_id map] in *. exfalso. tauto.
  - (* tuple *)
    destruct t2 as [sc|named2 pers2 name2 els2|? ? ?|? ? ?|? ? ?|mt free impl ptrs lps|? ? ?];
      cbn [tkind] in SK.
    + destruct els; [|discriminate]. cbn [tid own_ok tuple_id map] in *. exfalso.
      destruct O2 as (_ & O2 & _). apply O2. auto.
    + destruct els as [|e1 els]; destruct els2 as [|e2 els2]; try discriminate.
      * cbn [own_ok] in O1, O2. destruct named; [exfalso; apply (proj1 O1); auto|].
        destruct named2; [exfalso; apply (proj1 O2); auto|]. reflexivity.
      * cbn [tid tuple_id] in E. cbn [own_ok] in O1, O2.
        destruct O1 as (Oe1 & On1 & OS1). destruct O2 as (Oe2 & On2 & OS2).
        specialize (OS1 ltac:(discriminate)). specialize (OS2 ltac:(discriminate)).
        remember (e1 :: els) as L1. remember (e2 :: els2) as L2.
        assert (ES : coll_idstr s_tuple (map (fun p => tid' (snd p)) L1) (if named then Some (map fst L1) else None)
                     = coll_idstr s_tuple (map (fun p => tid' (snd p)) L2) (if named2 then Some (map fst L2) else None)).
        { apply NoCollide; auto. subst L1 L2. exact E. }
        cbn [all_ok] in X1, X2. destruct X1 as [_ X1]. destruct X2 as [_ X2].
        apply go_forall in X1. apply go_forall in X2.
        apply coll_idstr_inj in ES.
        -- destruct ES as (_ & ESub & ENm).
           assert (NN : named = named2 /\ (named = true -> map fst L1 = map fst L2)).
           { subst L1 L2. destruct named; destruct named2; cbn [names_norm map] in ENm;
               try discriminate; (split; [reflexivity|]); [|discriminate].
             intros _. inversion ENm. simpl; congruence. }
           destruct NN as [-> ENames]. cbn [skel]. f_equal.
           apply tuple_skel_list; auto.
           apply Forall2_IH; auto.
           apply (map_eq_pointwise (fun p => tid' (snd p))); exact ESub.
        -- apply kinds_nonul; simpl; auto.
        -- apply kinds_nonul; simpl; auto.
        -- apply Forall_map. eapply Forall_impl; [|exact X1]. intros; apply tid_wf; auto.
        -- apply Forall_map. eapply Forall_impl; [|exact X2]. intros; apply tid_wf; auto.
        -- intros l Hl. destruct named; inversion Hl; subst. rewrite !map_length. split; auto.
        -- intros l Hl. destruct named2; inversion Hl; subst. rewrite !map_length. split; auto.
    + destruct els; inversion SK.
    + destruct els; inversion SK.
    + destruct els; inversion SK.
    + exfalso. destruct els; inversion SK. cbn [own_ok] in O2. destruct O2 as (_ & O2 & _).
      apply O2. rewrite <- H2. simpl; auto.
    + exfalso. exact O2.

  - (* array *)
    destruct t2 as [sc|named2 pers2 name2 els2|pers2 name2 el2|? ? ?|? ? ?|mt free impl ptrs lps|? ? ?];
      cbn [tkind] in SK; try discriminate.
    + destruct els2; discriminate.
    + cbn [tid own_ok all_ok skel] in *. unfold coll1_id in E. apply NoCollide in E; auto.
      apply coll_idstr_inj in E.
      * destruct E as (_ & E & _). inversion E. f_equal. apply IHt1; tauto.
      * apply kinds_nonul; simpl; auto.
      * apply kinds_nonul; simpl; auto.
      * constructor; auto. apply tid_wf; tauto.
      * constructor; auto. apply tid_wf; tauto.
      * discriminate.
      * discriminate.
    + exfalso. cbn [own_ok] in O2. destruct O2 as (_ & O2 & _). apply O2. inversion SK. simpl; auto.
    + exfalso. exact O2.
  - (* range *)
    destruct t2 as [sc|named2 pers2 name2 els2|? ? ?|pers2 name2 el2|? ? ?|mt free impl ptrs lps|? ? ?];
      cbn [tkind] in SK; try discriminate.
    + destruct els2; discriminate.
    + cbn [tid own_ok all_ok skel] in *. unfold coll1_id in E. apply NoCollide in E; auto.
      apply coll_idstr_inj in E.
      * destruct E as (_ & E & _). inversion E. f_equal. apply IHt1; tauto.
      * apply kinds_nonul; simpl; auto.
      * apply kinds_nonul; simpl; auto.
      * constructor; auto. apply tid_wf; tauto.
      * constructor; auto. apply tid_wf; tauto.
      * discriminate.
      * discriminate.
    + exfalso. cbn [own_ok] in O2. destruct O2 as (_ & O2 & _). apply O2. inversion SK. simpl; auto.
    + exfalso. exact O2.
  - (* multirange *)
    destruct t2 as [sc|named2 pers2 name2 els2|? ? ?|? ? ?|pers2 name2 el2|mt free impl ptrs lps|? ? ?];
      cbn [tkind] in SK; try discriminate.
    + destruct els2; discriminate.
    + cbn [tid own_ok all_ok skel] in *. unfold coll1_id in E. apply NoCollide in E; auto.
      apply coll_idstr_inj in E.
      * destruct E as (_ & E & _). inversion E. f_equal. apply IHt1; tauto.
      * apply kinds_nonul; simpl; auto 6.
      * apply kinds_nonul; simpl; auto 6.
      * constructor; auto. apply tid_wf; tauto.
      * constructor; auto. apply tid_wf; tauto.
      * discriminate.
      * discriminate.
    + exfalso. cbn [own_ok] in O2. destruct O2 as (_ & O2 & _). apply O2. inversion SK. simpl; auto 6.
    + exfalso. exact O2.
  - (* shape *)
    destruct t2 as [sc|named2 pers2 name2 els2|? ? ?|? ? ?|? ? ?|mt2 free2 impl2 ptrs2 lps2|? ? ?];
      cbn [tkind] in SK; try discriminate.
    + exfalso. destruct els2; [discriminate|]. inversion SK as [SK']. cbn [own_ok] in O1.
      destruct O1 as (_ & O1 & _). apply O1. rewrite SK'. simpl; auto.
    + exfalso. inversion SK as [SK']. cbn [own_ok] in O1.
      destruct O1 as (_ & O1 & _). apply O1. rewrite SK'. simpl; auto.
    + exfalso. inversion SK as [SK']. cbn [own_ok] in O1.
      destruct O1 as (_ & O1 & _). apply O1. rewrite SK'. simpl; auto.
    + exfalso. inversion SK as [SK']. cbn [own_ok] in O1.
      destruct O1 as (_ & O1 & _). apply O1. rewrite SK'. simpl; auto 6.
    + cbn [tid] in E. unfold shape_id_of, shape_id in E. rewrite !shape_elems_plain in E.
      cbn [own_ok] in O1, O2.
      destruct O1 as (N1 & K1 & On1 & OS1 & Oset1). destruct O2 as (N2 & K2 & On2 & OS2 & Oset2).
      apply NoCollide in E; [| exact OS1 | exact OS2].
      cbn [all_ok] in X1, X2. destruct X1 as (_ & Xp1 & Xl1). destruct X2 as (_ & Xp2 & Xl2).
      apply go_forall in Xp1. apply go_forall in Xl1. apply go_forall in Xp2. apply go_forall in Xl2.
      destruct (plain_maps ptrs) as (PS1 & PN1 & PC1 & PL1 & PK1).
      destruct (plain_maps ptrs2) as (PS2 & PN2 & PC2 & PL2 & PK2).
      destruct (lprop_maps mt lps) as (LS1 & LN1 & LC1 & LL1).
      destruct (lprop_maps mt2 lps2) as (LS2 & LN2 & LC2 & LL2).
      rewrite !map_app in E.
      rewrite PS1, PN1, PC1, PL1, PK1, PS2, PN2, PC2, PL2, PK2, LS1, LN1, LC1, LL1, LS2, LN2, LC2, LL2 in E.
      apply Forall_app_l in Oset1. destruct Oset1 as [Osp1 Osl1].
      apply Forall_app_l in Oset2. destruct Oset2 as [Osp2 Osl2].
      rewrite map_app in On1, On2.
      apply shape_idstr_inj in E; auto.
      * destruct E as (EB & ESub & ENm & ECd & EI & ELp & ELk).
        inversion ELp as [ELp']. apply lp_split in ELp'. destruct ELp' as [Lp Ll].
        apply app_inv_len in ESub; [|rewrite !map_length; auto]. destruct ESub as [ESp ESl].
        apply app_inv_len in ENm; [|rewrite !map_length; auto]. destruct ENm as [ENp ENl].
        apply app_inv_len in ECd; [|rewrite !map_length; auto]. destruct ECd as [ECp ECl].
        inversion ELk as [ELk']. apply app_inv_len in ELk'; [|rewrite !map_length; auto].
        destruct ELk' as [EKp _].
        cbn [skel]. subst impl2. rewrite EB. f_equal.
        -- apply ptr_list_skel; auto.
           ++ apply (map_eq_pointwise sub_of); auto.
           ++ apply (map_eq_pointwise (fun p => pname (fst p))); auto.
           ++ apply (map_eq_pointwise (fun p => card_of (preq (fst p)) (pmulti (fst p)))); auto.
           ++ intros _. apply (map_eq_pointwise (fun p => plink (fst p))); auto.
        -- apply ptr_list_skel; auto.
           ++ apply (map_eq_pointwise sub_of); auto.
           ++ apply (map_eq_pointwise (fun p => pname (fst p))); auto.
           ++ apply (map_eq_pointwise (fun p => card_of (preq (fst p)) (pmulti (fst p)))); auto.
           ++ discriminate.
      * apply Forall_app; split; apply Forall_map.
        -- rewrite Forall_forall in Xp1, Osp1 |- *. intros p Hp. unfold sub_of.
           destruct (pmulti (fst p)); [apply H_wf|apply tid_wf; auto].
        -- rewrite Forall_forall in Xl1 |- *. intros p Hp. unfold sub_of.
           destruct (pmulti (fst p)); [apply H_wf|apply tid_wf; auto].
      * apply Forall_app; split; apply Forall_map.
        -- rewrite Forall_forall in Xp2 |- *. intros p Hp. unfold sub_of.
           destruct (pmulti (fst p)); [apply H_wf|apply tid_wf; auto].
        -- rewrite Forall_forall in Xl2 |- *. intros p Hp. unfold sub_of.
           destruct (pmulti (fst p)); [apply H_wf|apply tid_wf; auto].
      * apply Forall_app; split; apply Forall_map; apply Forall_forall; intros; apply okcard_card_of.
      * apply Forall_app; split; apply Forall_map; apply Forall_forall; intros; apply okcard_card_of.
      * rewrite !app_length, !map_length; reflexivity.
      * rewrite !app_length, !map_length; reflexivity.
      * rewrite !app_length, !map_length; reflexivity.
      * rewrite !app_length, !map_length; reflexivity.
      * intros l Hl; inversion Hl. rewrite !app_length, !repeat_length, !map_length. reflexivity.
      * intros l Hl; inversion Hl. rewrite !app_length, !repeat_length, !map_length. reflexivity.
      * intros l Hl; inversion Hl. rewrite !app_length, !map_length. reflexivity.
      * intros l Hl; inversion Hl. rewrite !app_length, !map_length. reflexivity.
    + exfalso. exact O2.
  - exfalso. exact O1.
Qed.

End Main.

(* ================================================================== functionality *)

(* what the schema layer determines (inputs of sertypes that are not part of any id) *)
Record senv := mkSenv {
  cattr : uuid -> str * bool;          (* collection: str(get_name()), get_is_persistent() by id *)
  ot_of : str -> objtype * bool;       (* material object type and is_free_object_type by name *)
  srcs : uuid -> list objtype;         (* sources of the pointers of a shape, by shape id *)
  posnames : nat -> list str           (* element names of an unnamed tuple of a given arity *)
}.

Section Functional.
Variable H : str -> uuid.
Variable c : cfg.
Variable env : senv.
Notation tid' := (tid H c).

Definition own_conf (t : ty) : Prop :=
  match t with
  | TScalar _ => True
  | TTuple named pers name els =>
      (name, pers) = cattr env (tid' t) /\ (named = false -> map fst els = posnames env (length els))
  | TArray pers name _ | TRange pers name _ | TMultiRange pers name _ =>
      (name, pers) = cattr env (tid' t)
  | TShape mt free _ ptrs lps =>
      (mt, free) = ot_of env (oname mt) /\
      map (fun p => psource (fst p)) ptrs = srcs env (tid' t) /\
      Forall (fun p => plink (fst p) = false /\ psource (fst p) = mt) lps
  | TInput _ _ _ => False
  end.

Fixpoint conf (t : ty) : Prop :=
  own_conf t /\
  match t with
  | TTuple _ _ _ els =>
      (fix go (l : list (str * ty)) : Prop :=
         match l with [] => True | p :: r => conf (snd p) /\ go r end) els
  | TArray _ _ el | TRange _ _ el | TMultiRange _ _ el => conf el
  | TShape _ _ _ ptrs lps =>
      (fix go (l : list (pinfo * ty)) : Prop :=
         match l with [] => True | p :: r => conf (snd p) /\ go r end) ptrs /\
      (fix go (l : list (pinfo * ty)) : Prop :=
         match l with [] => True | p :: r => conf (snd p) /\ go r end) lps
  | _ => True
  end.

Lemma cgo_forall : forall {A} (l : list (A * ty)),
  (fix go (l : list (A * ty)) : Prop :=
     match l with [] => True | p :: r => conf (snd p) /\ go r end) l
  <-> Forall (fun p => conf (snd p)) l.
Proof.
  induction l as [|p r IH]; split; intro X; auto.
  - destruct X as [X1 X2]. constructor; auto. apply IH; auto.
  - inversion X; subst. split; auto. apply IH; auto.
Qed.

Lemma conf_own : forall t, conf t -> own_conf t.
Proof. intros t X. destruct t; cbn [conf] in X; destruct X as [X _]; exact X. Qed.

(* ids do not look at what [skel] blanks *)
Lemma tid_skel : forall t, tid' (skel t) = tid' t.
Proof.
  induction t using ty_ind'; cbn [skel tid]; auto.
  - f_equal.
    + rewrite map_map. cbn [snd]. induction H0 as [|p l Hp HF IH]; simpl; auto. f_equal; auto.
    + destruct named; auto. rewrite map_map. cbn [fst]. reflexivity.
  - rewrite IHt; reflexivity.
  - rewrite IHt; reflexivity.
  - rewrite IHt; reflexivity.
  - unfold shape_id_of. cbn [oname].
    assert (A : map (ptr_elem H c tid') (map (fun p => (skel_pi false (fst p), skel (snd p))) ptrs)
                = map (fun p => option_map (fun e => mkElem (e_sub e) (e_name e) (e_lp e) (e_link e) (e_card e) (ORegular [] []))
                                          (ptr_elem H c tid' p)) ptrs).
    { rewrite map_map. induction H0 as [|p l Hp HF IH]; simpl; auto. f_equal; auto.
      unfold ptr_elem. cbn [fst snd skel_pi pname plink pmulti preq psource].
      destruct (negb (is_prefix (flt c) (pname (fst p)))); simpl; auto. rewrite Hp. reflexivity. }
    assert (B : forall mt', map (lprop_elem H tid' mt') (map (fun p => (skel_pi true (fst p), skel (snd p))) lps)
                = map (fun p => let e := lprop_elem H tid' mt p in
                                mkElem (e_sub e) (e_name e) (e_lp e) (e_link e) (e_card e) mt') lps).
    { intro mt'. rewrite map_map. induction H1 as [|p l Hp HF IH]; simpl; auto. f_equal; auto.
      unfold lprop_elem. cbn [fst snd skel_pi pname plink pmulti preq psource]. rewrite Hp. reflexivity. }
    rewrite A, B. clear A B.
    set (E1 := somes (map (fun p => option_map _ (ptr_elem H c tid' p)) ptrs)).
    set (E2 := somes (map (ptr_elem H c tid') ptrs)).
    assert (P : map e_sub E1 = map e_sub E2 /\ map e_name E1 = map e_name E2 /\ map e_card E1 = map e_card E2
                /\ map e_lp E1 = map e_lp E2 /\ map e_link E1 = map e_link E2).
    { unfold E1, E2. clear. induction ptrs as [|p l IH]; simpl; auto 10.
      destruct (ptr_elem H c tid' p); simpl; auto. destruct IH as (-> & -> & -> & -> & ->). auto 10. }
    destruct P as (P1 & P2 & P3 & P4 & P5).
    rewrite !map_app, P1, P2, P3, P4, P5, !map_map. reflexivity.
Qed.

Lemma skel_children_tid : forall t1 t2, skel t1 = skel t2 -> tid' t1 = tid' t2.
Proof. intros t1 t2 E. rewrite <- (tid_skel t1), <- (tid_skel t2), E. reflexivity. Qed.

Lemma pairs_eq : forall {A B} (l1 l2 : list (A * B)),
  map fst l1 = map fst l2 -> map snd l1 = map snd l2 -> l1 = l2.
Proof.
  induction l1 as [|[a b] l1 IH]; intros [|[a' b'] l2] E1 E2; simpl in *; try discriminate; auto.
  inversion E1; inversion E2; subst. f_equal; auto.
Qed.

Lemma pinfo_eq : forall a b, pname a = pname b -> plink a = plink b -> preq a = preq b ->
  pmulti a = pmulti b -> psource a = psource b -> a = b.
Proof. intros [] []; simpl; intros; subst; reflexivity. Qed.

Lemma map_snd_IH : forall {A} (l1 l2 : list (A * ty)),
  Forall (fun p => conf (snd p) -> forall t2, conf t2 -> skel (snd p) = skel t2 -> snd p = t2) l1 ->
  Forall (fun p => conf (snd p)) l1 -> Forall (fun p => conf (snd p)) l2 ->
  map (fun p => skel (snd p)) l1 = map (fun p => skel (snd p)) l2 ->
  map snd l1 = map snd l2.
Proof.
  intros A l1. induction l1 as [|p l1 IH]; intros [|q l2] HI X1 X2 E; simpl in E; try discriminate; auto.
  inversion HI; inversion X1; inversion X2; inversion E; subst. simpl. f_equal; auto.
Qed.

Theorem skel_conf_eq : forall t1, conf t1 -> forall t2, conf t2 -> skel t1 = skel t2 -> t1 = t2.
Proof.
  intros t1. induction t1 using ty_ind'; intros C1 t2 C2 E;
    pose proof (skel_children_tid _ _ E) as ET;
    pose proof (conf_own _ C1) as O1; pose proof (conf_own _ C2) as O2;
    destruct t2 as [sc|named2 pers2 name2 els2|pers2 name2 el2|pers2 name2 el2|pers2 name2 el2|mt2 free2 impl2 ptrs2 lps2|? ? ?];
    cbn [skel] in E; try discriminate; try (exfalso; exact O2); try (exfalso; exact O1).
  - inversion E; reflexivity.
  - inversion E as [[En Em]]. subst named2.
    cbn [own_conf] in O1, O2. rewrite ET in O1. destruct O1 as [A1 P1]. destruct O2 as [A2 P2].
    assert (name = name2 /\ pers = pers2) by (rewrite <- A2 in A1; inversion A1; auto).
    destruct H1 as [-> ->].
    cbn [conf] in C1, C2. destruct C1 as [_ C1]. destruct C2 as [_ C2].
    apply cgo_forall in C1. apply cgo_forall in C2.
    assert (L : length els = length els2) by (apply (f_equal (@length _)) in Em; rewrite !map_length in Em; auto).
    f_equal. apply pairs_eq.
    + destruct named.
      * apply (f_equal (map fst)) in Em. rewrite !map_map in Em. exact Em.
      * rewrite P1, P2, L; auto.
    + apply map_snd_IH; auto. apply (f_equal (map snd)) in Em. rewrite !map_map in Em. exact Em.
  - inversion E as [Ee]. cbn [own_conf conf] in *. rewrite ET in O1. rewrite <- O2 in O1. inversion O1; subst.
    f_equal. apply IHt1; tauto.
  - inversion E as [Ee]. cbn [own_conf conf] in *. rewrite ET in O1. rewrite <- O2 in O1. inversion O1; subst.
    f_equal. apply IHt1; tauto.
  - inversion E as [Ee]. cbn [own_conf conf] in *. rewrite ET in O1. rewrite <- O2 in O1. inversion O1; subst.
    f_equal. apply IHt1; tauto.
  - inversion E as [[En Ei Ep El]]. subst impl2.
    cbn [own_conf] in O1, O2. rewrite ET in O1.
    destruct O1 as (M1 & S1 & L1). destruct O2 as (M2 & S2 & L2).
    rewrite En in M1. rewrite <- M2 in M1. inversion M1; subst mt2 free2.
    cbn [conf] in C1, C2. destruct C1 as (_ & Cp1 & Cl1). destruct C2 as (_ & Cp2 & Cl2).
    apply cgo_forall in Cp1. apply cgo_forall in Cl1. apply cgo_forall in Cp2. apply cgo_forall in Cl2.
    f_equal.
    + apply pairs_eq.
      * rewrite <- S2 in S1.
        apply (f_equal (map fst)) in Ep. rewrite !map_map in Ep. cbn [fst] in Ep.
        clear -Ep S1. revert ptrs2 Ep S1. induction ptrs as [|p l IH]; intros [|q l2] Ep S1; simpl in *; try discriminate; auto.
        inversion Ep; inversion S1. f_equal; auto. apply pinfo_eq; auto.
      * apply map_snd_IH; auto. apply (f_equal (map snd)) in Ep. rewrite !map_map in Ep. exact Ep.
    + apply pairs_eq.
      * apply (f_equal (map fst)) in El. rewrite !map_map in El. cbn [fst] in El.
        clear -El L1 L2. revert lps2 El L2. induction lps as [|p l IH]; intros [|q l2] El L2; simpl in *; try discriminate; auto.
        inversion El; inversion L1; inversion L2; subst. f_equal; auto.
        apply pinfo_eq; auto; try tauto. destruct H5, H9. congruence. destruct H5, H9; congruence.
      * apply map_snd_IH; auto. apply (f_equal (map snd)) in El. rewrite !map_map in El. exact El.
Qed.

End Functional.
