(* C14 — Examples: the hypotheses of the theorems of Props.v are satisfiable on concrete,
   non-trivial types with the real hash (kept apart from Props.v only because evaluating
   SHA-1 inside Coq for every pair of entities takes a couple of minutes). *)
From Coq Require Import List NArith Bool.
From Verif.C14 Require Import Gen_Tags Model Spec ProofsBytes ProofsStr ProofsInj ProofsGraph Proofs Props.
Import ListNotations.
Open Scope N_scope.

(* ------------------------------------------------------------------ non-vacuity *)
(* The hypotheses of C14_roundtrip hold for a concrete nested type with the real hash
   (uuid5 over SHA-1 computed inside Coq), and describe succeeds on it. *)
Definition ex_str : scalar := Scalar ID_STR [115;116;100;58;58;115;116;114] false [] [].
Definition ex_int : scalar :=
  Scalar [0;0;0;0;0;0;0;0;0;0;0;0;0;0;1;5] [115;116;100;58;58;105;110;116;54;52] false [] [].
Definition ex_uuid : scalar := Scalar ID_UUID [115;116;100;58;58;117;117;105;100] false [] [].
Definition ex_cfg : cfg := mkCfg true false true [] ex_uuid.
Definition ex_t : ty :=
  TTuple true false [116]
         [([97], TScalar ex_str); ([98], TArray false [120] (TScalar ex_int))].

Lemma ex_reach : forall e, Reach ex_cfg ex_t e -> In e (ents ex_cfg ex_t).
Proof.
  intros e R. induction R as [|e e' R IH Hi].
  - left; reflexivity.
  - simpl in IH.
    repeat match goal with H : _ \/ _ |- _ => destruct H end; try contradiction; subst e;
      simpl in Hi;
      repeat match goal with H : _ \/ _ |- _ => destruct H end; try contradiction; subst e';
      simpl; tauto.
Qed.

Example C14_roundtrip_nonvacuous :
  inline_tn ex_cfg && negb (v2 ex_cfg) = false /\
  (forall e1 e2 z, Reach ex_cfg ex_t e1 -> Reach ex_cfg ex_t e2 -> eid uuid5 ex_cfg e1 = eid uuid5 ex_cfg e2 ->
                   eexp uuid5 ex_cfg z e1 = eexp uuid5 ex_cfg z e2) /\
  (forall e, Reach ex_cfg ex_t e -> ~ In (eid uuid5 ex_cfg e) (map (eid uuid5 ex_cfg) (proper ex_cfg e))) /\
  (forall e, Reach ex_cfg ex_t e -> wf_ent uuid5 ex_cfg e) /\
  exists b i, describe uuid5 ex_cfg ex_t = Ok (b, i).
Proof.
  split; [reflexivity|]. split; [|split; [|split]].
  - intros e1 e2 z R1 R2 E. apply ex_reach in R1. apply ex_reach in R2. simpl in R1, R2.
    repeat match goal with H : _ \/ _ |- _ => destruct H end; try contradiction; subst e1 e2;
      try reflexivity; exfalso; vm_compute in E; discriminate.
  - intros e R. apply ex_reach in R. simpl in R.
    repeat match goal with H : _ \/ _ |- _ => destruct H end; try contradiction; subst e;
      intro Hi; vm_compute in Hi;
      repeat match goal with H : _ \/ _ |- _ => destruct H end; try contradiction; discriminate.
  - intros e R. apply ex_reach in R. simpl in R.
    repeat match goal with H : _ \/ _ |- _ => destruct H end; try contradiction; subst e;
      vm_compute; repeat split; auto; repeat constructor.
  - eexists. eexists. vm_compute. reflexivity.
Qed.

(* The hypotheses of C14_id_injective / C14_id_functional hold for the real hash on two
   concrete, structurally different types. *)
Definition ex_t2 : ty := TArray false [121] (TScalar ex_str).
Definition ex_strs : list str :=
  [coll_idstr s_tuple [sid ex_str; tid uuid5 ex_cfg (TArray false [120] (TScalar ex_int))] (Some [[97]; [98]]);
   coll_idstr s_array [sid ex_int] None;
   coll_idstr s_array [sid ex_str] None].
Definition ex_S (s : str) : Prop := In s ex_strs.
Definition ex_G (g : uuid) : Prop := In g [ID_EMPTY_TUPLE; sid ex_str; sid ex_int].
Definition ex_Sc (s : scalar) : Prop := s = ex_str \/ s = ex_int.

Ltac ex_solve :=
  repeat match goal with
  | |- _ /\ _ => split
  | |- True => exact I
  | |- _ -> _ => intro
  | |- _ <> _ => first [discriminate | vm_compute; let E := fresh in intro E; discriminate]
  | |- wf_uuid _ => split; [reflexivity|repeat constructor]
  | |- Forall _ _ => constructor
  | |- okname _ => split; (let Hi := fresh in intro Hi; simpl in Hi; intuition discriminate)
  | |- ex_S _ => vm_compute; auto 10
  | |- ex_G _ => vm_compute; auto 10
  | |- ex_Sc _ => unfold ex_Sc; auto
  | |- all_ok _ _ _ _ _ _ => cbn [all_ok own_ok snd]
  end.

Example C14_id_injective_nonvacuous :
  (forall s, wf_uuid (uuid5 s)) /\ flt ex_cfg = [] /\ follow ex_cfg = true /\
  (forall a b, ex_S a -> ex_S b -> uuid5 a = uuid5 b -> a = b) /\
  (forall s g, ex_S s -> ex_G g -> uuid5 s <> g) /\
  ex_G ID_EMPTY_TUPLE /\
  (forall a b, ex_Sc a -> ex_Sc b -> sid a = sid b -> a = b) /\
  all_ok uuid5 ex_cfg ex_S ex_G ex_Sc ex_t /\ all_ok uuid5 ex_cfg ex_S ex_G ex_Sc ex_t2 /\
  skel ex_t <> skel ex_t2.
Proof.
  split; [exact p_uuid5_wf|]. split; [reflexivity|]. split; [reflexivity|].
  split; [|split; [|split; [|split; [|split; [|split]]]]].
  - intros a b Ha Hb E. unfold ex_S, ex_strs in Ha, Hb. simpl in Ha, Hb.
    repeat match goal with H : _ \/ _ |- _ => destruct H end; try contradiction; subst a b;
      try reflexivity; exfalso; vm_compute in E; discriminate.
  - intros s g Hs Hg E. unfold ex_S, ex_strs, ex_G in Hs, Hg. simpl in Hs, Hg.
    repeat match goal with H : _ \/ _ |- _ => destruct H end; try contradiction; subst s g;
      vm_compute in E; discriminate.
  - left; reflexivity.
  - intros a b [->| ->] [->| ->] E; try reflexivity; vm_compute in E; discriminate.
  - cbn [all_ok own_ok ex_t]. ex_solve.
  - cbn [all_ok own_ok ex_t2]. ex_solve.
  - intro E. discriminate.
Qed.

Print Assumptions C14_roundtrip_nonvacuous.
Print Assumptions C14_id_injective_nonvacuous.
