(* C14 — lemmas behind Props.v, assembled from
     ProofsBytes  (byte level: every emitted record is read back; stream = records in order)
     ProofsIds    (the returned id is the pure function [tid] of the term)
     ProofsStr    (string lemmas; uuid5 yields 16 bytes)
     ProofsInj    (the hashed strings determine their components; equal ids => equal skeletons;
                   with the schema-determined attributes, equal ids => equal terms)
     ProofsGraph  (encoder invariant: emitted records resolve to the expected descriptions) *)
From Coq Require Import List NArith Bool Lia.
From Verif.C14 Require Import Gen_Tags Model Spec ProofsBytes ProofsIds ProofsStr ProofsInj ProofsGraph.
Import ListNotations.
Open Scope N_scope.

Definition p_codec_roundtrip := parse_desc_ser.
Definition p_stream_parses := parse_stream.
Definition p_uuid5_wf := uuid5_wf.
Definition p_root_id := describe_root_id.

(* entities reachable from a root type (everything that can get a descriptor while it is described) *)
Inductive Reach (c : cfg) (root : ty) : entity -> Prop :=
| reach_root : Reach c root (ETy root)
| reach_step : forall e e', Reach c root e -> In e' (ents_e c e) -> Reach c root e'.

Lemma p_roundtrip : forall H c t b i,
  inline_tn c && negb (v2 c) = false ->
  (forall e1 e2 z, Reach c t e1 -> Reach c t e2 -> eid H c e1 = eid H c e2 ->
                   eexp H c z e1 = eexp H c z e2) ->
  (forall e, Reach c t e -> ~ In (eid H c e) (map (eid H c) (proper c e))) ->
  (forall e, Reach c t e -> wf_ent H c e) ->
  describe H c t = Ok (b, i) ->
  i = tid H c t /\ exists z, parse c b = Some (expect H c z t).
Proof.
  intros H c t b i Hanno IdDet Acyc Wf E.
  eapply (describe_parse H c (Reach c t)); eauto.
  - intros e e' R Hi. eapply reach_step; eauto.
  - apply reach_root.
Qed.

(* every descriptor is emitted once *)
Lemma p_emitted_once : forall H c t i s,
  inline_tn c && negb (v2 c) = false ->
  (forall e1 e2 z, Reach c t e1 -> Reach c t e2 -> eid H c e1 = eid H c e2 ->
                   eexp H c z e1 = eexp H c z e2) ->
  (forall e, Reach c t e -> ~ In (eid H c e) (map (eid H c) (proper c e))) ->
  (forall e, Reach c t e -> wf_ent H c e) ->
  desc_ty H c t st0 = Ok (i, s) ->
  NoDup (map node_id (nodes s)) /\ Forall (wf_node c) (nodes s).
Proof.
  intros H c t i s Hanno IdDet Acyc Wf E.
  destruct (ty_post H c (Reach c t) IdDet (fun e e' R Hi => reach_step c t e e' R Hi) Acyc Wf Hanno
                    t st0 i s (reach_root c t) (inv_st0 H c (Reach c t)) E) as [_ (I & _)].
  split.
  - rewrite (inv_ids _ _ _ _ I). apply (inv_nodup _ _ _ _ I).
  - apply (inv_wf _ _ _ _ I).
Qed.

(* protocol >= 2: every descriptor is prefixed by its own length *)
Lemma p_v2_lengths : forall c n b, v2 c = true -> ser c n = Some b ->
  exists body, ser_body c n = Some body /\ b = word_bytes (len body) ++ body /\ len body < M32.
Proof.
  intros c n b V E. unfold ser, lenpfx in E. destruct (ser_body c n) as [body|]; [|discriminate].
  rewrite V in E. unfold u32 in E. destruct (len body <? M32) eqn:Q; cbn [ocat] in E; [|discriminate].
  inversion E. exists body. rewrite app_nil_r. repeat split; auto. apply N.ltb_lt; auto.
Qed.

Definition p_idstr_collection := coll_idstr_inj.
Definition p_idstr_shape := shape_idstr_inj.
Definition p_idstr_set := set_idstr_inj.
Definition p_id_injective := id_inj.

Lemma p_id_functional : forall H, (forall s, wf_uuid (H s)) ->
  forall c, flt c = [] -> follow c = true ->
  forall (Sset : str -> Prop) (Gset : uuid -> Prop) (ScSet : scalar -> Prop) (env : senv),
  (forall a b, Sset a -> Sset b -> H a = H b -> a = b) ->
  (forall s g, Sset s -> Gset g -> H s <> g) ->
  Gset ID_EMPTY_TUPLE ->
  (forall a b, ScSet a -> ScSet b -> sid a = sid b -> a = b) ->
  forall t1 t2,
  all_ok H c Sset Gset ScSet t1 -> all_ok H c Sset Gset ScSet t2 ->
  conf H c env t1 -> conf H c env t2 ->
  tid H c t1 = tid H c t2 -> t1 = t2 /\ describe H c t1 = describe H c t2.
Proof.
  intros H Hwf c Hf Hl Sset Gset ScSet env NC Fr Ge Sc t1 t2 O1 O2 C1 C2 E.
  assert (t1 = t2).
  { eapply skel_conf_eq; eauto. eapply id_inj; eauto. }
  subst. auto.
Qed.
