(* C14 — lemmas behind Props.v (assembled from ProofsBytes / ProofsIds / ProofsGraph). *)
From Coq Require Import List NArith Bool Lia.
From Verif.C14 Require Import Gen_Tags Model ProofsBytes.
Import ListNotations.
Open Scope N_scope.

Definition p_codec_roundtrip := parse_desc_ser.
Definition p_stream_parses := parse_stream.
