(* C14 — specification-side definitions (no proofs): the content-derived id of a type
   term as a pure function [tid], the description a faithful descriptor must decode to
   [expect], well-formedness predicates, induction principles for the nested term types. *)
From Coq Require Import List NArith Bool.
From Verif.C14 Require Import Gen_Tags Model.
Import ListNotations.
Open Scope N_scope.

(* ------------------------------------------------------------------ induction principles *)

Section ScalarInd.
  Variable P : scalar -> Prop.
  Hypothesis HS : forall i n a anc en, Forall P anc -> P (Scalar i n a anc en).
  Fixpoint scalar_ind' (s : scalar) : P s :=
    match s with
    | Scalar i n a anc en =>
        HS i n a anc en
           ((fix go (l : list scalar) : Forall P l :=
               match l with
               | [] => Forall_nil P
               | x :: r => Forall_cons x (scalar_ind' x) (go r)
               end) anc)
    end.
End ScalarInd.

Section ObjInd.
  Variable P : objtype -> Prop.
  Hypothesis HR : forall i n, P (ORegular i n).
  Hypothesis HC : forall i n un it, Forall P un -> Forall P it -> P (OCompound i n un it).
  Fixpoint objtype_ind' (o : objtype) : P o :=
    match o with
    | ORegular i n => HR i n
    | OCompound i n un it =>
        let go := fix go (l : list objtype) : Forall P l :=
                    match l with
                    | [] => Forall_nil P
                    | x :: r => Forall_cons x (objtype_ind' x) (go r)
                    end in
        HC i n un it (go un) (go it)
    end.
End ObjInd.

Section TyInd.
  Variable P : ty -> Prop.
  Hypothesis HS : forall s, P (TScalar s).
  Hypothesis HT : forall named pers name els,
      Forall (fun p => P (snd p)) els -> P (TTuple named pers name els).
  Hypothesis HA : forall pers name el, P el -> P (TArray pers name el).
  Hypothesis HR : forall pers name el, P el -> P (TRange pers name el).
  Hypothesis HM : forall pers name el, P el -> P (TMultiRange pers name el).
  Hypothesis HO : forall mt free impl ptrs lps,
      Forall (fun p => P (snd p)) ptrs -> Forall (fun p => P (snd p)) lps ->
      P (TShape mt free impl ptrs lps).
  Hypothesis HI : forall mt free els,
      Forall (fun p => P (snd p)) els -> P (TInput mt free els).
  Fixpoint ty_ind' (t : ty) : P t :=
    match t with
    | TScalar s => HS s
    | TTuple named pers name els =>
        HT named pers name els
           ((fix go (l : list (str * ty)) : Forall (fun p => P (snd p)) l :=
               match l with
               | [] => Forall_nil _
               | x :: r => Forall_cons x (ty_ind' (snd x)) (go r)
               end) els)
    | TArray pers name el => HA pers name el (ty_ind' el)
    | TRange pers name el => HR pers name el (ty_ind' el)
    | TMultiRange pers name el => HM pers name el (ty_ind' el)
    | TShape mt free impl ptrs lps =>
        let go := fix go (l : list (pinfo * ty)) : Forall (fun p => P (snd p)) l :=
                    match l with
                    | [] => Forall_nil _
                    | x :: r => Forall_cons x (ty_ind' (snd x)) (go r)
                    end in
        HO mt free impl ptrs lps (go ptrs) (go lps)
    | TInput mt free els =>
        HI mt free els
           ((fix go (l : list (str * N * ty)) : Forall (fun p => P (snd p)) l :=
               match l with
               | [] => Forall_nil _
               | x :: r => Forall_cons x (ty_ind' (snd x)) (go r)
               end) els)
    end.
End TyInd.

(* ------------------------------------------------------------------ pure ids *)

Section Spec.
Variable H : str -> uuid.

(* the element record of a pointer, given the ids of target types *)
Definition ptr_elem (c : cfg) (f : ty -> uuid) (p : pinfo * ty) : option elem :=
  let pi := fst p in
  if negb (is_prefix (flt c) (pname pi)) then None
  else
    let base := if plink pi && negb (follow c) then sid (uuid_sc c) else f (snd p) in
    Some (mkElem (if pmulti pi then set_id H base else base)
                 (skipn (length (flt c)) (pname pi)) false (plink pi)
                 (card_of (preq pi) (pmulti pi)) (psource pi)).

Definition lprop_elem (f : ty -> uuid) (mt : objtype) (p : pinfo * ty) : elem :=
  let pi := fst p in
  let base := f (snd p) in
  mkElem (if pmulti pi then set_id H base else base) (pname pi) true false
         (card_of (preq pi) (pmulti pi)) mt.

Definition shape_id_of (mt : objtype) (impl : bool) (els : list elem) : uuid :=
  shape_id H (oname mt) (map e_sub els) (map e_name els) (map e_card els) impl
           (Some (map e_lp els)) (Some (map e_link els)).

(* the id [desc_ty] returns, as a function of the term alone *)
Fixpoint tid (c : cfg) (t : ty) : uuid :=
  match t with
  | TScalar sc => sid sc
  | TTuple named _ _ els =>
      tuple_id H (map (fun p => tid c (snd p)) els) (if named then Some (map fst els) else None)
  | TArray _ _ el => coll1_id H s_array (tid c el)
  | TRange _ _ el => coll1_id H s_range (tid c el)
  | TMultiRange _ _ el => coll1_id H s_multirange (tid c el)
  | TShape mt free impl ptrs lps =>
      shape_id_of mt impl (somes (map (ptr_elem c (tid c)) ptrs) ++ map (lprop_elem (tid c) mt) lps)
  | TInput mt free _ => shape_id_of mt false []
  end.

Definition shape_elems (c : cfg) (mt : objtype) (ptrs lps : list (pinfo * ty)) : list elem :=
  somes (map (ptr_elem c (tid c)) ptrs) ++ map (lprop_elem (tid c) mt) lps.

End Spec.

(* ------------------------------------------------------------------ expected descriptions *)
(* What a faithful descriptor of a type must decode to: exactly the names, element order,
   cardinalities, element types, tuple/array/range structure and enum labels of the type
   (plus, in protocol >= 2, schema names / ancestors / object types / element sources).
   [z] stands for the first descriptor of the stream: the source_type index of the elements of
   an ephemeral free shape is 0 ("should not be interpreted"), which the repo's own parse()
   nevertheless resolves. *)

Definition map_until {A B} (stop : A -> bool) (f : A -> B) : list A -> list B :=
  fix go (l : list A) : list B :=
    match l with
    | [] => []
    | a :: r => if stop a then [f a] else f a :: go r
    end.

Definition exp_topmost (f : scalar -> desc) : list scalar -> option desc :=
  fix go (l : list scalar) : option desc :=
    match l with
    | [] => None
    | a :: r => match go r with
                | Some x => Some x
                | None => if sabstract a then None else Some (f a)
                end
    end.

Section Expect.
Variable H : str -> uuid.
Variable c : cfg.
Variable z : desc.

Fixpoint exp_scalar (sc : scalar) : desc :=
  match sc with
  | Scalar id name ab anc en =>
      match topmost sc with
      | None => DEnum id None en
      | Some top =>
          let is_fund := uuid_eqb id (sid top) in
          if v2 c then
            let ancs := if is_fund then []
                        else map_until (fun a => uuid_eqb (sid a) (sid top)) exp_scalar anc in
            if is_nil en then DScalar id (Some (name, true)) (last (map Some ancs) None) (Some ancs)
            else DEnum id (Some (name, true, ancs)) en
          else if negb (is_nil en) then DEnum id None en
          else if is_fund then DBase id
          else match exp_topmost exp_scalar anc with
               | Some d => DScalar id None (Some d) None
               | None => DBase id
               end
      end
  end.

Fixpoint exp_obj (o : objtype) : desc :=
  match o with
  | ORegular id name => DObject id name true
  | OCompound id name un it =>
      match un with
      | _ :: _ => DCompound id name false OP_UNION (map exp_obj un)
      | [] => match it with
              | _ :: _ => DCompound id name false OP_INTERSECTION (map exp_obj it)
              | [] => DObject id name true
              end
      end
  end.

Definition hdr_exp (name : str) (pers : bool) : option (str * bool * list desc) :=
  if v2 c then Some (name, pers, []) else None.

Definition elem_flags (impl : bool) (e : elem) : N :=
  (if e_lp e then FLAG_IS_LINKPROP else 0)
  + (if (impl && str_eqb (e_name e) s_id) || str_eqb (e_name e) s_tid || str_eqb (e_name e) s_tname
     then FLAG_IS_IMPLICIT else 0)
  + (if e_link e then FLAG_IS_LINK else 0).

Definition delem_of (free impl : bool) (ed : elem * desc) : N * N * str * desc * option desc :=
  let e := fst ed in
  (elem_flags impl e, e_card e, e_name e, snd ed,
   if v2 c then (if free then Some z else Some (exp_obj (e_src e))) else None).

(* element record + description of its type, for a pointer / a link property *)
Definition ptr_ed (ft : ty -> uuid) (fd : ty -> desc) (p : pinfo * ty) : option (elem * desc) :=
  match ptr_elem H c ft p with
  | None => None
  | Some e =>
      let base := if plink (fst p) && negb (follow c) then exp_scalar (uuid_sc c) else fd (snd p) in
      Some (e, if pmulti (fst p) then DSet (e_sub e) base else base)
  end.

Definition lprop_ed (ft : ty -> uuid) (fd : ty -> desc) (mt : objtype) (p : pinfo * ty) : elem * desc :=
  let e := lprop_elem H ft mt p in
  (e, if pmulti (fst p) then DSet (e_sub e) (fd (snd p)) else fd (snd p)).

Definition shape_otype (mt : objtype) (free : bool) : option desc :=
  if v2 c && negb free then Some (exp_obj mt) else None.

Fixpoint expect (t : ty) : desc :=
  match t with
  | TScalar sc => exp_scalar sc
  | TTuple named pers name els =>
      if named then
        DNamedTuple (tid H c t) (hdr_exp name pers) (map (fun p => (fst p, expect (snd p))) els)
      else DTuple (tid H c t) (hdr_exp name pers) (map (fun p => expect (snd p)) els)
  | TArray pers name el => DArray (tid H c t) (hdr_exp name pers) (expect el)
  | TRange pers name el => DRange (tid H c t) (hdr_exp name pers) (expect el)
  | TMultiRange pers name el => DMultiRange (tid H c t) (hdr_exp name pers) (expect el)
  | TShape mt free impl ptrs lps =>
      DShape (tid H c t) (shape_otype mt free)
             (map (delem_of free impl)
                  (somes (map (ptr_ed (tid H c) expect) ptrs)
                     ++ map (lprop_ed (tid H c) expect mt) lps))
  | TInput mt free _ => DShape (tid H c t) (shape_otype mt free) []
  end.

(* ------------------------------------------------------------------ entities *)
(* everything that can get a descriptor of its own while a type is described *)
Inductive entity :=
| EScalar (s : scalar)
| EObj (o : objtype)
| ETy (t : ty)
| ESet (t : ty).

Definition eid (e : entity) : uuid :=
  match e with
  | EScalar s => sid s
  | EObj o => oid o
  | ETy t => tid H c t
  | ESet t => set_id H (tid H c t)
  end.

Definition eexp (e : entity) : desc :=
  match e with
  | EScalar s => exp_scalar s
  | EObj o => exp_obj o
  | ETy t => expect t
  | ESet t => DSet (set_id H (tid H c t)) (expect t)
  end.

Fixpoint ents_scalar (sc : scalar) : list entity :=
  match sc with
  | Scalar _ _ _ anc _ => EScalar sc :: flat_map ents_scalar anc
  end.

Fixpoint ents_obj (o : objtype) : list entity :=
  EObj o :: match o with
            | ORegular _ _ => []
            | OCompound _ _ un it => flat_map ents_obj un ++ flat_map ents_obj it
            end.

Fixpoint ents (t : ty) : list entity :=
  ETy t ::
  match t with
  | TScalar sc => ents_scalar sc
  | TTuple _ _ _ els => flat_map (fun p => ents (snd p)) els
  | TArray _ _ el | TRange _ _ el | TMultiRange _ _ el => ents el
  | TShape mt _ _ ptrs lps =>
      ents_obj mt ++ ents_scalar (uuid_sc c)
        ++ flat_map (fun p => ESet (snd p) :: ents_obj (psource (fst p)) ++ ents (snd p)) ptrs
        ++ flat_map (fun p => ESet (snd p) :: ents (snd p)) lps
  | TInput mt _ _ => ents_obj mt
  end.

(* the entities strictly below an entity *)
Definition proper (e : entity) : list entity :=
  match e with
  | EScalar s => tl (ents_scalar s)
  | EObj o => tl (ents_obj o)
  | ETy (TScalar s) => tl (ents_scalar s)       (* a scalar type is its own (only) descriptor *)
  | ETy t => tl (ents t)
  | ESet t => ents t
  end.

End Expect.
