(* C14 — specification-side definitions (no proofs): the content-derived id of a type
   term as a pure function [tid], the description a faithful descriptor must decode to
   [expect], well-formedness predicates, induction principles for the nested term types. *)
From Coq Require Import List NArith Bool.
From Verif.C14 Require Import Gen_Tags Model.
Import ListNotations.
Open Scope N_scope.

(* ------------------------------------------------------------------ induction principles *)

Section ScalarInd.
  Variable P : scalar -> Prop.
  Hypothesis HS : forall i n a anc en, Forall P anc -> P (Scalar i n a anc en).
  Fixpoint scalar_ind' (s : scalar) : P s :=
    match s with
    | Scalar i n a anc en =>
        HS i n a anc en
           ((fix go (l : list scalar) : Forall P l :=
               match l with
               | [] => Forall_nil P
               | x :: r => Forall_cons x (scalar_ind' x) (go r)
               end) anc)
    end.
End ScalarInd.

Section ObjInd.
  Variable P : objtype -> Prop.
  Hypothesis HR : forall i n, P (ORegular i n).
  Hypothesis HC : forall i n un it, Forall P un -> Forall P it -> P (OCompound i n un it).
  Fixpoint objtype_ind' (o : objtype) : P o :=
    match o with
    | ORegular i n => HR i n
    | OCompound i n un it =>
        let go := fix go (l : list objtype) : Forall P l :=
                    match l with
                    | [] => Forall_nil P
                    | x :: r => Forall_cons x (objtype_ind' x) (go r)
                    end in
        HC i n un it (go un) (go it)
    end.
End ObjInd.

Section TyInd.
  Variable P : ty -> Prop.
  Hypothesis HS : forall s, P (TScalar s).
  Hypothesis HT : forall named pers name els,
      Forall (fun p => P (snd p)) els -> P (TTuple named pers name els).
  Hypothesis HA : forall pers name el, P el -> P (TArray pers name el).
  Hypothesis HR : forall pers name el, P el -> P (TRange pers name el).
  Hypothesis HM : forall pers name el, P el -> P (TMultiRange pers name el).
  Hypothesis HO : forall mt free impl ptrs lps,
      Forall (fun p => P (snd p)) ptrs -> Forall (fun p => P (snd p)) lps ->
      P (TShape mt free impl ptrs lps).
  Hypothesis HI : forall mt free els,
      Forall (fun p => P (snd p)) els -> P (TInput mt free els).
  Fixpoint ty_ind' (t : ty) : P t :=
    match t with
    | TScalar s => HS s
    | TTuple named pers name els =>
        HT named pers name els
           ((fix go (l : list (str * ty)) : Forall (fun p => P (snd p)) l :=
               match l with
               | [] => Forall_nil _
               | x :: r => Forall_cons x (ty_ind' (snd x)) (go r)
               end) els)
    | TArray pers name el => HA pers name el (ty_ind' el)
    | TRange pers name el => HR pers name el (ty_ind' el)
    | TMultiRange pers name el => HM pers name el (ty_ind' el)
    | TShape mt free impl ptrs lps =>
        let go := fix go (l : list (pinfo * ty)) : Forall (fun p => P (snd p)) l :=
                    match l with
                    | [] => Forall_nil _
                    | x :: r => Forall_cons x (ty_ind' (snd x)) (go r)
                    end in
        HO mt free impl ptrs lps (go ptrs) (go lps)
    | TInput mt free els =>
        HI mt free els
           ((fix go (l : list (str * N * ty)) : Forall (fun p => P (snd p)) l :=
               match l with
               | [] => Forall_nil _
               | x :: r => Forall_cons x (ty_ind' (snd x)) (go r)
               end) els)
    end.
End TyInd.

(* ------------------------------------------------------------------ pure ids *)

Section Spec.
Variable H : str -> uuid.

(* the element record of a pointer, given the ids of target types *)
Definition ptr_elem (c : cfg) (f : ty -> uuid) (p : pinfo * ty) : option elem :=
  let pi := fst p in
  if negb (is_prefix (flt c) (pname pi)) then None
  else
    let base := if plink pi && negb (follow c) then sid (uuid_sc c) else f (snd p) in
    Some (mkElem (if pmulti pi then set_id H base else base)
                 (skipn (length (flt c)) (pname pi)) false (plink pi)
                 (card_of (preq pi) (pmulti pi)) (psource pi)).

Definition lprop_elem (f : ty -> uuid) (mt : objtype) (p : pinfo * ty) : elem :=
  let pi := fst p in
  let base := f (snd p) in
  mkElem (if pmulti pi then set_id H base else base) (pname pi) true false
         (card_of (preq pi) (pmulti pi)) mt.

Definition shape_id_of (mt : objtype) (impl : bool) (els : list elem) : uuid :=
  shape_id H (oname mt) (map e_sub els) (map e_name els) (map e_card els) impl
           (Some (map e_lp els)) (Some (map e_link els)).

(* the id [desc_ty] returns, as a function of the term alone *)
Fixpoint tid (c : cfg) (t : ty) : uuid :=
  match t with
  | TScalar sc => sid sc
  | TTuple named _ _ els =>
      tuple_id H (map (fun p => tid c (snd p)) els) (if named then Some (map fst els) else None)
  | TArray _ _ el => coll1_id H s_array (tid c el)
  | TRange _ _ el => coll1_id H s_range (tid c el)
  | TMultiRange _ _ el => coll1_id H s_multirange (tid c el)
  | TShape mt free impl ptrs lps =>
      shape_id_of mt impl (somes (map (ptr_elem c (tid c)) ptrs) ++ map (lprop_elem (tid c) mt) lps)
  | TInput mt free _ => shape_id_of mt false []
  end.

Definition shape_elems (c : cfg) (mt : objtype) (ptrs lps : list (pinfo * ty)) : list elem :=
  somes (map (ptr_elem c (tid c)) ptrs) ++ map (lprop_elem (tid c) mt) lps.

End Spec.
