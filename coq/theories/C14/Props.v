(* C14 — Type descriptors describe query types faithfully and uniquely.
   Statements only; each is closed by [exact] of a lemma of Proofs.v and followed by
   Print Assumptions (audited by the check on every run). *)
From Coq Require Import List NArith Bool.
From Verif.C14 Require Import Gen_Tags Model ProofsBytes Proofs.
Import ListNotations.
Open Scope N_scope.

(* every descriptor record the encoder can emit is read back by the decoder, in both
   protocol generations, whatever follows it in the stream *)
Theorem C14_codec_roundtrip : forall c n b r,
  ser c n = Some b -> wf_node c n -> parse_desc c (b ++ r) = PNode (erase c n) r.
Proof. exact p_codec_roundtrip. Qed.
Print Assumptions C14_codec_roundtrip.

(* decoding a stream of emitted records = resolving their position references in order *)
Theorem C14_stream_parses : forall c ns bs,
  Forall (wf_node c) ns -> ocat (map (ser c) ns) = Some bs ->
  parse c bs = match resolve_all c [] ns with
               | Some acc => last (map Some acc) None
               | None => None
               end.
Proof. exact p_stream_parses. Qed.
Print Assumptions C14_stream_parses.
