(* C14 — Type descriptors describe query types faithfully and uniquely.
   Statements only; each is closed by [exact] of a lemma of Proofs.v and followed by
   Print Assumptions (audited by the check on every run).

   Vocabulary.  Model.v: [describe H c t] = sertypes.describe on the type term t under
   configuration c (protocol generation, inline_typenames, follow_links, name_filter), with
   H = uuid5(TYPE_ID_NAMESPACE, .); [parse c b] = sertypes.parse; [ser]/[parse_desc] = one
   descriptor record.  Spec.v: [tid H c t] the content-derived id as a pure function of the
   term; [expect H c z t] the description a faithful descriptor decodes to (names, element
   order, cardinalities, element types, tuple/array/range structure, enum labels, and in
   protocol >= 2 names/ancestors/object types/sources); z is the stream's first descriptor,
   which is where the meaningless source index 0 of free-shape elements points.
   Proofs.v: [Reach c t e] = e is an entity (scalar, object type, type, set-of type) that can
   get a descriptor while t is described.  ProofsInj.v: [skel], [all_ok], [conf]. *)
From Coq Require Import List NArith Bool.
From Verif.C14 Require Import Gen_Tags Model Spec ProofsBytes ProofsStr ProofsInj ProofsGraph Proofs.
Import ListNotations.
Open Scope N_scope.

(* every descriptor record the encoder can emit is read back by the decoder, in both
   protocol generations, whatever follows it in the stream *)
Theorem C14_codec_roundtrip : forall c n b r,
  ser c n = Some b -> wf_node c n -> parse_desc c (b ++ r) = PNode (erase c n) r.
Proof. exact p_codec_roundtrip. Qed.
Print Assumptions C14_codec_roundtrip.

(* decoding a stream of emitted records = resolving their position references in order *)
Theorem C14_stream_parses : forall c ns bs,
  Forall (wf_node c) ns -> ocat (map (ser c) ns) = Some bs ->
  parse c bs = match resolve_all c [] ns with
               | Some acc => last (map Some acc) None
               | None => None
               end.
Proof. exact p_stream_parses. Qed.
Print Assumptions C14_stream_parses.

(* uuid5 (the model of uuidgen.uuid5 over SHA-1) always yields 16 bytes *)
Theorem C14_uuid5_wf : forall s, wf_uuid (uuid5 s).
Proof. exact p_uuid5_wf. Qed.
Print Assumptions C14_uuid5_wf.

(* the id returned for a type is a function of the type alone (not of what was emitted before) *)
Theorem C14_root_id : forall H c t b i, describe H c t = Ok (b, i) -> i = tid H c t.
Proof. exact p_root_id. Qed.
Print Assumptions C14_root_id.

(* FAITHFUL: whenever describe succeeds, the repo's own decoder reads the stream back as
   exactly the expected description of the type, and the returned id is the type's id;
   for every type term and both protocol generations.  Hypotheses: no inline annotations in
   protocol < 2 (parse() cannot read them, see Refuted.v); among the entities reachable from
   the type, ids determine descriptions and no entity has the id of an entity below it (both
   hold when ids identify schema objects and the hash has no collisions/cycles on the strings
   at hand: C14_id_injective); ids are 16 bytes and names valid UTF-8. *)
Theorem C14_roundtrip : forall H c t b i,
  inline_tn c && negb (v2 c) = false ->
  (forall e1 e2 z, Reach c t e1 -> Reach c t e2 -> eid H c e1 = eid H c e2 ->
                   eexp H c z e1 = eexp H c z e2) ->
  (forall e, Reach c t e -> ~ In (eid H c e) (map (eid H c) (proper c e))) ->
  (forall e, Reach c t e -> wf_ent H c e) ->
  describe H c t = Ok (b, i) ->
  i = tid H c t /\ exists z, parse c b = Some (expect H c z t).
Proof. exact p_roundtrip. Qed.
Print Assumptions C14_roundtrip.

(* under the same hypotheses every descriptor is emitted exactly once and is decodable *)
Theorem C14_emitted_once : forall H c t i s,
  inline_tn c && negb (v2 c) = false ->
  (forall e1 e2 z, Reach c t e1 -> Reach c t e2 -> eid H c e1 = eid H c e2 ->
                   eexp H c z e1 = eexp H c z e2) ->
  (forall e, Reach c t e -> ~ In (eid H c e) (map (eid H c) (proper c e))) ->
  (forall e, Reach c t e -> wf_ent H c e) ->
  desc_ty H c t st0 = Ok (i, s) ->
  NoDup (map node_id (nodes s)) /\ Forall (wf_node c) (nodes s).
Proof. exact p_emitted_once. Qed.
Print Assumptions C14_emitted_once.

(* protocol >= 2: every descriptor carries its own length *)
Theorem C14_v2_lengths : forall c n b, v2 c = true -> ser c n = Some b ->
  exists body, ser_body c n = Some body /\ b = word_bytes (len body) ++ body /\ len body < M32.
Proof. exact p_v2_lengths. Qed.
Print Assumptions C14_v2_lengths.

(* UNIQUE, string level: the string hashed for a collection id determines the kind, the
   element type ids and the element names — provided names contain neither NUL nor ':' *)
Theorem C14_idstr_collection : forall k1 k2 subs1 subs2 n1 n2,
  nonul k1 -> nonul k2 -> Forall wf_uuid subs1 -> Forall wf_uuid subs2 ->
  (forall l, n1 = Some l -> length l = length subs1 /\ Forall okname l) ->
  (forall l, n2 = Some l -> length l = length subs2 /\ Forall okname l) ->
  coll_idstr k1 subs1 n1 = coll_idstr k2 subs2 n2 ->
  k1 = k2 /\ subs1 = subs2 /\ names_norm n1 = names_norm n2.
Proof. exact p_idstr_collection. Qed.
Print Assumptions C14_idstr_collection.

(* ... and the string hashed for a shape id determines base type name, element type ids,
   names, cardinalities, implicit-id flag, link-property and link flags *)
Theorem C14_idstr_shape : forall b1 b2 subs1 subs2 nm1 nm2 cd1 cd2 i1 i2 lp1 lp2 lk1 lk2,
  nonul b1 -> nonul b2 -> Forall wf_uuid subs1 -> Forall wf_uuid subs2 ->
  Forall okname nm1 -> Forall okname nm2 -> Forall okcard cd1 -> Forall okcard cd2 ->
  length nm1 = length subs1 -> length cd1 = length subs1 ->
  length nm2 = length subs2 -> length cd2 = length subs2 ->
  (forall l, lp1 = Some l -> length l = length subs1) ->
  (forall l, lp2 = Some l -> length l = length subs2) ->
  (forall l, lk1 = Some l -> length l = length subs1) ->
  (forall l, lk2 = Some l -> length l = length subs2) ->
  shape_idstr b1 subs1 nm1 cd1 i1 lp1 lk1 = shape_idstr b2 subs2 nm2 cd2 i2 lp2 lk2 ->
  b1 = b2 /\ subs1 = subs2 /\ nm1 = nm2 /\ cd1 = cd2 /\ i1 = i2 /\ lp1 = lp2 /\ lk1 = lk2.
Proof. exact p_idstr_shape. Qed.
Print Assumptions C14_idstr_shape.

(* UNIQUE, type level: structurally different types get different ids.  For any hash H with
   16-byte outputs, default options (no name filter, links followed): if H has no collision
   among the strings hashed for the two types (Sset), no hashed id equals a given schema id
   (Gset) and a scalar id identifies one scalar type (ScSet), then equal ids imply equal
   skeletons (names, order, cardinalities, element types, collection structure, enum labels
   via the scalar).  [all_ok] also requires names free of NUL and ':' and base type names
   different from the collection kinds: Refuted.v shows the ':' condition is necessary. *)
Theorem C14_id_injective : forall H : str -> uuid, (forall s, wf_uuid (H s)) ->
  forall c, flt c = [] -> follow c = true ->
  forall (Sset : str -> Prop) (Gset : uuid -> Prop) (ScSet : scalar -> Prop),
  (forall a b, Sset a -> Sset b -> H a = H b -> a = b) ->
  (forall s g, Sset s -> Gset g -> H s <> g) ->
  Gset ID_EMPTY_TUPLE ->
  (forall a b, ScSet a -> ScSet b -> sid a = sid b -> a = b) ->
  forall t1, all_ok H c Sset Gset ScSet t1 -> forall t2, all_ok H c Sset Gset ScSet t2 ->
  tid H c t1 = tid H c t2 -> skel t1 = skel t2.
Proof. exact p_id_injective. Qed.
Print Assumptions C14_id_injective.

(* Equal ids imply byte-identical descriptors — when, in addition, the attributes that never
   enter an id are functions of what does ([conf]: one schema, in which a collection id
   determines the collection's schema name and persistence, a type name its object type and a
   shape id the sources of its elements).  Refuted.v shows that sertypes itself does not
   guarantee [conf]: element sources and collection names can differ under one id. *)
Theorem C14_id_functional : forall H, (forall s, wf_uuid (H s)) ->
  forall c, flt c = [] -> follow c = true ->
  forall (Sset : str -> Prop) (Gset : uuid -> Prop) (ScSet : scalar -> Prop) (env : senv),
  (forall a b, Sset a -> Sset b -> H a = H b -> a = b) ->
  (forall s g, Sset s -> Gset g -> H s <> g) ->
  Gset ID_EMPTY_TUPLE ->
  (forall a b, ScSet a -> ScSet b -> sid a = sid b -> a = b) ->
  forall t1 t2,
  all_ok H c Sset Gset ScSet t1 -> all_ok H c Sset Gset ScSet t2 ->
  conf H c env t1 -> conf H c env t2 ->
  tid H c t1 = tid H c t2 -> t1 = t2 /\ describe H c t1 = describe H c t2.
Proof. exact p_id_functional. Qed.
Print Assumptions C14_id_functional.

(* Non-vacuity: theories/C14/PropsExamples.v instantiates the hypotheses of C14_roundtrip and of
   C14_id_injective / C14_id_functional with the real hash (uuid5 over SHA-1 computed inside Coq)
   on concrete nested types; Refuted.v shows which hypotheses cannot be dropped. *)
