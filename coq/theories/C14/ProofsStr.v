(* C14 — the strings that are hashed into content-derived ids are injective encodings of
   their components (under stated conditions on the component strings), and uuid5 always
   yields 16 bytes. *)
From Coq Require Import List NArith Bool Lia.
From Verif.C14 Require Import Gen_Tags Model Spec.
Import ListNotations.
Open Scope N_scope.

(* ------------------------------------------------------------------ generic list facts *)

Lemma split_first : forall (c : N) (a a' b b' : list N),
  ~ In c a -> ~ In c a' -> a ++ c :: b = a' ++ c :: b' -> a = a' /\ b = b'.
Proof.
  induction a as [|x a IH]; intros a' b b' Ha Ha' E.
  - destruct a' as [|y a']; simpl in E.
    + inversion E; auto.
    + inversion E; subst. exfalso. apply Ha'. left; reflexivity.
  - destruct a' as [|y a']; simpl in E.
    + inversion E; subst. exfalso. apply Ha. left; reflexivity.
    + inversion E; subst. destruct (IH a' b b') as [-> ->]; auto.
      * intro; apply Ha; right; assumption.
      * intro; apply Ha'; right; assumption.
Qed.

Lemma app_inv_len : forall {A} (a a' b b' : list A),
  length a = length a' -> a ++ b = a' ++ b' -> a = a' /\ b = b'.
Proof.
  induction a as [|x a IH]; intros [|y a'] b b' L E; simpl in *; try discriminate; auto.
  inversion E; subst. destruct (IH a' b b') as [-> ->]; auto.
Qed.

Lemma not_in_app : forall {A} (x : A) l1 l2, ~ In x l1 -> ~ In x l2 -> ~ In x (l1 ++ l2).
Proof. intros A x l1 l2 H1 H2 Hi. apply in_app_or in Hi. tauto. Qed.

(* ------------------------------------------------------------------ join *)

Lemma join_cons2 : forall sep x y r, join sep (x :: y :: r) = x ++ sep ++ join sep (y :: r).
Proof. reflexivity. Qed.

Lemma join_one : forall sep x, join sep [x] = x.
Proof. reflexivity. Qed.

Lemma join_not_in : forall (c : N) sep l,
  ~ In c sep -> Forall (fun x => ~ In c x) l -> ~ In c (join sep l).
Proof.
  intros c sep l Hs HF. induction HF as [|x l Hx HF IH]; simpl; auto.
  destruct l as [|y r]; auto.
  apply not_in_app; auto. apply not_in_app; auto.
Qed.

(* pieces of one fixed positive length *)
Lemma join_len_ge : forall (sep x : str) (r : list str),
  (length x <= length (join sep (@cons str x r)))%nat.
Proof.
  intros sep x r. destruct r; [rewrite join_one; lia|]. rewrite join_cons2, app_length. lia.
Qed.

Lemma join_fixed_inj : forall (n : nat) sep (l1 l2 : list str),
  (0 < n)%nat ->
  Forall (fun x => length x = n) l1 -> Forall (fun x => length x = n) l2 ->
  join sep l1 = join sep l2 -> l1 = l2.
Proof.
  intros n sep l1. induction l1 as [|x r IH]; intros l2 Hn F1 F2 E.
  - destruct l2 as [|y r']; auto. inversion F2; subst. exfalso.
    pose proof (join_len_ge sep y r') as L.
    assert (LL : length (join sep (y :: r')) = length (join sep [])) by (f_equal; symmetry; exact E).
    change (length (join sep [])) with 0%nat in LL. lia.
  - destruct l2 as [|y r'].
    + inversion F1; subst. exfalso.
      pose proof (join_len_ge sep x r) as L.
      assert (LL : length (join sep (x :: r)) = length (join sep [])) by (f_equal; exact E).
      change (length (join sep [])) with 0%nat in LL. lia.
    + inversion F1; inversion F2; subst.
      assert (Hxy : length x = length y) by congruence.
      destruct r as [|x2 r]; destruct r' as [|y2 r'].
      * simpl in E. subst; reflexivity.
      * rewrite join_one, join_cons2 in E. exfalso.
        assert (L := f_equal (@length N) E). rewrite !app_length in L.
        inversion H6; subst. pose proof (join_len_ge sep y2 r'). lia.
      * rewrite join_one, join_cons2 in E. exfalso.
        assert (L := f_equal (@length N) E). rewrite !app_length in L.
        inversion H2; subst. pose proof (join_len_ge sep x2 r). lia.
      * rewrite !join_cons2 in E.
        destruct (app_inv_len _ _ _ _ Hxy E) as [-> E'].
        apply app_inv_head in E'. f_equal. apply IH; auto.
Qed.

(* pieces that do not contain the first character of the separator; same number of pieces *)
Lemma join_nosep_inj : forall (c : N) sep' (l1 l2 : list str),
  length l1 = length l2 ->
  Forall (fun x => ~ In c x) l1 -> Forall (fun x => ~ In c x) l2 ->
  join (c :: sep') l1 = join (c :: sep') l2 -> l1 = l2.
Proof.
  intros c sep' l1. induction l1 as [|x r IH]; intros [|y r'] L F1 F2 E; simpl in L; try discriminate; auto.
  inversion F1; inversion F2; subst.
  destruct r as [|x2 r]; destruct r' as [|y2 r']; simpl in L; try discriminate.
  - simpl in E. subst; reflexivity.
  - rewrite !join_cons2 in E. simpl in E.
    destruct (split_first _ _ _ _ _ H1 H5 E) as [-> E'].
    apply app_inv_head in E'. f_equal. apply IH; auto.
Qed.

(* ------------------------------------------------------------------ uuid strings *)

Definition wf_uuid (u : uuid) : Prop := length u = 16%nat /\ Forall (fun b => b < 256) u.

Definition is_hexd (ch : N) : Prop := (48 <= ch <= 57) \/ (97 <= ch <= 102).

Lemma hexd_range : forall n, n < 16 -> is_hexd (hexd n).
Proof.
  intros n Hn. unfold hexd, is_hexd. destruct (n <? 10) eqn:E.
  - apply N.ltb_lt in E. left; lia.
  - apply N.ltb_ge in E. right; lia.
Qed.

Lemma hexd_inj : forall a b, a < 16 -> b < 16 -> hexd a = hexd b -> a = b.
Proof.
  intros a b Ha Hb E. unfold hexd in E.
  destruct (a <? 10) eqn:Ea; destruct (b <? 10) eqn:Eb;
    try apply N.ltb_lt in Ea; try apply N.ltb_lt in Eb;
    try apply N.ltb_ge in Ea; try apply N.ltb_ge in Eb; lia.
Qed.

Lemma hex2_inj : forall a b, a < 256 -> b < 256 -> hex2 a = hex2 b -> a = b.
Proof.
  intros a b Ha Hb E. unfold hex2 in E. inversion E.
  assert (a / 16 < 16) by (apply N.div_lt_upper_bound; lia).
  assert (b / 16 < 16) by (apply N.div_lt_upper_bound; lia).
  assert (a mod 16 < 16) by (apply N.mod_lt; lia).
  assert (b mod 16 < 16) by (apply N.mod_lt; lia).
  apply hexd_inj in H0; auto. apply hexd_inj in H1; auto.
  rewrite (N.div_mod' a 16), (N.div_mod' b 16). congruence.
Qed.

Lemma hexs_inj : forall l1 l2, length l1 = length l2 ->
  Forall (fun b => b < 256) l1 -> Forall (fun b => b < 256) l2 -> hexs l1 = hexs l2 -> l1 = l2.
Proof.
  induction l1 as [|a l1 IH]; intros [|b l2] L F1 F2 E; simpl in L; try discriminate; auto.
  inversion F1; inversion F2; subst. unfold hexs in E. simpl in E. inversion E.
  assert (a = b) by (apply hex2_inj; auto; unfold hex2; congruence).
  subst. f_equal. apply IH; auto.
Qed.

Lemma hexs_length : forall l, length (hexs l) = (2 * length l)%nat.
Proof. induction l; simpl; auto. unfold hexs in *. simpl. rewrite IHl. lia. Qed.

Lemma hexs_chars : forall l, Forall (fun b => b < 256) l -> Forall is_hexd (hexs l).
Proof.
  induction 1; simpl; constructor.
  - apply hexd_range. apply N.div_lt_upper_bound; lia.
  - constructor.
    + apply hexd_range. apply N.mod_lt; lia.
    + assumption.
Qed.

Definition uuid_char (ch : N) : Prop := is_hexd ch \/ ch = 45.

Lemma Forall_app_intro : forall {A} (P : A -> Prop) l1 l2, Forall P l1 -> Forall P l2 -> Forall P (l1 ++ l2).
Proof. intros. apply Forall_app; auto. Qed.

Lemma Forall_firstn : forall {A} (P : A -> Prop) n l, Forall P l -> Forall P (firstn n l).
Proof.
  intros A P n. induction n; intros l HF; simpl; auto. destruct l; auto. inversion HF; subst.
  constructor; auto.
Qed.
Lemma Forall_skipn : forall {A} (P : A -> Prop) n l, Forall P l -> Forall P (skipn n l).
Proof.
  intros A P n. induction n; intros l HF; simpl; auto. destruct l; auto. inversion HF; subst. auto.
Qed.

Lemma uuid_str_chars : forall u, wf_uuid u -> Forall uuid_char (uuid_str u).
Proof.
  intros u [L F]. unfold uuid_str.
  assert (HX : forall l, Forall (fun b => b < 256) l -> Forall uuid_char (hexs l)).
  { intros l Hl. eapply Forall_impl; [|apply hexs_chars; exact Hl]. intros; left; assumption. }
  assert (D : Forall uuid_char [45]) by (constructor; [right; reflexivity|constructor]).
  repeat apply Forall_app_intro; auto; apply HX;
    repeat first [apply Forall_firstn | apply Forall_skipn]; assumption.
Qed.

Lemma uuid_str_length : forall u, length u = 16%nat -> length (uuid_str u) = 36%nat.
Proof.
  intros u L. do 17 (destruct u as [|? u]; simpl in L; try discriminate). reflexivity.
Qed.

Lemma uuid_str_inj : forall u v, wf_uuid u -> wf_uuid v -> uuid_str u = uuid_str v -> u = v.
Proof.
  intros u v [Lu Fu] [Lv Fv] E.
  do 17 (destruct u as [|? u]; simpl in Lu; try discriminate).
  do 17 (destruct v as [|? v]; simpl in Lv; try discriminate).
  unfold uuid_str, hexs in E. simpl in E.
  repeat match goal with Hf : Forall _ (_ :: _) |- _ => inversion Hf; subst; clear Hf end.
  inversion E.
  repeat match goal with
  | Ha : hexd (?a / 16) = hexd (?b / 16), Hb : hexd (?a mod 16) = hexd (?b mod 16) |- _ =>
      assert (a = b) by (apply hex2_inj; auto; unfold hex2; congruence); clear Ha Hb
  end.
  subst. reflexivity.
Qed.

Lemma uuid_char_not : forall ch, uuid_char ch -> ch <> 0 /\ ch <> 58 /\ ch <> 59.
Proof. intros ch [[Hc|Hc]|Hc]; lia. Qed.

Lemma uuid_str_no : forall u c, wf_uuid u -> (c = 0 \/ c = 58 \/ c = 59) -> ~ In c (uuid_str u).
Proof.
  intros u c W Hc Hi. pose proof (uuid_str_chars u W) as F. rewrite Forall_forall in F.
  apply F in Hi. apply uuid_char_not in Hi. lia.
Qed.

Lemma join_uuid_inj : forall l1 l2, Forall wf_uuid l1 -> Forall wf_uuid l2 ->
  join [58] (map uuid_str l1) = join [58] (map uuid_str l2) -> l1 = l2.
Proof.
  intros l1 l2 F1 F2 E.
  assert (M : map uuid_str l1 = map uuid_str l2).
  { apply (join_fixed_inj 36 [58]); auto; try lia.
    - apply Forall_map. eapply Forall_impl; [|exact F1]. intros a [L _]. apply uuid_str_length; auto.
    - apply Forall_map. eapply Forall_impl; [|exact F2]. intros a [L _]. apply uuid_str_length; auto. }
  clear E. revert l2 F2 M. induction F1 as [|x l1 Wx F1 IH]; intros [|y l2] F2 M; simpl in M; try discriminate; auto.
  inversion F2; subst. inversion M. f_equal; auto. apply uuid_str_inj; auto.
Qed.

Lemma join_uuid_nonul : forall l c, Forall wf_uuid l -> (c = 0 \/ c = 59) ->
  ~ In c (join [58] (map uuid_str l)).
Proof.
  intros l c F Hc. apply join_not_in.
  - simpl. intros [X|[]]. lia.
  - apply Forall_map. eapply Forall_impl; [|exact F]. intros a Wa. apply uuid_str_no; auto. lia.
Qed.

(* ------------------------------------------------------------------ repr of flags *)

Lemma repr_bool_inj : forall a b r1 r2, repr_bool a ++ r1 = repr_bool b ++ r2 -> a = b /\ r1 = r2.
Proof. intros [|] [|] r1 r2 E; simpl in E; inversion E; auto. Qed.

Lemma repr_bool_chars : forall a c, (c = 0 \/ c = 59 \/ c = 44 \/ c = 93) -> ~ In c (repr_bool a).
Proof. intros [|] c Hc Hi; simpl in Hi; lia. Qed.

Lemma repr_bools_inj : forall l1 l2, length l1 = length l2 -> repr_bools l1 = repr_bools l2 -> l1 = l2.
Proof.
  intros l1 l2 L E. unfold repr_bools in E. inversion E as [E'].
  apply app_inj_tail in E'. destruct E' as [E' _].
  assert (M : map repr_bool l1 = map repr_bool l2).
  { apply (join_nosep_inj 44 [32]); auto.
    - rewrite !map_length; auto.
    - apply Forall_map. apply Forall_forall. intros; apply repr_bool_chars; lia.
    - apply Forall_map. apply Forall_forall. intros; apply repr_bool_chars; lia. }
  clear -M. revert l2 M. induction l1 as [|a l1 IH]; intros [|b l2] M; simpl in M; try discriminate; auto.
  inversion M. f_equal; auto. destruct a, b; simpl in *; try discriminate; auto.
Qed.

Lemma repr_bools_no_semi : forall l c, (c = 0 \/ c = 59) -> ~ In c (repr_bools l).
Proof.
  intros l c Hc. unfold repr_bools. apply not_in_app.
  - simpl; lia.
  - apply not_in_app.
    + apply join_not_in.
      * simpl; lia.
      * apply Forall_map. apply Forall_forall. intros; apply repr_bool_chars; lia.
    + simpl; lia.
Qed.

(* ------------------------------------------------------------------ uuid5 yields 16 bytes *)

Lemma word_bytes_wf : forall w, length (word_bytes w) = 4%nat /\ Forall (fun b => b < 256) (word_bytes w).
Proof.
  intros w. split; [reflexivity|]. unfold word_bytes.
  repeat constructor; apply N.mod_lt; lia.
Qed.

Lemma sha1_wf : forall m, length (sha1 m) = 20%nat /\ Forall (fun b => b < 256) (sha1 m).
Proof.
  intros m. unfold sha1.
  destruct (sha_blocks _ _ _) as [[[[h0 h1] h2] h3] h4].
  split.
  - rewrite !app_length. repeat rewrite (proj1 (word_bytes_wf _)). reflexivity.
  - repeat apply Forall_app_intro; apply word_bytes_wf.
Qed.

Lemma log2_lt8 : forall a, a < 256 -> N.log2 a < 8.
Proof.
  intros a Ha. destruct (N.eq_dec a 0) as [->|Hz]; [reflexivity|].
  apply N.log2_lt_pow2; [lia|]. exact Ha.
Qed.

Lemma lor_lt_256 : forall a b, a < 256 -> b < 256 -> N.lor a b < 256.
Proof.
  intros a b Ha Hb. destruct (N.eq_dec (N.lor a b) 0) as [E|E]; [rewrite E; reflexivity|].
  apply (N.log2_lt_pow2 (N.lor a b) 8); [lia|]. rewrite N.log2_lor.
  apply N.max_lub_lt; apply log2_lt8; assumption.
Qed.

Lemma land_lt_256 : forall a m, m < 256 -> N.land a m < 256.
Proof.
  intros a m Hm. destruct (N.eq_dec (N.land a m) 0) as [E|E]; [rewrite E; reflexivity|].
  apply (N.log2_lt_pow2 (N.land a m) 8); [lia|].
  eapply N.le_lt_trans; [apply N.log2_land|]. apply N.min_lt_iff. right. apply log2_lt8; assumption.
Qed.

Theorem uuid5_wf : forall s, wf_uuid (uuid5 s).
Proof.
  intros s. unfold uuid5. destruct (sha1_wf (NS_TYPE_ID ++ s)) as [L F].
  remember (sha1 (NS_TYPE_ID ++ s)) as d. clear Heqd.
  do 21 (destruct d as [|? d]; simpl in L; try discriminate).
  repeat match goal with Hf : Forall _ (_ :: _) |- _ => inversion Hf; subst; clear Hf end.
  unfold uuid5_patch, wf_uuid. cbn [firstn length]. split; [reflexivity|].
  repeat constructor; auto.
  - apply lor_lt_256; [apply land_lt_256; reflexivity|reflexivity].
  - apply lor_lt_256; [apply land_lt_256; reflexivity|reflexivity].
Qed.
