(* C14 — executable model of edb/server/compiler/sertypes.py
   (describe / describe_params / describe_input_shape / parse) and of
   edb/common/uuidgen.uuid5 (SHA-1).  Executable definitions only.

   Strings are lists of UTF-8 bytes (N); every separator the code uses (':', NUL, "set-of::",
   repr() of bool lists) is ASCII, so joining code points and then encoding (what Python does)
   equals joining the encoded strings (what the model does).

   The encoder is written as: walk the type exactly like the Python walks it, keeping
   [pos] (= Context.uuid_to_pos, insertion order) and the list of emitted descriptors
   [nodes] (= Context.buffer, one abstract record per b''.join(buf)); [ser] turns a record
   into the bytes of that buffer entry.  The decoder is [parse].

   Inputs the real code rejects and how the model says so:
     Err EInternal  errors.InternalServerError  (multi link with follow_links=False; implicit
                    id / __tid__ / __tname__ element of the wrong type)
     Err EAssert    AssertionError  (object-type descriptor requested in protocol < 2.0)
     Err ESchema    errors.SchemaError  (scalar without a non-abstract ancestor)
     Err EStruct    struct.error  (count/position >= 2^16, length >= 2^32)
     Err EKey       KeyError  (reference to an id that was never registered; unreachable) *)
From Coq Require Import List NArith Bool.
From Verif.C14 Require Import Gen_Tags.
Import ListNotations.
Open Scope N_scope.

Definition str := list N.
Definition bytes := list N.
Definition uuid := list N.

(* ------------------------------------------------------------------ generic helpers *)

Definition len {A} (l : list A) : N := N.of_nat (length l).

Fixpoint list_eqb {A} (eqb : A -> A -> bool) (a b : list A) : bool :=
  match a, b with
  | [], [] => true
  | x :: a', y :: b' => eqb x y && list_eqb eqb a' b'
  | _, _ => false
  end.
Definition str_eqb : str -> str -> bool := list_eqb N.eqb.
Definition uuid_eqb : uuid -> uuid -> bool := list_eqb N.eqb.

Fixpoint join (sep : str) (l : list str) : str :=
  match l with
  | [] => []
  | x :: r => match r with [] => x | _ => x ++ sep ++ join sep r end
  end.

Fixpoint is_prefix (p s : str) : bool :=
  match p, s with
  | [], _ => true
  | a :: p', b :: s' => N.eqb a b && is_prefix p' s'
  | _ :: _, [] => false
  end.

Definition b2n (b : bool) : N := if b then 1 else 0.

Inductive err := EInternal | EAssert | ESchema | EStruct | EKey.
Inductive res (A : Type) := Ok (a : A) | Err (e : err).
Arguments Ok {A} a.
Arguments Err {A} e.
Definition bind {A B} (r : res A) (f : A -> res B) : res B :=
  match r with Ok a => f a | Err e => Err e end.
Notation "x <- c1 ;; c2" := (bind c1 (fun x => c2))
  (at level 61, c1 at next level, right associativity).
Notation "' pat <- c1 ;; c2" := (bind c1 (fun x => match x with pat => c2 end))
  (at level 61, pat pattern, c1 at next level, right associativity).

(* ------------------------------------------------------------------ SHA-1, uuid5 *)

Definition M32 : N := 4294967296.
Definition w32 (x : N) : N := x mod M32.
Definition rotl (n x : N) : N := w32 (N.lor (N.shiftl x n) (N.shiftr x (32 - n))).
Definition not32 (x : N) : N := N.lxor (w32 x) 4294967295.
Definition be32 (a b c d : N) : N := ((a * 256 + b) * 256 + c) * 256 + d.

Fixpoint words (l : bytes) : list N :=
  match l with
  | a :: b :: c :: d :: r => be32 a b c d :: words r
  | _ => []
  end.

Definition word_bytes (w : N) : bytes :=
  [(w / 16777216) mod 256; (w / 65536) mod 256; (w / 256) mod 256; w mod 256].

Definition sha_pad (msg : bytes) : bytes :=
  let l := len msg in
  let k := (119 - (l mod 64)) mod 64 in
  let bits := l * 8 in
  msg ++ [128] ++ repeat 0 (N.to_nat k)
      ++ word_bytes (bits / M32) ++ word_bytes (bits mod M32).

Definition step_win (win : list N) : list N :=
  match win with
  | w0 :: rest =>
      rest ++ [rotl 1 (N.lxor (N.lxor (nth 13 win 0) (nth 8 win 0)) (N.lxor (nth 2 win 0) w0))]
  | [] => []
  end.

Definition sha_f (i b c d : N) : N * N :=
  if i <? 20 then (N.lor (N.land b c) (N.land (not32 b) d), 1518500249)
  else if i <? 40 then (N.lxor (N.lxor b c) d, 1859775393)
  else if i <? 60 then (N.lor (N.lor (N.land b c) (N.land b d)) (N.land c d), 2400959708)
  else (N.lxor (N.lxor b c) d, 3395469782).

Fixpoint sha_rounds (t : nat) (i : N) (win : list N) (a b c d e : N) : N * N * N * N * N :=
  match t with
  | O => (a, b, c, d, e)
  | S t' =>
      let '(f, k) := sha_f i b c d in
      let tmp := w32 (rotl 5 a + f + e + k + hd 0 win) in
      sha_rounds t' (i + 1) (step_win win) tmp a (rotl 30 b) c d
  end.

Definition sha_block (h : N * N * N * N * N) (blk : list N) : N * N * N * N * N :=
  let '(h0, h1, h2, h3, h4) := h in
  let '(a, b, c, d, e) := sha_rounds 80 0 blk h0 h1 h2 h3 h4 in
  (w32 (h0 + a), w32 (h1 + b), w32 (h2 + c), w32 (h3 + d), w32 (h4 + e)).

Fixpoint sha_blocks (n : nat) (ws : list N) (h : N * N * N * N * N) : N * N * N * N * N :=
  match n with
  | O => h
  | S n' => match ws with
            | [] => h
            | _ => sha_blocks n' (skipn 16 ws) (sha_block h (firstn 16 ws))
            end
  end.

Definition sha1 (msg : bytes) : bytes :=
  let ws := words (sha_pad msg) in
  let '(h0, h1, h2, h3, h4) :=
    sha_blocks (S (length ws)) ws (1732584193, 4023233417, 2562383102, 271733878, 3285377520) in
  word_bytes h0 ++ word_bytes h1 ++ word_bytes h2 ++ word_bytes h3 ++ word_bytes h4.

(* uuid.UUID(bytes=digest[:16], version=5): variant bits 10xx in byte 8, version in byte 6 *)
Definition uuid5_patch (d : bytes) : uuid :=
  match d with
  | b0 :: b1 :: b2 :: b3 :: b4 :: b5 :: b6 :: b7 :: b8 :: r =>
      b0 :: b1 :: b2 :: b3 :: b4 :: b5
         :: N.lor (N.land b6 15) (UUID5_VERSION * 16) :: b7
         :: N.lor (N.land b8 63) 128 :: firstn 7 r
  | _ => d
  end.

Definition uuid5 (name : str) : uuid := uuid5_patch (sha1 (NS_TYPE_ID ++ name)).

(* str(uuid): 8-4-4-4-12 lower-case hex *)
Definition hexd (n : N) : N := if n <? 10 then 48 + n else 87 + n.
Definition hex2 (b : N) : str := [hexd (b / 16); hexd (b mod 16)].
Definition hexs (l : bytes) : str := flat_map hex2 l.
Definition uuid_str (u : uuid) : str :=
  hexs (firstn 4 u) ++ [45] ++ hexs (firstn 2 (skipn 4 u)) ++ [45]
    ++ hexs (firstn 2 (skipn 6 u)) ++ [45] ++ hexs (firstn 2 (skipn 8 u)) ++ [45]
    ++ hexs (skipn 10 u).

(* ------------------------------------------------------------------ type terms *)

(* A scalar type as sertypes sees it: t.id, str(t.get_name()), t.get_abstract(),
   t.get_ancestors().objects() (nearest first), t.get_enum_values() ([] = not an enum). *)
Inductive scalar :=
  Scalar (sid : uuid) (sname : str) (sabstract : bool) (sanc : list scalar) (senum : list str).

Definition sid (s : scalar) := match s with Scalar i _ _ _ _ => i end.
Definition sname (s : scalar) := match s with Scalar _ n _ _ _ => n end.
Definition sabstract (s : scalar) := match s with Scalar _ _ a _ _ => a end.
Definition sanc (s : scalar) := match s with Scalar _ _ _ l _ => l end.
Definition senum (s : scalar) := match s with Scalar _ _ _ _ e => e end.

(* A material object type: regular, or compound (union_of / intersection_of in .objects() order) *)
Inductive objtype :=
| ORegular (oid : uuid) (oname : str)
| OCompound (oid : uuid) (oname : str) (ounion ointer : list objtype).

Definition oid (o : objtype) := match o with ORegular i _ => i | OCompound i _ _ _ => i end.
Definition oname (o : objtype) := match o with ORegular _ n => n | OCompound _ n _ _ => n end.

(* what sertypes reads off a pointer of a shape *)
Record pinfo := mkPinfo {
  pname : str;        (* ptr.get_shortname().name *)
  plink : bool;       (* isinstance(ptr, Link) = not ptr.is_property() *)
  preq : bool;        (* ptr.get_required() *)
  pmulti : bool;      (* not ptr.singular() *)
  psource : objtype   (* material type of the material pointer's source *)
}.

Inductive ty :=
| TScalar (s : scalar)
| TTuple (named pers : bool) (name : str) (els : list (str * ty))
| TArray (pers : bool) (name : str) (el : ty)
| TRange (pers : bool) (name : str) (el : ty)
| TMultiRange (pers : bool) (name : str) (el : ty)
  (* an object type with its view shape: material type, is_free_object_type,
     has_implicit_id, view_shapes[t], view_shapes[t.rptr] *)
| TShape (mt : objtype) (free impl : bool) (ptrs lprops : list (pinfo * ty))
  (* a type listed in input_shapes: (name, cardinality value, type) *)
| TInput (mt : objtype) (free : bool) (els : list (str * N * ty)).

Record cfg := mkCfg {
  v2 : bool;            (* protocol_version >= (2, 0) *)
  inline_tn : bool;     (* inline_typenames *)
  follow : bool;        (* follow_links *)
  flt : str;            (* name_filter *)
  uuid_sc : scalar      (* schema.get('std::uuid') *)
}.

(* ------------------------------------------------------------------ emitted descriptors *)

Record selem := mkSelem {
  se_flags : N; se_card : N; se_name : str; se_type : N; se_src : N }.

(* .name / .schema_defined / .ancestors of the protocol >= 2 descriptors *)
Record hd := mkHd { h_name : str; h_sd : bool; h_anc : list N }.

Inductive node :=
| NSet (id : uuid) (sub : N)
| NObject (id : uuid) (name : str) (sd : bool)
| NCompound (id : uuid) (name : str) (sd : bool) (op : N) (comps : list N)
| NShape (id : uuid) (free : bool) (otype : N) (els : list selem)
| NInput (id : uuid) (els : list selem)
| NBaseScalar (id : uuid)
| NScalar (id : uuid) (h : hd) (base : N)
| NTuple (id : uuid) (h : hd) (els : list N)
| NNamedTuple (id : uuid) (h : hd) (els : list (str * N))
| NEnum (id : uuid) (h : hd) (labels : list str)
| NArray (id : uuid) (h : hd) (sub : N)
| NRange (id : uuid) (h : hd) (sub : N)
| NMultiRange (id : uuid) (h : hd) (sub : N).

Definition node_id (n : node) : uuid :=
  match n with
  | NSet i _ | NObject i _ _ | NCompound i _ _ _ _ | NShape i _ _ _ | NInput i _ | NBaseScalar i
  | NScalar i _ _ | NTuple i _ _ | NNamedTuple i _ _ | NEnum i _ _ | NArray i _ _
  | NRange i _ _ | NMultiRange i _ _ => i
  end.

(* ------------------------------------------------------------------ byte packers *)

Definition u8 (n : N) : option bytes := if n <? 256 then Some [n] else None.
Definition u16 (n : N) : option bytes := if n <? 65536 then Some [n / 256; n mod 256] else None.
Definition u32 (n : N) : option bytes :=
  if n <? M32 then Some (word_bytes n) else None.

Fixpoint ocat (l : list (option bytes)) : option bytes :=
  match l with
  | [] => Some []
  | None :: _ => None
  | Some b :: r => match ocat r with Some b' => Some (b ++ b') | None => None end
  end.

Definition pstr (s : str) : option bytes := ocat [u32 (len s); Some s].

Definition hdr2 (c : cfg) (h : hd) : list (option bytes) :=
  if v2 c then [pstr (h_name h); Some [b2n (h_sd h)]; u16 (len (h_anc h))] ++ map u16 (h_anc h)
  else [].

Definition ser_selem (c : cfg) (with_src : bool) (e : selem) : option bytes :=
  ocat ([u32 (se_flags e); u8 (se_card e); pstr (se_name e); u16 (se_type e)]
          ++ (if v2 c && with_src then [u16 (se_src e)] else [])).

Definition ser_body (c : cfg) (n : node) : option bytes :=
  match n with
  | NSet id sub => ocat [Some [TAG_SET]; Some id; u16 sub]
  | NObject id name sd => ocat [Some [TAG_OBJECT]; Some id; pstr name; Some [b2n sd]]
  | NCompound id name sd op comps =>
      ocat ([Some [TAG_COMPOUND]; Some id; pstr name; Some [b2n sd]; u8 op; u16 (len comps)]
              ++ map u16 comps)
  | NShape id free ot els =>
      ocat ([Some [TAG_SHAPE]; Some id]
              ++ (if v2 c then [Some [b2n free]; u16 ot] else [])
              ++ [u16 (len els)] ++ map (ser_selem c true) els)
  | NInput id els =>
      ocat ([Some [TAG_INPUT_SHAPE]; Some id; u16 (len els)] ++ map (ser_selem c false) els)
  | NBaseScalar id => ocat [Some [TAG_BASE_SCALAR]; Some id]
  | NScalar id h base =>
      if v2 c then ocat ([Some [TAG_SCALAR]; Some id] ++ hdr2 c h)
      else ocat [Some [TAG_SCALAR]; Some id; u16 base]
  | NTuple id h els =>
      ocat ([Some [TAG_TUPLE]; Some id] ++ hdr2 c h ++ [u16 (len els)] ++ map u16 els)
  | NNamedTuple id h els =>
      ocat ([Some [TAG_NAMEDTUPLE]; Some id] ++ hdr2 c h ++ [u16 (len els)]
              ++ map (fun p => ocat [pstr (fst p); u16 (snd p)]) els)
  | NEnum id h labels =>
      ocat ([Some [TAG_ENUM]; Some id] ++ hdr2 c h ++ [u16 (len labels)] ++ map pstr labels)
  | NArray id h sub =>
      ocat ([Some [TAG_ARRAY]; Some id] ++ hdr2 c h ++ [u16 sub; u16 1; Some [255; 255; 255; 255]])
  | NRange id h sub => ocat ([Some [TAG_RANGE]; Some id] ++ hdr2 c h ++ [u16 sub])
  | NMultiRange id h sub => ocat ([Some [TAG_MULTIRANGE]; Some id] ++ hdr2 c h ++ [u16 sub])
  end.

(* _finish_typedesc: protocol >= 2 prefixes every descriptor with its uint32 length *)
Definition lenpfx (c : cfg) (b : option bytes) : option bytes :=
  match b with
  | Some body => if v2 c then ocat [u32 (len body); Some body] else Some body
  | None => None
  end.
Definition ser (c : cfg) (n : node) : option bytes := lenpfx c (ser_body c n).

(* _add_annotation *)
Definition ser_anno (c : cfg) (a : uuid * str) : option bytes :=
  lenpfx c (ocat [Some [TAG_ANNO_TYPENAME]; Some (fst a); pstr (snd a)]).

(* ------------------------------------------------------------------ encoder state *)

Record st := mkSt { nodes : list node; pos : list uuid; anno : list (uuid * str) }.
Definition st0 : st := mkSt [] [] [].

Fixpoint index_of (u : uuid) (l : list uuid) : option N :=
  match l with
  | [] => None
  | x :: r => if uuid_eqb u x then Some 0
              else match index_of u r with Some k => Some (k + 1) | None => None end
  end.

Definition registered (u : uuid) (s : st) : bool :=
  match index_of u (pos s) with Some _ => true | None => false end.

(* _finish_typedesc + _register_type_id *)
Definition finish (n : node) (s : st) : uuid * st :=
  let u := node_id n in
  (u, mkSt (nodes s ++ [n]) (if registered u s then pos s else pos s ++ [u]) (anno s)).

Definition add_anno (a : uuid * str) (s : st) : st := mkSt (nodes s) (pos s) (anno s ++ [a]).

(* _type_ref_id_packer: ctx.uuid_to_pos[type_id] *)
Definition ref (u : uuid) (s : st) : res N :=
  match index_of u (pos s) with Some k => Ok k | None => Err EKey end.

Fixpoint refs (us : list uuid) (s : st) : res (list N) :=
  match us with
  | [] => Ok []
  | u :: r => k <- ref u s ;; ks <- refs r s ;; Ok (k :: ks)
  end.

Definition mapM {A B} (f : A -> st -> res (B * st)) : list A -> st -> res (list B * st) :=
  fix go (l : list A) (s : st) : res (list B * st) :=
    match l with
    | [] => Ok ([], s)
    | a :: r => '(b, s1) <- f a s ;; '(bs, s2) <- go r s1 ;; Ok (b :: bs, s2)
    end.

(* `for a in ancestors: out.append(a); if a == stop: break`, each appended one described *)
Definition mapM_until {A B} (stop : A -> bool) (f : A -> st -> res (B * st))
  : list A -> st -> res (list B * st) :=
  fix go (l : list A) (s : st) : res (list B * st) :=
    match l with
    | [] => Ok ([], s)
    | a :: r => '(b, s1) <- f a s ;;
                if stop a then Ok ([b], s1)
                else '(bs, s2) <- go r s1 ;; Ok (b :: bs, s2)
    end.

(* ------------------------------------------------------------------ content-derived ids *)

Section WithHash.
Variable H : str -> uuid.     (* uuidgen.uuid5(TYPE_ID_NAMESPACE, .) ; instantiated with [uuid5] *)

Definition s_True : str := [84; 114; 117; 101].
Definition s_False : str := [70; 97; 108; 115; 101].
Definition s_None : str := [78; 111; 110; 101].
Definition s_setof : str := [115; 101; 116; 45; 111; 102; 58; 58].       (* "set-of::" *)
Definition s_tuple : str := [116; 117; 112; 108; 101].
Definition s_array : str := [97; 114; 114; 97; 121].
Definition s_range : str := [114; 97; 110; 103; 101].
Definition s_multirange : str := [109; 117; 108; 116; 105; 114; 97; 110; 103; 101].
Definition s_FreeObject : str :=
  [115; 116; 100; 58; 58; 70; 114; 101; 101; 79; 98; 106; 101; 99; 116]. (* "std::FreeObject" *)
Definition s_id : str := [105; 100].
Definition s_tid : str := [95; 95; 116; 105; 100; 95; 95].
Definition s_tname : str := [95; 95; 116; 110; 97; 109; 101; 95; 95].

Definition repr_bool (b : bool) : str := if b then s_True else s_False.
Definition repr_bools (l : list bool) : str := [91] ++ join [44; 32] (map repr_bool l) ++ [93].
Definition repr_obools (o : option (list bool)) : str :=
  match o with None => s_None | Some l => repr_bools l end.

(* _get_collection_type_id *)
Definition coll_idstr (kind : str) (subs : list uuid) (names : option (list str)) : str :=
  kind ++ [0] ++ join [58] (map uuid_str subs)
       ++ match names with
          | Some (n :: ns) => [0] ++ join [58] (n :: ns)
          | _ => []
          end.
Definition tuple_id (subs : list uuid) (names : option (list str)) : uuid :=
  match subs with
  | [] => ID_EMPTY_TUPLE
  | _ => H (coll_idstr s_tuple subs names)
  end.
Definition coll1_id (kind : str) (sub : uuid) : uuid := H (coll_idstr kind [sub] None).

(* _get_object_shape_id *)
Definition shape_idstr (base : str) (subs : list uuid) (names : list str) (cards : list N)
           (impl : bool) (lps links : option (list bool)) : str :=
  let parts := [base; join [58] (map uuid_str subs)]
                 ++ (match names with [] => [] | _ => [join [58] names] end)
                 ++ (match cards with [] => [] | _ => [join [58] (map (fun c => [c]) cards)] end) in
  join [0] parts ++ repr_bool impl ++ [59] ++ repr_obools lps ++ [59] ++ repr_obools links.
Definition shape_id base subs names cards impl lps links : uuid :=
  H (shape_idstr base subs names cards impl lps links).

(* _get_set_type_id *)
Definition set_id (u : uuid) : uuid := H (s_setof ++ uuid_str u).

(* ------------------------------------------------------------------ scalars *)

(* maybe_get_topmost_concrete_base *)
Fixpoint topmost_in (l : list scalar) : option scalar :=
  match l with
  | [] => None
  | a :: r => match topmost_in r with
              | Some x => Some x
              | None => if sabstract a then None else Some a
              end
  end.
Definition topmost (sc : scalar) : option scalar :=
  match topmost_in (sanc sc) with
  | Some x => Some x
  | None => if sabstract sc then None else Some sc
  end.

(* describe the topmost non-abstract element of [l] (= _type_ref_packer(fundamental_type)) *)
Definition desc_topmost {B} (f : scalar -> st -> res (B * st))
  : list scalar -> st -> option (res (B * st)) :=
  fix go (l : list scalar) (s : st) : option (res (B * st)) :=
    match l with
    | [] => None
    | a :: r => match go r s with
                | Some x => Some x
                | None => if sabstract a then None else Some (f a s)
                end
    end.

Definition is_nil {A} (l : list A) : bool := match l with [] => true | _ => false end.

(* _describe_scalar_type / _describe_regular_scalar / _describe_enum *)
Fixpoint desc_scalar (c : cfg) (sc : scalar) (s : st) {struct sc} : res (uuid * st) :=
  match sc with
  | Scalar id name ab anc en =>
      if registered id s then Ok (id, s) else
      match topmost sc with
      | None => (* v1 enum does not look at the base *)
          if negb (is_nil en) && negb (v2 c) then
            let s' := if inline_tn c then add_anno (id, name) s else s in
            Ok (finish (NEnum id (mkHd name true []) en) s')
          else Err ESchema
      | Some top =>
          let is_fund := uuid_eqb id (sid top) in
          if v2 c then
            '(aids, s1) <- (if is_fund then Ok ([], s)
                            else mapM_until (fun a => uuid_eqb (sid a) (sid top))
                                            (desc_scalar c) anc s) ;;
            ars <- refs aids s1 ;;
            Ok (finish (if is_nil en then NScalar id (mkHd name true ars) 0
                        else NEnum id (mkHd name true ars) en) s1)
          else if negb (is_nil en) then
            let s' := if inline_tn c then add_anno (id, name) s else s in
            Ok (finish (NEnum id (mkHd name true []) en) s')
          else if is_fund then Ok (finish (NBaseScalar id) s)
          else
            match desc_topmost (desc_scalar c) anc s with
            | None => (* the fundamental type is the scalar itself by identity but not by id *)
                Err EKey
            | Some r =>
                '(bid, s1) <- r ;;
                k <- ref bid s1 ;;
                let s2 := if inline_tn c then add_anno (id, name) s1 else s1 in
                Ok (finish (NScalar id (mkHd name true []) k) s2)
            end
      end
  end.

(* ------------------------------------------------------------------ object types *)

Definition desc_regular (c : cfg) (id : uuid) (name : str) (s : st) : res (uuid * st) :=
  if negb (v2 c) then Err EAssert
  else if registered id s then Ok (id, s)
  else Ok (finish (NObject id name true) s).

(* _describe_object_type *)
Fixpoint desc_objtype (c : cfg) (o : objtype) (s : st) {struct o} : res (uuid * st) :=
  match o with
  | ORegular id name => desc_regular c id name s
  | OCompound id name un it =>
      match un with
      | _ :: _ =>
          if negb (v2 c) then Err EAssert
          else if registered id s then Ok (id, s)
          else '(ids, s1) <- mapM (desc_objtype c) un s ;;
               ks <- refs ids s1 ;;
               Ok (finish (NCompound id name false OP_UNION ks) s1)
      | [] =>
          match it with
          | _ :: _ =>
              if negb (v2 c) then Err EAssert
              else if registered id s then Ok (id, s)
              else '(ids, s1) <- mapM (desc_objtype c) it s ;;
                   ks <- refs ids s1 ;;
                   Ok (finish (NCompound id name false OP_INTERSECTION ks) s1)
          | [] => desc_regular c id name s      (* is_compound_type() is false *)
          end
      end
  end.

(* ------------------------------------------------------------------ shapes *)

(* cardinality_from_ptr *)
Definition card_of (req multi : bool) : N :=
  if multi then (if req then CARD_AT_LEAST_ONE else CARD_MANY)
  else (if req then CARD_ONE else CARD_AT_MOST_ONE).

Record elem := mkElem {
  e_sub : uuid; e_name : str; e_lp : bool; e_link : bool; e_card : N; e_src : objtype }.

(* _describe_set *)
Definition desc_set (c : cfg) (f : ty -> st -> res (uuid * st)) (t : ty) (s : st)
  : res (uuid * st) :=
  '(tid, s1) <- f t s ;;
  let sid := set_id tid in
  if registered sid s1 then Ok (sid, s1)
  else k <- ref tid s1 ;; Ok (finish (NSet sid k) s1).

(* one iteration of `for ptr in ctx.view_shapes.get(t, ())` *)
Definition desc_ptr (c : cfg) (f : ty -> st -> res (uuid * st)) (p : pinfo * ty) (s : st)
  : res (option elem * st) :=
  let pi := fst p in
  if negb (is_prefix (flt c) (pname pi)) then Ok (None, s)
  else
    let name := skipn (length (flt c)) (pname pi) in
    '(sub, s1) <-
       (if negb (pmulti pi) then
          if plink pi && negb (follow c) then desc_scalar c (uuid_sc c) s
          else f (snd p) s
        else
          if plink pi && negb (follow c) then Err EInternal
          else desc_set c f (snd p) s) ;;
    Ok (Some (mkElem sub name false (plink pi) (card_of (preq pi) (pmulti pi)) (psource pi)), s1).

(* one iteration of `for ptr in rptr_ptrs` (link properties) *)
Definition desc_lprop (c : cfg) (f : ty -> st -> res (uuid * st)) (mt : objtype)
           (p : pinfo * ty) (s : st) : res (elem * st) :=
  let pi := fst p in
  '(sub, s1) <- (if negb (pmulti pi) then f (snd p) s else desc_set c f (snd p) s) ;;
  Ok (mkElem sub (pname pi) true false (card_of (preq pi) (pmulti pi)) mt, s1).

Fixpoint somes {A} (l : list (option A)) : list A :=
  match l with [] => [] | Some a :: r => a :: somes r | None :: r => somes r end.

(* the body of the `.elements` loop of _describe_object_shape *)
Definition shape_elem (c : cfg) (free impl : bool) (e : elem) (s : st) : res (selem * st) :=
  let name := e_name e in
  fl0 <- (if (impl && str_eqb name s_id) || str_eqb name s_tid then
            if uuid_eqb (e_sub e) ID_UUID then Ok FLAG_IS_IMPLICIT else Err EInternal
          else if str_eqb name s_tname then
            if uuid_eqb (e_sub e) ID_STR then Ok FLAG_IS_IMPLICIT else Err EInternal
          else Ok 0) ;;
  let flags := (if e_lp e then FLAG_IS_LINKPROP else 0) + fl0 + (if e_link e then FLAG_IS_LINK else 0) in
  k <- ref (e_sub e) s ;;
  if v2 c && negb free then
    '(srcid, s1) <- desc_objtype c (e_src e) s ;;
    ks <- ref srcid s1 ;;
    Ok (mkSelem flags (e_card e) name k ks, s1)
  else Ok (mkSelem flags (e_card e) name k 0, s).

Definition shape_finish (c : cfg) (mt : objtype) (free impl : bool) (els : list elem) (s : st)
  : res (uuid * st) :=
  let id := shape_id (oname mt) (map e_sub els) (map e_name els) (map e_card els) impl
                     (Some (map e_lp els)) (Some (map e_link els)) in
  if registered id s then Ok (id, s) else
  '(otref, s1) <- (if v2 c && negb free then
                     '(oi, s') <- desc_objtype c mt s ;; k <- ref oi s' ;; Ok (k, s')
                   else Ok (0, s)) ;;
  '(ses, s2) <- mapM (shape_elem c free impl) els s1 ;;
  Ok (finish (NShape id free otref ses) s2).

(* ------------------------------------------------------------------ _describe_type *)

Fixpoint desc_ty (c : cfg) (t : ty) (s : st) {struct t} : res (uuid * st) :=
  match t with
  | TScalar sc => desc_scalar c sc s
  | TTuple named pers name els =>
      '(subs, s1) <- mapM (fun p => desc_ty c (snd p)) els s ;;
      let id := tuple_id subs (if named then Some (map fst els) else None) in
      if registered id s1 then Ok (id, s1) else
      ks <- refs subs s1 ;;
      Ok (finish (if named then NNamedTuple id (mkHd name pers []) (combine (map fst els) ks)
                  else NTuple id (mkHd name pers []) ks) s1)
  | TArray pers name el =>
      '(sub, s1) <- desc_ty c el s ;;
      let id := coll1_id s_array sub in
      if registered id s1 then Ok (id, s1) else
      k <- ref sub s1 ;; Ok (finish (NArray id (mkHd name pers []) k) s1)
  | TRange pers name el =>
      '(sub, s1) <- desc_ty c el s ;;
      let id := coll1_id s_range sub in
      if registered id s1 then Ok (id, s1) else
      k <- ref sub s1 ;; Ok (finish (NRange id (mkHd name pers []) k) s1)
  | TMultiRange pers name el =>
      '(sub, s1) <- desc_ty c el s ;;
      let id := coll1_id s_multirange sub in
      if registered id s1 then Ok (id, s1) else
      k <- ref sub s1 ;; Ok (finish (NMultiRange id (mkHd name pers []) k) s1)
  | TShape mt free impl ptrs lps =>
      '(e1, s1) <- mapM (desc_ptr c (desc_ty c)) ptrs s ;;
      '(e2, s2) <- mapM (desc_lprop c (desc_ty c) mt) lps s1 ;;
      shape_finish c mt free impl (somes e1 ++ e2) s2
  | TInput mt free _ =>
      (* an input-shape type reached through plain _describe_type: an object type with no
         view shape *)
      shape_finish c mt free false [] s
  end.

(* ------------------------------------------------------------------ describe_input_shape *)

Definition is_multi_card (c : N) : bool := N.eqb c CARD_MANY || N.eqb c CARD_AT_LEAST_ONE.

Fixpoint desc_input (c : cfg) (t : ty) (s : st) {struct t} : res (uuid * st) :=
  match t with
  | TInput mt free els =>
      '(subs, s1) <- mapM (fun e => if is_multi_card (snd (fst e))
                                    then desc_set c (desc_ty c) (snd e)
                                    else desc_input c (snd e)) els s ;;
      let names := map (fun e => fst (fst e)) els in
      let cards := map (fun e => snd (fst e)) els in
      let id := shape_id (oname mt) subs names cards false None None in
      if registered id s1 then Ok (id, s1) else
      ks <- refs subs s1 ;;
      Ok (finish (NInput id (map (fun x => mkSelem 0 (snd (fst (fst x))) (fst (fst (fst x))) (snd x) 0)
                                 (combine els ks))) s1)
  | _ => desc_ty c t s
  end.

(* ------------------------------------------------------------------ entry points *)

Definition stream (c : cfg) (s : st) : res bytes :=
  match ocat (map (ser c) (nodes s)), ocat (map (ser_anno c) (anno s)) with
  | Some b, Some a => Ok (b ++ a)
  | _, _ => Err EStruct
  end.

(* sertypes.describe *)
Definition describe (c : cfg) (t : ty) : res (bytes * uuid) :=
  '(id, s) <- desc_ty c t st0 ;;
  b <- stream c s ;;
  Ok (b, id).

(* sertypes.describe_input_shape on a fresh Context, b''.join(ctx.buffer) *)
Definition describe_input (c : cfg) (t : ty) : res (bytes * uuid) :=
  '(id, s) <- desc_input c t st0 ;;
  match ocat (map (ser c) (nodes s)) with
  | Some b => Ok (b, id)
  | None => Err EStruct
  end.

(* describe_input_shape(..., prepare_state=True): the element types of the top-level input shape
   are described, its own descriptor is not emitted *)
Definition prepare_input (c : cfg) (t : ty) (s : st) : res st :=
  match t with
  | TInput mt free els =>
      '(_, s1) <- mapM (fun e => if is_multi_card (snd (fst e))
                                 then desc_set c (desc_ty c) (snd e)
                                 else desc_input c (snd e)) els s ;;
      Ok s1
  | _ => '(_, s1) <- desc_ty c t s ;; Ok s1
  end.

(* StateSerializerFactory.make: the context prepared once per protocol version ([base] = the
   state type without globals / extension configs) is COPIED (Context.derive) and the actual
   state type [call] is described on top of the copy; b''.join(ctx.buffer).
   A Gallina state is a value, so the model is the copy semantics: every call starts from the
   same prepared state, whatever was described by earlier calls. *)
Definition make_state (c : cfg) (base call : ty) : res (bytes * uuid) :=
  s0 <- prepare_input c base st0 ;;
  '(id, s) <- desc_input c call s0 ;;
  match ocat (map (ser c) (nodes s)) with
  | Some b => Ok (b, id)
  | None => Err EStruct
  end.

Definition NULL_ID : uuid := repeat 0 16%nat.

(* sertypes.describe_params : params = [(name, type, required)] *)
Definition desc_param (c : cfg) (p : str * bool * ty) (s : st) : res (elem * st) :=
  '(sub, s1) <- desc_ty c (snd p) s ;;
  Ok (mkElem sub (fst (fst p)) false false (if snd (fst p) then CARD_ONE else CARD_AT_MOST_ONE)
             (ORegular [] []), s1).

Definition describe_params (c : cfg) (ps : list (str * bool * ty)) : res (bytes * uuid) :=
  match ps with
  | [] => Ok ([], NULL_ID)
  | _ =>
      '(els, s1) <- mapM (desc_param c) ps st0 ;;
      let id := shape_id s_FreeObject (map e_sub els) (map e_name els) (map e_card els)
                         false None None in
      '(ses, s2) <- mapM (fun e s => k <- ref (e_sub e) s ;;
                                     Ok (mkSelem 0 (e_card e) (e_name e) k 0, s)) els s1 ;;
      let '(_, s3) := finish (NShape id true 0 ses) s2 in
      b <- stream c s3 ;;
      Ok (b, id)
  end.

End WithHash.

(* ------------------------------------------------------------------ decoder (parse) *)

Inductive desc :=
| DSet (id : uuid) (sub : desc)
| DObject (id : uuid) (name : str) (sd : bool)
| DCompound (id : uuid) (name : str) (sd : bool) (op : N) (comps : list desc)
| DShape (id : uuid) (otype : option desc)
         (els : list (N * N * str * desc * option desc))   (* flags, card, name, type, source *)
| DInput (id : uuid) (els : list (N * N * str * desc))
| DBase (id : uuid)
| DScalar (id : uuid) (hdr : option (str * bool)) (fund : option desc) (anc : option (list desc))
| DTuple (id : uuid) (hdr : option (str * bool * list desc)) (els : list desc)
| DNamedTuple (id : uuid) (hdr : option (str * bool * list desc)) (els : list (str * desc))
| DEnum (id : uuid) (hdr : option (str * bool * list desc)) (labels : list str)
| DArray (id : uuid) (hdr : option (str * bool * list desc)) (sub : desc)
| DRange (id : uuid) (hdr : option (str * bool * list desc)) (sub : desc)
| DMultiRange (id : uuid) (hdr : option (str * bool * list desc)) (sub : desc).

(* byte readers: None = struct.error / BufferError *)
Definition rd_bytes (n : nat) (d : bytes) : option (bytes * bytes) :=
  if Nat.leb n (length d) then Some (firstn n d, skipn n d) else None.
Definition rd_u8 (d : bytes) : option (N * bytes) :=
  match d with a :: r => Some (a, r) | _ => None end.
Definition rd_u16 (d : bytes) : option (N * bytes) :=
  match d with a :: b :: r => Some (a * 256 + b, r) | _ => None end.
Definition rd_u32 (d : bytes) : option (N * bytes) :=
  match d with a :: b :: c :: e :: r => Some (be32 a b c e, r) | _ => None end.

(* strict UTF-8 validity (Python's bytes.decode('utf-8')) *)
Definition is_cont (b : N) : bool := (128 <=? b) && (b <=? 191).
Fixpoint utf8_ok (fuel : nat) (d : bytes) : bool :=
  match fuel with
  | O => false
  | S f =>
    match d with
    | [] => true
    | b :: r =>
      if b <? 128 then utf8_ok f r
      else if (194 <=? b) && (b <=? 223) then
        match r with c1 :: r' => is_cont c1 && utf8_ok f r' | _ => false end
      else if b =? 224 then
        match r with c1 :: c2 :: r' => (160 <=? c1) && (c1 <=? 191) && is_cont c2 && utf8_ok f r'
                | _ => false end
      else if ((225 <=? b) && (b <=? 236)) || (b =? 238) || (b =? 239) then
        match r with c1 :: c2 :: r' => is_cont c1 && is_cont c2 && utf8_ok f r' | _ => false end
      else if b =? 237 then
        match r with c1 :: c2 :: r' => (128 <=? c1) && (c1 <=? 159) && is_cont c2 && utf8_ok f r'
                | _ => false end
      else if b =? 240 then
        match r with c1 :: c2 :: c3 :: r' =>
                       (144 <=? c1) && (c1 <=? 191) && is_cont c2 && is_cont c3 && utf8_ok f r'
                | _ => false end
      else if (241 <=? b) && (b <=? 243) then
        match r with c1 :: c2 :: c3 :: r' =>
                       is_cont c1 && is_cont c2 && is_cont c3 && utf8_ok f r'
                | _ => false end
      else if b =? 244 then
        match r with c1 :: c2 :: c3 :: r' =>
                       (128 <=? c1) && (c1 <=? 143) && is_cont c2 && is_cont c3 && utf8_ok f r'
                | _ => false end
      else false
    end
  end.
Definition valid_utf8 (d : bytes) : bool := utf8_ok (S (length d)) d.

(* _parse_string *)
Definition rd_str (d : bytes) : option (str * bytes) :=
  match rd_u32 d with
  | Some (n, r) =>
      if n <=? len r then       (* never build a huge unary number for a bogus length *)
        match rd_bytes (N.to_nat n) r with
        | Some (s, r') => if valid_utf8 s then Some (s, r') else None
        | None => None
        end
      else None
  | None => None
  end.

Definition rd_many {A} (rd : bytes -> option (A * bytes)) : nat -> bytes -> option (list A * bytes) :=
  fix go (n : nat) (d : bytes) : option (list A * bytes) :=
    match n with
    | O => Some ([], d)
    | S n' => match rd d with
              | Some (a, r) => match go n' r with
                               | Some (l, r') => Some (a :: l, r')
                               | None => None
                               end
              | None => None
              end
    end.

(* _parse_type_refs / _parse_strings : uint16 count then items *)
Definition rd_counted {A} (rd : bytes -> option (A * bytes)) (d : bytes) : option (list A * bytes) :=
  match rd_u16 d with
  | Some (n, r) => rd_many rd (N.to_nat n) r
  | None => None
  end.

(* name, schema_defined, ancestors of protocol >= 2 *)
Definition rd_hdr2 (c : cfg) (d : bytes) : option (hd * bytes) :=
  if v2 c then
    match rd_str d with
    | Some (name, r1) =>
        match rd_u8 r1 with
        | Some (sd, r2) =>
            match rd_counted rd_u16 r2 with
            | Some (anc, r3) => Some (mkHd name (negb (sd =? 0)) anc, r3)
            | None => None
            end
        | None => None
        end
    | None => None
    end
  else Some (mkHd [] false [], d).

Definition valid_card (b : N) : bool :=
  (b =? CARD_NO_RESULT) || (b =? CARD_AT_MOST_ONE) || (b =? CARD_ONE) || (b =? CARD_MANY)
  || (b =? CARD_AT_LEAST_ONE).

Definition rd_selem (c : cfg) (with_src : bool) (d : bytes) : option (selem * bytes) :=
  match rd_u32 d with
  | Some (fl, r1) =>
    match rd_u8 r1 with
    | Some (cd, r2) =>
      if valid_card cd then
        match rd_str r2 with
        | Some (name, r3) =>
          match rd_u16 r3 with
          | Some (t, r4) =>
            if v2 c && with_src then
              match rd_u16 r4 with
              | Some (sp, r5) => Some (mkSelem fl cd name t sp, r5)
              | None => None
              end
            else Some (mkSelem fl cd name t 0, r4)
          | None => None
          end
        | None => None
        end
      else None
    | None => None
    end
  | None => None
  end.

Inductive pres := PNode (n : node) (rest : bytes) | PSkip (rest : bytes) | PErr.

Definition with_id (d : bytes) (k : uuid -> bytes -> pres) : pres :=
  match rd_bytes 16 d with Some (id, r) => k id r | None => PErr end.

Definition opt_pres {A} (o : option (A * bytes)) (k : A -> bytes -> pres) : pres :=
  match o with Some (a, r) => k a r | None => PErr end.

(* _parse: one descriptor (after the optional length prefix, which is read and ignored) *)
Definition parse_desc (c : cfg) (d0 : bytes) : pres :=
  match (if v2 c then match rd_bytes 4 d0 with Some (_, r) => Some r | None => None end
         else Some d0) with
  | None => PErr
  | Some d1 =>
    match rd_u8 d1 with
    | None => PErr
    | Some (tag, d) =>
      if tag =? TAG_SET then
        with_id d (fun id r => opt_pres (rd_u16 r) (fun k r' => PNode (NSet id k) r'))
      else if tag =? TAG_OBJECT then
        if v2 c then
          with_id d (fun id r => opt_pres (rd_str r) (fun name r1 =>
            opt_pres (rd_u8 r1) (fun sd r2 => PNode (NObject id name (negb (sd =? 0))) r2)))
        else PErr
      else if tag =? TAG_COMPOUND then
        if v2 c then
          with_id d (fun id r => opt_pres (rd_str r) (fun name r1 =>
            opt_pres (rd_u8 r1) (fun sd r2 => opt_pres (rd_u8 r2) (fun op r3 =>
              if (op =? OP_UNION) || (op =? OP_INTERSECTION) then
                opt_pres (rd_counted rd_u16 r3) (fun comps r4 =>
                  PNode (NCompound id name (negb (sd =? 0)) op comps) r4)
              else PErr))))
        else PErr
      else if tag =? TAG_SHAPE then
        with_id d (fun id r =>
          opt_pres (if v2 c then
                      match rd_u8 r with
                      | Some (fr, r1) => match rd_u16 r1 with
                                         | Some (ot, r2) => Some ((negb (fr =? 0), ot), r2)
                                         | None => None
                                         end
                      | None => None
                      end
                    else Some ((false, 0), r))
                   (fun fo r2 => opt_pres (rd_counted (rd_selem c true) r2)
                                          (fun els r3 => PNode (NShape id (fst fo) (snd fo) els) r3)))
      else if tag =? TAG_INPUT_SHAPE then
        with_id d (fun id r => opt_pres (rd_counted (rd_selem c false) r)
                                        (fun els r1 => PNode (NInput id els) r1))
      else if tag =? TAG_BASE_SCALAR then
        if v2 c then PErr else with_id d (fun id r => PNode (NBaseScalar id) r)
      else if tag =? TAG_SCALAR then
        with_id d (fun id r =>
          if v2 c then opt_pres (rd_hdr2 c r) (fun h r1 => PNode (NScalar id h 0) r1)
          else opt_pres (rd_u16 r) (fun k r1 => PNode (NScalar id (mkHd [] false []) k) r1))
      else if tag =? TAG_TUPLE then
        with_id d (fun id r => opt_pres (rd_hdr2 c r) (fun h r1 =>
          opt_pres (rd_counted rd_u16 r1) (fun els r2 =>
            PNode (NTuple id h els) r2)))
      else if tag =? TAG_NAMEDTUPLE then
        with_id d (fun id r => opt_pres (rd_hdr2 c r) (fun h r1 =>
          opt_pres (rd_counted (fun x => match rd_str x with
                                         | Some (n, y) => match rd_u16 y with
                                                          | Some (k, z) => Some ((n, k), z)
                                                          | None => None
                                                          end
                                         | None => None
                                         end) r1) (fun els r2 =>
            PNode (NNamedTuple id h els) r2)))
      else if tag =? TAG_ENUM then
        with_id d (fun id r => opt_pres (rd_hdr2 c r) (fun h r1 =>
          opt_pres (rd_counted rd_str r1) (fun labels r2 =>
            PNode (NEnum id h labels) r2)))
      else if tag =? TAG_ARRAY then
        with_id d (fun id r => opt_pres (rd_hdr2 c r) (fun h r1 =>
          opt_pres (rd_u16 r1) (fun k r2 => opt_pres (rd_u16 r2) (fun dims r3 =>
            if dims =? 1 then
              opt_pres (rd_u32 r3) (fun dl r4 =>
                if dl =? 4294967295 then PNode (NArray id h k) r4 else PErr)
            else PErr))))
      else if tag =? TAG_RANGE then
        with_id d (fun id r => opt_pres (rd_hdr2 c r) (fun h r1 =>
          opt_pres (rd_u16 r1) (fun k r2 => PNode (NRange id h k) r2)))
      else if tag =? TAG_MULTIRANGE then
        with_id d (fun id r => opt_pres (rd_hdr2 c r) (fun h r1 =>
          opt_pres (rd_u16 r1) (fun k r2 => PNode (NMultiRange id h k) r2)))
      else if (128 <=? tag) && (tag <? 255) then
        (* "Ignore all type annotations": only a length-prefixed string is skipped *)
        opt_pres (rd_str d) (fun _ r => PSkip r)
      else PErr      (* SQL_ROW / ANNO_TYPENAME: AssertionError; other: NotImplementedError *)
    end
  end.

(* the schema_defined byte of a parsed v2 header is kept in the node only for collections;
   scalars/enums/object types re-read it below from the node kind *)

Definition nth_desc (acc : list desc) (k : N) : option desc := nth_error acc (N.to_nat k).

Fixpoint nth_descs (acc : list desc) (ks : list N) : option (list desc) :=
  match ks with
  | [] => Some []
  | k :: r => match nth_desc acc k, nth_descs acc r with
              | Some d, Some ds => Some (d :: ds)
              | _, _ => None
              end
  end.

Definition hdr_of (c : cfg) (acc : list desc) (h : hd)
  : option (option (str * bool * list desc)) :=
  if v2 c then
    match nth_descs acc (h_anc h) with
    | Some ds => Some (Some (h_name h, h_sd h, ds))
    | None => None
    end
  else Some None.

Fixpoint res_selems (c : cfg) (with_src : bool) (acc : list desc) (els : list selem)
  : option (list (N * N * str * desc * option desc)) :=
  match els with
  | [] => Some []
  | e :: r =>
      match nth_desc acc (se_type e) with
      | Some t =>
          match (if v2 c && with_src then
                   match nth_desc acc (se_src e) with Some x => Some (Some x) | None => None end
                 else Some None) with
          | Some src =>
              match res_selems c with_src acc r with
              | Some l => Some ((se_flags e, se_card e, se_name e, t, src) :: l)
              | None => None
              end
          | None => None
          end
      | None => None
      end
  end.

(* resolution of the references of a just-parsed descriptor against codecs_list *)
Definition resolve (c : cfg) (acc : list desc) (n : node) : option desc :=
  match n with
  | NSet id k => match nth_desc acc k with Some d => Some (DSet id d) | None => None end
  | NObject id name sd => Some (DObject id name sd)
  | NCompound id name sd op comps =>
      match nth_descs acc comps with Some ds => Some (DCompound id name sd op ds) | None => None end
  | NShape id free ot els =>
      match (if v2 c && negb free then
               match nth_desc acc ot with Some x => Some (Some x) | None => None end
             else Some None) with
      | Some o => match res_selems c true acc els with
                  | Some l => Some (DShape id o l)
                  | None => None
                  end
      | None => None
      end
  | NInput id els =>
      match res_selems c false acc els with
      | Some l => Some (DInput id (map (fun x => (fst (fst (fst (fst x))), snd (fst (fst (fst x))),
                                                  snd (fst (fst x)), snd (fst x))) l))
      | None => None
      end
  | NBaseScalar id => Some (DBase id)
  | NScalar id h base =>
      if v2 c then
        match nth_descs acc (h_anc h) with
        | Some ds => Some (DScalar id (Some (h_name h, h_sd h)) (last (map Some ds) None) (Some ds))
        | None => None
        end
      else match nth_desc acc base with
           | Some b => Some (DScalar id None (Some b) None)
           | None => None
           end
  | NTuple id h els =>
      match hdr_of c acc h, nth_descs acc els with
      | Some x, Some ds => Some (DTuple id x ds)
      | _, _ => None
      end
  | NNamedTuple id h els =>
      match hdr_of c acc h, nth_descs acc (map snd els) with
      | Some x, Some ds => Some (DNamedTuple id x (combine (map fst els) ds))
      | _, _ => None
      end
  | NEnum id h labels =>
      match hdr_of c acc h with
      | Some x => Some (DEnum id x labels)
      | None => None
      end
  | NArray id h k =>
      match hdr_of c acc h, nth_desc acc k with
      | Some x, Some d => Some (DArray id x d)
      | _, _ => None
      end
  | NRange id h k =>
      match hdr_of c acc h, nth_desc acc k with
      | Some x, Some d => Some (DRange id x d)
      | _, _ => None
      end
  | NMultiRange id h k =>
      match hdr_of c acc h, nth_desc acc k with
      | Some x, Some d => Some (DMultiRange id x d)
      | _, _ => None
      end
  end.

Fixpoint parse_loop (fuel : nat) (c : cfg) (d : bytes) (acc : list desc) : option (list desc) :=
  match d with
  | [] => Some acc
  | _ =>
    match fuel with
    | O => None
    | S f =>
      match parse_desc c d with
      | PNode n rest => match resolve c acc n with
                        | Some x => parse_loop f c rest (acc ++ [x])
                        | None => None
                        end
      | PSkip rest => parse_loop f c rest acc
      | PErr => None
      end
    end
  end.

(* sertypes.parse : None = any exception *)
Definition parse (c : cfg) (d : bytes) : option desc :=
  match parse_loop (S (length d)) c d [] with
  | Some acc => last (map Some acc) None
  | None => None
  end.

(* ------------------------------------------------------------------ Python-dict view *)
(* ShapeDesc / NamedTupleDesc / InputShapeDesc keep their elements in dicts keyed by name:
   a repeated name keeps its first position and takes the last value. *)
Fixpoint dict_set {V} (k : str) (v : V) (l : list (str * V)) : list (str * V) :=
  match l with
  | [] => [(k, v)]
  | (k', v') :: r => if str_eqb k k' then (k', v) :: r else (k', v') :: dict_set k v r
  end.
Definition dict_of {V} (l : list (str * V)) : list (str * V) :=
  fold_left (fun acc kv => dict_set (fst kv) (snd kv) acc) l [].

(* ------------------------------------------------------------------ concrete instances *)

Definition describe_c := describe uuid5.
Definition describe_params_c := describe_params uuid5.
Definition describe_input_c := describe_input uuid5.
Definition make_state_c := make_state uuid5.
