(* C14 — ids: the id returned by the encoder is the pure function [tid] of the term. *)
From Coq Require Import List NArith Bool Lia.
From Verif.C14 Require Import Gen_Tags Model Spec.
Import ListNotations.
Open Scope N_scope.

Ltac inv H := inversion H; subst; clear H.

Lemma bind_ok : forall {A B} (r : res A) (f : A -> res B) b,
  bind r f = Ok b -> exists a, r = Ok a /\ f a = Ok b.
Proof. intros A B [a|e] f b H; simpl in H; [eauto|discriminate]. Qed.

Ltac bind_inv H :=
  let a := fresh "a" in let H1 := fresh "E" in
  apply bind_ok in H; destruct H as (a & H1 & H).

Section Ids.
Variable H : str -> uuid.

Lemma mapM_ids : forall {A B} (f : A -> st -> res (B * st)) (g : A -> B) (l : list A),
  Forall (fun a => forall s b s', f a s = Ok (b, s') -> b = g a) l ->
  forall s bs s', mapM f l s = Ok (bs, s') -> bs = map g l.
Proof.
  intros A B f g l HF. induction HF as [|a l Ha HF IH]; intros s bs s' E; simpl in E.
  - inv E. reflexivity.
  - bind_inv E. destruct a0 as [b s1]. bind_inv E. destruct a0 as [bs' s2]. inv E.
    simpl. f_equal; eauto.
Qed.

Lemma mapM_until_some : forall {A B} stop (f : A -> st -> res (B * st)) (l : list A) s bs s',
  mapM_until stop f l s = Ok (bs, s') -> True.
Proof. auto. Qed.

Lemma desc_scalar_id : forall c sc s i s', desc_scalar c sc s = Ok (i, s') -> i = sid sc.
Proof.
  intros c sc s i s' E. destruct sc as [id name ab anc en]. cbn [desc_scalar] in E.
  destruct (registered id s). { inv E. reflexivity. }
  destruct (topmost (Scalar id name ab anc en)) as [top|].
  - destruct (v2 c).
    + bind_inv E. destruct a as [aids s1]. bind_inv E. inv E. destruct (is_nil en); reflexivity.
    + destruct (negb (is_nil en)). { inv E. reflexivity. }
      destruct (uuid_eqb id (Model.sid top)). { inv E. reflexivity. }
      destruct (desc_topmost (desc_scalar c) anc s) as [r|]; [|discriminate].
      bind_inv E. destruct a as [bid s1]. bind_inv E. inv E. reflexivity.
  - destruct (negb (is_nil en) && negb (v2 c)); [|discriminate]. inv E. reflexivity.
Qed.

Lemma desc_set_id : forall c f g t s i s',
  (forall s i s', f t s = Ok (i, s') -> i = g t) ->
  desc_set H c f t s = Ok (i, s') -> i = set_id H (g t).
Proof.
  intros c f g t s i s' Hf E. unfold desc_set in E. bind_inv E. destruct a as [tid s1].
  apply Hf in E0. subst tid.
  destruct (registered (set_id H (g t)) s1). { inv E. reflexivity. }
  bind_inv E. inv E. reflexivity.
Qed.

Lemma shape_finish_id : forall c mt free impl els s i s',
  shape_finish H c mt free impl els s = Ok (i, s') -> i = shape_id_of H mt impl els.
Proof.
  intros c mt free impl els s i s' E. unfold shape_finish in E.
  fold (shape_id_of H mt impl els) in E.
  destruct (registered (shape_id_of H mt impl els) s). { inv E. reflexivity. }
  bind_inv E. destruct a as [otref s1]. bind_inv E. destruct a as [ses s2]. inv E. reflexivity.
Qed.

Lemma desc_ptr_elem : forall c f g p s oe s',
  (forall s i s', f (snd p) s = Ok (i, s') -> i = g (snd p)) ->
  desc_ptr H c f p s = Ok (oe, s') -> oe = ptr_elem H c g p.
Proof.
  intros c f g p s oe s' Hf E. unfold desc_ptr in E. unfold ptr_elem.
  destruct (negb (is_prefix (flt c) (pname (fst p)))). { inv E. reflexivity. }
  bind_inv E. destruct a as [sub s1]. inv E. f_equal.
  destruct (pmulti (fst p)); cbn [negb] in E0.
  - destruct (plink (fst p) && negb (follow c)); [discriminate|].
    apply (desc_set_id c f g) in E0; auto. subst. reflexivity.
  - destruct (plink (fst p) && negb (follow c)).
    + apply desc_scalar_id in E0. subst. reflexivity.
    + apply Hf in E0. subst. reflexivity.
Qed.

Lemma desc_lprop_elem : forall c f g mt p s e s',
  (forall s i s', f (snd p) s = Ok (i, s') -> i = g (snd p)) ->
  desc_lprop H c f mt p s = Ok (e, s') -> e = lprop_elem H g mt p.
Proof.
  intros c f g mt p s e s' Hf E. unfold desc_lprop in E. unfold lprop_elem.
  bind_inv E. destruct a as [sub s1]. inv E. f_equal.
  destruct (pmulti (fst p)); cbn [negb] in E0.
  - apply (desc_set_id c f g) in E0; auto.
  - apply Hf in E0. auto.
Qed.

(* the id returned by _describe_type depends on the term only, not on what was emitted before *)
Theorem desc_ty_tid : forall c t s i s', desc_ty H c t s = Ok (i, s') -> i = tid H c t.
Proof.
  intros c t. induction t using ty_ind'; intros s0 i s' E; cbn [desc_ty tid] in *.
  - eapply desc_scalar_id; eauto.
  - bind_inv E. destruct a as [subs s1].
    assert (subs = map (fun p => tid H c (snd p)) els).
    { eapply (mapM_ids (fun p => desc_ty H c (snd p))); [|exact E0].
      eapply Forall_impl; [|exact H0]. intros a Ha s b s2 Hd. eapply Ha; eauto. }
    subst subs.
    match type of E with context [registered ?u s1] => destruct (registered u s1) end.
    { inv E. reflexivity. }
    bind_inv E. inv E. destruct named; reflexivity.
  - bind_inv E. destruct a as [sub s1]. apply IHt in E0. subst sub.
    destruct (registered (coll1_id H s_array (tid H c t)) s1). { inv E. reflexivity. }
    bind_inv E. inv E. reflexivity.
  - bind_inv E. destruct a as [sub s1]. apply IHt in E0. subst sub.
    destruct (registered (coll1_id H s_range (tid H c t)) s1). { inv E. reflexivity. }
    bind_inv E. inv E. reflexivity.
  - bind_inv E. destruct a as [sub s1]. apply IHt in E0. subst sub.
    destruct (registered (coll1_id H s_multirange (tid H c t)) s1). { inv E. reflexivity. }
    bind_inv E. inv E. reflexivity.
  - bind_inv E. destruct a as [e1 s1]. bind_inv E. destruct a as [e2 s2].
    assert (e1 = map (ptr_elem H c (tid H c)) ptrs).
    { eapply (mapM_ids (desc_ptr H c (desc_ty H c))); [|exact E0].
      eapply Forall_impl; [|exact H0]. intros a Ha s b s3 Hd.
      eapply desc_ptr_elem; [|exact Hd]. intros; eapply Ha; eauto. }
    assert (e2 = map (lprop_elem H (tid H c) mt) lps).
    { eapply (mapM_ids (desc_lprop H c (desc_ty H c) mt)); [|exact E1].
      eapply Forall_impl; [|exact H1]. intros a Ha s b s3 Hd.
      eapply desc_lprop_elem; [|exact Hd]. intros; eapply Ha; eauto. }
    subst. eapply shape_finish_id; eauto.
  - eapply shape_finish_id; eauto.
Qed.

Theorem describe_root_id : forall c t b i, describe H c t = Ok (b, i) -> i = tid H c t.
Proof.
  intros c t b i E. unfold describe in E. bind_inv E. destruct a as [i0 s]. bind_inv E. inv E.
  eapply desc_ty_tid; eauto.
Qed.

End Ids.
