(* C04 — model of edb/schema/schema.py::FlatSchema (raw API) and the ChainedSchema router.
   Executable definitions only; proofs live in Proofs.v, statements in Props.v.
   Hand-written; tied to the source by the correspondence check (harness/props/c04.py):
   the OCaml extraction of [run] / [ch_run] and the real FlatSchema / ChainedSchema are
   driven with the same operation sequences and compared after every operation.

   What is mirrored (edb/schema/schema.py, line numbers of the pinned tree):
     _update_obj_name 611-682   -> upd_name          _update_refs_to 885-954 -> upd_refs
     add_raw 956-1008 (add 1010-1025 = reduce + add_raw)                    -> add_raw
     update_obj 684-748         -> update_obj        set_obj_field 767-826   -> set_field
     unset_obj_field 828-883    -> unset_field       _delete/delete 1035-1082 -> delete
     discard 1075-1079          -> discard           delist 1027-1033        -> delist
     ChainedSchema.add_raw/.../unset_obj_field 1727-1900                     -> ch_step
   including the error branches, in the order in which the code evaluates them.

   Abstractions (stated in DESIGN / evidence as "modelled, not verified"):
   * uuids, class objects, strings are numbers (the harness keeps injective tables);
   * a data tuple is a sparse association list  field index -> value  (absent = None);
     a value is a name, a reduced object container (only the ids it refers to: what
     schema_refs_from_data returns, kept as the stored sequence) or an opaque payload;
   * per class only what FlatSchema looks at: QualifiedObject?, Function/Operator
     (short-name cache)?, GlobalObject? (ChainedSchema routing), number of fields, index of
     'name', indexes of the object-reference fields (= the reducible fields: checked on
     all real classes on every run);
   * sn.shortname_from_fullname is a table [e_short] (tabulated from the real function for
     the names of the run; theorems hold for every table);
   * immutables.Map = association list read only through aget/aset/adel, frozenset = list
     read only through membership; _generation and the lru caches are not modelled.
   Out of the model's scope (never generated against the model; monitors only): object
   handles whose Python class differs from the stored class of a live object, data tuples
   of the wrong length, values of the wrong kind in the 'name' field. *)
From Coq Require Import List NArith Bool.
Import ListNotations.
Open Scope N_scope.

Definition id := N.
Definition cls := N.
Definition fld := N.

Inductive name := UName (s : N) | QName (m s : N).   (* sn.UnqualName / sn.QualName *)

Definition name_eqb (a b : name) : bool :=
  match a, b with
  | UName x, UName y => N.eqb x y
  | QName m x, QName m' y => N.eqb m m' && N.eqb x y
  | _, _ => false
  end.

Inductive value :=
| VName (n : name)
| VRefs (l : list id)      (* Object / ObjectCollection / ObjectDict / Expression: ids referred to *)
| VPlain (p : N).

Definition data := list (fld * value).

Inductive err :=
| EExists          (* SchemaError '... already exists' *)
| EPresent         (* SchemaError '... is already present in the schema' *)
| ENotPresent      (* SchemaError 'cannot set ...: item ... is not present' *)
| EUnknownModule   (* UnknownModuleError *)
| EKey             (* KeyError (immutables.Map.delete / [] on a missing key, all_fields[..]) *)
| EInvalidRef      (* InvalidReferenceError 'cannot delete ...: not in this schema' *)
| EAssert          (* AssertionError: isinstance(new_name, QualName) *)
| ELookup          (* LookupError: get_by_id of a missing id, get_schema_field of a bad name *)
| EAttr            (* AttributeError: None.schema_reduce(), None.module *)
| EType            (* TypeError: schema_refs_from_data on a non-container *)
| ENoClass.        (* class code not in the table: cannot happen for real classes *)

Definition res (A : Type) : Type := sum A err.
Definition bind {A B : Type} (r : res A) (f : A -> res B) : res B :=
  match r with inl a => f a | inr e => inr e end.
Notation "x <- r ;; k" := (bind r (fun x => k)) (at level 61, r at next level, right associativity).

(* ---- association lists standing for immutables.Map ---- *)
Section AMap.
  Variables (K V : Type) (eqb : K -> K -> bool).
  Fixpoint aget (k : K) (m : list (K * V)) : option V :=
    match m with
    | [] => None
    | (k', v) :: m' => if eqb k k' then Some v else aget k m'
    end.
  Fixpoint adel (k : K) (m : list (K * V)) : list (K * V) :=
    match m with
    | [] => []
    | (k', v) :: m' => if eqb k k' then adel k m' else (k', v) :: adel k m'
    end.
  Definition aset (k : K) (v : V) (m : list (K * V)) : list (K * V) := (k, v) :: adel k m.
  Definition amem (k : K) (m : list (K * V)) : bool :=
    match aget k m with Some _ => true | None => false end.
End AMap.
Arguments aget {K V} eqb k m.
Arguments adel {K V} eqb k m.
Arguments aset {K V} eqb k v m.
Arguments amem {K V} eqb k m.

Definition ck := (cls * name)%type.                 (* (sclass, name) *)
Definition ck_eqb (a b : ck) : bool := N.eqb (fst a) (fst b) && name_eqb (snd a) (snd b).
Definition rk := (cls * fld)%type.                  (* (sclass, field.name) *)
Definition rk_eqb (a b : rk) : bool := N.eqb (fst a) (fst b) && N.eqb (snd a) (snd b).

(* ---- lists standing for frozenset[uuid] ---- *)
Definition smem (x : N) (l : list N) : bool := existsb (N.eqb x) l.
Definition sadd (x : N) (l : list N) : list N := if smem x l then l else x :: l.
Definition srem (x : N) (l : list N) : list N := filter (fun y => negb (N.eqb x y)) l.
Definition sdiff (a b : list N) : list N := filter (fun x => negb (smem x b)) a.
Fixpoint dedup (l : list N) : list N :=
  match l with
  | [] => []
  | x :: l' => if smem x l' then dedup l' else x :: dedup l'
  end.
Definition isnil {A : Type} (l : list A) : bool := match l with [] => true | _ => false end.

(* ---- classes and environment ---- *)
Record cinfo := {
  c_qual : bool;        (* issubclass(sclass, so.QualifiedObject) *)
  c_sn : bool;          (* issubclass(sclass, (Function, Operator)): has_sn_cache *)
  c_gobj : bool;        (* issubclass(sclass, so.GlobalObject): ChainedSchema routing *)
  c_nf : N;             (* len(get_schema_fields()) *)
  c_name : fld;         (* get_schema_field('name').index *)
  c_refs : list fld     (* indexes of get_object_reference_fields() (= reducible fields) *)
}.

Record env := {
  e_classes : list (cls * cinfo);
  e_module : cls;                   (* s_mod.Module *)
  e_special : list N;               (* SPECIAL_MODULES *)
  e_short : list (name * name)      (* shortname_from_fullname where it is not the identity *)
}.

Definition class_info (e : env) (c : cls) : res cinfo :=
  match aget N.eqb c (e_classes e) with Some ci => inl ci | None => inr ENoClass end.
Definition shortname (e : env) (n : name) : name :=
  match aget name_eqb n (e_short e) with Some s => s | None => n end.

(* ---- the schema ---- *)
Definition refsmap := list (id * list (rk * list id)).
Record schema := {
  s_data : list (id * data);            (* _id_to_data *)
  s_type : list (id * cls);             (* _id_to_type *)
  s_name : list (name * id);            (* _name_to_id *)
  s_short : list (ck * list id);        (* _shortname_to_id *)
  s_glob : list (ck * id);              (* _globalname_to_id *)
  s_refs : refsmap                      (* _refs_to *)
}.
Definition empty : schema :=
  {| s_data := []; s_type := []; s_name := []; s_short := []; s_glob := []; s_refs := [] |}.

Definition names3 := (list (name * id) * list (ck * list id) * list (ck * id))%type.

(* the error raised on a name clash: get_by_id(other id) may itself fail *)
Definition exists_err (s : schema) (j : id) : err :=
  if amem N.eqb j (s_type s) then EExists else ELookup.

(* has_module: get_global(Module, m, None) is not None *)
Definition has_module (e : env) (s : schema) (m : N) : res bool :=
  match aget ck_eqb (e_module e, UName m) (s_glob s) with
  | None => inl false
  | Some j => if amem N.eqb j (s_type s) then inl true else inr ELookup
  end.

(* _update_obj_name(obj_id, sclass, old_name, new_name): first the "if old_name is not None" half *)
Definition upd_name_old (e : env) (s : schema) (oid : id) (c : cls) (ci : cinfo)
           (old : option name) : res names3 :=
  match old with
  | None => inl (s_name s, s_short s, s_glob s)
  | Some o =>
      r <- (if c_qual ci then
              if amem name_eqb o (s_name s) then inl (adel name_eqb o (s_name s), s_glob s)
              else inr EKey
            else
              if amem ck_eqb (c, o) (s_glob s) then inl (s_name s, adel ck_eqb (c, o) (s_glob s))
              else inr EKey) ;;
      if c_sn ci then
        let key := (c, shortname e o) in
        match aget ck_eqb key (s_short s) with
        | None => inr EKey
        | Some ids =>
            let ids' := srem oid ids in
            inl (fst r, (if isnil ids' then adel ck_eqb key (s_short s)
                         else aset ck_eqb key ids' (s_short s)), snd r)
        end
      else inl (fst r, s_short s, snd r)
  end.

(* ... then the "if new_name is not None" half, on the maps produced by the first *)
Definition upd_name_new (e : env) (s : schema) (oid : id) (c : cls) (ci : cinfo)
           (r1 : names3) (new : option name) : res names3 :=
  let nm1 := fst (fst r1) in let sh1 := snd (fst r1) in let gn1 := snd r1 in
  match new with
  | None => inl r1
  | Some n =>
      r <- (if negb (c_qual ci) then
              match aget ck_eqb (c, n) gn1 with
              | Some j => inr (exists_err s j)
              | None => inl (nm1, aset ck_eqb (c, n) oid gn1)
              end
            else
              match n with
              | UName _ => inr EAssert
              | QName m _ =>
                  hm <- has_module e s m ;;
                  if negb hm && negb (smem m (e_special e)) then inr EUnknownModule
                  else match aget name_eqb n nm1 with
                       | Some j => inr (exists_err s j)
                       | None => inl (aset name_eqb n oid nm1, gn1)
                       end
              end) ;;
      let sh2 := if c_sn ci then
                   let key := (c, shortname e n) in
                   let ids := match aget ck_eqb key sh1 with Some l => l | None => [] end in
                   aset ck_eqb key (sadd oid ids) sh1
                 else sh1 in
      inl (fst r, sh2, snd r)
  end.

Definition upd_name (e : env) (s : schema) (oid : id) (c : cls) (ci : cinfo)
           (old new : option name) : res names3 :=
  r1 <- upd_name_old e s oid c ci old ;;
  upd_name_new e s oid c ci r1 new.

(* ---- _update_refs_to ---- *)
Definition refs_add (rf : refsmap) (t : id) (k : rk) (r : id) : refsmap :=
  match aget N.eqb t rf with
  | None => aset N.eqb t [(k, [r])] rf
  | Some m =>
      let l := match aget rk_eqb k m with None => [r] | Some l => sadd r l end in
      aset N.eqb t (aset rk_eqb k l m) rf
  end.

Definition refs_del (rf : refsmap) (t : id) (k : rk) (r : id) : res refsmap :=
  match aget N.eqb t rf with
  | None => inr EKey
  | Some m =>
      match aget rk_eqb k m with
      | None => inr EKey
      | Some l =>
          if smem r l then
            let l' := srem r l in
            inl (aset N.eqb t (if isnil l' then adel rk_eqb k m else aset rk_eqb k l' m) rf)
          else inr EKey
      end
  end.

Fixpoint refs_add_all (rf : refsmap) (ts : list id) (k : rk) (r : id) : refsmap :=
  match ts with
  | [] => rf
  | t :: ts' => refs_add_all (refs_add rf t k r) ts' k r
  end.

Fixpoint refs_del_all (rf : refsmap) (ts : list id) (k : rk) (r : id) : res refsmap :=
  match ts with
  | [] => inl rf
  | t :: ts' => rf' <- refs_del rf t k r ;; refs_del_all rf' ts' k r
  end.

Definition lk (f : fld) (m : list (fld * list id)) : list id :=
  match aget N.eqb f m with Some l => l | None => [] end.

(* one pass over sclass.get_object_reference_fields() *)
Fixpoint upd_refs (oid : id) (c : cls) (fs : list fld) (orig new : list (fld * list id))
         (rf : refsmap) : res refsmap :=
  match fs with
  | [] => inl rf
  | f :: fs' =>
      let ids := dedup (lk f new) in
      let oids := dedup (lk f orig) in
      let rf1 := refs_add_all rf (sdiff ids oids) (c, f) oid in
      rf2 <- refs_del_all rf1 (sdiff oids ids) (c, f) oid ;;
      upd_refs oid c fs' orig new rf2
  end.

(* ---- values ---- *)
Definition as_name (v : option value) : res (option name) :=
  match v with
  | None => inl None
  | Some (VName n) => inl (Some n)
  | Some _ => inr EType
  end.
(* field.type.schema_refs_from_data(stored data) *)
Definition reduced_refs (v : value) : res (list id) :=
  match v with VRefs l => inl l | _ => inr EType end.
(* value.schema_reduce() then schema_refs_from_data *)
Definition unreduced_refs (v : value) : res (list id) :=
  match v with VRefs l => inl l | _ => inr EAttr end.

Fixpoint collect_refs (d : data) (fs : list fld) : res (list (fld * list id)) :=
  match fs with
  | [] => inl []
  | f :: fs' =>
      match aget N.eqb f d with
      | None => collect_refs d fs'
      | Some v => l <- reduced_refs v ;; rest <- collect_refs d fs' ;; inl ((f, l) :: rest)
      end
  end.

Definition dset (d : data) (f : fld) (v : option value) : data :=
  match v with None => adel N.eqb f d | Some x => aset N.eqb f x d end.

Definition with_names (t : option names3) (s : schema) : schema :=
  match t with
  | None => s
  | Some t => {| s_data := s_data s; s_type := s_type s; s_name := fst (fst t);
                 s_short := snd (fst t); s_glob := snd t; s_refs := s_refs s |}
  end.

(* ---- add_raw ---- *)
Definition add_raw (e : env) (s : schema) (i : id) (c : cls) (d : data) : res schema :=
  ci <- class_info e c ;;
  nmo <- as_name (aget N.eqb (c_name ci) d) ;;
  _ <- match nmo with
       | Some n => match aget name_eqb n (s_name s) with
                   | Some j => inr (exists_err s j)
                   | None => inl tt
                   end
       | None => inl tt
       end ;;
  _ <- (if amem N.eqb i (s_data s) then inr EPresent else inl tt) ;;
  new_refs <- collect_refs d (c_refs ci) ;;
  rf <- upd_refs i c (c_refs ci) [] new_refs (s_refs s) ;;
  t <- upd_name e s i c ci None nmo ;;
  _ <- (if c_qual ci then match nmo with None => inr EAttr | Some _ => inl tt end else inl tt) ;;
  inl {| s_data := aset N.eqb i d (s_data s); s_type := aset N.eqb i c (s_type s);
         s_name := fst (fst t); s_short := snd (fst t); s_glob := snd t; s_refs := rf |}.

(* ---- add: schema_reduce() every reducible field, then add_raw ---- *)
Fixpoint check_unreduced (d : data) (fs : list fld) : res unit :=
  match fs with
  | [] => inl tt
  | f :: fs' =>
      match aget N.eqb f d with
      | None => check_unreduced d fs'
      | Some v => _ <- unreduced_refs v ;; check_unreduced d fs'
      end
  end.

Definition add (e : env) (s : schema) (i : id) (c : cls) (d : data) : res schema :=
  ci <- class_info e c ;;
  _ <- check_unreduced d (c_refs ci) ;;
  add_raw e s i c d.

(* ---- update_obj ---- *)
Record uacc := { u_data : data; u_names : option names3;
                 u_orig : list (fld * list id); u_new : list (fld * list id) }.

Fixpoint upd_loop (e : env) (s : schema) (i : id) (hc : cls) (ci : cinfo)
         (u : list (fld * option value)) (a : uacc) : res uacc :=
  match u with
  | [] => inl a
  | (f, v) :: u' =>
      if negb (f <? c_nf ci) then inr EKey else
      names <- (if f =? c_name ci then
                  on <- as_name (aget N.eqb f (u_data a)) ;;
                  nn <- as_name v ;;
                  t <- upd_name e s i hc ci on nn ;;
                  inl (Some t)
                else inl (u_names a)) ;;
      on' <- (if smem f (c_refs ci) then
                match v with
                | None =>
                    match aget N.eqb f (u_data a) with
                    | None => inl (u_orig a, u_new a)
                    | Some ov => ol <- reduced_refs ov ;; inl (aset N.eqb f ol (u_orig a), u_new a)
                    end
                | Some x =>
                    l <- unreduced_refs x ;;
                    match aget N.eqb f (u_data a) with
                    | None => inl (u_orig a, aset N.eqb f l (u_new a))
                    | Some ov => ol <- reduced_refs ov ;;
                                 inl (aset N.eqb f ol (u_orig a), aset N.eqb f l (u_new a))
                    end
                end
              else inl (u_orig a, u_new a)) ;;
      upd_loop e s i hc ci u'
               {| u_data := dset (u_data a) f v; u_names := names;
                  u_orig := fst on'; u_new := snd on' |}
  end.

Definition update_obj (e : env) (s : schema) (hc : cls) (i : id)
           (u : list (fld * option value)) : res schema :=
  match u with
  | [] => inl s
  | _ =>
      ci <- class_info e hc ;;
      let d0 := match aget N.eqb i (s_data s) with Some d => d | None => [] end in
      a <- upd_loop e s i hc ci u {| u_data := d0; u_names := None; u_orig := []; u_new := [] |} ;;
      rf <- upd_refs i hc (c_refs ci) (u_orig a) (u_new a) (s_refs s) ;;
      inl (with_names (u_names a)
             {| s_data := aset N.eqb i (u_data a) (s_data s); s_type := s_type s;
                s_name := s_name s; s_short := s_short s; s_glob := s_glob s; s_refs := rf |})
  end.

(* ---- set_obj_field ---- *)
Definition set_field (e : env) (s : schema) (i : id) (f : fld) (v : option value) : res schema :=
  match aget N.eqb i (s_data s) with
  | None => inr ENotPresent
  | Some d =>
      match aget N.eqb i (s_type s) with
      | None => inr EKey
      | Some c =>
          ci <- class_info e c ;;
          if negb (f <? c_nf ci) then inr ELookup else
          newl <- (if smem f (c_refs ci) then
                     match v with
                     | None => inr EAttr
                     | Some x => l <- unreduced_refs x ;; inl (Some l)
                     end
                   else inl None) ;;
          names <- (if f =? c_name ci then
                      on <- as_name (aget N.eqb f d) ;;
                      nn <- as_name v ;;
                      t <- upd_name e s i c ci on nn ;;
                      inl (Some t)
                    else inl None) ;;
          rf <- match newl with
                | None => inl (s_refs s)
                | Some l =>
                    orig <- match aget N.eqb f d with
                            | None => inl []
                            | Some ov => ol <- reduced_refs ov ;; inl [(f, ol)]
                            end ;;
                    upd_refs i c (c_refs ci) orig [(f, l)] (s_refs s)
                end ;;
          inl (with_names names
                 {| s_data := aset N.eqb i (dset d f v) (s_data s); s_type := s_type s;
                    s_name := s_name s; s_short := s_short s; s_glob := s_glob s; s_refs := rf |})
      end
  end.

(* ---- unset_obj_field ---- *)
Definition unset_field (e : env) (s : schema) (i : id) (f : fld) : res schema :=
  match aget N.eqb i (s_data s) with
  | None => inl s
  | Some d =>
      match aget N.eqb i (s_type s) with
      | None => inr EKey
      | Some c =>
          ci <- class_info e c ;;
          if negb (f <? c_nf ci) then inr ELookup else
          match aget N.eqb f d with
          | None => inl s
          | Some ov =>
              names <- (if f =? c_name ci then
                          on <- as_name (Some ov) ;;
                          t <- upd_name e s i c ci on None ;;
                          inl (Some t)
                        else inl None) ;;
              rf <- (if smem f (c_refs ci) then
                       ol <- reduced_refs ov ;;
                       upd_refs i c (c_refs ci) [(f, ol)] [] (s_refs s)
                     else inl (s_refs s)) ;;
              inl (with_names names
                     {| s_data := aset N.eqb i (adel N.eqb f d) (s_data s); s_type := s_type s;
                        s_name := s_name s; s_short := s_short s; s_glob := s_glob s;
                        s_refs := rf |})
          end
      end
  end.

(* ---- _delete / delete / discard / delist ---- *)
Definition delete (e : env) (s : schema) (hc : cls) (i : id) : res schema :=
  match aget N.eqb i (s_data s) with
  | None => inr EInvalidRef
  | Some d =>
      ci <- class_info e hc ;;
      on <- as_name (aget N.eqb (c_name ci) d) ;;
      t <- upd_name e s i hc ci on None ;;
      orig <- collect_refs d (c_refs ci) ;;
      rf <- upd_refs i hc (c_refs ci) orig [] (s_refs s) ;;
      if amem N.eqb i (s_type s) then
        inl {| s_data := adel N.eqb i (s_data s); s_type := adel N.eqb i (s_type s);
               s_name := fst (fst t); s_short := snd (fst t); s_glob := snd t; s_refs := rf |}
      else inr EKey
  end.

Definition discard (e : env) (s : schema) (hc : cls) (i : id) : res schema :=
  if amem N.eqb i (s_data s) then delete e s hc i else inl s.

Definition delist (s : schema) (n : name) : res schema :=
  if amem name_eqb n (s_name s) then
    inl {| s_data := s_data s; s_type := s_type s; s_name := adel name_eqb n (s_name s);
           s_short := s_short s; s_glob := s_glob s; s_refs := s_refs s |}
  else inr EKey.

(* ---- operations ---- *)
Inductive op :=
| OAdd (raw : bool) (i : id) (c : cls) (d : data)             (* add_raw (true) / add (false) *)
| OUpdate (hc : cls) (i : id) (u : list (fld * option value)) (* update_obj(handle, {..}) *)
| OSet (hc : cls) (i : id) (f : fld) (v : option value)       (* set_obj_field *)
| OUnset (hc : cls) (i : id) (f : fld)                        (* unset_obj_field *)
| ODelete (hc : cls) (i : id)
| ODiscard (hc : cls) (i : id)
| ODelist (n : name).

Definition step (e : env) (s : schema) (o : op) : res schema :=
  match o with
  | OAdd raw i c d => if raw then add_raw e s i c d else add e s i c d
  | OUpdate hc i u => update_obj e s hc i u
  | OSet _ i f v => set_field e s i f v
  | OUnset _ i f => unset_field e s i f
  | ODelete hc i => delete e s hc i
  | ODiscard hc i => discard e s hc i
  | ODelist n => delist s n
  end.

(* a history: a rejected command raises, the caller keeps the schema value it had *)
Definition apply (e : env) (s : schema) (o : op) : schema :=
  match step e s o with inl s' => s' | inr _ => s end.
Definition run (e : env) (s : schema) (os : list op) : schema := fold_left (apply e) os s.

(* the states after every prefix (what the driver prints, and what "earlier values" are) *)
Fixpoint trace (e : env) (s : schema) (os : list op) : list (option err * schema) :=
  match os with
  | [] => []
  | o :: os' =>
      match step e s o with
      | inl s' => (None, s') :: trace e s' os'
      | inr x => (Some x, s) :: trace e s os'
      end
  end.

(* ---- ChainedSchema: a router over three FlatSchemas ---- *)
Record chained := { ch_base : schema; ch_top : schema; ch_glob : schema }.

Definition is_gobj (e : env) (c : cls) : res bool := ci <- class_info e c ;; inl (c_gobj ci).

Definition in_glob (s : chained) (g : schema) : chained :=
  {| ch_base := ch_base s; ch_top := ch_top s; ch_glob := g |}.
Definition in_top (s : chained) (t : schema) : chained :=
  {| ch_base := ch_base s; ch_top := t; ch_glob := ch_glob s |}.

Definition ch_step (e : env) (s : chained) (o : op) : res chained :=
  match o with
  | OAdd raw i c d =>
      g <- is_gobj e c ;;
      if g then r <- step e (ch_glob s) (OAdd raw i c d) ;; inl (in_glob s r)
      else r <- step e (ch_top s) (OAdd raw i c d) ;; inl (in_top s r)
  | OUpdate hc i u =>
      g <- is_gobj e hc ;;
      if g then r <- update_obj e (ch_glob s) hc i u ;; inl (in_glob s r)
      else
        (* base_obj = base.get_by_id(id, None); copy it into top if top lacks it *)
        top <- match aget N.eqb i (s_type (ch_base s)) with
               | Some bc =>
                   if amem N.eqb i (s_type (ch_top s)) then inl (ch_top s)
                   else match aget N.eqb i (s_data (ch_base s)) with
                        | None => inr EKey
                        | Some bd => add_raw e (ch_top s) i bc bd
                        end
               | None => inl (ch_top s)
               end ;;
        r <- update_obj e top hc i u ;; inl (in_top s r)
  | OSet hc i f v =>
      g <- is_gobj e hc ;;
      if g then r <- set_field e (ch_glob s) i f v ;; inl (in_glob s r)
      else r <- set_field e (ch_top s) i f v ;; inl (in_top s r)
  | OUnset hc i f =>
      g <- is_gobj e hc ;;
      if g then r <- unset_field e (ch_glob s) i f ;; inl (in_glob s r)
      else r <- unset_field e (ch_top s) i f ;; inl (in_top s r)
  | ODelete hc i =>
      g <- is_gobj e hc ;;
      if g then r <- delete e (ch_glob s) hc i ;; inl (in_glob s r)
      else r <- delete e (ch_top s) hc i ;; inl (in_top s r)
  | ODiscard hc i =>
      g <- is_gobj e hc ;;
      if g then r <- discard e (ch_glob s) hc i ;; inl (in_glob s r)
      else r <- discard e (ch_top s) hc i ;; inl (in_top s r)
  | ODelist n => r <- delist (ch_top s) n ;; inl (in_top s r)
  end.

Definition ch_apply (e : env) (s : chained) (o : op) : chained :=
  match ch_step e s o with inl s' => s' | inr _ => s end.

Fixpoint ch_trace (e : env) (s : chained) (os : list op) : list (option err * chained) :=
  match os with
  | [] => []
  | o :: os' =>
      match ch_step e s o with
      | inl s' => (None, s') :: ch_trace e s' os'
      | inr x => (Some x, s) :: ch_trace e s os'
      end
  end.

(* ---- an object's own data, as read by the invariants and by Layer 2 ---- *)
Definition name_of (ci : cinfo) (d : data) : option name :=
  match aget N.eqb (c_name ci) d with Some (VName n) => Some n | _ => None end.
Definition frefs (d : data) (f : fld) : list id :=
  match aget N.eqb f d with Some (VRefs l) => l | _ => [] end.

(* ---- Layer 2 (MODEL ONLY, not tied to edb/schema/delta.py): guarded commands in the style
   of the delta commands.  CREATE / ALTER refuse references to objects that are not in the
   schema; DROP takes an object together with its owned subtree and is refused when anything
   outside the dropped set still refers to a member (the guard reads the reverse index
   _refs_to, as DeleteObject reads get_referrers); a command whose guard or underlying raw
   operation fails leaves the schema unchanged. ---- *)
Definition live (s : schema) (t : id) : bool := amem N.eqb t (s_type s).
Definition refs_ok (s : schema) (self : id) (l : list id) : bool :=
  forallb (fun t => N.eqb t self || live s t) l.
Definition data_refs_ok (s : schema) (self : id) (ci : cinfo) (d : data) : bool :=
  forallb (fun f => refs_ok s self (frefs d f)) (c_refs ci).
(* get_referrers(obj): everything listed under the object in _refs_to *)
Definition referrers (s : schema) (t : id) : list id :=
  match aget N.eqb t (s_refs s) with None => [] | Some m => flat_map snd m end.

Inductive cmd :=
| CCreate (i : id) (c : cls) (d : data)
| CAlter (hc : cls) (i : id) (f : fld) (v : option value)
| CDrop (l : list (cls * id)).

Inductive cerr := CGuard | COp (x : err).

Definition lift (r : res schema) : sum schema cerr :=
  match r with inl s => inl s | inr x => inr (COp x) end.

Fixpoint delete_all (e : env) (s : schema) (l : list (cls * id)) : res schema :=
  match l with
  | [] => inl s
  | (hc, i) :: l' => s1 <- delete e s hc i ;; delete_all e s1 l'
  end.

Definition cmd_step (e : env) (s : schema) (c : cmd) : sum schema cerr :=
  match c with
  | CCreate i c d =>
      match class_info e c with
      | inr x => inr (COp x)
      | inl ci => if data_refs_ok s i ci d then lift (add_raw e s i c d) else inr CGuard
      end
  | CAlter hc i f v =>
      match v with
      | Some (VRefs l) => if refs_ok s i l then lift (set_field e s i f v) else inr CGuard
      | Some _ => lift (set_field e s i f v)
      | None => lift (unset_field e s i f)
      end
  | CDrop l =>
      if forallb (fun p => forallb (fun r => smem r (map snd l)) (referrers s (snd p))) l
      then lift (delete_all e s l) else inr CGuard
  end.


Definition cmd_apply (e : env) (s : schema) (c : cmd) : schema :=
  match cmd_step e s c with inl s' => s' | inr _ => s end.
Definition cmd_run (e : env) (s : schema) (cs : list cmd) : schema := fold_left (cmd_apply e) cs s.

(* ---- order-preserving serialisation (used only to cross-check the OCaml extraction against
   vm_compute inside Coq: both must print the same numbers for the same case) ---- *)
Definition ser_list {A : Type} (f : A -> list N) (l : list A) : list N :=
  N.of_nat (length l) :: flat_map f l.
Definition ser_ids (l : list id) : list N := ser_list (fun x => [x]) l.
Definition ser_name (n : name) : list N :=
  match n with UName s => [0; s] | QName m s => [1; m; s] end.
Definition ser_value (v : value) : list N :=
  match v with
  | VName n => 0 :: ser_name n
  | VRefs l => 1 :: ser_ids l
  | VPlain p => [2; p]
  end.
Definition ser_err (x : option err) : N :=
  match x with
  | None => 0
  | Some EExists => 1 | Some EPresent => 2 | Some ENotPresent => 3 | Some EUnknownModule => 4
  | Some EKey => 5 | Some EInvalidRef => 6 | Some EAssert => 7 | Some ELookup => 8
  | Some EAttr => 9 | Some EType => 10 | Some ENoClass => 11
  end.
Definition ser_schema (s : schema) : list N :=
  ser_list (fun p => fst p :: ser_list (fun q => fst q :: ser_value (snd q)) (snd p)) (s_data s)
  ++ ser_list (fun p => [fst p; snd p]) (s_type s)
  ++ ser_list (fun p => ser_name (fst p) ++ [snd p]) (s_name s)
  ++ ser_list (fun p => fst (fst p) :: ser_name (snd (fst p)) ++ ser_ids (snd p)) (s_short s)
  ++ ser_list (fun p => fst (fst p) :: ser_name (snd (fst p)) ++ [snd p]) (s_glob s)
  ++ ser_list (fun p => fst p :: ser_list (fun q => fst (fst q) :: snd (fst q) :: ser_ids (snd q)) (snd p))
       (s_refs s).
Definition ser_trace (e : env) (os : list op) : list N :=
  flat_map (fun p => ser_err (fst p) :: ser_schema (snd p)) (trace e empty os).
Definition ser_chained (s : chained) : list N :=
  ser_schema (ch_base s) ++ ser_schema (ch_top s) ++ ser_schema (ch_glob s).
Definition ser_ch_trace (e : env) (base : list op) (os : list op) : list N :=
  flat_map (fun p => ser_err (fst p) :: ser_chained (snd p))
           (ch_trace e {| ch_base := run e empty base; ch_top := empty; ch_glob := empty |} os).
