(* C04 — what is FALSE of the faithful model of the raw FlatSchema API (computed witnesses).
   Both witnesses are replayed against the real code on every run (corpus/C04/refuted_*.json:
   model and implementation agree on them).  They are not defects of the delta layer: DDL never
   calls update_obj on an object that is not in the schema, and it is DeleteObject /
   CreateObject, not FlatSchema, that refuse dangling references (Layer 2, not covered). *)
From Coq Require Import List NArith.
From Verif.C04 Require Import Model Proofs Props.
Import ListNotations.
Open Scope N_scope.

(* 1. The wf_op hypothesis of C04_index_inv cannot be dropped: update_obj on an object that is
      not in the schema is ACCEPTED and creates a data entry (and a global-name entry) without a
      type entry, so _id_to_type no longer has the keys of _id_to_data. *)
Definition upsert_op : op := OUpdate 34 5 [(2, Some (VName (UName 0)))].

Theorem C04_index_inv_without_wf_op_refuted :
  exists e s o s', wf_env e /\ Inv e s /\ step e s o = inl s' /\ ~ Inv e s'.
Proof.
  exists ex_env, empty, upsert_op.
  eexists. split; [exact ex_wf_env|]. split; [apply Inv_empty|]. split; [vm_compute; reflexivity|].
  intro HI. pose proof (proj1 (i_dom _ _ HI 5) eq_refl) as H. vm_compute in H. discriminate.
Qed.
Print Assumptions C04_index_inv_without_wf_op_refuted.

(* 2. The raw API does not keep references resolvable: add_raw accepts a reference to an id
      that is not in the schema, and delete drops an object that is still referred to.  Both
      histories are well-formed (Inv holds throughout), yet RefInt fails at the end. *)
Definition dangling_add : list op :=
  [ OAdd true 1 34 [(2, VName (UName 0))];
    OAdd true 2 40 [(2, VName (QName 0 5)); (6, VRefs [9])] ].

Definition dangling_delete : list op :=
  [ OAdd true 1 34 [(2, VName (UName 0))];
    OAdd true 2 40 [(2, VName (QName 0 5))];
    OAdd true 3 40 [(2, VName (QName 0 6)); (6, VRefs [2])];
    ODelete 40 2 ].

Theorem C04_raw_api_refint_refuted :
  (wf_hist ex_env empty dangling_add /\ ~ RefInt ex_env (run ex_env empty dangling_add))
  /\ (wf_hist ex_env empty dangling_delete /\ ~ RefInt ex_env (run ex_env empty dangling_delete)).
Proof.
  split; split.
  - vm_compute. repeat split; auto.
  - intro H. apply (H 2 40 ex_ci40 [(2, VName (QName 0 5)); (6, VRefs [9])] 6 9); vm_compute; auto.
  - vm_compute. repeat split; auto.
  - intro H. apply (H 3 40 ex_ci40 [(2, VName (QName 0 6)); (6, VRefs [2])] 6 2); vm_compute; auto.
Qed.
Print Assumptions C04_raw_api_refint_refuted.
