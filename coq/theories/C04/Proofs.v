(* C04 — proofs about the model of FlatSchema (Model.v). *)
From Coq Require Import List NArith Bool Arith Lia.
Import ListNotations.
From Verif.C04 Require Import Model.
Open Scope N_scope.

(* ------------------------------------------------------------------ *)
(* key equalities                                                      *)

Lemma name_eqb_eq a b : name_eqb a b = true <-> a = b.
Proof.
  destruct a, b; simpl; split; intro H; try discriminate.
  - apply N.eqb_eq in H. congruence.
  - inversion H. apply N.eqb_refl.
  - apply andb_true_iff in H. destruct H as [H1 H2].
    apply N.eqb_eq in H1. apply N.eqb_eq in H2. congruence.
  - inversion H. rewrite !N.eqb_refl. reflexivity.
Qed.

Lemma ck_eqb_eq (a b : ck) : ck_eqb a b = true <-> a = b.
Proof.
  destruct a as [c n], b as [c' n']. unfold ck_eqb. simpl. rewrite andb_true_iff, N.eqb_eq, name_eqb_eq.
  split; [intros [? ?]; congruence | intro H; inversion H; auto].
Qed.

Lemma rk_eqb_eq (a b : rk) : rk_eqb a b = true <-> a = b.
Proof.
  destruct a as [c f], b as [c' f']. unfold rk_eqb. simpl. rewrite andb_true_iff, !N.eqb_eq.
  split; [intros [? ?]; congruence | intro H; inversion H; auto].
Qed.

Lemma name_eq_dec (a b : name) : {a = b} + {a <> b}.
Proof. decide equality; apply N.eq_dec. Qed.
Lemma ck_eq_dec (a b : ck) : {a = b} + {a <> b}.
Proof. decide equality; [apply name_eq_dec | apply N.eq_dec]. Qed.
Lemma rk_eq_dec (a b : rk) : {a = b} + {a <> b}.
Proof. decide equality; apply N.eq_dec. Qed.
Lemma oname_eq_dec (a b : option name) : {a = b} + {a <> b}.
Proof. decide equality; apply name_eq_dec. Qed.

(* ------------------------------------------------------------------ *)
(* association lists: the only facts used about immutables.Map          *)

Section AMapLaws.
  Variables (K V : Type) (eqb : K -> K -> bool).
  Hypothesis eqb_eq : forall a b, eqb a b = true <-> a = b.

  Lemma eqb_rfl k : eqb k k = true.
  Proof. apply eqb_eq. reflexivity. Qed.

  Lemma eqb_neq k k' : k <> k' -> eqb k k' = false.
  Proof. intro H. destruct (eqb k k') eqn:E; [apply eqb_eq in E; contradiction | reflexivity]. Qed.

  Lemma aget_adel_same k (m : list (K * V)) : aget eqb k (adel eqb k m) = None.
  Proof.
    induction m as [|[k0 v0] m IH]; simpl; [reflexivity|].
    destruct (eqb k k0) eqn:E; [exact IH|]. simpl. rewrite E. exact IH.
  Qed.

  Lemma aget_adel_other k k' (m : list (K * V)) : k' <> k -> aget eqb k' (adel eqb k m) = aget eqb k' m.
  Proof.
    intro Hn. induction m as [|[k0 v0] m IH]; simpl; [reflexivity|].
    destruct (eqb k k0) eqn:E.
    - apply eqb_eq in E. subst k0. rewrite (eqb_neq _ _ Hn). exact IH.
    - simpl. destruct (eqb k' k0); [reflexivity | exact IH].
  Qed.

  Lemma aget_aset_same k v (m : list (K * V)) : aget eqb k (aset eqb k v m) = Some v.
  Proof. unfold aset. simpl. rewrite eqb_rfl. reflexivity. Qed.

  Lemma aget_aset_other k k' v (m : list (K * V)) : k' <> k -> aget eqb k' (aset eqb k v m) = aget eqb k' m.
  Proof. intro Hn. unfold aset. simpl. rewrite (eqb_neq _ _ Hn). apply aget_adel_other. exact Hn. Qed.

  Lemma amem_true k (m : list (K * V)) : amem eqb k m = true <-> aget eqb k m <> None.
  Proof. unfold amem. destruct (aget eqb k m); split; intro H; congruence. Qed.

  Lemma amem_false k (m : list (K * V)) : amem eqb k m = false <-> aget eqb k m = None.
  Proof. unfold amem. destruct (aget eqb k m); split; intro H; congruence. Qed.
End AMapLaws.

(* instances *)
Definition Ng_del_same {V} := @aget_adel_same N V N.eqb.
Definition Ng_del_other {V} := @aget_adel_other N V N.eqb N.eqb_eq.
Definition Ng_set_same {V} := @aget_aset_same N V N.eqb N.eqb_eq.
Definition Ng_set_other {V} := @aget_aset_other N V N.eqb N.eqb_eq.
Definition nm_del_same {V} := @aget_adel_same name V name_eqb.
Definition nm_del_other {V} := @aget_adel_other name V name_eqb name_eqb_eq.
Definition nm_set_same {V} := @aget_aset_same name V name_eqb name_eqb_eq.
Definition nm_set_other {V} := @aget_aset_other name V name_eqb name_eqb_eq.
Definition ck_del_same {V} := @aget_adel_same ck V ck_eqb.
Definition ck_del_other {V} := @aget_adel_other ck V ck_eqb ck_eqb_eq.
Definition ck_set_same {V} := @aget_aset_same ck V ck_eqb ck_eqb_eq.
Definition ck_set_other {V} := @aget_aset_other ck V ck_eqb ck_eqb_eq.
Definition rk_del_same {V} := @aget_adel_same rk V rk_eqb.
Definition rk_del_other {V} := @aget_adel_other rk V rk_eqb rk_eqb_eq.
Definition rk_set_same {V} := @aget_aset_same rk V rk_eqb rk_eqb_eq.
Definition rk_set_other {V} := @aget_aset_other rk V rk_eqb rk_eqb_eq.

(* ------------------------------------------------------------------ *)
(* lists as sets                                                       *)

Lemma smem_In x l : smem x l = true <-> In x l.
Proof.
  unfold smem. rewrite existsb_exists. split.
  - intros [y [Hy He]]. apply N.eqb_eq in He. subst. exact Hy.
  - intro H. exists x. split; [exact H | apply N.eqb_refl].
Qed.

Lemma smem_nIn x l : smem x l = false <-> ~ In x l.
Proof. rewrite <- smem_In. destruct (smem x l); split; intros; try congruence; intuition. Qed.

Lemma In_sadd y x l : In y (sadd x l) <-> y = x \/ In y l.
Proof.
  unfold sadd. destruct (smem x l) eqn:E.
  - apply smem_In in E. split; [auto | intros [->|H]; auto].
  - simpl. split; intros [H|H]; auto.
Qed.

Lemma In_srem y x l : In y (srem x l) <-> In y l /\ y <> x.
Proof.
  unfold srem. rewrite filter_In. rewrite negb_true_iff, N.eqb_neq. intuition.
Qed.

Lemma In_sdiff x a b : In x (sdiff a b) <-> In x a /\ ~ In x b.
Proof. unfold sdiff. rewrite filter_In, negb_true_iff, smem_nIn. tauto. Qed.

Lemma In_dedup x l : In x (dedup l) <-> In x l.
Proof.
  induction l as [|y l IH]; simpl; [tauto|].
  destruct (smem y l) eqn:E.
  - apply smem_In in E. rewrite IH. split; [auto | intros [->|H]; auto].
  - simpl. rewrite IH. tauto.
Qed.

Lemma isnil_true {A} (l : list A) : isnil l = true <-> l = [].
Proof. destruct l; simpl; split; intro H; congruence. Qed.

Lemma isnil_false {A} (l : list A) : isnil l = false <-> l <> [].
Proof. destruct l; simpl; split; intro H; congruence. Qed.

Lemma nonnil_In {A} (l : list A) : l <> [] <-> exists x, In x l.
Proof.
  destruct l as [|a l]; split; intro H.
  - congruence.
  - destruct H as [x []].
  - exists a. left. reflexivity.
  - discriminate.
Qed.

(* ------------------------------------------------------------------ *)
(* the reverse-reference index                                         *)

Definition rin (rf : refsmap) (t : id) (k : rk) (r : id) : Prop :=
  exists m l, aget N.eqb t rf = Some m /\ aget rk_eqb k m = Some l /\ In r l.
(* no (key -> empty set) entry is ever kept *)
Definition rne (rf : refsmap) : Prop :=
  forall t m k, aget N.eqb t rf = Some m -> aget rk_eqb k m <> Some [].

Lemma refs_add_rin rf t k r t' k' r' :
  rin (refs_add rf t k r) t' k' r' <-> (t' = t /\ k' = k /\ r' = r) \/ rin rf t' k' r'.
Proof.
  unfold refs_add, rin.
  destruct (aget N.eqb t rf) as [m|] eqn:Et.
  - destruct (N.eq_dec t' t) as [->|Ht].
    + rewrite Ng_set_same.
      destruct (rk_eq_dec k' k) as [->|Hk].
      * split.
        -- intros [m' [l' [Hm [Hl Hin]]]]. inversion Hm; subst m'; clear Hm.
           rewrite rk_set_same in Hl. inversion Hl; subst l'; clear Hl.
           destruct (aget rk_eqb k m) as [l0|] eqn:El.
           ++ apply In_sadd in Hin. destruct Hin as [->|Hin]; [left; auto|].
              right. exists m, l0. rewrite Et. auto.
           ++ destruct Hin as [->|[]]. left; auto.
        -- intros [[_ [_ ->]]|[m' [l' [Hm [Hl Hin]]]]].
           ++ eexists. eexists. split; [reflexivity|]. rewrite rk_set_same. split; [reflexivity|].
              destruct (aget rk_eqb k m); [apply In_sadd; auto | left; reflexivity].
           ++ rewrite Et in Hm. inversion Hm; subst m'; clear Hm. rewrite Hl.
              eexists. eexists. split; [reflexivity|]. rewrite rk_set_same. split; [reflexivity|].
              apply In_sadd. auto.
      * split.
        -- intros [m' [l' [Hm [Hl Hin]]]]. inversion Hm; subst m'; clear Hm.
           rewrite rk_set_other in Hl by exact Hk.
           right. exists m, l'. rewrite Et. auto.
        -- intros [[_ [Hc _]]|[m' [l' [Hm [Hl Hin]]]]]; [contradiction|].
           rewrite Et in Hm. inversion Hm; subst m'; clear Hm.
           eexists. eexists. split; [reflexivity|]. rewrite rk_set_other by exact Hk. eauto.
    + rewrite Ng_set_other by exact Ht. split.
      * intros H. right. exact H.
      * intros [[Hc _]|H]; [contradiction | exact H].
  - destruct (N.eq_dec t' t) as [->|Ht].
    + rewrite Ng_set_same. rewrite Et. split.
      * intros [m' [l' [Hm [Hl Hin]]]]. inversion Hm; subst m'; clear Hm.
        simpl in Hl. destruct (rk_eqb k' k) eqn:Ek; [|discriminate].
        apply rk_eqb_eq in Ek. inversion Hl; subst l'. destruct Hin as [->|[]]. left; auto.
      * intros [[_ [-> ->]]|[m' [l' [Hm _]]]]; [|discriminate].
        eexists. eexists. split; [reflexivity|]. simpl.
        rewrite (proj2 (rk_eqb_eq k k) eq_refl). split; [reflexivity | left; reflexivity].
    + rewrite Ng_set_other by exact Ht. split.
      * intros H. right. exact H.
      * intros [[Hc _]|H]; [contradiction | exact H].
Qed.

Lemma refs_add_rne rf t k r : rne rf -> rne (refs_add rf t k r).
Proof.
  unfold rne, refs_add. intros H t' m' k' Hm.
  destruct (aget N.eqb t rf) as [m|] eqn:Et.
  - destruct (N.eq_dec t' t) as [->|Ht].
    + rewrite Ng_set_same in Hm. inversion Hm; subst m'; clear Hm.
      destruct (rk_eq_dec k' k) as [->|Hk].
      * rewrite rk_set_same. destruct (aget rk_eqb k m) as [l0|].
        -- intro E. inversion E as [E']. assert (In r (sadd r l0)) by (apply In_sadd; auto).
           rewrite E' in H0. destruct H0.
        -- discriminate.
      * rewrite rk_set_other by exact Hk. apply (H t m k' Et).
    + rewrite Ng_set_other in Hm by exact Ht. apply (H t' m' k' Hm).
  - destruct (N.eq_dec t' t) as [->|Ht].
    + rewrite Ng_set_same in Hm. inversion Hm; subst m'; clear Hm. simpl.
      destruct (rk_eqb k' k); discriminate.
    + rewrite Ng_set_other in Hm by exact Ht. apply (H t' m' k' Hm).
Qed.

Lemma refs_del_rin rf t k r rf' t' k' r' :
  refs_del rf t k r = inl rf' ->
  (rin rf' t' k' r' <-> rin rf t' k' r' /\ ~ (t' = t /\ k' = k /\ r' = r)).
Proof.
  unfold refs_del, rin. intro H.
  destruct (aget N.eqb t rf) as [m|] eqn:Et; [|discriminate].
  destruct (aget rk_eqb k m) as [l|] eqn:El; [|discriminate].
  destruct (smem r l) eqn:Er; [|discriminate].
  inversion H; subst rf'; clear H.
  destruct (N.eq_dec t' t) as [->|Ht].
  - rewrite Ng_set_same. rewrite Et.
    destruct (rk_eq_dec k' k) as [->|Hk].
    + split.
      * intros [m' [l' [Hm [Hl Hin]]]]. inversion Hm; subst m'; clear Hm.
        destruct (isnil (srem r l)) eqn:En.
        -- rewrite rk_del_same in Hl. discriminate.
        -- rewrite rk_set_same in Hl. inversion Hl; subst l'; clear Hl.
           apply In_srem in Hin. destruct Hin as [Hin Hne].
           split; [exists m, l; auto | intros [_ [_ E]]; contradiction].
      * intros [[m' [l' [Hm [Hl Hin]]]] Hn]. inversion Hm; subst m'; clear Hm.
        rewrite El in Hl. inversion Hl; subst l'; clear Hl.
        assert (Hin' : In r' (srem r l)).
        { apply In_srem. split; [exact Hin|]. intro E. apply Hn. auto. }
        destruct (isnil (srem r l)) eqn:En.
        -- apply isnil_true in En. rewrite En in Hin'. destruct Hin'.
        -- eexists. eexists. split; [reflexivity|]. rewrite rk_set_same. split; [reflexivity | exact Hin'].
    + split.
      * intros [m' [l' [Hm [Hl Hin]]]]. inversion Hm; subst m'; clear Hm.
        assert (Hl' : aget rk_eqb k' m = Some l').
        { destruct (isnil (srem r l)); [rewrite rk_del_other in Hl by exact Hk | rewrite rk_set_other in Hl by exact Hk]; exact Hl. }
        split; [exists m, l'; auto | intros [_ [E _]]; contradiction].
      * intros [[m' [l' [Hm [Hl Hin]]]] _]. inversion Hm; subst m'; clear Hm.
        eexists. eexists. split; [reflexivity|]. split; [|exact Hin].
        destruct (isnil (srem r l)); [rewrite rk_del_other by exact Hk | rewrite rk_set_other by exact Hk]; exact Hl.
  - rewrite Ng_set_other by exact Ht. split.
    + intro H. split; [exact H | intros [E _]; contradiction].
    + intros [H _]. exact H.
Qed.

Lemma refs_del_rne rf t k r rf' : rne rf -> refs_del rf t k r = inl rf' -> rne rf'.
Proof.
  unfold rne, refs_del. intros Hne H.
  destruct (aget N.eqb t rf) as [m|] eqn:Et; [|discriminate].
  destruct (aget rk_eqb k m) as [l|] eqn:El; [|discriminate].
  destruct (smem r l) eqn:Er; [|discriminate].
  inversion H; subst rf'; clear H.
  intros t' m' k' Hm.
  destruct (N.eq_dec t' t) as [->|Ht].
  - rewrite Ng_set_same in Hm. inversion Hm; subst m'; clear Hm.
    destruct (rk_eq_dec k' k) as [->|Hk].
    + destruct (isnil (srem r l)) eqn:En.
      * rewrite rk_del_same. discriminate.
      * rewrite rk_set_same. apply isnil_false in En. intro E. inversion E as [E']. apply En. exact E'.
    + destruct (isnil (srem r l)); [rewrite rk_del_other by exact Hk | rewrite rk_set_other by exact Hk];
        apply (Hne t m k' Et).
  - rewrite Ng_set_other in Hm by exact Ht. apply (Hne t' m' k' Hm).
Qed.

Lemma refs_add_all_rin ts : forall rf k r t' k' r',
  rin (refs_add_all rf ts k r) t' k' r' <-> (In t' ts /\ k' = k /\ r' = r) \/ rin rf t' k' r'.
Proof.
  induction ts as [|t ts IH]; intros; simpl.
  - split; [auto | intros [[[] _]|H]; exact H].
  - rewrite IH, refs_add_rin. intuition (subst; auto).
Qed.

Lemma refs_add_all_rne ts : forall rf k r, rne rf -> rne (refs_add_all rf ts k r).
Proof.
  induction ts as [|t ts IH]; intros; simpl; [assumption|]. apply IH. apply refs_add_rne. assumption.
Qed.

Lemma refs_del_all_rin ts : forall rf k r rf' t' k' r',
  refs_del_all rf ts k r = inl rf' ->
  (rin rf' t' k' r' <-> rin rf t' k' r' /\ ~ (In t' ts /\ k' = k /\ r' = r)).
Proof.
  induction ts as [|t ts IH]; intros rf k r rf' t' k' r' H; simpl in H.
  - inversion H; subst. simpl. tauto.
  - destruct (refs_del rf t k r) as [rf1|] eqn:E1; simpl in H; [|discriminate].
    rewrite (IH _ _ _ _ t' k' r' H), (refs_del_rin _ _ _ _ _ t' k' r' E1). simpl.
    intuition (subst; auto).
Qed.

Lemma refs_del_all_rne ts : forall rf k r rf', rne rf -> refs_del_all rf ts k r = inl rf' -> rne rf'.
Proof.
  induction ts as [|t ts IH]; intros rf k r rf' Hne H; simpl in H.
  - inversion H; subst; assumption.
  - destruct (refs_del rf t k r) as [rf1|] eqn:E1; simpl in H; [|discriminate].
    eapply IH; [|exact H]. eapply refs_del_rne; eassumption.
Qed.

(* one pass of _update_refs_to: for every reference field f of the class,
   index(c,f,oid) := (index ∪ (new_f − orig_f)) − (orig_f − new_f); everything else untouched *)
Lemma upd_refs_spec oid c fs : forall orig new rf rf',
  NoDup fs -> upd_refs oid c fs orig new rf = inl rf' ->
  forall t k r,
    rin rf' t k r <->
    ((r = oid /\ fst k = c /\ In (snd k) fs) /\
       ((rin rf t k r \/ (In t (lk (snd k) new) /\ ~ In t (lk (snd k) orig)))
        /\ ~ (In t (lk (snd k) orig) /\ ~ In t (lk (snd k) new))))
    \/ (~ (r = oid /\ fst k = c /\ In (snd k) fs) /\ rin rf t k r).
Proof.
  induction fs as [|f fs IH]; intros orig new rf rf' Hnd H t k r; simpl in H.
  - inversion H; subst. simpl. split; [intro; right; split; [tauto | assumption] | intros [[[_ [_ []]] _]|[_ H0]]; exact H0].
  - destruct (refs_del_all (refs_add_all rf (sdiff (dedup (lk f new)) (dedup (lk f orig))) (c, f) oid)
                           (sdiff (dedup (lk f orig)) (dedup (lk f new))) (c, f) oid) as [rf2|] eqn:E2;
      simpl in H; [|discriminate].
    inversion Hnd as [|? ? Hnotin Hnd']; subst.
    rewrite (IH _ _ _ _ Hnd' H t k r).
    destruct k as [kc kf]. cbn [fst snd].
    assert (R2 : rin rf2 t (kc, kf) r <->
                 (rin rf t (kc, kf) r \/ (In t (lk f new) /\ ~ In t (lk f orig)) /\ (kc = c /\ kf = f) /\ r = oid)
                 /\ ~ ((In t (lk f orig) /\ ~ In t (lk f new)) /\ (kc = c /\ kf = f) /\ r = oid)).
    { rewrite (refs_del_all_rin _ _ _ _ _ t (kc, kf) r E2), refs_add_all_rin.
      rewrite !In_sdiff, !In_dedup.
      assert (Ek : (kc, kf) = (c, f) <-> kc = c /\ kf = f).
      { split; [intro E; inversion E; auto | intros [-> ->]; reflexivity]. }
      rewrite Ek. tauto. }
    cbn [In].
    destruct (N.eq_dec r oid) as [Hr|Hr].
    2: { assert (R3 : rin rf2 t (kc, kf) r <-> rin rf t (kc, kf) r) by (rewrite R2; tauto).
         rewrite R3. tauto. }
    destruct (N.eq_dec kc c) as [Hc|Hc].
    2: { assert (R3 : rin rf2 t (kc, kf) r <-> rin rf t (kc, kf) r) by (rewrite R2; tauto).
         rewrite R3. tauto. }
    destruct (N.eq_dec kf f) as [Hf|Hf].
    + subst kf.
      assert (R3 : rin rf2 t (kc, f) r <->
                   (rin rf t (kc, f) r \/ (In t (lk f new) /\ ~ In t (lk f orig)))
                   /\ ~ (In t (lk f orig) /\ ~ In t (lk f new))) by (rewrite R2; tauto).
      rewrite R3. assert (Ef : f = f) by reflexivity. tauto.
    + assert (R3 : rin rf2 t (kc, kf) r <-> rin rf t (kc, kf) r) by (rewrite R2; tauto).
      rewrite R3. assert (Hf' : f <> kf) by congruence. tauto.
Qed.

Lemma upd_refs_rne oid c fs : forall orig new rf rf',
  rne rf -> upd_refs oid c fs orig new rf = inl rf' -> rne rf'.
Proof.
  induction fs as [|f fs IH]; intros orig new rf rf' Hne H; simpl in H.
  - inversion H; subst; assumption.
  - destruct (refs_del_all (refs_add_all rf (sdiff (dedup (lk f new)) (dedup (lk f orig))) (c, f) oid)
                           (sdiff (dedup (lk f orig)) (dedup (lk f new))) (c, f) oid) as [rf2|] eqn:E2;
      simpl in H; [|discriminate].
    eapply IH; [|exact H]. eapply refs_del_all_rne; [|exact E2]. apply refs_add_all_rne. exact Hne.
Qed.

(* ------------------------------------------------------------------ *)
(* _update_obj_name                                                    *)

Definition shin (sh : list (ck * list id)) (k : ck) (i : id) : Prop :=
  exists l, aget ck_eqb k sh = Some l /\ In i l.
Definition shne (sh : list (ck * list id)) : Prop := forall k, aget ck_eqb k sh <> Some [].

Lemma upd_name_old_spec e s oid c ci old r1 :
  upd_name_old e s oid c ci old = inl r1 ->
  (c_qual ci = true ->
     snd r1 = s_glob s
     /\ (forall n, old = Some n -> aget name_eqb n (fst (fst r1)) = None /\ aget name_eqb n (s_name s) <> None)
     /\ (forall n, old <> Some n -> aget name_eqb n (fst (fst r1)) = aget name_eqb n (s_name s)))
  /\ (c_qual ci = false ->
     fst (fst r1) = s_name s
     /\ (forall n, old = Some n -> aget ck_eqb (c, n) (snd r1) = None /\ aget ck_eqb (c, n) (s_glob s) <> None)
     /\ (forall c' n, ~ (c' = c /\ old = Some n) -> aget ck_eqb (c', n) (snd r1) = aget ck_eqb (c', n) (s_glob s)))
  /\ (c_sn ci = false -> snd (fst r1) = s_short s)
  /\ (c_sn ci = true ->
     (shne (s_short s) -> shne (snd (fst r1)))
     /\ forall k i, shin (snd (fst r1)) k i <->
                    shin (s_short s) k i /\ ~ (i = oid /\ exists o, old = Some o /\ k = (c, shortname e o))).
Proof.
  unfold upd_name_old. intro H.
  destruct old as [o|].
  2: { inversion H; subst r1; clear H. simpl.
       split; [intros _; split; [reflexivity|]; split; [intros n E; discriminate | intros; reflexivity]|].
       split; [intros _; split; [reflexivity|]; split; [intros n E; discriminate | intros; reflexivity]|].
       split; [intros _; reflexivity|].
       intros _. split; [auto|]. intros k i.
       split; [intro Hx; split; [exact Hx | intros [_ [o [Ho _]]]; discriminate] | intros [Hx _]; exact Hx]. }
  destruct (c_qual ci) eqn:Eq.
  - (* qualified *)
    destruct (amem name_eqb o (s_name s)) eqn:Em; simpl in H; [|discriminate].
    apply amem_true in Em.
    assert (Hnames : forall r : names3, fst (fst r) = adel name_eqb o (s_name s) -> snd r = s_glob s ->
              (true = true ->
               snd r = s_glob s
               /\ (forall n, Some o = Some n -> aget name_eqb n (fst (fst r)) = None /\ aget name_eqb n (s_name s) <> None)
               /\ (forall n, Some o <> Some n -> aget name_eqb n (fst (fst r)) = aget name_eqb n (s_name s)))
              /\ (true = false -> fst (fst r) = s_name s
               /\ (forall n, Some o = Some n -> aget ck_eqb (c, n) (snd r) = None /\ aget ck_eqb (c, n) (s_glob s) <> None)
               /\ (forall c' n, ~ (c' = c /\ Some o = Some n) -> aget ck_eqb (c', n) (snd r) = aget ck_eqb (c', n) (s_glob s)))).
    { intros r E1 E2. split; [|intro; discriminate]. intros _. split; [exact E2|]. rewrite E1. split.
      - intros n E. inversion E; subst n. split; [apply nm_del_same | exact Em].
      - intros n E. apply nm_del_other. congruence. }
    destruct (c_sn ci) eqn:Es.
    + destruct (aget ck_eqb (c, shortname e o) (s_short s)) as [ids|] eqn:Ei; [|discriminate].
      inversion H; subst r1; clear H. simpl.
      destruct (Hnames (adel name_eqb o (s_name s),
                        (if isnil (srem oid ids) then adel ck_eqb (c, shortname e o) (s_short s)
                         else aset ck_eqb (c, shortname e o) (srem oid ids) (s_short s)), s_glob s) eq_refl eq_refl) as [Ha Hb].
      split; [exact Ha|]. split; [exact Hb|]. split; [intro; discriminate|]. intros _.
      split.
      * intros Hne k. destruct (ck_eq_dec k (c, shortname e o)) as [->|Hk].
        -- destruct (isnil (srem oid ids)) eqn:En.
           ++ rewrite ck_del_same. discriminate.
           ++ rewrite ck_set_same. apply isnil_false in En. intro E. inversion E as [E']. apply En. exact E'.
        -- destruct (isnil (srem oid ids)); [rewrite ck_del_other by exact Hk | rewrite ck_set_other by exact Hk]; apply Hne.
      * intros k i. unfold shin. destruct (ck_eq_dec k (c, shortname e o)) as [->|Hk].
        -- split.
           ++ intros [l [Hl Hi]]. destruct (isnil (srem oid ids)) eqn:En.
              ** rewrite ck_del_same in Hl. discriminate.
              ** rewrite ck_set_same in Hl. inversion Hl; subst l. apply In_srem in Hi. destruct Hi as [Hi Hne].
                 split; [exists ids; auto | intros [E _]; contradiction].
           ++ intros [[l [Hl Hi]] Hn]. rewrite Ei in Hl. inversion Hl; subst l.
              assert (Hi' : In i (srem oid ids)).
              { apply In_srem. split; [exact Hi|]. intro E. apply Hn. split; [exact E|]. exists o. auto. }
              destruct (isnil (srem oid ids)) eqn:En.
              ** apply isnil_true in En. rewrite En in Hi'. destruct Hi'.
              ** eexists. rewrite ck_set_same. split; [reflexivity | exact Hi'].
        -- assert (Hg : aget ck_eqb k (if isnil (srem oid ids) then adel ck_eqb (c, shortname e o) (s_short s)
                                       else aset ck_eqb (c, shortname e o) (srem oid ids) (s_short s))
                        = aget ck_eqb k (s_short s)).
           { destruct (isnil (srem oid ids)); [apply ck_del_other | apply ck_set_other]; exact Hk. }
           rewrite Hg. split.
           ++ intros Hx. split; [exact Hx|]. intros [_ [o' [Ho' Hk']]]. inversion Ho'; subst o'. contradiction.
           ++ intros [Hx _]. exact Hx.
    + inversion H; subst r1; clear H. simpl.
      destruct (Hnames (adel name_eqb o (s_name s), s_short s, s_glob s) eq_refl eq_refl) as [Ha Hb].
      split; [exact Ha|]. split; [exact Hb|]. split; [reflexivity | intro; discriminate].
  - (* global *)
    destruct (amem ck_eqb (c, o) (s_glob s)) eqn:Em; simpl in H; [|discriminate].
    apply amem_true in Em.
    assert (Hnames : forall r : names3, fst (fst r) = s_name s -> snd r = adel ck_eqb (c, o) (s_glob s) ->
              (false = true ->
               snd r = s_glob s
               /\ (forall n, Some o = Some n -> aget name_eqb n (fst (fst r)) = None /\ aget name_eqb n (s_name s) <> None)
               /\ (forall n, Some o <> Some n -> aget name_eqb n (fst (fst r)) = aget name_eqb n (s_name s)))
              /\ (false = false -> fst (fst r) = s_name s
               /\ (forall n, Some o = Some n -> aget ck_eqb (c, n) (snd r) = None /\ aget ck_eqb (c, n) (s_glob s) <> None)
               /\ (forall c' n, ~ (c' = c /\ Some o = Some n) -> aget ck_eqb (c', n) (snd r) = aget ck_eqb (c', n) (s_glob s)))).
    { intros r E1 E2. split; [intro; discriminate|]. intros _. split; [exact E1|]. rewrite E2. split.
      - intros n E. inversion E; subst n. split; [apply ck_del_same | exact Em].
      - intros c' n E. apply ck_del_other. intro E'. inversion E'; subst. apply E. auto. }
    destruct (c_sn ci) eqn:Es.
    + destruct (aget ck_eqb (c, shortname e o) (s_short s)) as [ids|] eqn:Ei; [|discriminate].
      inversion H; subst r1; clear H. simpl.
      destruct (Hnames (s_name s,
                        (if isnil (srem oid ids) then adel ck_eqb (c, shortname e o) (s_short s)
                         else aset ck_eqb (c, shortname e o) (srem oid ids) (s_short s)),
                        adel ck_eqb (c, o) (s_glob s)) eq_refl eq_refl) as [Ha Hb].
      split; [exact Ha|]. split; [exact Hb|]. split; [intro; discriminate|]. intros _.
      split.
      * intros Hne k. destruct (ck_eq_dec k (c, shortname e o)) as [->|Hk].
        -- destruct (isnil (srem oid ids)) eqn:En.
           ++ rewrite ck_del_same. discriminate.
           ++ rewrite ck_set_same. apply isnil_false in En. intro E. inversion E as [E']. apply En. exact E'.
        -- destruct (isnil (srem oid ids)); [rewrite ck_del_other by exact Hk | rewrite ck_set_other by exact Hk]; apply Hne.
      * intros k i. unfold shin. destruct (ck_eq_dec k (c, shortname e o)) as [->|Hk].
        -- split.
           ++ intros [l [Hl Hi]]. destruct (isnil (srem oid ids)) eqn:En.
              ** rewrite ck_del_same in Hl. discriminate.
              ** rewrite ck_set_same in Hl. inversion Hl; subst l. apply In_srem in Hi. destruct Hi as [Hi Hne].
                 split; [exists ids; auto | intros [E _]; contradiction].
           ++ intros [[l [Hl Hi]] Hn]. rewrite Ei in Hl. inversion Hl; subst l.
              assert (Hi' : In i (srem oid ids)).
              { apply In_srem. split; [exact Hi|]. intro E. apply Hn. split; [exact E|]. exists o. auto. }
              destruct (isnil (srem oid ids)) eqn:En.
              ** apply isnil_true in En. rewrite En in Hi'. destruct Hi'.
              ** eexists. rewrite ck_set_same. split; [reflexivity | exact Hi'].
        -- assert (Hg : aget ck_eqb k (if isnil (srem oid ids) then adel ck_eqb (c, shortname e o) (s_short s)
                                       else aset ck_eqb (c, shortname e o) (srem oid ids) (s_short s))
                        = aget ck_eqb k (s_short s)).
           { destruct (isnil (srem oid ids)); [apply ck_del_other | apply ck_set_other]; exact Hk. }
           rewrite Hg. split.
           ++ intros Hx. split; [exact Hx|]. intros [_ [o' [Ho' Hk']]]. inversion Ho'; subst o'. contradiction.
           ++ intros [Hx _]. exact Hx.
    + inversion H; subst r1; clear H. simpl.
      destruct (Hnames (s_name s, s_short s, adel ck_eqb (c, o) (s_glob s)) eq_refl eq_refl) as [Ha Hb].
      split; [exact Ha|]. split; [exact Hb|]. split; [reflexivity | intro; discriminate].
Qed.

Lemma sh_add_spec (sh1 : list (ck * list id)) key oid :
  let sh2 := aset ck_eqb key (sadd oid (match aget ck_eqb key sh1 with Some l => l | None => [] end)) sh1 in
  (shne sh1 -> shne sh2)
  /\ forall k i, shin sh2 k i <-> (i = oid /\ k = key) \/ shin sh1 k i.
Proof.
  intro sh2. subst sh2. split.
  - intros Hne k. destruct (ck_eq_dec k key) as [->|Hk].
    + rewrite ck_set_same. intro E. inversion E as [E'].
      assert (Hi : In oid (sadd oid match aget ck_eqb key sh1 with Some l => l | None => [] end))
        by (apply In_sadd; auto).
      rewrite E' in Hi. destruct Hi.
    + rewrite ck_set_other by exact Hk. apply Hne.
  - intros k i. unfold shin. destruct (ck_eq_dec k key) as [->|Hk].
    + rewrite ck_set_same. split.
      * intros [l [Hl Hi]]. inversion Hl; subst l. apply In_sadd in Hi. destruct Hi as [->|Hi]; [left; auto|].
        right. destruct (aget ck_eqb key sh1) as [l0|]; [exists l0; auto | destruct Hi].
      * intros [[-> _]|[l [Hl Hi]]].
        -- eexists. split; [reflexivity|]. apply In_sadd. auto.
        -- eexists. split; [reflexivity|]. apply In_sadd. right. rewrite Hl. exact Hi.
    + rewrite ck_set_other by exact Hk. split.
      * intro Hx. right. exact Hx.
      * intros [[_ E]|Hx]; [contradiction | exact Hx].
Qed.

Lemma upd_name_new_spec e s oid c ci (r1 : names3) new r2 :
  upd_name_new e s oid c ci r1 new = inl r2 ->
  (c_qual ci = true ->
     snd r2 = snd r1
     /\ (forall n, new = Some n -> aget name_eqb n (fst (fst r2)) = Some oid /\ aget name_eqb n (fst (fst r1)) = None)
     /\ (forall n, new <> Some n -> aget name_eqb n (fst (fst r2)) = aget name_eqb n (fst (fst r1))))
  /\ (c_qual ci = false ->
     fst (fst r2) = fst (fst r1)
     /\ (forall n, new = Some n -> aget ck_eqb (c, n) (snd r2) = Some oid /\ aget ck_eqb (c, n) (snd r1) = None)
     /\ (forall c' n, ~ (c' = c /\ new = Some n) -> aget ck_eqb (c', n) (snd r2) = aget ck_eqb (c', n) (snd r1)))
  /\ (c_sn ci = false -> snd (fst r2) = snd (fst r1))
  /\ (c_sn ci = true ->
     (shne (snd (fst r1)) -> shne (snd (fst r2)))
     /\ forall k i, shin (snd (fst r2)) k i <->
                    (i = oid /\ exists n, new = Some n /\ k = (c, shortname e n)) \/ shin (snd (fst r1)) k i).
Proof.
  unfold upd_name_new. intro H.
  destruct new as [n|].
  2: { inversion H; subst r2; clear H.
       split; [intros _; split; [reflexivity|]; split; [intros n E; discriminate | intros; reflexivity]|].
       split; [intros _; split; [reflexivity|]; split; [intros n E; discriminate | intros; reflexivity]|].
       split; [intros _; reflexivity|].
       intros _. split; [auto|]. intros k i.
       split; [intro Hx; right; exact Hx | intros [[_ [n [Hn _]]]|Hx]; [discriminate | exact Hx]]. }
  (* the shortname part is the same in both branches *)
  assert (Hsh : forall a b : _,
     let r2' : names3 := (a, (if c_sn ci then
                      aset ck_eqb (c, shortname e n)
                        (sadd oid match aget ck_eqb (c, shortname e n) (snd (fst r1)) with Some l => l | None => [] end)
                        (snd (fst r1))
                    else snd (fst r1)), b) in
     (c_sn ci = false -> snd (fst r2') = snd (fst r1))
     /\ (c_sn ci = true ->
         (shne (snd (fst r1)) -> shne (snd (fst r2')))
         /\ forall k i, shin (snd (fst r2')) k i <->
                        (i = oid /\ exists n0, Some n = Some n0 /\ k = (c, shortname e n0)) \/ shin (snd (fst r1)) k i)).
  { intros a b. simpl. destruct (c_sn ci) eqn:Es.
    - split; [intro; discriminate|]. intros _.
      destruct (sh_add_spec (snd (fst r1)) (c, shortname e n) oid) as [Ha Hb].
      split; [exact Ha|]. intros k i. rewrite Hb. split.
      + intros [[-> ->]|Hx]; [left; split; [reflexivity | exists n; auto] | right; exact Hx].
      + intros [[-> [n0 [E ->]]]|Hx]; [inversion E; subst; left; auto | right; exact Hx].
    - split; [reflexivity | intro; discriminate]. }
  destruct (c_qual ci) eqn:Eq; simpl in H.
  - (* qualified *)
    destruct n as [u|m x]; [discriminate|].
    destruct (has_module e s m) as [hm|] eqn:Eh; simpl in H; [|discriminate].
    destruct (negb hm && negb (smem m (e_special e))); [discriminate|].
    destruct (aget name_eqb (QName m x) (fst (fst r1))) as [j|] eqn:Ej; [discriminate|].
    simpl in H. inversion H; subst r2; clear H.
    destruct (Hsh (aset name_eqb (QName m x) oid (fst (fst r1))) (snd r1)) as [Hs1 Hs2].
    split; [|split; [intro; discriminate | split; [exact Hs1 | exact Hs2]]].
    intros _. simpl. split; [reflexivity|]. split.
    + intros n E. inversion E; subst n. split; [apply nm_set_same | exact Ej].
    + intros n E. apply nm_set_other. congruence.
  - (* global *)
    destruct (aget ck_eqb (c, n) (snd r1)) as [j|] eqn:Ej; [discriminate|].
    simpl in H. inversion H; subst r2; clear H.
    destruct (Hsh (fst (fst r1)) (aset ck_eqb (c, n) oid (snd r1))) as [Hs1 Hs2].
    split; [intro; discriminate|]. split; [|split; [exact Hs1 | exact Hs2]].
    intros _. simpl. split; [reflexivity|]. split.
    + intros n0 E. inversion E; subst n0. split; [apply ck_set_same | exact Ej].
    + intros c' n0 E. apply ck_set_other. intro E'. inversion E'; subst. apply E. auto.
Qed.

(* what a successful _update_obj_name(oid, c, old, new) did to the three name indexes *)
Definition names_upd (e : env) (s : schema) (oid : id) (c : cls) (ci : cinfo)
           (old new : option name) (r2 : names3) : Prop :=
  (c_qual ci = true ->
     snd r2 = s_glob s
     /\ (forall n, new = Some n -> aget name_eqb n (fst (fst r2)) = Some oid
                                  /\ (old = Some n \/ aget name_eqb n (s_name s) = None))
     /\ (forall n, new <> Some n -> old = Some n -> aget name_eqb n (fst (fst r2)) = None)
     /\ (forall n, new <> Some n -> old <> Some n ->
                   aget name_eqb n (fst (fst r2)) = aget name_eqb n (s_name s)))
  /\ (c_qual ci = false ->
     fst (fst r2) = s_name s
     /\ (forall n, new = Some n -> aget ck_eqb (c, n) (snd r2) = Some oid
                                  /\ (old = Some n \/ aget ck_eqb (c, n) (s_glob s) = None))
     /\ (forall n, new <> Some n -> old = Some n -> aget ck_eqb (c, n) (snd r2) = None)
     /\ (forall c' n, ~ (c' = c /\ new = Some n) -> ~ (c' = c /\ old = Some n) ->
                      aget ck_eqb (c', n) (snd r2) = aget ck_eqb (c', n) (s_glob s)))
  /\ (c_sn ci = false -> snd (fst r2) = s_short s)
  /\ (c_sn ci = true ->
     (shne (s_short s) -> shne (snd (fst r2)))
     /\ forall k i, shin (snd (fst r2)) k i <->
          (i = oid /\ exists n, new = Some n /\ k = (c, shortname e n))
          \/ (shin (s_short s) k i /\ ~ (i = oid /\ exists o, old = Some o /\ k = (c, shortname e o)))).

Lemma upd_name_spec e s oid c ci old new r2 :
  upd_name e s oid c ci old new = inl r2 -> names_upd e s oid c ci old new r2.
Proof.
  unfold upd_name. intro H.
  destruct (upd_name_old e s oid c ci old) as [r1|] eqn:E1; simpl in H; [|discriminate].
  destruct (upd_name_old_spec _ _ _ _ _ _ _ E1) as [Oq [Og [Os0 Os1]]].
  destruct (upd_name_new_spec _ _ _ _ _ _ _ _ H) as [Nq [Ng [Ns0 Ns1]]].
  unfold names_upd. split; [|split; [|split]].
  - intro Hq. destruct (Oq Hq) as [Oa [Ob Oc]]. destruct (Nq Hq) as [Na [Nb Nc]].
    split; [congruence|]. split; [|split].
    + intros n Hn. destruct (Nb n Hn) as [Hx Hy]. split; [exact Hx|].
      destruct (oname_eq_dec old (Some n)) as [Ho|Ho]; [left; exact Ho|].
      right. rewrite <- (Oc n Ho). exact Hy.
    + intros n Hn Ho. rewrite (Nc n Hn). apply (Ob n Ho).
    + intros n Hn Ho. rewrite (Nc n Hn). apply (Oc n Ho).
  - intro Hq. destruct (Og Hq) as [Oa [Ob Oc]]. destruct (Ng Hq) as [Na [Nb Nc]].
    split; [congruence|]. split; [|split].
    + intros n Hn. destruct (Nb n Hn) as [Hx Hy]. split; [exact Hx|].
      destruct (oname_eq_dec old (Some n)) as [Ho|Ho]; [left; exact Ho|].
      right. rewrite <- (Oc c n); [exact Hy | intros [_ Hc]; contradiction].
    + intros n Hn Ho. rewrite (Nc c n); [apply (Ob n Ho) | intros [_ Hc]; contradiction].
    + intros c' n Hn Ho. rewrite (Nc c' n Hn). apply (Oc c' n Ho).
  - intro Hs. rewrite (Ns0 Hs). apply (Os0 Hs).
  - intro Hs. destruct (Os1 Hs) as [Oa Ob]. destruct (Ns1 Hs) as [Na Nb].
    split; [auto|]. intros k i. rewrite Nb, Ob. tauto.
Qed.

(* ------------------------------------------------------------------ *)
(* the invariant                                                        *)

Definition gty (s : schema) (i : id) : option cls := aget N.eqb i (s_type s).
Definition gdata (s : schema) (i : id) : option data := aget N.eqb i (s_data s).
Definition cinfo_of (e : env) (c : cls) : option cinfo := aget N.eqb c (e_classes e).

Lemma class_info_ok e c ci : class_info e c = inl ci <-> cinfo_of e c = Some ci.
Proof. unfold class_info, cinfo_of. destruct (aget N.eqb c (e_classes e)); split; intro H; congruence. Qed.

(* an object's own data (name_of, frefs: Model.v) *)
Definition oname (ci : cinfo) (od : option data) : option name :=
  match od with Some d => name_of ci d | None => None end.
Definition orefs (od : option data) (f : fld) : list id :=
  match od with Some d => frefs d f | None => [] end.

(* true of every real class (asserted by the harness on every run) *)
Definition wf_env (e : env) : Prop :=
  forall c ci, cinfo_of e c = Some ci -> NoDup (c_refs ci) /\ ~ In (c_name ci) (c_refs ci).

Record Inv (e : env) (s : schema) : Prop := {
  (* _id_to_type has exactly the keys of _id_to_data, with known classes *)
  i_dom : forall i, gty s i = None <-> gdata s i = None;
  i_cls : forall i c, gty s i = Some c -> cinfo_of e c <> None;
  (* _name_to_id: every entry is the name of that (qualified) object *)
  i_name : forall n i, aget name_eqb n (s_name s) = Some i ->
      exists c ci d, gty s i = Some c /\ cinfo_of e c = Some ci /\ c_qual ci = true
                     /\ gdata s i = Some d /\ name_of ci d = Some n;
  (* _globalname_to_id is exactly the index of the global objects' names *)
  i_glob : forall c n i, aget ck_eqb (c, n) (s_glob s) = Some i <->
      exists ci d, gty s i = Some c /\ cinfo_of e c = Some ci /\ c_qual ci = false
                   /\ gdata s i = Some d /\ name_of ci d = Some n;
  (* _shortname_to_id is exactly the index of Function/Operator short names *)
  i_short : forall c sn i, shin (s_short s) (c, sn) i <->
      exists ci d n, gty s i = Some c /\ cinfo_of e c = Some ci /\ c_sn ci = true
                     /\ gdata s i = Some d /\ name_of ci d = Some n /\ shortname e n = sn;
  i_short_ne : shne (s_short s);
  (* _refs_to is exactly the reverse of the objects' reference fields *)
  i_refs : forall t c f r, rin (s_refs s) t (c, f) r <->
      exists ci d, gty s r = Some c /\ cinfo_of e c = Some ci /\ In f (c_refs ci)
                   /\ gdata s r = Some d /\ In t (frefs d f);
  i_refs_ne : rne (s_refs s)
}.

(* completeness of _name_to_id (holds as long as nothing was delisted) *)
Definition NameComplete (e : env) (s : schema) : Prop :=
  forall i c ci d n, gty s i = Some c -> cinfo_of e c = Some ci -> c_qual ci = true ->
                     gdata s i = Some d -> name_of ci d = Some n ->
                     aget name_eqb n (s_name s) = Some i.

Lemma Inv_empty e : Inv e empty.
Proof.
  constructor; unfold gty, gdata, empty, shin, shne, rin, rne; simpl; try (intros; discriminate).
  - tauto.
  - intros c n i. split; [discriminate | intros [ci [d [H _]]]; discriminate].
  - intros c sn i. split; [intros [l [H _]]; discriminate | intros [ci [d [n [H _]]]]; discriminate].
  - intros t c f r. split; [intros [m [l [H _]]]; discriminate | intros [ci [d [H _]]]; discriminate].
Qed.

Lemma NameComplete_empty e : NameComplete e empty.
Proof. unfold NameComplete, gty, empty. simpl. intros. discriminate. Qed.

(* ------------------------------------------------------------------ *)
(* the master lemma: every mutator changes ONE object (oid, of class c) from data od to
   data nd (None = absent), runs _update_obj_name on its old/new name (or leaves the name
   indexes alone when the name did not change) and re-indexes its reference fields.       *)

Record Chg (e : env) (s s' : schema) (oid : id) (c : cls) (ci : cinfo) (od nd : option data) : Prop := {
  g_ci : cinfo_of e c = Some ci;
  g_od : gdata s oid = od;
  g_ty : gty s oid = match od with Some _ => Some c | None => None end;
  g_d' : forall j, gdata s' j = if N.eqb j oid then nd else gdata s j;
  g_ty' : forall j, gty s' j =
      if N.eqb j oid then match nd with Some _ => Some c | None => None end else gty s j;
  g_names :
      (s_name s' = s_name s /\ s_short s' = s_short s /\ s_glob s' = s_glob s
       /\ oname ci od = oname ci nd)
      \/ names_upd e s oid c ci (oname ci od) (oname ci nd) (s_name s', s_short s', s_glob s');
  g_refs : forall t k r, rin (s_refs s') t k r <->
      ((r = oid /\ fst k = c /\ In (snd k) (c_refs ci)) /\ In t (orefs nd (snd k)))
      \/ (~ (r = oid /\ fst k = c /\ In (snd k) (c_refs ci)) /\ rin (s_refs s) t k r);
  g_rne : rne (s_refs s')
}.

Section Master.
  Context {e : env} {s s' : schema} {oid : id} {c : cls} {ci : cinfo}.

  Lemma m_other {od nd} (HC : Chg e s s' oid c ci od nd) j :
    j <> oid -> gdata s' j = gdata s j /\ gty s' j = gty s j.
  Proof.
    intro Hj. rewrite (g_d' _ _ _ _ _ _ _ _ HC), (g_ty' _ _ _ _ _ _ _ _ HC).
    apply N.eqb_neq in Hj. rewrite Hj. auto.
  Qed.

  Lemma m_self {od nd} (HC : Chg e s s' oid c ci od nd) :
    gdata s' oid = nd /\ gty s' oid = match nd with Some _ => Some c | None => None end.
  Proof. rewrite (g_d' _ _ _ _ _ _ _ _ HC), (g_ty' _ _ _ _ _ _ _ _ HC), N.eqb_refl. auto. Qed.

  (* an object of s' is either the changed one or an unchanged object of s *)
  Lemma m_obj' {od nd} (HC : Chg e s s' oid c ci od nd) i c0 d0 :
    gty s' i = Some c0 -> gdata s' i = Some d0 ->
    (i = oid /\ c0 = c /\ nd = Some d0) \/ (i <> oid /\ gty s i = Some c0 /\ gdata s i = Some d0).
  Proof.
    intros H1 H2. destruct (N.eq_dec i oid) as [->|Hi].
    - left. destruct (m_self HC) as [Ha Hb]. rewrite Ha in H2. rewrite H2 in Hb. rewrite Hb in H1.
      inversion H1. auto.
    - right. destruct (m_other HC i Hi) as [Ha Hb]. rewrite <- Ha, <- Hb. auto.
  Qed.

  Lemma m_obj {od nd} (HC : Chg e s s' oid c ci od nd) i c0 d0 :
    gty s i = Some c0 -> gdata s i = Some d0 ->
    (i = oid /\ c0 = c /\ od = Some d0) \/ (i <> oid /\ gty s' i = Some c0 /\ gdata s' i = Some d0).
  Proof.
    intros H1 H2. destruct (N.eq_dec i oid) as [->|Hi].
    - left. pose proof (g_od _ _ _ _ _ _ _ _ HC) as Hod. pose proof (g_ty _ _ _ _ _ _ _ _ HC) as Hty.
      rewrite Hod in H2. rewrite H2 in Hty. rewrite Hty in H1. inversion H1. auto.
    - right. destruct (m_other HC i Hi) as [Ha Hb]. rewrite Ha, Hb. auto.
  Qed.

  Lemma m_ci {od nd} (HC : Chg e s s' oid c ci od nd) ci0 : cinfo_of e c = Some ci0 -> ci0 = ci.
  Proof. intro H. rewrite (g_ci _ _ _ _ _ _ _ _ HC) in H. inversion H. reflexivity. Qed.

  Lemma m_dom {od nd} (HI : Inv e s) (HC : Chg e s s' oid c ci od nd) :
    forall i, gty s' i = None <-> gdata s' i = None.
  Proof.
    intro i. destruct (N.eq_dec i oid) as [->|Hi].
    - destruct (m_self HC) as [Ha Hb]. rewrite Ha, Hb. destruct nd; split; intro; congruence.
    - destruct (m_other HC i Hi) as [Ha Hb]. rewrite Ha, Hb. apply (i_dom _ _ HI).
  Qed.

  Lemma m_cls {od nd} (HI : Inv e s) (HC : Chg e s s' oid c ci od nd) :
    forall i c0, gty s' i = Some c0 -> cinfo_of e c0 <> None.
  Proof.
    intros i c0 H. destruct (N.eq_dec i oid) as [->|Hi].
    - destruct (m_self HC) as [_ Hb]. rewrite Hb in H. destruct nd; [|discriminate]. inversion H; subst.
      rewrite (g_ci _ _ _ _ _ _ _ _ HC). discriminate.
    - destruct (m_other HC i Hi) as [_ Hb]. rewrite Hb in H. apply (i_cls _ _ HI i c0 H).
  Qed.

  (* the object oid in s' (when present) *)
  Lemma m_new_obj {od nd} (HC : Chg e s s' oid c ci od nd) n : oname ci nd = Some n ->
    exists d1, nd = Some d1 /\ gty s' oid = Some c /\ gdata s' oid = Some d1 /\ name_of ci d1 = Some n.
  Proof.
    intro H. destruct (m_self HC) as [Ha Hb]. destruct nd as [d1|]; [|discriminate]. exists d1.
    simpl in H. auto.
  Qed.

  (* the object oid in s (when present) has the name the change was computed from *)
  Lemma m_old_name {od nd} (HC : Chg e s s' oid c ci od nd) c0 ci0 d n :
    gty s oid = Some c0 -> cinfo_of e c0 = Some ci0 -> gdata s oid = Some d -> name_of ci0 d = Some n ->
    c0 = c /\ ci0 = ci /\ oname ci od = Some n.
  Proof.
    intros G1 G2 G4 G5. destruct (m_obj HC oid c0 d G1 G4) as [[_ [-> Ho]]|[Hi _]]; [|congruence].
    pose proof (m_ci HC _ G2). subst ci0. rewrite Ho. auto.
  Qed.

  Lemma m_name {od nd} (HI : Inv e s) (HC : Chg e s s' oid c ci od nd) :
    forall n i, aget name_eqb n (s_name s') = Some i ->
      exists c0 ci0 d, gty s' i = Some c0 /\ cinfo_of e c0 = Some ci0 /\ c_qual ci0 = true
                     /\ gdata s' i = Some d /\ name_of ci0 d = Some n.
  Proof.
    intros n i H.
    (* an entry of the old index carries over (for oid: if its new name is still n) *)
    assert (Hold : aget name_eqb n (s_name s) = Some i -> (i = oid -> oname ci nd = Some n) ->
                   exists c0 ci0 d, gty s' i = Some c0 /\ cinfo_of e c0 = Some ci0 /\ c_qual ci0 = true
                     /\ gdata s' i = Some d /\ name_of ci0 d = Some n).
    { intros Hx Hself. destruct (i_name _ _ HI n i Hx) as [c0 [ci0 [d [G1 [G2 [G3 [G4 G5]]]]]]].
      destruct (m_obj HC i c0 d G1 G4) as [[-> [-> _]]|[Hi [G1' G4']]].
      - pose proof (m_ci HC _ G2). subst ci0. destruct (m_new_obj HC n (Hself eq_refl)) as [d1 [_ [A [B C]]]].
        exists c, ci, d1. repeat split; assumption.
      - exists c0, ci0, d. repeat split; assumption. }
    destruct (g_names _ _ _ _ _ _ _ _ HC) as [[E1 [_ [_ E4]]]|[Hq [Hg _]]].
    - rewrite E1 in H. apply Hold; [exact H|]. intros ->.
      destruct (i_name _ _ HI n oid H) as [c0 [ci0 [d [G1 [G2 [G3 [G4 G5]]]]]]].
      destruct (m_old_name HC _ _ _ _ G1 G2 G4 G5) as [_ [_ Ho]]. congruence.
    - destruct (c_qual ci) eqn:Eq.
      + destruct (Hq eq_refl) as [_ [Qa [Qb Qc]]]. simpl in *.
        destruct (oname_eq_dec (oname ci nd) (Some n)) as [En|En].
        * destruct (Qa n En) as [Hx _]. rewrite Hx in H. inversion H; subst i.
          destruct (m_new_obj HC n En) as [d1 [_ [A [B C]]]]. exists c, ci, d1.
          pose proof (g_ci _ _ _ _ _ _ _ _ HC). repeat split; assumption.
        * destruct (oname_eq_dec (oname ci od) (Some n)) as [Eo|Eo].
          -- rewrite (Qb n En Eo) in H. discriminate.
          -- rewrite (Qc n En Eo) in H. apply Hold; [exact H|]. intros ->.
             destruct (i_name _ _ HI n oid H) as [c0 [ci0 [d [G1 [G2 [G3 [G4 G5]]]]]]].
             destruct (m_old_name HC _ _ _ _ G1 G2 G4 G5) as [_ [_ Ho]]. contradiction.
      + destruct (Hg eq_refl) as [Ga _]. simpl in Ga. rewrite Ga in H. apply Hold; [exact H|]. intros ->.
        destruct (i_name _ _ HI n oid H) as [c0 [ci0 [d [G1 [G2 [G3 [G4 G5]]]]]]].
        destruct (m_old_name HC _ _ _ _ G1 G2 G4 G5) as [_ [-> _]]. congruence.
  Qed.

  Lemma m_old_obj {od nd} (HC : Chg e s s' oid c ci od nd) n : oname ci od = Some n ->
    exists d0, od = Some d0 /\ gty s oid = Some c /\ gdata s oid = Some d0 /\ name_of ci d0 = Some n.
  Proof.
    intro H. pose proof (g_od _ _ _ _ _ _ _ _ HC) as Hod. pose proof (g_ty _ _ _ _ _ _ _ _ HC) as Hty.
    destruct od as [d0|]; [|discriminate]. exists d0. simpl in H. auto.
  Qed.

  Lemma m_glob {od nd} (HI : Inv e s) (HC : Chg e s s' oid c ci od nd) :
    forall c0 n i, aget ck_eqb (c0, n) (s_glob s') = Some i <->
      exists ci0 d, gty s' i = Some c0 /\ cinfo_of e c0 = Some ci0 /\ c_qual ci0 = false
                    /\ gdata s' i = Some d /\ name_of ci0 d = Some n.
  Proof.
    intros c0 n i. pose proof (g_ci _ _ _ _ _ _ _ _ HC) as Hci. split.
    - intro H.
      assert (Hold : aget ck_eqb (c0, n) (s_glob s) = Some i -> (i = oid -> oname ci nd = Some n) ->
                     exists ci0 d, gty s' i = Some c0 /\ cinfo_of e c0 = Some ci0 /\ c_qual ci0 = false
                       /\ gdata s' i = Some d /\ name_of ci0 d = Some n).
      { intros Hx Hself. destruct (proj1 (i_glob _ _ HI c0 n i) Hx) as [ci0 [d [G1 [G2 [G3 [G4 G5]]]]]].
        destruct (m_obj HC i c0 d G1 G4) as [[-> [-> _]]|[Hi [G1' G4']]].
        - pose proof (m_ci HC _ G2). subst ci0. destruct (m_new_obj HC n (Hself eq_refl)) as [d1 [_ [A [B C]]]].
          exists ci, d1. repeat split; assumption.
        - exists ci0, d. repeat split; assumption. }
      assert (Hself_old : aget ck_eqb (c0, n) (s_glob s) = Some oid -> c0 = c /\ c_qual ci = false /\ oname ci od = Some n).
      { intro Hx. destruct (proj1 (i_glob _ _ HI c0 n oid) Hx) as [ci0 [d [G1 [G2 [G3 [G4 G5]]]]]].
        destruct (m_old_name HC _ _ _ _ G1 G2 G4 G5) as [-> [-> Ho]]. auto. }
      destruct (g_names _ _ _ _ _ _ _ _ HC) as [[_ [_ [E3 E4]]]|[Hq [Hg _]]].
      + rewrite E3 in H. apply Hold; [exact H|]. intros ->.
        destruct (Hself_old H) as [_ [_ Ho]]. congruence.
      + destruct (c_qual ci) eqn:Eq.
        * destruct (Hq eq_refl) as [Qa _]. simpl in Qa. rewrite Qa in H. apply Hold; [exact H|]. intros ->.
          destruct (Hself_old H) as [_ [Hc _]]. discriminate.
        * destruct (Hg eq_refl) as [_ [Gb [Gc Gd]]]. simpl in *.
          destruct (N.eq_dec c0 c) as [->|Hc0].
          -- destruct (oname_eq_dec (oname ci nd) (Some n)) as [En|En].
             ++ destruct (Gb n En) as [Hx _]. rewrite Hx in H. inversion H; subst i.
                destruct (m_new_obj HC n En) as [d1 [_ [A [B C]]]]. exists ci, d1. repeat split; assumption.
             ++ destruct (oname_eq_dec (oname ci od) (Some n)) as [Eo|Eo].
                ** rewrite (Gc n En Eo) in H. discriminate.
                ** rewrite (Gd c n) in H by tauto. apply Hold; [exact H|]. intros ->.
                   destruct (Hself_old H) as [_ [_ Ho]]. contradiction.
          -- rewrite (Gd c0 n) in H by tauto. apply Hold; [exact H|]. intros ->.
             destruct (Hself_old H) as [Hc _]. contradiction.
    - intros [ci0 [d [G1 [G2 [G3 [G4 G5]]]]]].
      destruct (m_obj' HC i c0 d G1 G4) as [[-> [-> Hn]]|[Hi [G1' G4']]].
      + pose proof (m_ci HC _ G2). subst ci0.
        assert (En : oname ci nd = Some n) by (rewrite Hn; exact G5).
        destruct (g_names _ _ _ _ _ _ _ _ HC) as [[_ [_ [E3 E4]]]|[_ [Hg _]]].
        * rewrite E3. rewrite <- E4 in En. destruct (m_old_obj HC n En) as [d0 [_ [A [B C]]]].
          apply (i_glob _ _ HI). exists ci, d0. repeat split; assumption.
        * destruct (Hg G3) as [_ [Gb _]]. simpl in Gb. apply (Gb n En).
      + assert (Hx : aget ck_eqb (c0, n) (s_glob s) = Some i).
        { apply (i_glob _ _ HI). exists ci0, d. repeat split; assumption. }
        destruct (g_names _ _ _ _ _ _ _ _ HC) as [[_ [_ [E3 E4]]]|[Hq [Hg _]]].
        * rewrite E3. exact Hx.
        * destruct (c_qual ci) eqn:Eq.
          -- destruct (Hq eq_refl) as [Qa _]. simpl in Qa. rewrite Qa. exact Hx.
          -- destruct (Hg eq_refl) as [_ [Gb [Gc Gd]]]. simpl in *.
             (* oid's old name, if it is n in class c0 = c, would be indexed to oid, not i *)
             assert (Hno : ~ (c0 = c /\ oname ci od = Some n)).
             { intros [-> Eo]. destruct (m_old_obj HC n Eo) as [d0 [_ [A [B C]]]].
               assert (Hy : aget ck_eqb (c, n) (s_glob s) = Some oid).
               { apply (i_glob _ _ HI). exists ci, d0. repeat split; assumption. }
               congruence. }
             rewrite (Gd c0 n); [exact Hx | | exact Hno].
             intros [-> En]. destruct (Gb n En) as [_ [Eo|Eo]]; [apply Hno; auto | congruence].
  Qed.

  Lemma m_short {od nd} (HI : Inv e s) (HC : Chg e s s' oid c ci od nd) :
    forall c0 sn i, shin (s_short s') (c0, sn) i <->
      exists ci0 d n, gty s' i = Some c0 /\ cinfo_of e c0 = Some ci0 /\ c_sn ci0 = true
                      /\ gdata s' i = Some d /\ name_of ci0 d = Some n /\ shortname e n = sn.
  Proof.
    intros c0 sn i. pose proof (g_ci _ _ _ _ _ _ _ _ HC) as Hci. split.
    - intro H.
      assert (Hold : shin (s_short s) (c0, sn) i ->
                     (i = oid -> exists n, oname ci nd = Some n /\ shortname e n = sn) ->
                     exists ci0 d n, gty s' i = Some c0 /\ cinfo_of e c0 = Some ci0 /\ c_sn ci0 = true
                       /\ gdata s' i = Some d /\ name_of ci0 d = Some n /\ shortname e n = sn).
      { intros Hx Hself.
        destruct (proj1 (i_short _ _ HI c0 sn i) Hx) as [ci0 [d [n [G1 [G2 [G3 [G4 [G5 G6]]]]]]]].
        destruct (m_obj HC i c0 d G1 G4) as [[-> [-> _]]|[Hi [G1' G4']]].
        - pose proof (m_ci HC _ G2). subst ci0. destruct (Hself eq_refl) as [n1 [En1 Es1]].
          destruct (m_new_obj HC n1 En1) as [d1 [_ [A [B C]]]].
          exists ci, d1, n1. repeat split; assumption.
        - exists ci0, d, n. repeat split; assumption. }
      assert (Hself_old : shin (s_short s) (c0, sn) oid ->
                exists n, c0 = c /\ c_sn ci = true /\ oname ci od = Some n /\ shortname e n = sn).
      { intro Hx.
        destruct (proj1 (i_short _ _ HI c0 sn oid) Hx) as [ci0 [d [n [G1 [G2 [G3 [G4 [G5 G6]]]]]]]].
        destruct (m_old_name HC _ _ _ _ G1 G2 G4 G5) as [-> [-> Ho]]. exists n. auto. }
      destruct (g_names _ _ _ _ _ _ _ _ HC) as [[_ [E2 [_ E4]]]|[_ [_ [Hs0 Hs1]]]].
      + rewrite E2 in H. apply Hold; [exact H|]. intros ->.
        destruct (Hself_old H) as [n [_ [_ [Ho Hs]]]]. exists n. split; [congruence | exact Hs].
      + destruct (c_sn ci) eqn:Es.
        * destruct (Hs1 eq_refl) as [_ Sb]. simpl in Sb. apply Sb in H.
          destruct H as [[-> [n [En Ek]]]|[Hx Hn]].
          -- inversion Ek; subst c0 sn. destruct (m_new_obj HC n En) as [d1 [_ [A [B C]]]].
             exists ci, d1, n. repeat split; assumption.
          -- apply Hold; [exact Hx|]. intros ->. exfalso. apply Hn. split; [reflexivity|].
             destruct (Hself_old Hx) as [n [-> [_ [Ho Hs]]]]. exists n. split; [exact Ho | congruence].
        * simpl in Hs0. rewrite (Hs0 eq_refl) in H. apply Hold; [exact H|]. intros ->.
          destruct (Hself_old H) as [n [_ [Hc _]]]. discriminate.
    - intros [ci0 [d [n [G1 [G2 [G3 [G4 [G5 G6]]]]]]]].
      destruct (m_obj' HC i c0 d G1 G4) as [[-> [-> Hn]]|[Hi [G1' G4']]].
      + pose proof (m_ci HC _ G2). subst ci0.
        assert (En : oname ci nd = Some n) by (rewrite Hn; exact G5).
        destruct (g_names _ _ _ _ _ _ _ _ HC) as [[_ [E2 [_ E4]]]|[_ [_ [_ Hs1]]]].
        * rewrite E2. rewrite <- E4 in En. destruct (m_old_obj HC n En) as [d0 [_ [A [B C]]]].
          apply (i_short _ _ HI). exists ci, d0, n. repeat split; assumption.
        * destruct (Hs1 G3) as [_ Sb]. simpl in Sb. apply Sb. left. split; [reflexivity|].
          exists n. split; [exact En | congruence].
      + assert (Hx : shin (s_short s) (c0, sn) i).
        { apply (i_short _ _ HI). exists ci0, d, n. repeat split; assumption. }
        destruct (g_names _ _ _ _ _ _ _ _ HC) as [[_ [E2 _]]|[_ [_ [Hs0 Hs1]]]].
        * rewrite E2. exact Hx.
        * destruct (c_sn ci) eqn:Es.
          -- destruct (Hs1 eq_refl) as [_ Sb]. simpl in Sb. apply Sb. right.
             split; [exact Hx | intros [E _]; contradiction].
          -- simpl in Hs0. rewrite (Hs0 eq_refl). exact Hx.
  Qed.

  Lemma m_short_ne {od nd} (HI : Inv e s) (HC : Chg e s s' oid c ci od nd) : shne (s_short s').
  Proof.
    destruct (g_names _ _ _ _ _ _ _ _ HC) as [[_ [E2 _]]|[_ [_ [Hs0 Hs1]]]].
    - rewrite E2. apply (i_short_ne _ _ HI).
    - destruct (c_sn ci) eqn:Es.
      + destruct (Hs1 eq_refl) as [Sa _]. simpl in Sa. apply Sa. apply (i_short_ne _ _ HI).
      + simpl in Hs0. rewrite (Hs0 eq_refl). apply (i_short_ne _ _ HI).
  Qed.

  Lemma m_refs {od nd} (HI : Inv e s) (HC : Chg e s s' oid c ci od nd) :
    forall t c0 f r, rin (s_refs s') t (c0, f) r <->
      exists ci0 d, gty s' r = Some c0 /\ cinfo_of e c0 = Some ci0 /\ In f (c_refs ci0)
                    /\ gdata s' r = Some d /\ In t (frefs d f).
  Proof.
    intros t c0 f r. pose proof (g_ci _ _ _ _ _ _ _ _ HC) as Hci.
    rewrite (g_refs _ _ _ _ _ _ _ _ HC). simpl. split.
    - intros [[[-> [-> Hf]] Hin]|[Hn Hx]].
      + destruct (m_self HC) as [Ha Hb]. destruct nd as [d1|]; [|destruct Hin].
        exists ci, d1. simpl in Hin. repeat split; assumption.
      + destruct (proj1 (i_refs _ _ HI t c0 f r) Hx) as [ci0 [d [G1 [G2 [G3 [G4 G5]]]]]].
        destruct (m_obj HC r c0 d G1 G4) as [[-> [-> _]]|[Hi [G1' G4']]].
        * pose proof (m_ci HC _ G2). subst ci0. exfalso. apply Hn. auto.
        * exists ci0, d. repeat split; assumption.
    - intros [ci0 [d [G1 [G2 [G3 [G4 G5]]]]]].
      destruct (m_obj' HC r c0 d G1 G4) as [[-> [-> Hn]]|[Hi [G1' G4']]].
      + pose proof (m_ci HC _ G2). subst ci0. left. split; [auto|]. rewrite Hn. exact G5.
      + right. split; [intros [E _]; contradiction|].
        apply (i_refs _ _ HI). exists ci0, d. repeat split; assumption.
  Qed.

  Theorem master {od nd} (HI : Inv e s) (HC : Chg e s s' oid c ci od nd) : Inv e s'.
  Proof.
    constructor.
    - apply (m_dom HI HC).
    - apply (m_cls HI HC).
    - apply (m_name HI HC).
    - apply (m_glob HI HC).
    - apply (m_short HI HC).
    - apply (m_short_ne HI HC).
    - apply (m_refs HI HC).
    - apply (g_rne _ _ _ _ _ _ _ _ HC).
  Qed.

  (* completeness of the name index is preserved too (no delist involved) *)
  Lemma master_complete {od nd} (HI : Inv e s) (HN : NameComplete e s)
        (HC : Chg e s s' oid c ci od nd) : NameComplete e s'.
  Proof.
    intros i c0 ci0 d n G1 G2 G3 G4 G5. pose proof (g_ci _ _ _ _ _ _ _ _ HC) as Hci.
    destruct (m_obj' HC i c0 d G1 G4) as [[-> [-> Hn]]|[Hi [G1' G4']]].
    - pose proof (m_ci HC _ G2). subst ci0.
      assert (En : oname ci nd = Some n) by (rewrite Hn; exact G5).
      destruct (g_names _ _ _ _ _ _ _ _ HC) as [[E1 [_ [_ E4]]]|[Hq _]].
      + rewrite E1. rewrite <- E4 in En. destruct (m_old_obj HC n En) as [d0 [_ [A [B C]]]].
        apply (HN oid c ci d0 n); assumption.
      + destruct (Hq G3) as [_ [Qa _]]. simpl in Qa. apply (Qa n En).
    - pose proof (HN i c0 ci0 d n G1' G2 G3 G4' G5) as Hx.
      destruct (g_names _ _ _ _ _ _ _ _ HC) as [[E1 _]|[Hq [Hg _]]].
      + rewrite E1. exact Hx.
      + destruct (c_qual ci) eqn:Eq.
        * destruct (Hq eq_refl) as [_ [Qa [Qb Qc]]]. simpl in *.
          assert (Hno : oname ci od <> Some n).
          { intro Eo. destruct (m_old_obj HC n Eo) as [d0 [_ [A [B C]]]].
            pose proof (HN oid c ci d0 n A Hci Eq B C). congruence. }
          rewrite (Qc n); [exact Hx | | exact Hno].
          intro En. destruct (Qa n En) as [_ [Eo|Eo]]; [contradiction | congruence].
        * destruct (Hg eq_refl) as [Ga _]. simpl in Ga. rewrite Ga. exact Hx.
  Qed.
End Master.

(* ------------------------------------------------------------------ *)
(* helpers for the per-operation lemmas                                 *)

Lemma Ng_set_if {V} (j i : N) (v : V) m :
  aget N.eqb j (aset N.eqb i v m) = if N.eqb j i then Some v else aget N.eqb j m.
Proof.
  destruct (N.eqb j i) eqn:E.
  - apply N.eqb_eq in E. subst. apply Ng_set_same.
  - apply N.eqb_neq in E. apply Ng_set_other. exact E.
Qed.

Lemma Ng_del_if {V} (j i : N) (m : list (N * V)) :
  aget N.eqb j (adel N.eqb i m) = if N.eqb j i then None else aget N.eqb j m.
Proof.
  destruct (N.eqb j i) eqn:E.
  - apply N.eqb_eq in E. subst. apply Ng_del_same.
  - apply N.eqb_neq in E. apply Ng_del_other. exact E.
Qed.

Lemma as_name_ok ci d on : as_name (aget N.eqb (c_name ci) d) = inl on -> name_of ci d = on.
Proof.
  unfold as_name, name_of. destruct (aget N.eqb (c_name ci) d) as [[n|l|p]|]; intro H; inversion H; reflexivity.
Qed.

Lemma as_name_val v on : as_name v = inl on ->
  match v with Some (VName n) => on = Some n | None => on = None | _ => False end.
Proof. unfold as_name. destruct v as [[n|l|p]|]; intro H; inversion H; auto. Qed.

Lemma name_of_dset_same ci d v on : as_name v = inl on -> name_of ci (dset d (c_name ci) v) = on.
Proof.
  intro H. apply as_name_val in H. unfold name_of, dset.
  destruct v as [[n|l|p]|]; try contradiction; subst on.
  - rewrite Ng_set_same. reflexivity.
  - rewrite Ng_del_same. reflexivity.
Qed.

Lemma aget_dset_other d f f' v : f' <> f -> aget N.eqb f' (dset d f v) = aget N.eqb f' d.
Proof. intro H. unfold dset. destruct v; [apply Ng_set_other | apply Ng_del_other]; exact H. Qed.

Lemma name_of_dset_other ci d f v : f <> c_name ci -> name_of ci (dset d f v) = name_of ci d.
Proof. intro H. unfold name_of. rewrite aget_dset_other by congruence. reflexivity. Qed.

Lemma frefs_dset_other d f f' v : f' <> f -> frefs (dset d f v) f' = frefs d f'.
Proof. intro H. unfold frefs. rewrite aget_dset_other by exact H. reflexivity. Qed.

Lemma reduced_refs_ok v l : reduced_refs v = inl l -> v = VRefs l.
Proof. destruct v; simpl; intro H; inversion H; reflexivity. Qed.
Lemma unreduced_refs_ok v l : unreduced_refs v = inl l -> v = VRefs l.
Proof. destruct v; simpl; intro H; inversion H; reflexivity. Qed.

Lemma lk_cons f f0 l m : lk f ((f0, l) :: m) = if N.eqb f f0 then l else lk f m.
Proof. unfold lk. simpl. destruct (N.eqb f f0); reflexivity. Qed.

Lemma lk_aset f f0 l m : lk f (aset N.eqb f0 l m) = if N.eqb f f0 then l else lk f m.
Proof. unfold lk. rewrite Ng_set_if. destruct (N.eqb f f0); reflexivity. Qed.

Lemma collect_refs_lk d fs : forall m, collect_refs d fs = inl m ->
  forall f, (In f fs -> lk f m = frefs d f) /\ (~ In f fs -> lk f m = []).
Proof.
  induction fs as [|f0 fs IH]; intros m H f; simpl in H.
  - inversion H; subst. split; [intros [] | reflexivity].
  - destruct (aget N.eqb f0 d) as [v|] eqn:Ev.
    + destruct (reduced_refs v) as [l|] eqn:Er; simpl in H; [|discriminate].
      destruct (collect_refs d fs) as [rest|] eqn:Ec; simpl in H; [|discriminate].
      inversion H; subst m; clear H. apply reduced_refs_ok in Er. subst v.
      rewrite lk_cons. destruct (N.eqb f f0) eqn:E.
      * apply N.eqb_eq in E. subst f0. split; [|intro Hn; exfalso; apply Hn; left; reflexivity].
        intros _. unfold frefs. rewrite Ev. reflexivity.
      * apply N.eqb_neq in E. destruct (IH rest eq_refl f) as [Ha Hb]. split.
        -- intros [E'|Hin]; [congruence | apply Ha; exact Hin].
        -- intro Hn. apply Hb. intro Hin. apply Hn. right. exact Hin.
    + destruct (IH m H f) as [Ha Hb]. split.
      * intros [E'|Hin]; [|apply Ha; exact Hin]. subst f0.
        destruct (in_dec N.eq_dec f fs) as [Hin|Hin]; [apply Ha; exact Hin|].
        rewrite (Hb Hin). unfold frefs. rewrite Ev. reflexivity.
      * intro Hn. apply Hb. intro Hin. apply Hn. right. exact Hin.
Qed.

Lemma upd_refs_nil oid c fs rf : upd_refs oid c fs [] [] rf = inl rf.
Proof. induction fs as [|f fs IH]; simpl; [reflexivity | exact IH]. Qed.

(* the reference index after re-indexing object oid from od to nd *)
Lemma refs_chg e s oid c ci od nd orig new rf' :
  Inv e s -> cinfo_of e c = Some ci -> NoDup (c_refs ci) ->
  gdata s oid = od -> gty s oid = match od with Some _ => Some c | None => None end ->
  upd_refs oid c (c_refs ci) orig new (s_refs s) = inl rf' ->
  (forall f, In f (c_refs ci) ->
      (lk f orig = [] /\ lk f new = [] /\ orefs nd f = orefs od f)
      \/ (lk f orig = orefs od f /\ lk f new = orefs nd f)) ->
  (forall t k r, rin rf' t k r <->
      ((r = oid /\ fst k = c /\ In (snd k) (c_refs ci)) /\ In t (orefs nd (snd k)))
      \/ (~ (r = oid /\ fst k = c /\ In (snd k) (c_refs ci)) /\ rin (s_refs s) t k r))
  /\ rne rf'.
Proof.
  intros HI Hci Hnd Hod Hty Hu Hf. split; [|eapply upd_refs_rne; [apply (i_refs_ne _ _ HI) | exact Hu]].
  intros t k r. rewrite (upd_refs_spec _ _ _ _ _ _ _ Hnd Hu t k r).
  destruct k as [kc kf]. simpl.
  assert (Hcur : kc = c -> In kf (c_refs ci) -> (rin (s_refs s) t (kc, kf) oid <-> In t (orefs od kf))).
  { intros -> Hin. rewrite (i_refs _ _ HI). split.
    - intros [ci0 [d [G1 [G2 [G3 [G4 G5]]]]]]. rewrite Hod in G4. rewrite G4. exact G5.
    - intro Hx. destruct od as [d0|]; [|destruct Hx]. exists ci, d0. repeat split; assumption. }
  split.
  - intros [[[-> [-> Hin]] [Ha Hb]]|[Hn Hx]]; [|right; auto].
    left. split; [auto|]. pose proof (Hcur eq_refl Hin) as Hc.
    destruct (Hf kf Hin) as [[E1 [E2 E3]]|[E1 E2]].
    + rewrite E1, E2 in Ha. rewrite E3. apply Hc. destruct Ha as [Ha|[[] _]]. exact Ha.
    + rewrite E1, E2 in Ha, Hb. destruct Ha as [Ha|[Ha _]]; [|exact Ha].
      apply Hc in Ha. destruct (in_dec N.eq_dec t (orefs nd kf)) as [Hi|Hi]; [exact Hi|].
      exfalso. apply Hb. auto.
  - intros [[[-> [-> Hin]] Hx]|[Hn Hx]]; [|right; auto].
    left. split; [auto|]. pose proof (Hcur eq_refl Hin) as Hc.
    destruct (Hf kf Hin) as [[E1 [E2 E3]]|[E1 E2]].
    + rewrite E1, E2. rewrite E3 in Hx. split; [left; apply Hc; exact Hx | intros [[] _]].
    + rewrite E1, E2. split.
      * destruct (in_dec N.eq_dec t (orefs od kf)) as [Hi|Hi]; [left; apply Hc; exact Hi | right; auto].
      * intros [_ Hb]. contradiction.
Qed.

(* ------------------------------------------------------------------ *)
(* every successful operation is a single-object change                 *)

Lemma names3_eta (t : names3) : (fst (fst t), snd (fst t), snd t) = t.
Proof. destruct t as [[a b] c0]. reflexivity. Qed.

Lemma gdata_none_gty e s i : Inv e s -> gdata s i = None -> gty s i = None.
Proof. intros HI H. apply (i_dom _ _ HI). exact H. Qed.

Lemma add_raw_chg e s i c d s' :
  wf_env e -> Inv e s -> add_raw e s i c d = inl s' ->
  exists ci, Chg e s s' i c ci None (Some d).
Proof.
  intros We HI H. unfold add_raw in H.
  destruct (class_info e c) as [ci|] eqn:Eci; simpl in H; [|discriminate].
  apply class_info_ok in Eci. destruct (We c ci Eci) as [Hnd Hnr].
  destruct (as_name (aget N.eqb (c_name ci) d)) as [nmo|] eqn:En; simpl in H; [|discriminate].
  apply as_name_ok in En.
  match type of H with (bind ?x _) = _ => destruct x as [[]|] eqn:E1; simpl in H; [|discriminate] end.
  destruct (amem N.eqb i (s_data s)) eqn:Em; simpl in H; [discriminate|].
  apply amem_false in Em.
  destruct (collect_refs d (c_refs ci)) as [nr|] eqn:Ec; simpl in H; [|discriminate].
  destruct (upd_refs i c (c_refs ci) [] nr (s_refs s)) as [rf|] eqn:Eu; simpl in H; [|discriminate].
  destruct (upd_name e s i c ci None nmo) as [t|] eqn:Et; simpl in H; [|discriminate].
  match type of H with (bind ?x _) = _ => destruct x as [[]|] eqn:E2; simpl in H; [|discriminate] end.
  inversion H; subst s'; clear H.
  exists ci.
  assert (Hty0 : gty s i = None) by (apply (gdata_none_gty e); assumption).
  destruct (refs_chg e s i c ci None (Some d) [] nr rf HI Eci Hnd Em Hty0 Eu) as [Hr1 Hr2].
  { intros f Hf. right. split; [reflexivity|]. simpl.
    apply (proj1 (collect_refs_lk d (c_refs ci) nr Ec f) Hf). }
  constructor; simpl.
  - exact Eci.
  - exact Em.
  - exact Hty0.
  - intro j. unfold gdata. simpl. apply Ng_set_if.
  - intro j. unfold gty. simpl. apply Ng_set_if.
  - right. rewrite names3_eta. rewrite En. apply upd_name_spec. exact Et.
  - exact Hr1.
  - exact Hr2.
Qed.

Lemma delist_inv e s n s' : Inv e s -> delist s n = inl s' -> Inv e s'.
Proof.
  intros HI H. unfold delist in H. destruct (amem name_eqb n (s_name s)); [|discriminate].
  inversion H; subst s'; clear H.
  constructor; simpl; try apply HI.
  intros n0 i H0. simpl in H0.
  destruct (name_eq_dec n0 n) as [->|Hn].
  - rewrite nm_del_same in H0. discriminate.
  - rewrite nm_del_other in H0 by exact Hn. apply (i_name _ _ HI n0 i H0).
Qed.

Lemma delete_chg e s hc i s' :
  wf_env e -> Inv e s -> gty s i = Some hc -> delete e s hc i = inl s' ->
  exists ci d, Chg e s s' i hc ci (Some d) None.
Proof.
  intros We HI Hty H. unfold delete in H.
  destruct (aget N.eqb i (s_data s)) as [d|] eqn:Ed; [|discriminate].
  destruct (class_info e hc) as [ci|] eqn:Eci; simpl in H; [|discriminate].
  apply class_info_ok in Eci. destruct (We hc ci Eci) as [Hnd Hnr].
  destruct (as_name (aget N.eqb (c_name ci) d)) as [on|] eqn:En; simpl in H; [|discriminate].
  apply as_name_ok in En.
  destruct (upd_name e s i hc ci on None) as [t|] eqn:Et; simpl in H; [|discriminate].
  destruct (collect_refs d (c_refs ci)) as [orig|] eqn:Ec; simpl in H; [|discriminate].
  destruct (upd_refs i hc (c_refs ci) orig [] (s_refs s)) as [rf|] eqn:Eu; simpl in H; [|discriminate].
  destruct (amem N.eqb i (s_type s)); [|discriminate].
  inversion H; subst s'; clear H.
  exists ci, d.
  destruct (refs_chg e s i hc ci (Some d) None orig [] rf HI Eci Hnd Ed Hty Eu) as [Hr1 Hr2].
  { intros f Hf. right. split; [|reflexivity]. simpl.
    apply (proj1 (collect_refs_lk d (c_refs ci) orig Ec f) Hf). }
  constructor; simpl.
  - exact Eci.
  - exact Ed.
  - exact Hty.
  - intro j. unfold gdata. simpl. apply Ng_del_if.
  - intro j. unfold gty. simpl. apply Ng_del_if.
  - right. rewrite names3_eta. rewrite En. apply upd_name_spec. exact Et.
  - exact Hr1.
  - exact Hr2.
Qed.

Lemma with_names_data t s : s_data (with_names t s) = s_data s /\ s_type (with_names t s) = s_type s
                            /\ s_refs (with_names t s) = s_refs s.
Proof. destruct t; simpl; auto. Qed.

(* set_obj_field / unset_obj_field: one field f of a live object changes to v *)
Lemma field_chg e s i c ci d f v names rf :
  wf_env e -> Inv e s -> gty s i = Some c -> gdata s i = Some d -> cinfo_of e c = Some ci ->
  (if N.eqb f (c_name ci)
   then exists on nn t, as_name (aget N.eqb f d) = inl on /\ as_name v = inl nn
                        /\ upd_name e s i c ci on nn = inl t /\ names = Some t
   else names = None) ->
  (if smem f (c_refs ci)
   then exists orig new, upd_refs i c (c_refs ci) orig new (s_refs s) = inl rf
          /\ lk f orig = frefs d f /\ lk f new = frefs (dset d f v) f
          /\ (forall f', f' <> f -> lk f' orig = [] /\ lk f' new = [])
   else rf = s_refs s) ->
  Chg e s (with_names names
             {| s_data := aset N.eqb i (dset d f v) (s_data s); s_type := s_type s;
                s_name := s_name s; s_short := s_short s; s_glob := s_glob s; s_refs := rf |})
      i c ci (Some d) (Some (dset d f v)).
Proof.
  intros We HI Hty Hd Hci Hn Hr. destruct (We c ci Hci) as [Hnd Hnr].
  set (s0 := {| s_data := aset N.eqb i (dset d f v) (s_data s); s_type := s_type s;
                s_name := s_name s; s_short := s_short s; s_glob := s_glob s; s_refs := rf |}).
  destruct (with_names_data names s0) as [Wd [Wt Wr]].
  (* the reference part *)
  assert (Hrefs : (forall t k r, rin rf t k r <->
      ((r = i /\ fst k = c /\ In (snd k) (c_refs ci)) /\ In t (orefs (Some (dset d f v)) (snd k)))
      \/ (~ (r = i /\ fst k = c /\ In (snd k) (c_refs ci)) /\ rin (s_refs s) t k r))
      /\ rne rf).
  { destruct (smem f (c_refs ci)) eqn:Es.
    - destruct Hr as [orig [new [Eu [Eo [En Eoth]]]]].
      apply (refs_chg e s i c ci (Some d) (Some (dset d f v)) orig new rf HI Hci Hnd Hd Hty Eu).
      intros f' Hf'. destruct (N.eq_dec f' f) as [->|Hne].
      + right. simpl. auto.
      + left. destruct (Eoth f' Hne) as [A B]. simpl. split; [exact A|]. split; [exact B|].
        apply frefs_dset_other. exact Hne.
    - subst rf. apply smem_nIn in Es.
      apply (refs_chg e s i c ci (Some d) (Some (dset d f v)) [] [] (s_refs s) HI Hci Hnd Hd Hty
                      (upd_refs_nil _ _ _ _)).
      intros f' Hf'. left. simpl. split; [reflexivity|]. split; [reflexivity|].
      apply frefs_dset_other. intro E. subst f'. contradiction. }
  destruct Hrefs as [Hr1 Hr2].
  constructor.
  - exact Hci.
  - exact Hd.
  - exact Hty.
  - intro j. unfold gdata. rewrite Wd. simpl. apply Ng_set_if.
  - intro j. unfold gty. rewrite Wt. simpl. unfold gty in Hty.
    destruct (N.eqb j i) eqn:E; [apply N.eqb_eq in E; subst j; exact Hty | reflexivity].
  - destruct (N.eqb f (c_name ci)) eqn:Ef.
    + apply N.eqb_eq in Ef. subst f. destruct Hn as [on [nn [t [A [B [C D]]]]]]. subst names.
      right. simpl. rewrite names3_eta. apply as_name_ok in A. simpl.
      rewrite A, (name_of_dset_same ci d v nn B). apply upd_name_spec. exact C.
    + apply N.eqb_neq in Ef. subst names. left. simpl.
      repeat split; try reflexivity. symmetry. apply name_of_dset_other. exact Ef.
  - rewrite Wr. simpl. exact Hr1.
  - rewrite Wr. simpl. exact Hr2.
Qed.

Lemma gdata_some_gty e s i d : Inv e s -> gdata s i = Some d -> exists c, gty s i = Some c.
Proof.
  intros HI H. destruct (gty s i) as [c|] eqn:E; [exists c; reflexivity|].
  apply (i_dom _ _ HI) in E. congruence.
Qed.

Lemma set_field_chg e s i f v s' :
  wf_env e -> Inv e s -> set_field e s i f v = inl s' ->
  exists c ci d, Chg e s s' i c ci (Some d) (Some (dset d f v)).
Proof.
  intros We HI H. unfold set_field in H.
  destruct (aget N.eqb i (s_data s)) as [d|] eqn:Ed; [|discriminate].
  destruct (aget N.eqb i (s_type s)) as [c|] eqn:Et; [|discriminate].
  destruct (class_info e c) as [ci|] eqn:Eci; simpl in H; [|discriminate].
  apply class_info_ok in Eci.
  destruct (negb (f <? c_nf ci)); [discriminate|].
  match type of H with (bind ?x _) = _ => destruct x as [newl|] eqn:E1; simpl in H; [|discriminate] end.
  match type of H with (bind ?x _) = _ => destruct x as [names|] eqn:E2; simpl in H; [|discriminate] end.
  match type of H with (bind ?x _) = _ => destruct x as [rf|] eqn:E3; simpl in H; [|discriminate] end.
  inversion H; subst s'; clear H.
  exists c, ci, d. apply (field_chg e s i c ci d f v names rf We HI Et Ed Eci).
  - destruct (N.eqb f (c_name ci)).
    + destruct (as_name (aget N.eqb f d)) as [on|] eqn:A; simpl in E2; [|discriminate].
      destruct (as_name v) as [nn|] eqn:B; simpl in E2; [|discriminate].
      destruct (upd_name e s i c ci on nn) as [t|] eqn:C; simpl in E2; [|discriminate].
      inversion E2. exists on, nn, t. auto.
    + inversion E2. reflexivity.
  - destruct (smem f (c_refs ci)).
    + destruct v as [x|]; [|discriminate].
      destruct (unreduced_refs x) as [l|] eqn:A; simpl in E1; [|discriminate].
      inversion E1; subst newl; clear E1. apply unreduced_refs_ok in A. subst x.
      match type of E3 with (bind ?x _) = _ => destruct x as [orig|] eqn:B; simpl in E3; [|discriminate] end.
      exists orig, [(f, l)]. split; [exact E3|].
      assert (Hl : forall l0 f', f' <> f -> lk f' [(f, l0)] = []).
      { intros l0 f' Hne. rewrite lk_cons. apply N.eqb_neq in Hne. rewrite Hne. reflexivity. }
      split; [|split].
      * destruct (aget N.eqb f d) as [ov|] eqn:Eo.
        -- destruct (reduced_refs ov) as [ol|] eqn:Er; simpl in B; [|discriminate].
           inversion B; subst orig. apply reduced_refs_ok in Er. subst ov.
           rewrite lk_cons, N.eqb_refl. unfold frefs. rewrite Eo. reflexivity.
        -- inversion B; subst orig. unfold frefs. rewrite Eo. reflexivity.
      * rewrite lk_cons, N.eqb_refl. unfold frefs, dset. rewrite Ng_set_same. reflexivity.
      * intros f' Hne. split; [|apply Hl; exact Hne].
        destruct (aget N.eqb f d) as [ov|].
        -- destruct (reduced_refs ov) as [ol|]; simpl in B; [|discriminate].
           inversion B; subst orig. apply Hl; exact Hne.
        -- inversion B; subst orig. reflexivity.
    + inversion E1; subst newl. inversion E3. reflexivity.
Qed.

Lemma unset_field_chg e s i f s' :
  wf_env e -> Inv e s -> unset_field e s i f = inl s' ->
  s' = s \/ exists c ci d, Chg e s s' i c ci (Some d) (Some (dset d f None)).
Proof.
  intros We HI H. unfold unset_field in H.
  destruct (aget N.eqb i (s_data s)) as [d|] eqn:Ed; [|inversion H; auto].
  destruct (aget N.eqb i (s_type s)) as [c|] eqn:Et; [|discriminate].
  destruct (class_info e c) as [ci|] eqn:Eci; simpl in H; [|discriminate].
  apply class_info_ok in Eci.
  destruct (negb (f <? c_nf ci)); [discriminate|].
  destruct (aget N.eqb f d) as [ov|] eqn:Eo; [|inversion H; auto].
  match type of H with (bind ?x _) = _ => destruct x as [names|] eqn:E2; simpl in H; [|discriminate] end.
  match type of H with (bind ?x _) = _ => destruct x as [rf|] eqn:E3; simpl in H; [|discriminate] end.
  inversion H; subst s'; clear H.
  right. exists c, ci, d.
  change (adel N.eqb f d) with (dset d f None).
  apply (field_chg e s i c ci d f None names rf We HI Et Ed Eci).
  - destruct (N.eqb f (c_name ci)).
    + simpl in E2. destruct ov as [n|l|p]; simpl in E2; try discriminate.
      destruct (upd_name e s i c ci (Some n) None) as [t|] eqn:C; simpl in E2; [|discriminate].
      inversion E2. exists (Some n), None, t. rewrite Eo. auto.
    + inversion E2. reflexivity.
  - destruct (smem f (c_refs ci)).
    + destruct (reduced_refs ov) as [ol|] eqn:Er; simpl in E3; [|discriminate].
      apply reduced_refs_ok in Er. subst ov.
      exists [(f, ol)], []. split; [exact E3|]. split; [|split].
      * rewrite lk_cons, N.eqb_refl. unfold frefs. rewrite Eo. reflexivity.
      * unfold frefs, dset. rewrite Ng_del_same. reflexivity.
      * intros f' Hne. split; [|reflexivity]. rewrite lk_cons. apply N.eqb_neq in Hne. rewrite Hne. reflexivity.
    + inversion E3. reflexivity.
Qed.

(* ---- update_obj: invariant of the loop over the updates mapping ---- *)
Definition LI (e : env) (s : schema) (i : id) (hc : cls) (ci : cinfo) (d0 : data)
           (P : list fld) (a : uacc) : Prop :=
  (forall f, ~ In f P -> aget N.eqb f (u_data a) = aget N.eqb f d0
                         /\ aget N.eqb f (u_orig a) = None /\ aget N.eqb f (u_new a) = None)
  /\ (forall f, In f P -> In f (c_refs ci) ->
                lk f (u_orig a) = frefs d0 f /\ lk f (u_new a) = frefs (u_data a) f)
  /\ (In (c_name ci) P ->
      exists t, u_names a = Some t /\ names_upd e s i hc ci (name_of ci d0) (name_of ci (u_data a)) t)
  /\ (~ In (c_name ci) P -> u_names a = None).

Lemma lk_none f (m : list (fld * list id)) : aget N.eqb f m = None -> lk f m = [].
Proof. unfold lk. intros ->. reflexivity. Qed.

Lemma upd_loop_spec e s i hc ci d0 : forall u a a' P,
  upd_loop e s i hc ci u a = inl a' ->
  NoDup (map fst u) -> (forall f, In f (map fst u) -> ~ In f P) ->
  LI e s i hc ci d0 P a ->
  exists P', (forall f, In f P' <-> In f P \/ In f (map fst u)) /\ LI e s i hc ci d0 P' a'.
Proof.
  induction u as [|[f v] u IH]; intros a a' P H Hnd Hdisj HL; simpl in H.
  - inversion H; subst. exists P. split; [intro; simpl; tauto | exact HL].
  - destruct (negb (f <? c_nf ci)); [discriminate|].
    match type of H with (bind ?x _) = _ => destruct x as [names|] eqn:E1; simpl in H; [|discriminate] end.
    match type of H with (bind ?x _) = _ => destruct x as [on'|] eqn:E2; simpl in H; [|discriminate] end.
    inversion Hnd as [|? ? Hnotin Hnd']; subst.
    assert (HfP : ~ In f P) by (apply Hdisj; left; reflexivity).
    destruct HL as [L1 [L2 [L3 L4]]].
    destruct (L1 f HfP) as [Lf1 [Lf2 Lf3]].
    apply (IH _ a' (f :: P)) in H.
    + destruct H as [P' [HP' HL']]. exists P'. split; [|exact HL'].
      intro f0. rewrite HP'. simpl. tauto.
    + exact Hnd'.
    + intros f0 Hin [E|Hc]; [subst f0; contradiction|]. apply (Hdisj f0); [right; exact Hin | exact Hc].
    + (* the invariant after one iteration *)
      unfold LI. cbn [u_data u_names u_orig u_new].
      (* what the step did to orig/new *)
      assert (Hon : (In f (c_refs ci) ->
                       lk f (fst on') = frefs d0 f /\ lk f (snd on') = frefs (dset (u_data a) f v) f)
                    /\ (forall f0, f0 <> f -> aget N.eqb f0 (fst on') = aget N.eqb f0 (u_orig a)
                                              /\ aget N.eqb f0 (snd on') = aget N.eqb f0 (u_new a))).
      { destruct (smem f (c_refs ci)) eqn:Es.
        - destruct v as [x|].
          + destruct (unreduced_refs x) as [l|] eqn:A; simpl in E2; [|discriminate].
            apply unreduced_refs_ok in A. subst x.
            destruct (aget N.eqb f (u_data a)) as [ov|] eqn:Eo.
            * destruct (reduced_refs ov) as [ol|] eqn:Er; simpl in E2; [|discriminate].
              apply reduced_refs_ok in Er. subst ov. inversion E2; subst on'; clear E2. cbn [fst snd]. split.
              -- intros _. rewrite !lk_aset, N.eqb_refl. unfold frefs, dset.
                 rewrite <- Lf1, Ng_set_same. auto.
              -- intros f0 Hne. rewrite !Ng_set_other by exact Hne. auto.
            * inversion E2; subst on'; clear E2. cbn [fst snd]. split.
              -- intros _. rewrite lk_aset, N.eqb_refl. rewrite (lk_none _ _ Lf2).
                 unfold frefs, dset. rewrite <- Lf1, Ng_set_same. auto.
              -- intros f0 Hne. rewrite Ng_set_other by exact Hne. auto.
          + destruct (aget N.eqb f (u_data a)) as [ov|] eqn:Eo.
            * destruct (reduced_refs ov) as [ol|] eqn:Er; simpl in E2; [|discriminate].
              apply reduced_refs_ok in Er. subst ov. inversion E2; subst on'; clear E2. cbn [fst snd]. split.
              -- intros _. rewrite lk_aset, N.eqb_refl. rewrite (lk_none _ _ Lf3).
                 unfold frefs, dset. rewrite <- Lf1, Ng_del_same. auto.
              -- intros f0 Hne. rewrite Ng_set_other by exact Hne. auto.
            * inversion E2; subst on'; clear E2. cbn [fst snd]. split.
              -- intros _. rewrite (lk_none _ _ Lf2), (lk_none _ _ Lf3).
                 unfold frefs, dset. rewrite <- Lf1, Ng_del_same. auto.
              -- intros f0 Hne. auto.
        - apply smem_nIn in Es. inversion E2; subst on'; clear E2. simpl. split; [intro; contradiction | auto]. }
      destruct Hon as [Hon1 Hon2].
      split; [|split; [|split]].
      * intros f0 Hn. assert (Hne : f0 <> f) by (intro E; apply Hn; left; auto).
        assert (HnP : ~ In f0 P) by (intro E; apply Hn; right; auto).
        destruct (L1 f0 HnP) as [A [B C]]. destruct (Hon2 f0 Hne) as [D E].
        rewrite aget_dset_other by exact Hne. rewrite D, E. auto.
      * intros f0 [E|Hin] Hr.
        -- subst f0. apply Hon1. exact Hr.
        -- assert (Hne : f0 <> f) by (intro E; subst f0; contradiction).
           destruct (L2 f0 Hin Hr) as [A B]. destruct (Hon2 f0 Hne) as [D E].
           unfold lk. rewrite D, E. fold (lk f0 (u_orig a)). fold (lk f0 (u_new a)).
           rewrite A, B. split; [reflexivity|]. symmetry. apply frefs_dset_other. exact Hne.
      * intros Hin. destruct (N.eqb f (c_name ci)) eqn:Ef.
        -- apply N.eqb_eq in Ef. subst f.
           destruct (as_name (aget N.eqb (c_name ci) (u_data a))) as [on|] eqn:A; simpl in E1; [|discriminate].
           destruct (as_name v) as [nn|] eqn:B; simpl in E1; [|discriminate].
           destruct (upd_name e s i hc ci on nn) as [t|] eqn:C; simpl in E1; [|discriminate].
           inversion E1; subst names; clear E1. exists t. split; [reflexivity|].
           rewrite Lf1 in A. apply as_name_ok in A. rewrite A.
           rewrite (name_of_dset_same ci (u_data a) v nn B). apply upd_name_spec. exact C.
        -- apply N.eqb_neq in Ef. inversion E1; subst names; clear E1.
           destruct Hin as [E|Hin]; [congruence|].
           destruct (L3 Hin) as [t [A B]]. exists t. split; [exact A|].
           rewrite name_of_dset_other by exact Ef. exact B.
      * intros Hn. destruct (N.eqb f (c_name ci)) eqn:Ef.
        -- apply N.eqb_eq in Ef. exfalso. apply Hn. left. exact Ef.
        -- inversion E1; subst names. apply L4. intro Hin. apply Hn. right. exact Hin.
Qed.

Lemma update_obj_unfold e s hc i u : u <> [] ->
  update_obj e s hc i u =
  (ci <- class_info e hc ;;
   let d0 := match aget N.eqb i (s_data s) with Some d => d | None => [] end in
   a <- upd_loop e s i hc ci u {| u_data := d0; u_names := None; u_orig := []; u_new := [] |} ;;
   rf <- upd_refs i hc (c_refs ci) (u_orig a) (u_new a) (s_refs s) ;;
   inl (with_names (u_names a)
          {| s_data := aset N.eqb i (u_data a) (s_data s); s_type := s_type s;
             s_name := s_name s; s_short := s_short s; s_glob := s_glob s; s_refs := rf |})).
Proof. intro H. destruct u; [congruence | reflexivity]. Qed.

Lemma update_obj_chg e s hc i u s' :
  wf_env e -> Inv e s -> NoDup (map fst u) -> gty s i = Some hc -> u <> [] ->
  update_obj e s hc i u = inl s' ->
  exists ci d d1, Chg e s s' i hc ci (Some d) (Some d1).
Proof.
  intros We HI Hnd Hty Hne H. rewrite (update_obj_unfold _ _ _ _ _ Hne) in H.
  destruct (class_info e hc) as [ci|] eqn:Eci; cbn [bind] in H; [|discriminate].
  apply class_info_ok in Eci. destruct (We hc ci Eci) as [Hndr Hnr].
  destruct (gdata s i) as [d|] eqn:Ed.
  2: { apply (i_dom _ _ HI) in Ed. congruence. }
  unfold gdata in Ed. rewrite Ed in H. cbv zeta in H.
  destruct (upd_loop e s i hc ci u {| u_data := d; u_names := None; u_orig := []; u_new := [] |})
    as [a|] eqn:El; cbn [bind] in H; [|discriminate].
  destruct (upd_refs i hc (c_refs ci) (u_orig a) (u_new a) (s_refs s)) as [rf|] eqn:Eu; cbn [bind] in H; [|discriminate].
  inversion H; subst s'; clear H.
  destruct (upd_loop_spec e s i hc ci d u _ a [] El Hnd) as [P' [HP' [L1 [L2 [L3 L4]]]]].
  { intros f _ []. }
  { unfold LI. cbn [u_data u_names u_orig u_new]. split; [|split; [|split]].
    - intros f _. simpl. auto.
    - intros f [].
    - intros [].
    - intros _. reflexivity. }
  set (s0 := {| s_data := aset N.eqb i (u_data a) (s_data s); s_type := s_type s;
                s_name := s_name s; s_short := s_short s; s_glob := s_glob s; s_refs := rf |}).
  destruct (with_names_data (u_names a) s0) as [Wd [Wt Wr]].
  exists ci, d, (u_data a).
  destruct (refs_chg e s i hc ci (Some d) (Some (u_data a)) (u_orig a) (u_new a) rf HI Eci Hndr Ed Hty Eu)
    as [Hr1 Hr2].
  { intros f Hf. simpl. destruct (in_dec N.eq_dec f P') as [Hin|Hin].
    - right. destruct (L2 f Hin Hf) as [A B]. auto.
    - left. destruct (L1 f Hin) as [A [B C]]. rewrite (lk_none _ _ B), (lk_none _ _ C).
      split; [reflexivity|]. split; [reflexivity|]. unfold frefs. rewrite A. reflexivity. }
  constructor.
  - exact Eci.
  - exact Ed.
  - exact Hty.
  - intro j. unfold gdata. rewrite Wd. simpl. apply Ng_set_if.
  - intro j. unfold gty. rewrite Wt. simpl. unfold gty in Hty.
    destruct (N.eqb j i) eqn:E; [apply N.eqb_eq in E; subst j; exact Hty | reflexivity].
  - destruct (in_dec N.eq_dec (c_name ci) P') as [Hin|Hin].
    + destruct (L3 Hin) as [t [A B]]. right. rewrite A. simpl. rewrite names3_eta. exact B.
    + rewrite (L4 Hin). left. simpl. repeat split; try reflexivity.
      unfold name_of. destruct (L1 _ Hin) as [A _]. rewrite A. reflexivity.
  - rewrite Wr. exact Hr1.
  - rewrite Wr. exact Hr2.
Qed.

(* ------------------------------------------------------------------ *)
(* the index invariant is preserved by every accepted operation          *)

(* scope of the theorem (what a caller holding handles from get_by_id does):
   update_obj is applied to an object that is in the schema (the raw method would otherwise
   create a data entry without a type entry), the updates mapping has distinct keys, and
   handles passed to update_obj / delete / discard carry the class the object is stored with *)
Definition wf_op (s : schema) (o : op) : Prop :=
  match o with
  | OUpdate hc i u => NoDup (map fst u) /\ (u = [] \/ gty s i = Some hc)
  | ODelete hc i => gty s i = Some hc \/ gty s i = None
  | ODiscard hc i => gty s i = Some hc \/ gty s i = None
  | _ => True
  end.

Lemma add_is_add_raw e s i c d s' : add e s i c d = inl s' -> add_raw e s i c d = inl s'.
Proof.
  unfold add. destruct (class_info e c) as [ci|]; simpl; [|discriminate].
  destruct (check_unreduced d (c_refs ci)) as [[]|]; simpl; [auto | discriminate].
Qed.

Lemma delete_absent e s hc i : Inv e s -> gty s i = None -> delete e s hc i = inr EInvalidRef.
Proof.
  intros HI H. apply (i_dom _ _ HI) in H. unfold delete. unfold gdata in H. rewrite H. reflexivity.
Qed.

(* every accepted op is the identity, a delist, or a single-object change *)
Lemma step_cases e s o s' :
  wf_env e -> Inv e s -> wf_op s o -> step e s o = inl s' ->
  s' = s \/ (exists n, o = ODelist n) \/ exists i c ci od nd, Chg e s s' i c ci od nd.
Proof.
  intros We HI Hwf H. destruct o as [raw i c d|hc i u|hc i f v|hc i f|hc i|hc i|n]; simpl in H.
  - assert (Ha : add_raw e s i c d = inl s') by (destruct raw; [exact H | apply add_is_add_raw; exact H]).
    destruct (add_raw_chg _ _ _ _ _ _ We HI Ha) as [ci HC]. right. right. exists i, c, ci, None, (Some d). exact HC.
  - destruct Hwf as [Hnd [->|Hty]]; [inversion H; auto|].
    destruct u as [|p u0] eqn:Eu; [inversion H; auto|]. rewrite <- Eu in *.
    assert (Hne : u <> []) by (rewrite Eu; discriminate).
    destruct (update_obj_chg _ _ _ _ _ _ We HI Hnd Hty Hne H) as [ci [d0 [d1 HC]]].
    right. right. exists i, hc, ci, (Some d0), (Some d1). exact HC.
  - destruct (set_field_chg _ _ _ _ _ _ We HI H) as [c [ci [d HC]]].
    right. right. exists i, c, ci, (Some d), (Some (dset d f v)). exact HC.
  - destruct (unset_field_chg _ _ _ _ _ We HI H) as [->|[c [ci [d HC]]]]; [auto|].
    right. right. exists i, c, ci, (Some d), (Some (dset d f None)). exact HC.
  - destruct Hwf as [Hty|Hty].
    + destruct (delete_chg _ _ _ _ _ We HI Hty H) as [ci [d HC]].
      right. right. exists i, hc, ci, (Some d), None. exact HC.
    + rewrite (delete_absent _ _ _ _ HI Hty) in H. discriminate.
  - unfold discard in H. destruct (amem N.eqb i (s_data s)) eqn:Em; [|inversion H; auto].
    destruct Hwf as [Hty|Hty].
    + destruct (delete_chg _ _ _ _ _ We HI Hty H) as [ci [d HC]].
      right. right. exists i, hc, ci, (Some d), None. exact HC.
    + rewrite (delete_absent _ _ _ _ HI Hty) in H. discriminate.
  - right. left. exists n. reflexivity.
Qed.

Theorem step_inv e s o s' :
  wf_env e -> Inv e s -> wf_op s o -> step e s o = inl s' -> Inv e s'.
Proof.
  intros We HI Hwf H.
  destruct (step_cases _ _ _ _ We HI Hwf H) as [->|[[n ->]|[i [c [ci [od [nd HC]]]]]]].
  - exact HI.
  - simpl in H. eapply delist_inv; eassumption.
  - exact (master HI HC).
Qed.

Theorem step_complete e s o s' :
  wf_env e -> Inv e s -> NameComplete e s -> wf_op s o -> (forall n, o <> ODelist n) ->
  step e s o = inl s' -> NameComplete e s'.
Proof.
  intros We HI HN Hwf Hnd H.
  destruct (step_cases _ _ _ _ We HI Hwf H) as [->|[[n ->]|[i [c [ci [od [nd HC]]]]]]].
  - exact HN.
  - exfalso. apply (Hnd n). reflexivity.
  - exact (master_complete HI HN HC).
Qed.

(* histories *)
Fixpoint wf_hist (e : env) (s : schema) (os : list op) : Prop :=
  match os with
  | [] => True
  | o :: os' => wf_op s o /\ wf_hist e (apply e s o) os'
  end.

Lemma apply_inv e s o : wf_env e -> Inv e s -> wf_op s o -> Inv e (apply e s o).
Proof.
  intros We HI Hwf. unfold apply. destruct (step e s o) as [s'|] eqn:E; [|exact HI].
  eapply step_inv; eassumption.
Qed.

Theorem run_inv e : wf_env e -> forall os s, Inv e s -> wf_hist e s os -> Inv e (run e s os).
Proof.
  intros We os. induction os as [|o os IH]; intros s HI Hwf; simpl.
  - exact HI.
  - destruct Hwf as [H1 H2]. apply IH; [apply apply_inv; assumption | exact H2].
Qed.

Definition no_delist (os : list op) : Prop := forall n, ~ In (ODelist n) os.

Theorem run_complete e : wf_env e -> forall os s,
  Inv e s -> NameComplete e s -> wf_hist e s os -> no_delist os -> NameComplete e (run e s os).
Proof.
  intros We os. induction os as [|o os IH]; intros s HI HN Hwf Hnd; simpl.
  - exact HN.
  - destruct Hwf as [H1 H2]. apply IH.
    + apply apply_inv; assumption.
    + unfold apply. destruct (step e s o) as [s'|] eqn:E; [|exact HN].
      eapply step_complete; try eassumption. intros n En. apply (Hnd n). left. auto.
    + exact H2.
    + intros n Hin. apply (Hnd n). right. exact Hin.
Qed.

(* ------------------------------------------------------------------ *)
(* consequences of the invariant                                        *)

(* lookups by name are unambiguous *)
Lemma glob_unique e s : Inv e s ->
  forall i j c ci di dj n,
    gty s i = Some c -> gty s j = Some c -> cinfo_of e c = Some ci -> c_qual ci = false ->
    gdata s i = Some di -> gdata s j = Some dj -> name_of ci di = Some n -> name_of ci dj = Some n ->
    i = j.
Proof.
  intros HI i j c ci di dj n Ti Tj Hci Hq Di Dj Ni Nj.
  assert (A : aget ck_eqb (c, n) (s_glob s) = Some i) by (apply (i_glob _ _ HI); exists ci, di; repeat split; assumption).
  assert (B : aget ck_eqb (c, n) (s_glob s) = Some j) by (apply (i_glob _ _ HI); exists ci, dj; repeat split; assumption).
  congruence.
Qed.

Lemma name_unique e s : Inv e s -> NameComplete e s ->
  forall i j ci cj cii cij di dj n,
    gty s i = Some ci -> gty s j = Some cj -> cinfo_of e ci = Some cii -> cinfo_of e cj = Some cij ->
    c_qual cii = true -> c_qual cij = true ->
    gdata s i = Some di -> gdata s j = Some dj -> name_of cii di = Some n -> name_of cij dj = Some n ->
    i = j.
Proof.
  intros HI HN i j ci cj cii cij di dj n Ti Tj Ci Cj Qi Qj Di Dj Ni Nj.
  pose proof (HN i ci cii di n Ti Ci Qi Di Ni). pose proof (HN j cj cij dj n Tj Cj Qj Dj Nj). congruence.
Qed.

(* an id that is not in the schema is reachable through no index *)
Lemma absent_unreachable e s i : Inv e s -> gty s i = None ->
  gdata s i = None
  /\ (forall n, aget name_eqb n (s_name s) <> Some i)
  /\ (forall k, aget ck_eqb k (s_glob s) <> Some i)
  /\ (forall k, ~ shin (s_short s) k i)
  /\ (forall t k, ~ rin (s_refs s) t k i).
Proof.
  intros HI H. split; [apply (i_dom _ _ HI); exact H|]. split; [|split; [|split]].
  - intros n Hn. destruct (i_name _ _ HI n i Hn) as [c [ci [d [G _]]]]. congruence.
  - intros [c n] Hk. destruct (proj1 (i_glob _ _ HI c n i) Hk) as [ci [d [G _]]]. congruence.
  - intros [c sn] Hk. destruct (proj1 (i_short _ _ HI c sn i) Hk) as [ci [d [n [G _]]]]. congruence.
  - intros t [c f] Hk. destruct (proj1 (i_refs _ _ HI t c f i) Hk) as [ci [d [G _]]]. congruence.
Qed.

Lemma delete_unreachable e s hc i s' :
  wf_env e -> Inv e s -> gty s i = Some hc -> delete e s hc i = inl s' ->
  gty s' i = None /\ gdata s' i = None
  /\ (forall n, aget name_eqb n (s_name s') <> Some i)
  /\ (forall k, aget ck_eqb k (s_glob s') <> Some i)
  /\ (forall k, ~ shin (s_short s') k i)
  /\ (forall t k, ~ rin (s_refs s') t k i).
Proof.
  intros We HI Hty H. destruct (delete_chg _ _ _ _ _ We HI Hty H) as [ci [d HC]].
  pose proof (master HI HC) as HI'. destruct (m_self HC) as [_ Hb]. simpl in Hb.
  split; [exact Hb|]. apply (absent_unreachable e s' i HI' Hb).
Qed.

(* rejected = no-op; earlier values are never touched (by construction of a functional model;
   on the implementation this is what the monitors check) *)
Lemma rejected_noop e s o x : step e s o = inr x -> apply e s o = s.
Proof. unfold apply. intros ->. reflexivity. Qed.

Lemma trace_app e os1 : forall s os2,
  trace e s (os1 ++ os2) = trace e s os1 ++ trace e (run e s os1) os2.
Proof.
  induction os1 as [|o os1 IH]; intros s os2; simpl; [reflexivity|].
  unfold apply. destruct (step e s o) as [s'|x]; simpl; rewrite IH; reflexivity.
Qed.

Lemma trace_length e os : forall s, length (trace e s os) = length os.
Proof.
  induction os as [|o os IH]; intro s; simpl; [reflexivity|].
  destruct (step e s o); simpl; rewrite IH; reflexivity.
Qed.

Lemma trace_prefix e s os1 os2 :
  firstn (length os1) (trace e s (os1 ++ os2)) = trace e s os1.
Proof.
  rewrite trace_app. rewrite <- (trace_length e os1 s).
  rewrite firstn_app, Nat.sub_diag, firstn_all. simpl. apply app_nil_r.
Qed.

Lemma trace_rejected e s o os x :
  step e s o = inr x -> trace e s (o :: os) = (Some x, s) :: trace e s os.
Proof. intro H. simpl. rewrite H. reflexivity. Qed.

(* ------------------------------------------------------------------ *)
(* ChainedSchema                                                        *)

Definition ChInv (e : env) (s : chained) : Prop := Inv e (ch_top s) /\ Inv e (ch_glob s).

Definition wf_ch_op (e : env) (s : chained) (o : op) : Prop :=
  match o with
  | OUpdate hc i u =>
      NoDup (map fst u) /\
      match cinfo_of e hc with
      | Some ci =>
          if c_gobj ci then u = [] \/ gty (ch_glob s) i = Some hc
          else u = [] \/ gty (ch_top s) i = Some hc
               \/ (gty (ch_top s) i = None /\ gty (ch_base s) i = Some hc)
      | None => True
      end
  | ODelete hc i | ODiscard hc i =>
      match cinfo_of e hc with
      | Some ci =>
          let p := if c_gobj ci then ch_glob s else ch_top s in
          gty p i = Some hc \/ gty p i = None
      | None => True
      end
  | _ => True
  end.

Lemma is_gobj_ok e c g : is_gobj e c = inl g -> exists ci, cinfo_of e c = Some ci /\ g = c_gobj ci.
Proof.
  unfold is_gobj. destruct (class_info e c) as [ci|] eqn:E; simpl; [|discriminate].
  intro H. inversion H. exists ci. apply class_info_ok in E. auto.
Qed.

Lemma add_raw_ty e s i c d s' : wf_env e -> Inv e s -> add_raw e s i c d = inl s' -> gty s' i = Some c.
Proof.
  intros We HI H. destruct (add_raw_chg _ _ _ _ _ _ We HI H) as [ci HC].
  destruct (m_self HC) as [_ Hb]. exact Hb.
Qed.

Theorem ch_step_inv e s o s' :
  wf_env e -> ChInv e s -> wf_ch_op e s o -> ch_step e s o = inl s' ->
  ChInv e s' /\ ch_base s' = ch_base s.
Proof.
  intros We [HT HG] Hwf H.
  (* a step of one component *)
  assert (Sub : forall p o' p', Inv e p -> wf_op p o' -> step e p o' = inl p' -> Inv e p')
    by (intros; eapply step_inv; eassumption).
  destruct o as [raw i c d|hc i u|hc i f v|hc i f|hc i|hc i|n]; cbn [ch_step] in H.
  - destruct (is_gobj e c) as [g|] eqn:Eg; cbn [bind] in H; [|discriminate]. destruct g.
    + destruct (step e (ch_glob s) (OAdd raw i c d)) as [r|] eqn:Er; cbn [bind] in H; [|discriminate].
      inversion H; subst s'. simpl. split; [split; [exact HT | apply (Sub (ch_glob s) (OAdd raw i c d) r HG I Er)] | reflexivity].
    + destruct (step e (ch_top s) (OAdd raw i c d)) as [r|] eqn:Er; cbn [bind] in H; [|discriminate].
      inversion H; subst s'. simpl. split; [split; [apply (Sub (ch_top s) (OAdd raw i c d) r HT I Er) | exact HG] | reflexivity].
  - destruct (is_gobj e hc) as [g|] eqn:Eg; cbn [bind] in H; [|discriminate].
    destruct (is_gobj_ok _ _ _ Eg) as [ci [Hci ->]]. simpl in Hwf. rewrite Hci in Hwf.
    destruct Hwf as [Hnd Hwf]. destruct (c_gobj ci).
    + destruct (update_obj e (ch_glob s) hc i u) as [r|] eqn:Er; cbn [bind] in H; [|discriminate].
      inversion H; subst s'. simpl. split; [split; [exact HT|] | reflexivity].
      apply (Sub (ch_glob s) (OUpdate hc i u) r HG); [split; assumption | exact Er].
    + match type of H with (bind ?x _) = _ => destruct x as [top|] eqn:Etop; cbn [bind] in H; [|discriminate] end.
      destruct (update_obj e top hc i u) as [r|] eqn:Er; cbn [bind] in H; [|discriminate].
      inversion H; subst s'. simpl. split; [split; [|exact HG] | reflexivity].
      assert (Htop : Inv e top /\ (u = [] \/ gty top i = Some hc)).
      { destruct (aget N.eqb i (s_type (ch_base s))) as [bc|] eqn:Eb.
        - destruct (amem N.eqb i (s_type (ch_top s))) eqn:Em.
          + inversion Etop; subst top. split; [exact HT|].
            destruct Hwf as [->|[Hx|[Hx _]]]; auto.
            apply amem_true in Em. unfold gty in Hx. contradiction.
          + destruct (aget N.eqb i (s_data (ch_base s))) as [bd|]; [|discriminate].
            split; [apply (Sub (ch_top s) (OAdd true i bc bd) top HT I Etop)|].
            destruct Hwf as [->|[Hx|[_ Hx]]]; auto.
            * apply amem_false in Em. unfold gty in Hx. congruence.
            * right. unfold gty in Hx. rewrite Eb in Hx. inversion Hx; subst bc.
              apply (add_raw_ty e (ch_top s) i hc bd top We HT Etop).
        - inversion Etop; subst top. split; [exact HT|].
          destruct Hwf as [->|[Hx|[_ Hx]]]; auto. unfold gty in Hx. congruence. }
      destruct Htop as [HItop Hw].
      apply (Sub top (OUpdate hc i u) r HItop); [split; assumption | exact Er].
  - destruct (is_gobj e hc) as [g|] eqn:Eg; cbn [bind] in H; [|discriminate]. destruct g.
    + destruct (set_field e (ch_glob s) i f v) as [r|] eqn:Er; cbn [bind] in H; [|discriminate].
      inversion H; subst s'. simpl. split; [split; [exact HT | apply (Sub (ch_glob s) (OSet hc i f v) r HG I Er)] | reflexivity].
    + destruct (set_field e (ch_top s) i f v) as [r|] eqn:Er; cbn [bind] in H; [|discriminate].
      inversion H; subst s'. simpl. split; [split; [apply (Sub (ch_top s) (OSet hc i f v) r HT I Er) | exact HG] | reflexivity].
  - destruct (is_gobj e hc) as [g|] eqn:Eg; cbn [bind] in H; [|discriminate]. destruct g.
    + destruct (unset_field e (ch_glob s) i f) as [r|] eqn:Er; cbn [bind] in H; [|discriminate].
      inversion H; subst s'. simpl. split; [split; [exact HT | apply (Sub (ch_glob s) (OUnset hc i f) r HG I Er)] | reflexivity].
    + destruct (unset_field e (ch_top s) i f) as [r|] eqn:Er; cbn [bind] in H; [|discriminate].
      inversion H; subst s'. simpl. split; [split; [apply (Sub (ch_top s) (OUnset hc i f) r HT I Er) | exact HG] | reflexivity].
  - destruct (is_gobj e hc) as [g|] eqn:Eg; cbn [bind] in H; [|discriminate].
    destruct (is_gobj_ok _ _ _ Eg) as [ci [Hci ->]]. simpl in Hwf. rewrite Hci in Hwf. destruct (c_gobj ci).
    + destruct (delete e (ch_glob s) hc i) as [r|] eqn:Er; cbn [bind] in H; [|discriminate].
      inversion H; subst s'. simpl. split; [split; [exact HT | apply (Sub (ch_glob s) (ODelete hc i) r HG Hwf Er)] | reflexivity].
    + destruct (delete e (ch_top s) hc i) as [r|] eqn:Er; cbn [bind] in H; [|discriminate].
      inversion H; subst s'. simpl. split; [split; [apply (Sub (ch_top s) (ODelete hc i) r HT Hwf Er) | exact HG] | reflexivity].
  - destruct (is_gobj e hc) as [g|] eqn:Eg; cbn [bind] in H; [|discriminate].
    destruct (is_gobj_ok _ _ _ Eg) as [ci [Hci ->]]. simpl in Hwf. rewrite Hci in Hwf. destruct (c_gobj ci).
    + destruct (discard e (ch_glob s) hc i) as [r|] eqn:Er; cbn [bind] in H; [|discriminate].
      inversion H; subst s'. simpl. split; [split; [exact HT | apply (Sub (ch_glob s) (ODiscard hc i) r HG Hwf Er)] | reflexivity].
    + destruct (discard e (ch_top s) hc i) as [r|] eqn:Er; cbn [bind] in H; [|discriminate].
      inversion H; subst s'. simpl. split; [split; [apply (Sub (ch_top s) (ODiscard hc i) r HT Hwf Er) | exact HG] | reflexivity].
  - destruct (delist (ch_top s) n) as [r|] eqn:Er; cbn [bind] in H; [|discriminate].
    inversion H; subst s'. simpl. split; [split; [apply (Sub (ch_top s) (ODelist n) r HT I Er) | exact HG] | reflexivity].
Qed.

Lemma ch_base_frozen e s o : ch_base (ch_apply e s o) = ch_base s.
Proof.
  unfold ch_apply. destruct (ch_step e s o) as [s'|] eqn:E; [|reflexivity].
  destruct o as [raw i c d|hc i u|hc i f v|hc i f|hc i|hc i|n]; simpl in E;
    repeat match type of E with
           | (bind ?x _) = _ => destruct x; simpl in E; [|discriminate]
           | (if ?b then _ else _) = _ => destruct b
           end; inversion E; reflexivity.
Qed.

(* ------------------------------------------------------------------ *)
(* packaged statements for Props.v                                      *)

Lemma p_reachable e : wf_env e -> forall os, wf_hist e empty os -> Inv e (run e empty os).
Proof. intros We os H. apply run_inv; [exact We | apply Inv_empty | exact H]. Qed.

Lemma p_complete e : wf_env e -> forall os, wf_hist e empty os -> no_delist os ->
  NameComplete e (run e empty os).
Proof.
  intros We os H Hn. apply run_complete; [exact We | apply Inv_empty | apply NameComplete_empty | exact H | exact Hn].
Qed.

Lemma p_rejected e s o x : step e s o = inr x ->
  apply e s o = s /\ forall os, trace e s (o :: os) = (Some x, s) :: trace e s os.
Proof. intro H. split; [apply (rejected_noop _ _ _ _ H) | intro os; apply trace_rejected; exact H]. Qed.

(* referential integrity proper: every reference held by an object resolves *)
Definition RefInt (e : env) (s : schema) : Prop :=
  forall r c ci d f t, gty s r = Some c -> cinfo_of e c = Some ci -> gdata s r = Some d ->
                       In f (c_refs ci) -> In t (frefs d f) -> gty s t <> None.

(* ------------------------------------------------------------------ *)
(* Layer 2 (model only): guarded commands keep references resolvable    *)

Definition wf_cmd (s : schema) (c : cmd) : Prop :=
  match c with
  | CDrop l => forall hc i, In (hc, i) l -> gty s i = Some hc \/ gty s i = None
  | _ => True
  end.

Lemma live_true s t : live s t = true <-> gty s t <> None.
Proof. unfold live, gty. apply amem_true. Qed.

Lemma refs_ok_spec s self l : refs_ok s self l = true ->
  forall t, In t l -> t = self \/ gty s t <> None.
Proof.
  unfold refs_ok. rewrite forallb_forall. intros H t Hin. specialize (H t Hin).
  apply orb_true_iff in H. destruct H as [H|H]; [left; apply N.eqb_eq; exact H | right; apply live_true; exact H].
Qed.

(* a change that leaves the object live keeps references resolvable, provided the new data's
   references resolve *)
Lemma refint_chg_live e s s' oid c ci od d1 :
  Inv e s -> RefInt e s -> Chg e s s' oid c ci od (Some d1) ->
  (forall f t, In f (c_refs ci) -> In t (frefs d1 f) -> t = oid \/ gty s t <> None) ->
  RefInt e s'.
Proof.
  intros HI HR HC Hnew r c0 ci0 d0 f t G1 G2 G4 Hf Ht.
  assert (Hlive : forall t0, t0 = oid \/ gty s t0 <> None -> gty s' t0 <> None).
  { intros t0 [->|Hx].
    - destruct (m_self HC) as [_ Hb]. rewrite Hb. discriminate.
    - destruct (N.eq_dec t0 oid) as [->|Hne].
      + destruct (m_self HC) as [_ Hb]. rewrite Hb. discriminate.
      + destruct (m_other HC t0 Hne) as [_ Hb]. rewrite Hb. exact Hx. }
  apply Hlive.
  destruct (m_obj' HC r c0 d0 G1 G4) as [[-> [-> Hn]]|[Hi [G1' G4']]].
  - inversion Hn; subst d0. pose proof (m_ci HC _ G2). subst ci0. apply (Hnew f t Hf Ht).
  - right. apply (HR r c0 ci0 d0 f t G1' G2 G4' Hf Ht).
Qed.

Lemma frefs_dset_same_refs d f l : frefs (dset d f (Some (VRefs l))) f = l.
Proof. unfold frefs, dset. rewrite Ng_set_same. reflexivity. Qed.

Lemma frefs_dset_same_nonrefs d f v :
  match v with Some (VRefs _) => False | _ => True end -> frefs (dset d f v) f = [].
Proof.
  unfold frefs, dset. destruct v as [[n|l|p]|]; intro H; try contradiction.
  - rewrite Ng_set_same. reflexivity.
  - rewrite Ng_set_same. reflexivity.
  - rewrite Ng_del_same. reflexivity.
Qed.

(* alter of one field: the other reference fields keep resolving by RefInt of the old state *)
Lemma refint_field e s s' i c ci d f v :
  Inv e s -> RefInt e s -> Chg e s s' i c ci (Some d) (Some (dset d f v)) ->
  (forall t, In t (frefs (dset d f v) f) -> t = i \/ gty s t <> None) ->
  RefInt e s'.
Proof.
  intros HI HR HC Hf. apply (refint_chg_live e s s' i c ci (Some d) (dset d f v) HI HR HC).
  intros f' t Hin Ht. destruct (N.eq_dec f' f) as [->|Hne].
  - apply Hf. exact Ht.
  - rewrite frefs_dset_other in Ht by exact Hne. right.
    pose proof (g_od _ _ _ _ _ _ _ _ HC) as Hod. pose proof (g_ty _ _ _ _ _ _ _ _ HC) as Hty. simpl in Hty.
    apply (HR i c ci d f' t Hty (g_ci _ _ _ _ _ _ _ _ HC) Hod Hin Ht).
Qed.

Lemma aget_In {K V} (eqb : K -> K -> bool) k (m : list (K * V)) v :
  aget eqb k m = Some v -> exists k', In (k', v) m.
Proof.
  induction m as [|[k0 v0] m IH]; simpl; [discriminate|].
  destruct (eqb k k0).
  - intro H. inversion H; subst. exists k0. left. reflexivity.
  - intro H. destruct (IH H) as [k' Hk]. exists k'. right. exact Hk.
Qed.

Lemma rin_referrers s t k r : rin (s_refs s) t k r -> In r (referrers s t).
Proof.
  intros [m [l [Hm [Hl Hr]]]]. unfold referrers. rewrite Hm.
  destruct (aget_In _ _ _ _ Hl) as [k' Hk]. apply in_flat_map. exists (k', l). auto.
Qed.

Lemma delete_all_spec e : wf_env e -> forall l s s',
  Inv e s -> (forall hc i, In (hc, i) l -> gty s i = Some hc \/ gty s i = None) ->
  delete_all e s l = inl s' ->
  Inv e s'
  /\ (forall j, gty s' j = if smem j (map snd l) then None else gty s j)
  /\ (forall j, ~ In j (map snd l) -> gdata s' j = gdata s j).
Proof.
  intros We l. induction l as [|[hc i] l IH]; intros s s' HI Hwf H; simpl in H.
  - inversion H; subst. simpl. auto.
  - destruct (delete e s hc i) as [s1|] eqn:E1; simpl in H; [|discriminate].
    assert (Hty : gty s i = Some hc).
    { destruct (Hwf hc i (or_introl eq_refl)) as [Hx|Hx]; [exact Hx|].
      rewrite (delete_absent _ _ _ _ HI Hx) in E1. discriminate. }
    destruct (delete_chg _ _ _ _ _ We HI Hty E1) as [ci [d HC]].
    pose proof (master HI HC) as HI1.
    assert (Hty1 : forall j, gty s1 j = if N.eqb j i then None else gty s j)
      by (intro j; rewrite (g_ty' _ _ _ _ _ _ _ _ HC); reflexivity).
    assert (Hd1 : forall j, gdata s1 j = if N.eqb j i then None else gdata s j)
      by (intro j; rewrite (g_d' _ _ _ _ _ _ _ _ HC); reflexivity).
    destruct (IH s1 s' HI1) as [HI' [Hty' Hd']]; [|exact H|].
    { intros hc' i' Hin. rewrite Hty1. destruct (N.eqb i' i); [right; reflexivity|].
      apply (Hwf hc' i'). right. exact Hin. }
    split; [exact HI'|]. split.
    + intro j. rewrite Hty'. simpl. rewrite Hty1.
      destruct (N.eqb j i) eqn:Ej; simpl.
      * destruct (smem j (map snd l)); reflexivity.
      * reflexivity.
    + intros j Hn. simpl in Hn. rewrite Hd' by tauto. rewrite Hd1.
      destruct (N.eqb j i) eqn:Ej; [apply N.eqb_eq in Ej; subst j; exfalso; apply Hn; left; reflexivity | reflexivity].
Qed.

Theorem cmd_inv e s c s' :
  wf_env e -> Inv e s -> wf_cmd s c -> cmd_step e s c = inl s' -> Inv e s'.
Proof.
  intros We HI Hwf H. destruct c as [i c d|hc i f v|l]; simpl in H.
  - destruct (class_info e c) as [ci|]; [|discriminate].
    destruct (data_refs_ok s i ci d); [|discriminate].
    destruct (add_raw e s i c d) as [r|] eqn:E; simpl in H; [|discriminate]. inversion H; subst r.
    apply (step_inv e s (OAdd true i c d) s' We HI I E).
  - assert (Hs : forall r, lift (set_field e s i f v) = inl r -> Inv e r).
    { intros r Hr. destruct (set_field e s i f v) as [r0|] eqn:E; simpl in Hr; [|discriminate].
      inversion Hr; subst r0. apply (step_inv e s (OSet hc i f v) r We HI I E). }
    destruct v as [[n|l|p]|].
    + apply Hs. exact H.
    + destruct (refs_ok s i l); [apply Hs; exact H | discriminate].
    + apply Hs. exact H.
    + destruct (unset_field e s i f) as [r0|] eqn:E; simpl in H; [|discriminate].
      inversion H; subst r0. apply (step_inv e s (OUnset hc i f) s' We HI I E).
  - destruct (forallb _ l); [|discriminate].
    destruct (delete_all e s l) as [r|] eqn:E; simpl in H; [|discriminate]. inversion H; subst r.
    apply (delete_all_spec e We l s s' HI Hwf E).
Qed.

Theorem cmd_refint e s c s' :
  wf_env e -> Inv e s -> RefInt e s -> wf_cmd s c -> cmd_step e s c = inl s' -> RefInt e s'.
Proof.
  intros We HI HR Hwf H. destruct c as [i c d|hc i f v|l]; simpl in H.
  - destruct (class_info e c) as [ci|] eqn:Eci; [|discriminate]. apply class_info_ok in Eci.
    destruct (data_refs_ok s i ci d) eqn:Eg; [|discriminate].
    destruct (add_raw e s i c d) as [r|] eqn:E; simpl in H; [|discriminate]. inversion H; subst r.
    destruct (add_raw_chg _ _ _ _ _ _ We HI E) as [ci' HC].
    pose proof (g_ci _ _ _ _ _ _ _ _ HC) as Hci'. rewrite Eci in Hci'. inversion Hci'; subst ci'.
    apply (refint_chg_live e s s' i c ci None d HI HR HC).
    intros f t Hf Ht. unfold data_refs_ok in Eg. rewrite forallb_forall in Eg.
    apply (refs_ok_spec s i _ (Eg f Hf) t Ht).
  - assert (Hs : forall r, lift (set_field e s i f v) = inl r ->
                 (forall t, In t (match v with Some (VRefs l) => l | _ => [] end) -> t = i \/ gty s t <> None) ->
                 RefInt e r).
    { intros r Hr Hg. destruct (set_field e s i f v) as [r0|] eqn:E; simpl in Hr; [|discriminate].
      inversion Hr; subst r0. destruct (set_field_chg _ _ _ _ _ _ We HI E) as [c [ci [d HC]]].
      apply (refint_field e s r i c ci d f v HI HR HC).
      intros t Ht. apply Hg. destruct v as [[n|l|p]|].
      - rewrite frefs_dset_same_nonrefs in Ht by exact I. destruct Ht.
      - rewrite frefs_dset_same_refs in Ht. exact Ht.
      - rewrite frefs_dset_same_nonrefs in Ht by exact I. destruct Ht.
      - rewrite frefs_dset_same_nonrefs in Ht by exact I. destruct Ht. }
    destruct v as [[n|l|p]|].
    + apply Hs; [exact H | intros t []].
    + destruct (refs_ok s i l) eqn:Eg; [|discriminate].
      apply Hs; [exact H | apply (refs_ok_spec s i l Eg)].
    + apply Hs; [exact H | intros t []].
    + destruct (unset_field e s i f) as [r0|] eqn:E; simpl in H; [|discriminate].
      inversion H; subst r0.
      destruct (unset_field_chg _ _ _ _ _ We HI E) as [->|[c [ci [d HC]]]]; [exact HR|].
      apply (refint_field e s s' i c ci d f None HI HR HC).
      intros t Ht. rewrite frefs_dset_same_nonrefs in Ht by exact I. destruct Ht.
  - destruct (forallb _ l) eqn:Eg; [|discriminate].
    destruct (delete_all e s l) as [r|] eqn:E; simpl in H; [|discriminate]. inversion H; subst r.
    destruct (delete_all_spec e We l s s' HI Hwf E) as [HI' [Hty' Hd']].
    intros r c0 ci0 d0 f t G1 G2 G4 Hf Ht.
    (* r survived, so it is not a member of l and is the same object in s *)
    assert (Hr : ~ In r (map snd l)).
    { intro Hin. rewrite Hty' in G1. apply smem_In in Hin. rewrite Hin in G1. discriminate. }
    assert (G1s : gty s r = Some c0).
    { rewrite Hty' in G1. apply smem_nIn in Hr. rewrite Hr in G1. exact G1. }
    assert (G4s : gdata s r = Some d0) by (rewrite <- (Hd' r Hr); exact G4).
    pose proof (HR r c0 ci0 d0 f t G1s G2 G4s Hf Ht) as Hlive.
    rewrite Hty'. destruct (smem t (map snd l)) eqn:Et; [|exact Hlive].
    (* t is being dropped: then r, which refers to it, must be dropped too *)
    exfalso. apply Hr. apply smem_In in Et. apply in_map_iff in Et. destruct Et as [[hct t'] [E' Hin]].
    simpl in E'. subst t'. rewrite forallb_forall in Eg. specialize (Eg (hct, t) Hin). simpl in Eg.
    rewrite forallb_forall in Eg. apply smem_In. apply Eg.
    apply (rin_referrers s t (c0, f) r). apply (i_refs _ _ HI). exists ci0, d0. repeat split; assumption.
Qed.

Lemma RefInt_empty e : RefInt e empty.
Proof. unfold RefInt, gty, empty. simpl. intros. discriminate. Qed.

Fixpoint wf_cmd_hist (e : env) (s : schema) (cs : list cmd) : Prop :=
  match cs with
  | [] => True
  | c :: cs' => wf_cmd s c /\ wf_cmd_hist e (cmd_apply e s c) cs'
  end.

Theorem cmd_run_refint e : wf_env e -> forall cs s,
  Inv e s -> RefInt e s -> wf_cmd_hist e s cs -> Inv e (cmd_run e s cs) /\ RefInt e (cmd_run e s cs).
Proof.
  intros We cs. induction cs as [|c cs IH]; intros s HI HR Hwf; simpl.
  - auto.
  - destruct Hwf as [H1 H2]. apply IH; try exact H2; unfold cmd_apply;
      destruct (cmd_step e s c) as [s'|] eqn:E; try assumption.
    + eapply cmd_inv; eassumption.
    + eapply cmd_refint; eassumption.
Qed.

Lemma p_cmd_reachable e : wf_env e -> forall cs, wf_cmd_hist e empty cs ->
  Inv e (cmd_run e empty cs) /\ RefInt e (cmd_run e empty cs).
Proof. intros We cs H. apply cmd_run_refint; [exact We | apply Inv_empty | apply RefInt_empty | exact H]. Qed.
