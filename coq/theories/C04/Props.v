(* C04 — Schema stays referentially intact; earlier versions stay frozen.   (Layer 1)
   Statements only; each is closed by [exact] of a lemma of Proofs.v and followed by
   Print Assumptions (audited by the check on every run).

   Vocabulary (Model.v / Proofs.v).  A schema value s has the six maps of FlatSchema:
   s_data (_id_to_data), s_type (_id_to_type), s_name (_name_to_id), s_glob
   (_globalname_to_id), s_short (_shortname_to_id), s_refs (_refs_to).  [step e s o] is one
   call of the raw API (add_raw/add, update_obj, set_obj_field, unset_obj_field, delete,
   discard, delist) returning the new schema or the exception; [apply] keeps the old value
   when the op raises; [run]/[trace] iterate over a history.  e is the environment: the class
   table (any), the Module class, SPECIAL_MODULES and the shortname function (any).
   gty/gdata look an id up; name_of/frefs read an object's own name / reference field.

   [Inv e s]: s_type has exactly the keys of s_data; every s_name entry is the name of that
   qualified object; s_glob is EXACTLY the (class, name) index of the global objects; s_short
   is EXACTLY the short-name index of Function/Operator objects (no empty sets kept); s_refs
   is EXACTLY the reverse of the objects' reference fields (no empty sets kept).
   [NameComplete e s]: every qualified object is listed in s_name under its name.
   [wf_env e]: per class, reference field indexes are distinct and 'name' is not one of them.
   [wf_op s o]: update_obj targets an object in s (else the raw method creates a data entry
   without a type entry: Refuted.v), its updates have distinct keys, and handles given to
   update_obj/delete/discard carry the class the object is stored with.  Nothing is assumed
   about add/add_raw/set_obj_field/unset_obj_field/delist arguments. *)
From Coq Require Import List NArith.
From Verif.C04 Require Import Model Proofs.
Import ListNotations.
Open Scope N_scope.

(* every index is exactly what the objects' own data determine, after any accepted op ... *)
Theorem C04_index_inv : forall e s o s',
  wf_env e -> Inv e s -> wf_op s o -> step e s o = inl s' -> Inv e s'.
Proof. exact step_inv. Qed.
Print Assumptions C04_index_inv.

(* ... hence in every state reachable from the empty schema by any finite history
   (rejected ops included: they leave the state alone) *)
Theorem C04_index_inv_reachable : forall e, wf_env e ->
  forall os, wf_hist e empty os -> Inv e (run e empty os).
Proof. exact p_reachable. Qed.
Print Assumptions C04_index_inv_reachable.

(* the name index is also complete as long as nothing was delisted ("modulo the deliberate delist") *)
Theorem C04_name_index_complete : forall e, wf_env e ->
  forall os, wf_hist e empty os -> no_delist os -> NameComplete e (run e empty os).
Proof. exact p_complete. Qed.
Print Assumptions C04_name_index_complete.

(* lookups by name cannot be ambiguous: two global objects of one class, or two listed
   qualified objects, never share a name *)
Theorem C04_lookup_unique_global : forall e s, Inv e s ->
  forall i j c ci di dj n,
    gty s i = Some c -> gty s j = Some c -> cinfo_of e c = Some ci -> c_qual ci = false ->
    gdata s i = Some di -> gdata s j = Some dj -> name_of ci di = Some n -> name_of ci dj = Some n ->
    i = j.
Proof. exact glob_unique. Qed.
Print Assumptions C04_lookup_unique_global.

Theorem C04_lookup_unique_name : forall e s, Inv e s -> NameComplete e s ->
  forall i j ci cj cii cij di dj n,
    gty s i = Some ci -> gty s j = Some cj -> cinfo_of e ci = Some cii -> cinfo_of e cj = Some cij ->
    c_qual cii = true -> c_qual cij = true ->
    gdata s i = Some di -> gdata s j = Some dj -> name_of cii di = Some n -> name_of cij dj = Some n ->
    i = j.
Proof. exact name_unique. Qed.
Print Assumptions C04_lookup_unique_name.

(* a dropped object is reachable through none of the indexes *)
Theorem C04_deleted_unreachable : forall e s hc i s',
  wf_env e -> Inv e s -> gty s i = Some hc -> delete e s hc i = inl s' ->
  gty s' i = None /\ gdata s' i = None
  /\ (forall n, aget name_eqb n (s_name s') <> Some i)
  /\ (forall k, aget ck_eqb k (s_glob s') <> Some i)
  /\ (forall k, ~ shin (s_short s') k i)
  /\ (forall t k, ~ rin (s_refs s') t k i).
Proof. exact delete_unreachable. Qed.
Print Assumptions C04_deleted_unreachable.

(* a rejected command leaves the schema exactly as it was (by construction of the model:
   an exception leaves the caller with the value it had; checked on the implementation by
   the rejected-* monitors) *)
Theorem C04_rejected_noop : forall e s o x, step e s o = inr x ->
  apply e s o = s /\ forall os, trace e s (o :: os) = (Some x, s) :: trace e s os.
Proof. exact p_rejected. Qed.
Print Assumptions C04_rejected_noop.

(* schema values obtained earlier are not changed by later commands (by construction of a
   functional model; checked on the implementation by the frozen monitor) *)
Theorem C04_persistent : forall e s os1 os2,
  firstn (length os1) (trace e s (os1 ++ os2)) = trace e s os1.
Proof. exact trace_prefix. Qed.
Print Assumptions C04_persistent.

(* ChainedSchema: the top and global components keep the invariant, the base is never touched *)
Theorem C04_chained_inv : forall e s o s',
  wf_env e -> ChInv e s -> wf_ch_op e s o -> ch_step e s o = inl s' ->
  ChInv e s' /\ ch_base s' = ch_base s.
Proof. exact ch_step_inv. Qed.
Print Assumptions C04_chained_inv.

Theorem C04_chained_base_frozen : forall e s o, ch_base (ch_apply e s o) = ch_base s.
Proof. exact ch_base_frozen. Qed.
Print Assumptions C04_chained_base_frozen.

(* ---- Layer 2, MODEL ONLY (the guarded command layer of Model.v; it is NOT tied to
   edb/schema/delta.py -- the real DDL commands are covered by monitors only, see
   harness/props/c04.py).  [RefInt e s]: every id held in a reference field of an object of s
   is itself in s.  [wf_cmd]: DROP handles carry the stored classes. ---- *)
Theorem C04_cmd_index_inv : forall e s c s',
  wf_env e -> Inv e s -> wf_cmd s c -> cmd_step e s c = inl s' -> Inv e s'.
Proof. exact cmd_inv. Qed.
Print Assumptions C04_cmd_index_inv.

(* create / alter (references must resolve) and drop (refused while anything outside the
   dropped set refers to a member, decided from the reverse index) keep every reference
   resolvable *)
Theorem C04_cmd_refint : forall e s c s',
  wf_env e -> Inv e s -> RefInt e s -> wf_cmd s c -> cmd_step e s c = inl s' -> RefInt e s'.
Proof. exact cmd_refint. Qed.
Print Assumptions C04_cmd_refint.

Theorem C04_cmd_refint_reachable : forall e, wf_env e ->
  forall cs, wf_cmd_hist e empty cs -> Inv e (cmd_run e empty cs) /\ RefInt e (cmd_run e empty cs).
Proof. exact p_cmd_reachable. Qed.
Print Assumptions C04_cmd_refint_reachable.

(* ---- non-vacuity: a concrete environment and history meeting every hypothesis ---- *)
Definition ex_ci34 : cinfo :=      (* Module *)
  {| c_qual := false; c_sn := false; c_gobj := false; c_nf := 6; c_name := 2; c_refs := [5] |}.
Definition ex_ci40 : cinfo :=      (* an ObjectType-like class *)
  {| c_qual := true; c_sn := false; c_gobj := false; c_nf := 27; c_name := 2; c_refs := [5; 6; 7; 9; 14] |}.
Definition ex_ci21 : cinfo :=      (* a Function-like class (short-name cache) *)
  {| c_qual := true; c_sn := true; c_gobj := false; c_nf := 30; c_name := 2; c_refs := [6; 7; 8] |}.
Definition ex_env : env :=
  {| e_classes := [(34, ex_ci34); (40, ex_ci40); (21, ex_ci21)];
     e_module := 34; e_special := [2];
     e_short := [(QName 0 10, UName 8); (QName 0 11, UName 8)] |}.

Definition ex_ops : list op :=
  [ OAdd true 1 34 [(2, VName (UName 0))];                          (* module m0 *)
    OAdd true 2 40 [(2, VName (QName 0 5))];                        (* type m0::a *)
    OAdd false 3 40 [(2, VName (QName 0 6)); (6, VRefs [2; 2])];    (* type m0::b, bases [a, a] *)
    OAdd true 4 21 [(2, VName (QName 0 10)); (8, VRefs [3])];       (* function m0::f@x *)
    OAdd true 5 21 [(2, VName (QName 0 11))];                       (* function m0::f@y, same short name *)
    OAdd true 6 40 [(2, VName (QName 0 5))];                        (* rejected: name exists *)
    OUpdate 40 3 [(2, Some (VName (QName 0 7))); (6, Some (VRefs [3])); (4, Some (VPlain 1))];
    OSet 21 4 8 (Some (VRefs [2]));
    OUnset 40 3 6;
    ODelete 40 9;                                                   (* rejected: not there *)
    ODelete 21 5;
    ODiscard 40 2 ].

Example ex_wf_env : wf_env ex_env.
Proof.
  intros c ci H. unfold cinfo_of, ex_env in H. simpl in H.
  repeat match type of H with
         | (if ?b then _ else _) = _ => destruct b
         end; inversion H; subst; simpl;
    (split; [repeat constructor; simpl; intuition discriminate | simpl; intuition discriminate]).
Qed.

Example ex_wf_hist : wf_hist ex_env empty ex_ops.
Proof.
  vm_compute. repeat split; auto; try (repeat constructor; simpl; intuition discriminate).
Qed.

Example ex_trace_status :
  map fst (trace ex_env empty ex_ops)
  = [None; None; None; None; None; Some EExists; None; None; None; Some EInvalidRef; None; None].
Proof. vm_compute. reflexivity. Qed.

Example ex_final_types : s_type (run ex_env empty ex_ops) = [(4, 21); (3, 40); (1, 34)].
Proof. vm_compute. reflexivity. Qed.

Example ex_inv : Inv ex_env (run ex_env empty ex_ops).
Proof. apply C04_index_inv_reachable; [exact ex_wf_env | exact ex_wf_hist]. Qed.

(* a command history: create module / types with references, a refused drop (still referred
   to), a refused create (dangling reference), then drop of referrer and target together *)
Definition ex_cmds : list cmd :=
  [ CCreate 1 34 [(2, VName (UName 0))];
    CCreate 2 40 [(2, VName (QName 0 5))];
    CCreate 3 40 [(2, VName (QName 0 6)); (6, VRefs [2; 3])];
    CDrop [(40, 2)];                                      (* refused: 3 refers to 2 *)
    CCreate 4 40 [(2, VName (QName 0 7)); (6, VRefs [9])]; (* refused: 9 is not there *)
    CAlter 40 3 6 (Some (VRefs [2]));
    CDrop [(40, 3); (40, 2)] ].

Example ex_cmd_results :
  map (fun p => match cmd_step ex_env (cmd_run ex_env empty (firstn p ex_cmds)) (nth p ex_cmds (CDrop [])) with
                | inl _ => 0 | inr CGuard => 1 | inr (COp _) => 2 end)
      [0%nat; 1%nat; 2%nat; 3%nat; 4%nat; 5%nat; 6%nat]
  = [0; 0; 0; 1; 1; 0; 0].
Proof. vm_compute. reflexivity. Qed.

Example ex_wf_cmd_hist : wf_cmd_hist ex_env empty ex_cmds.
Proof.
  vm_compute. repeat split; auto;
    intros hc i H; repeat (destruct H as [H|H]; [inversion H; subst; vm_compute; auto|]); destruct H.
Qed.

Example ex_cmd_final : s_type (cmd_run ex_env empty ex_cmds) = [(1, 34)].
Proof. vm_compute. reflexivity. Qed.
