(* C15 — Connection pool never oversubscribes or double-lends the backend.
   Statements only; each is closed by [exact] of a lemma of Pool/Proofs.v and followed by
   Print Assumptions (audited by the check on every run).

   Vocabulary (Pool/Model.v, Pool/Proofs.v).  [reach mx s]: s is reachable from [init mx] by
   any finite sequence of enabled events (acquire, prune, release incl. malformed releases,
   connect ok / fail / fail-3D000, disconnect ok / fail, tick, gc, one ready callback), each
   with ANY oracle value (= any behaviour of the clock / float computations of pool.py).
   Ghost truth of the backend: [g_open s] connections the backend has open (from the moment a
   connect call succeeds until the moment the disconnect call for it completes, ok or not);
   [opening s] connects scheduled by the pool or in flight in the connect callback;
   [nbroken s] connections handed back with release(discard=True) whose disconnect has not
   completed; [lag s] completions (failed connect / finished disconnect) delivered by the
   backend that the pool's task has not processed yet (entries of asyncio's ready queue);
   [g_held s] (c, (t, d)): acquire(d) of task t returned c and t has not released it. *)
From Coq Require Import List ZArith NArith.
From Verif.Pool Require Import Model Proofs.
Import ListNotations.
Open Scope Z_scope.

(* open (not handed back broken) + being opened never exceeds the configured maximum *)
Theorem C15_capacity : forall mx s, 0 <= mx -> reach mx s ->
  zlen s.(g_open) - nbroken s + opening s <= mx.
Proof. exact p_capacity. Qed.
Print Assumptions C15_capacity.

(* the usage the pool reports = open (incl. being closed) + being opened, up to the completions
   still sitting in the event loop's ready queue ... *)
Theorem C15_usage_exact : forall mx s, 0 <= mx -> reach mx s ->
  s.(cur) = zlen s.(g_open) + opening s + lag s.
Proof. exact p_usage. Qed.
Print Assumptions C15_usage_exact.

(* ... hence exact whenever the loop has run all its ready callbacks *)
Theorem C15_usage_quiescent : forall mx s, 0 <= mx -> reach mx s -> s.(ready) = [] ->
  s.(cur) = zlen s.(g_open) + zlen s.(infl_conn).
Proof. exact p_usage_quiescent. Qed.
Print Assumptions C15_usage_quiescent.

(* a connection is lent to at most one holder; while lent it is open, not being closed or
   transferred, marked in_use in exactly one block and on no stack *)
Theorem C15_single_lender : forall mx s, 0 <= mx -> reach mx s ->
  NoDup (map fst s.(g_held)) /\
  forall c t d, In (c, (t, d)) s.(g_held) ->
    In c s.(g_open) /\ ~ In c (limbo s) /\
    exists b, In b s.(blocks) /\ alookup c b.(b_conns) = Some true /\ ~ In c b.(b_stack) /\
              forall b', In b' s.(blocks) -> In c (keys b') -> b' = b.
Proof. exact p_single_lender. Qed.
Print Assumptions C15_single_lender.

(* what acquire() can hand out: stack entries are distinct, open, idle, not being closed *)
Theorem C15_stack_sound : forall mx s b, 0 <= mx -> reach mx s -> In b s.(blocks) ->
  NoDup b.(b_stack) /\
  forall c, In c b.(b_stack) -> alookup c b.(b_conns) = Some false /\ In c s.(g_open) /\ ~ In c (limbo s).
Proof. exact p_stack_sound. Qed.
Print Assumptions C15_stack_sound.

(* the pool's own assertions about connection state (`assert not ...in_use`, dict lookups in
   _schedule_transfer / _discard_conn / acquire) never fire *)
Theorem C15_asserts_never_fire : forall mx s, 0 <= mx -> reach mx s -> s.(err) = false.
Proof. exact p_no_assert. Qed.
Print Assumptions C15_asserts_never_fire.

(* non-vacuity: a run in which a connection is lent at full capacity, evaluated by the kernel *)
Definition o0 : oracle := mkOracle [] [] [] false [].
Definition ex_trace : list (event * oracle) :=
  [(EAcquire 1 1, o0); (ERun, o0); (ERun, o0); (EConnOk 1, o0); (ERun, o0); (ERun, o0)].
Definition ex_state : pool := Eval vm_compute in match run (init 1) ex_trace with Some s => s | None => init 0 end.
Example ex_reach : reach 1 ex_state /\ ex_state.(g_held) = [(1%N, (1%N, 1%N))] /\ ex_state.(cur) = 1 /\
  ex_state.(g_open) = [1%N] /\ opening ex_state = 0 /\ nbroken ex_state = 0.
Proof.
  split; [apply (run_reach 1 ex_trace (init 1)); [apply reach_init|vm_compute; reflexivity]|].
  vm_compute. repeat split.
Qed.

(* the connections the capacity bound discounts ("handed back as broken, count as closed") are
   [nbroken s] DISTINCT connections that the backend still has open *)
Theorem C15_broken_are_open : forall mx s, 0 <= mx -> reach mx s ->
  zlen (broken_conns s) = nbroken s /\ NoDup (broken_conns s) /\ incl (broken_conns s) s.(g_open).
Proof. exact p_broken_are_open. Qed.
Print Assumptions C15_broken_are_open.

(* a lent connection was opened by a connect callback invoked for the database its holder asked
   for ([g_conndb] records the dbname argument of the connect call that produced it) *)
Theorem C15_lent_for_requested_db : forall mx s c t d, 0 <= mx -> reach mx s -> In (c, (t, d)) s.(g_held) ->
  alookup c s.(g_conndb) = Some d /\
  exists b, In b s.(blocks) /\ b_db b = d /\ alookup c b.(b_conns) = Some true.
Proof. exact p_lent_db. Qed.
Print Assumptions C15_lent_for_requested_db.

(* internal accounting behind count_conns(): pending_conns of a block is at least the number of
   connects promised to it ([npipe]: _connect tasks scheduled, connect calls in flight, completed
   connects not yet processed, transfers on their way); it can exceed it only by promises that were
   lost, which the code after fix 275590b no longer does *)
Theorem C15_pending_covers_promises : forall mx s b, 0 <= mx -> reach mx s -> In b s.(blocks) ->
  0 <= npipe b.(b_id) s <= b.(b_pending).
Proof. exact p_pending_covers. Qed.
Print Assumptions C15_pending_covers_promises.
