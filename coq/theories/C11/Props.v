(* C11 — SDL is declarative: declaration order does not matter.
   Statements only; each is closed by [exact] of a lemma of Verif.Decl.Proofs and followed by
   Print Assumptions (audited by the check on every run).

   Model (Decl/Model.v): a document is a list of declaration nodes in document order (nested
   members flattened, the way the layout pass of edb/edgeql/declarative.py keys them `Type@member`);
   a node carries the names its tracer found (strong / weak / loop-control), as SETS given in any
   listing order.  [sdl_apply base d] = what sdl_to_ddl + apply_sdl do at top level: refuse duplicate
   declarations, build the dependency graph (filter names that exist only in the base schema,
   `OrderedSet(sorted(deps))`), run the C20 model of edb/common/topological.py [sort_ex false], apply
   the sorted CREATE statements (each needs its strong references to exist already).
   The theorems compose the C20 theorems (permutation, hard precedence, cycle soundness /
   completeness, unresolved-reference reporting, fuel) with a commutation argument (any
   dependency-respecting order of creations yields the same declarations).

   Hypothesis made explicit: a node's dependency edges are exactly its references (the tracer's
   output is an INPUT of the model).  Whether the real tracer finds every reference is decided on
   the real code by the permutation monitors of harness/props/c11.py, not here. *)
From Coq Require Import List NArith Bool Permutation Relations.
From Verif.C20 Require Import Model Proofs.
From Verif.Decl Require Import Model Proofs.
Import ListNotations.

(* every permutation of the declarations gives the same outcome class, and accepted documents give
   the same declarations (a permutation of each other, hence the same finite map) *)
Theorem C11_order_irrelevant : forall base d d',
  Permutation d d' -> disjoint_base base d ->
  same_outcome (sdl_apply base d) (sdl_apply base d').
Proof. exact p_order_irrelevant. Qed.
Print Assumptions C11_order_irrelevant.

(* the same for nested documents: module blocks permuted, a block written as two blocks,
   declarations permuted inside a block, members permuted inside a declaration, at any depth *)
Theorem C11_nested_order_irrelevant : forall base D D',
  bperm D D' -> disjoint_base base (flatten D) ->
  same_outcome (sdl_apply base (flatten D)) (sdl_apply base (flatten D')).
Proof. exact p_nested. Qed.
Print Assumptions C11_nested_order_irrelevant.

(* a document is rejected for a dependency cycle iff its declarations really are cyclic
   (strong references and loop-control entries between declared items) *)
Theorem C11_cycle_iff : forall base d,
  disjoint_base base d -> NoDup (dkeys d) -> no_dangling base d ->
  ((exists c, sdl_apply base d = SCycle c) <-> cyclic (ref_rel d)).
Proof. exact p_cycle_iff. Qed.
Print Assumptions C11_cycle_iff.

(* a duplicate-free, closed, acyclic document is accepted, whatever its order, and the resulting
   schema consists of exactly its declarations; weak references never cause a rejection *)
Theorem C11_accepts : forall base d,
  disjoint_base base d -> NoDup (dkeys d) -> no_dangling base d -> ~ cyclic (ref_rel d) ->
  exists s, sdl_apply base d = SOk s /\ Permutation s d.
Proof. exact p_accepts. Qed.
Print Assumptions C11_accepts.

Theorem C11_accepted_inv : forall base d s,
  disjoint_base base d -> sdl_apply base d = SOk s ->
  NoDup (dkeys d) /\ no_dangling base d /\ ~ cyclic (ref_rel d) /\ Permutation s d.
Proof. exact p_accepted_inv. Qed.
Print Assumptions C11_accepted_inv.

(* complete classification of the outcome (SApply / SFuel never happen) *)
Theorem C11_classified : forall base d, disjoint_base base d -> sdl_class base d (sdl_apply base d).
Proof. exact sdl_spec. Qed.
Print Assumptions C11_classified.

(* accepted permutations define the same finite map name -> declaration *)
Theorem C11_same_map : forall d d', Permutation d d' -> NoDup (dkeys d) ->
  forall k, find_node k d = find_node k d'.
Proof. exact perm_find_node. Qed.
Print Assumptions C11_same_map.

(* determinism w.r.t. the containers: the traced references are Python sets; whatever order (and
   multiplicity) they are listed in, the graph handed to the sort is literally the same, because
   the code normalises them with OrderedSet(sorted(.)) *)
Theorem C11_ref_listing_irrelevant : forall base d d',
  Forall2 same_sets d d' -> graph_of base d = graph_of base d'.
Proof. exact p_graph_sets. Qed.
Print Assumptions C11_ref_listing_irrelevant.

(* the sorted order can always be applied: a hard dependency is created before its dependent *)
Theorem C11_sorted_applies : forall base d o,
  NoDup (dkeys d) -> disjoint_base base d -> no_dangling base d ->
  sort_ex false (graph_of base d) = Sorted o ->
  apply_all base [] (pick d o) = inl (pick d o) /\ Permutation (pick d o) d.
Proof. exact sorted_applies. Qed.
Print Assumptions C11_sorted_applies.

(* ---- non-vacuity ---- *)
Definition nd (k c : N) (refs weak lctl : list N) : dnode := mkNode k c 0 refs weak lctl.
(* base schema: 100 (std::str), 101 (std::Object).
   1 = type A (refers to std::Object), 2 = A@name (refers to A and std::str), 3 = type B extending A,
   4 = B@friend -> A, weak reference to 5, 5 = alias over B (refers to 3 and 4) *)
Definition ex_doc : doc :=
  [nd 5 3 [3; 4] [] []; nd 4 2 [3; 1; 1] [5] []; nd 3 1 [1; 101] [] []; nd 2 2 [1; 100] [] []; nd 1 1 [101] [] []]%N.
Definition ex_base : list N := [100; 101]%N.
Example ex_accepts : exists s, sdl_apply ex_base ex_doc = SOk s /\ dkeys s = [1; 3; 4; 5; 2]%N.
Proof. eexists. split; vm_compute; reflexivity. Qed.
Example ex_reversed : exists s, sdl_apply ex_base (rev ex_doc) = SOk s /\ dkeys s = [1; 2; 3; 4; 5]%N.
Proof. eexists. split; vm_compute; reflexivity. Qed.
Example ex_disjoint : disjoint_base ex_base ex_doc.
Proof. intros k Hk Hb. vm_compute in Hk, Hb. intuition (subst; discriminate). Qed.
(* a real cycle: 6 and 7 refer to each other *)
Example ex_cycle : exists c, sdl_apply ex_base (nd 6 1 [7] [] [] :: nd 7 1 [6] [] [] :: ex_doc)%N = SCycle c.
Proof. eexists. vm_compute. reflexivity. Qed.
(* a weak cycle is not an error *)
Example ex_weak_cycle : exists s, sdl_apply ex_base [nd 6 1 [] [7] []; nd 7 1 [6] [] []]%N = SOk s.
Proof. eexists. vm_compute. reflexivity. Qed.
(* a name that exists nowhere is reported, a duplicate declaration is refused *)
Example ex_unresolved : sdl_apply ex_base [nd 6 1 [55] [] []]%N = SUnresolved 55%N 6%N.
Proof. vm_compute. reflexivity. Qed.
Example ex_dup : sdl_apply ex_base [nd 6 1 [] [] []; nd 6 2 [] [] []]%N = SDup 6%N.
Proof. vm_compute. reflexivity. Qed.
(* nested document: module 1 { A { name } ; B { friend } } ; module 2 { alias } *)
Definition ex_nested : document :=
  [(1, [Item (nd 1 1 [101] [] []) [Item (nd 2 2 [1; 100] [] []) []];
        Item (nd 3 1 [1; 101] [] []) [Item (nd 4 2 [3; 1] [5] []) []]]);
   (2, [Item (nd 5 3 [3; 4] [] []) []])]%N.
Example ex_nested_perm : bperm ex_nested
  [(2, [Item (nd 5 3 [3; 4] [] []) []]);
   (1, [Item (nd 3 1 [1; 101] [] []) [Item (nd 4 2 [3; 1] [5] []) []]]);
   (1, [Item (nd 1 1 [101] [] []) [Item (nd 2 2 [1; 100] [] []) []]])]%N.
Proof.
  eapply bp_trans; [apply bp_swap|]. apply bp_skip; [repeat constructor|].
  eapply bp_trans; [|apply (bp_split 1%N [_] [_])].
  apply bp_skip; [apply lp_swap | apply bp_nil].
Qed.
