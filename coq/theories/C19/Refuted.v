(* C19 — where the full statement of the property is false of the faithful model: witnesses, computed
   by the kernel.  Each witness is replayed on the real code by the check (known findings
   C19-json-memory-negative; the other two are reported as observations). *)
From Coq Require Import String Ascii.
From Coq Require Import List NArith ZArith Bool.
From Verif.C19 Require Import Gen_Units Model Proofs.
Import ListNotations.
Open Scope Z_scope.

Definition r_spec : spec :=
  {| sp_settings :=
       [ {| s_name := s "mem"; s_type := SPrim TMem; s_set_of := false; s_default := VMem 0 false; s_secret := false |};
         {| s_name := s "anint"; s_type := SPrim TInt; s_set_of := false; s_default := VInt 0; s_secret := false |};
         {| s_name := s "ui"; s_type := SObj (s "UI"); s_set_of := false; s_default := VNone; s_secret := false |} ];
     sp_types := [ {| t_name := s "UI";
                      t_fields := [ {| f_name := s "title"; f_type := FPrim TStr; f_unique := false; f_default := None |} ];
                      t_parent := None |} ] |}.
Definition rop c sc n v := {| o_code := c; o_scope := sc; o_name := s n; o_value := v |}.
Definition after (o : op) : storage := match apply r_spec o [] with Ok m => m | Err _ => [] end.
Definition o_mem := rop OSet Database "mem" (VInt (-5)).
Definition o_bool := rop OSet Session "anint" (VBool true).
Definition o_ui := rop OSet Instance "ui" (VList [VDict [(s "title", VStr (s "T"))]]).

(* "a value outside the range is rejected" and "JSON loads back": a negative size is accepted for a
   memory setting, and the JSON produced for the resulting map does not load *)
Theorem C19_json_roundtrip_refuted :
  exists sp o m', apply sp o [] = Ok m' /\ json_roundtrip sp m' = Err EInvalidValue.
Proof.
  exists r_spec, o_mem, (after o_mem). split; vm_compute; reflexivity.
Qed.
Print Assumptions C19_json_roundtrip_refuted.

(* bool is accepted where the setting's type is int (isinstance) *)
Theorem C19_bool_for_int_refuted :
  exists sp o m' x, apply sp o [] = Ok m' /\ assoc m' (o_name o) = Some x /\ v_value x = VBool true
                    /\ find_setting (sp_settings sp) (o_name o) = Some
                         {| s_name := s "anint"; s_type := SPrim TInt; s_set_of := false; s_default := VInt 0; s_secret := false |}.
Proof.
  exists r_spec, o_bool, (after o_bool),
    {| v_value := VBool true; v_source := g_src_session; v_scope := Session; v_secret := false |}.
  repeat split; vm_compute; reflexivity.
Qed.
Print Assumptions C19_bool_for_int_refuted.

(* SET on a single-valued object setting stores a frozenset, which to_json cannot serialise
   (AttributeError).  CONFIGURE text never compiles to such an operation. *)
Theorem C19_single_object_set_refuted :
  exists sp o m', apply sp o [] = Ok m' /\ to_json sp m' = Err EAttr.
Proof.
  exists r_spec, o_ui, (after o_ui). split; vm_compute; reflexivity.
Qed.
Print Assumptions C19_single_object_set_refuted.
