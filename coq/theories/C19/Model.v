(* C19 — model of the configuration layer:
     edb/server/config/ops.py      Operation.apply / coerce_value / coerce_single_value /
                                   _check_object_set_uniqueness / value_to_json_value /
                                   value_from_json_value / to_json_obj / from_json / set_value
     edb/server/config/types.py    CompositeConfigType.from_pyvalue / __eq__ / to_json_value
     edb/server/config/__init__.py lookup
     edb/ir/statypes.py            Duration._parse_iso8601 / to_iso8601, ConfigMemory.__init__ / to_str,
                                   EnumScalarType.__init__ / __eq__, get_field_unique_site
   Executable definitions only.  Hand-written; the constants come from Gen_Units.v (translator),
   everything else is tied to the source by the correspondence check (harness/props/c19.py).

   Conventions.  Strings are lists of code points.  One type [val] stands for every Python value
   that flows through the layer (operation payloads, stored values, JSON values).  Python
   exceptions are an enumeration [err]; [EUnmodelled] marks inputs outside the model's domain
   (non-ASCII text fed to a regex with \d, Duration text that is neither a plain integer nor
   ISO-8601, GLOBAL scope, a non-string `_tname`, ...): no theorem speaks about them and the
   correspondence check skips them (and counts them). *)
From Coq Require Import String Ascii.
From Coq Require Import List NArith ZArith Bool Decimal.
From Verif.C19 Require Import Gen_Units.
Import ListNotations.
Open Scope Z_scope.

Definition str := list N.

Fixpoint str_eqb (a b : str) : bool :=
  match a, b with
  | [], [] => true
  | x :: a', y :: b' => N.eqb x y && str_eqb a' b'
  | _, _ => false
  end.

Definition s (x : string) : str := map (fun a => N_of_ascii a) (list_ascii_of_string x).

(* ------------------------------------------------------------------ errors *)
Inductive err :=
| EConfig        (* errors.ConfigurationError *)
| EConstraint    (* errors.ConstraintViolationError *)
| EInvalidValue  (* errors.InvalidValueError *)
| EInternal      (* errors.InternalServerError *)
| EType          (* TypeError *)
| EAttr          (* AttributeError *)
| EKey           (* KeyError *)
| EValue         (* ValueError *)
| EUnmodelled.

Inductive res (A : Type) := Ok (a : A) | Err (e : err).
Arguments Ok {A} a.
Arguments Err {A} e.

Definition bind {A B} (r : res A) (f : A -> res B) : res B :=
  match r with Ok a => f a | Err e => Err e end.
Notation "'do' x <- r ; k" := (bind r (fun x => k)) (at level 200, x pattern, r at level 100, k at level 200).

(* ------------------------------------------------------------------ values *)
Inductive val :=
| VNone
| VBool (b : bool)
| VInt (z : Z)
| VFloat (f : N)                 (* opaque token: index into the harness's pool of pairwise-unequal floats *)
| VStr (x : str)
| VDur (us : Z)                  (* statypes.Duration, microseconds *)
| VMem (z : Z) (isbool : bool)   (* statypes.ConfigMemory; isbool: _value is a Python bool *)
| VEnum (ty : N) (x : str)       (* instance of the EnumScalarType subclass number ty *)
| VList (l : list val)           (* payload: any container (iteration order); stored: frozenset, insertion order *)
| VDict (d : list (str * val))   (* payload dict / JSON object, insertion order, distinct keys *)
| VObj (tname : str) (flds : list (str * (bool * val))).
                                  (* CompositeConfigType: _tspec.name, and per field of _tspec.fields
                                     (name, (is in _compare_keys, attribute value)) *)

Definition b2z (b : bool) : Z := if b then 1 else 0.

(* Python ==  (as far as the configuration layer can observe it) *)
Fixpoint py_eq (a b : val) {struct a} : bool :=
  match a, b with
  | VNone, VNone => true
  | VBool x, VBool y => Bool.eqb x y
  | VBool x, VInt y => Z.eqb (b2z x) y
  | VInt x, VBool y => Z.eqb x (b2z y)
  | VInt x, VInt y => Z.eqb x y
  | VFloat x, VFloat y => N.eqb x y
  | VStr x, VStr y => str_eqb x y
  | VDur x, VDur y => Z.eqb x y
  | VMem x _, VMem y _ => Z.eqb x y
  | VEnum t x, VEnum u y => N.eqb t u && str_eqb x y
  | VList l1, VList l2 =>
      forallb (fun x => existsb (fun y => py_eq x y) l2) l1
      && forallb (fun y => existsb (fun x => py_eq x y) l1) l2
  | VObj t1 f1, VObj t2 f2 =>
      str_eqb t1 t2 &&
      (fix eqf (f1 : list (str * (bool * val))) (f2 : list (str * (bool * val))) {struct f1} : bool :=
         match f1, f2 with
         | [], [] => true
         | (_, (u, x)) :: r1, (_, (_, y)) :: r2 => (if u then py_eq x y else true) && eqf r1 r2
         | _, _ => false
         end) f1 f2
  | _, _ => false
  end.

Definition mem_val (v : val) (l : list val) : bool := existsb (fun y => py_eq v y) l.
(* frozenset(iterable): first occurrence wins *)
Definition fs_add (acc : list val) (v : val) : list val := if mem_val v acc then acc else acc ++ [v].
Definition fs_of (l : list val) : list val := fold_left fs_add l [].

(* ------------------------------------------------------------------ spec *)
Inductive ptype := TBool | TInt | TStr | TFloat | TEnum (ty : N) (members : list str) | TDur | TMem.
Inductive ftype :=
| FPrim (p : ptype)
| FSetOf (p : ptype)        (* frozenset[p] *)
| FObj (tname : str).       (* ConfigTypeSpec *)

Record field := { f_name : str; f_type : ftype; f_unique : bool;
                  f_default : option val (* None = statypes.MISSING *) }.
Record tspec := { t_name : str; t_fields : list field; t_parent : option str }.
Inductive stype := SPrim (p : ptype) | SObj (tname : str).
Record setting := { s_name : str; s_type : stype; s_set_of : bool; s_default : val; s_secret : bool }.
Record spec := { sp_settings : list setting; sp_types : list tspec }.

Fixpoint find_setting (l : list setting) (n : str) : option setting :=
  match l with [] => None | x :: l' => if str_eqb (s_name x) n then Some x else find_setting l' n end.
Fixpoint find_type (l : list tspec) (n : str) : option tspec :=
  match l with [] => None | x :: l' => if str_eqb (t_name x) n then Some x else find_type l' n end.
Fixpoint find_field (l : list field) (n : str) : option field :=
  match l with [] => None | x :: l' => if str_eqb (f_name x) n then Some x else find_field l' n end.
Fixpoint assoc {A} (l : list (str * A)) (n : str) : option A :=
  match l with [] => None | (k, v) :: l' => if str_eqb k n then Some v else assoc l' n end.

(* isinstance(v, <python class of p>) *)
Definition inst_of (p : ptype) (v : val) : bool :=
  match p, v with
  | TBool, VBool _ => true
  | TInt, VInt _ => true
  | TInt, VBool _ => true                 (* bool is a subclass of int *)
  | TStr, VStr _ => true
  | TFloat, VFloat _ => true
  | TEnum ty _, VEnum ty' _ => N.eqb ty ty'
  | TDur, VDur _ => true
  | TMem, VMem _ _ => true
  | _, _ => false
  end.

(* ------------------------------------------------------------------ decimal text *)
Fixpoint uint_codes (d : Decimal.uint) : str :=
  match d with
  | Nil => []
  | D0 d => 48%N :: uint_codes d | D1 d => 49%N :: uint_codes d | D2 d => 50%N :: uint_codes d
  | D3 d => 51%N :: uint_codes d | D4 d => 52%N :: uint_codes d | D5 d => 53%N :: uint_codes d
  | D6 d => 54%N :: uint_codes d | D7 d => 55%N :: uint_codes d | D8 d => 56%N :: uint_codes d
  | D9 d => 57%N :: uint_codes d
  end.
Definition print_N (n : N) : str := uint_codes (N.to_uint n).
(* str(z) / f'{z}' *)
Definition print_Z (z : Z) : str :=
  match z with
  | Z0 => [48%N]
  | Zpos p => print_N (Npos p)
  | Zneg p => 45%N :: print_N (Npos p)
  end.

Definition is_digit (c : N) : bool := (N.leb 48 c && N.leb c 57)%N.
Definition digit_cons (c : N) (d : Decimal.uint) : Decimal.uint :=
  match (c - 48)%N with
  | 0%N => D0 d | 1%N => D1 d | 2%N => D2 d | 3%N => D3 d | 4%N => D4 d
  | 5%N => D5 d | 6%N => D6 d | 7%N => D7 d | 8%N => D8 d | _ => D9 d
  end.
(* all characters must be ASCII digits *)
Fixpoint codes_uint (l : str) : Decimal.uint :=
  match l with [] => Nil | c :: l' => digit_cons c (codes_uint l') end.
(* int(<ascii digits>) *)
Definition parse_N (l : str) : N := N.of_uint (codes_uint l).

(* longest prefix of ASCII digits *)
Fixpoint span_digits (l : str) : str * str :=
  match l with
  | c :: l' => if is_digit c then let (a, b) := span_digits l' in (c :: a, b) else ([], l)
  | [] => ([], [])
  end.

Definition is_ascii (l : str) : bool := forallb (fun c => N.ltb c 128) l.

(* ------------------------------------------------------------------ Duration *)
Definition c_P := 80%N. Definition c_T := 84%N. Definition c_H := 72%N. Definition c_M := 77%N.
Definition c_S := 83%N. Definition c_dot := 46%N. Definition c_plus := 43%N. Definition c_minus := 45%N.
Definition c_nl := 10%N. Definition c_0 := 48%N.

Fixpoint rstrip0 (l : str) : str :=
  match l with
  | [] => []
  | c :: l' => match rstrip0 l' with
               | [] => if N.eqb c c_0 then [] else [c]
               | r => c :: r
               end
  end.

(* the [n] low decimal digits of [u], most significant first:  str(u).rjust(n,'0')  for u < 10^n *)
Fixpoint low_digits (n : nat) (u : Z) : str :=
  match n with
  | O => []
  | S n' => low_digits n' (u / 10) ++ [(48 + Z.to_N (u mod 10))%N]
  end.

(* Duration.to_iso8601 *)
Definition to_iso (v : Z) : str :=
  let neg := if v <? 0 then [c_minus] else [] in
  let a := Z.abs v in
  let seconds0 := a / g_to_iso_us in let usecs := a mod g_to_iso_us in
  let minutes0 := seconds0 / g_to_iso_sm in let seconds := seconds0 mod g_to_iso_sm in
  let hours := minutes0 / g_to_iso_mh in let minutes := minutes0 mod g_to_iso_mh in
  let ph := if hours =? 0 then [] else neg ++ print_Z hours ++ [c_H] in
  let pm := if minutes =? 0 then [] else neg ++ print_Z minutes ++ [c_M] in
  let ps := if (seconds =? 0) && (usecs =? 0) then []
            else (if usecs =? 0 then neg ++ print_Z seconds
                  else neg ++ print_Z seconds ++ [c_dot] ++ rstrip0 (low_digits g_to_iso_pad usecs))
                 ++ [c_S] in
  let body := ph ++ pm ++ ps in
  [c_P; c_T] ++ (match body with [] => [c_0; c_S] | _ => body end).

(* one  [+-]?\d+  token:  (sign given?, negative?, digits, rest) ; None when there is no digit *)
Definition signed_digits (l : str) : option (bool * bool * str * str) :=
  let '(given, negv, l1) :=
    match l with
    | c :: l' => if N.eqb c c_plus then (true, false, l')
                 else if N.eqb c c_minus then (true, true, l') else (false, false, l)
    | [] => (false, false, l)
    end in
  let (ds, rest) := span_digits l1 in
  match ds with [] => None | _ => Some (given, negv, ds, rest) end.

Definition sgn (negv : bool) (z : Z) : Z := if negv then - z else z.

(* int(ms[:k].ljust(k,'0')) *)
Fixpoint frac_value (k : nat) (ds : str) : Z :=
  match k with
  | O => 0
  | S k' => match ds with
            | [] => 0
            | c :: ds' => Z.of_N (c - 48)%N * 10 ^ (Z.of_nat k') + frac_value k' ds'
            end
  end.

Definition at_end (l : str) : bool :=   (* regex `$` without re.M: end, or a final newline *)
  match l with [] => true | [c] => N.eqb c c_nl | _ => false end.

(* components of _iso_parser after the literal "PT"; stage 0: H,M,S still allowed; 1: M,S; 2: S; 3: none.
   The stage strictly increases, so at most three components can be read: fuel 3 is exact. *)
Fixpoint iso_comps (fuel : nat) (stage : nat) (acc : Z) (l : str) : option Z :=
  if at_end l then Some acc else
  match fuel with
  | O => None
  | S fuel' =>
    match signed_digits l with
    | None => None
    | Some (given, negv, ds, rest) =>
      match rest with
      | c :: rest' =>
        if N.eqb c c_H then
          if Nat.eqb stage 0 then iso_comps fuel' 1%nat (acc + sgn negv (Z.of_N (parse_N ds)) * g_iso_h) rest' else None
        else if N.eqb c c_M then
          if Nat.leb stage 1 then iso_comps fuel' 2%nat (acc + sgn negv (Z.of_N (parse_N ds)) * g_iso_m) rest' else None
        else if N.eqb c c_S then
          if Nat.leb stage 2 then iso_comps fuel' 3%nat (acc + sgn negv (Z.of_N (parse_N ds) * g_iso_s)) rest' else None
        else if N.eqb c c_dot then
          if Nat.leb stage 2 then
            let (fr, rest2) := span_digits rest' in
            match fr, rest2 with
            | _ :: _, c2 :: rest3 =>
              if N.eqb c2 c_S then
                iso_comps fuel' 3%nat
                  (acc + sgn negv (Z.of_N (parse_N ds) * g_iso_s) + sgn negv (frac_value g_iso_frac fr)) rest3
              else None
            | _, _ => None
            end
          else None
        else None
      | [] => None
      end
    end
  end.

(* Duration._parse_iso8601 on ASCII text *)
Definition parse_iso (l : str) : option Z :=
  match l with
  | p :: t :: l' => if N.eqb p c_P && N.eqb t c_T then iso_comps 3 0%nat 0 l' else None
  | _ => None
  end.

(* Duration.from_iso8601(text) *)
Definition dur_from_iso (x : str) : res val :=
  if is_ascii x then match parse_iso x with Some z => Ok (VDur z) | None => Err EInvalidValue end
  else Err EUnmodelled.

(* Duration(text) (PostgreSQL-style text).  Modelled only for  [+-]?[0-9]+  (seconds) and for text that
   _parse_iso8601 accepts (such text is rejected by int() and by _pg_simple_parser, which run first). *)
Definition dur_ctor (x : str) : res val :=
  if negb (is_ascii x) then Err EUnmodelled else
  match signed_digits x with
  | Some (_, negv, ds, []) => Ok (VDur (sgn negv (Z.of_N (parse_N ds)) * 1000000))
  | _ => match parse_iso x with Some z => Ok (VDur z) | None => Err EUnmodelled end
  end.

(* ------------------------------------------------------------------ ConfigMemory *)
Fixpoint mem_ladder (l : list (Z * str)) (v : Z) : str :=
  match l with
  | [] => print_Z v ++ g_mem_final
  | (u, sfx) :: l' => if (u <=? v) && (v mod u =? 0) then print_Z (v / u) ++ sfx else mem_ladder l' v
  end.
(* ConfigMemory.to_str ;  f'{True}B' = 'TrueB' *)
Definition mem_to_str (v : Z) (isbool : bool) : str :=
  if isbool then (if v =? 0 then s "False" else s "True") ++ g_mem_final
  else mem_ladder g_mem_ladder v.

Definition strip_final_nl (l : str) : str :=
  match List.rev l with c :: r => if N.eqb c c_nl then List.rev r else l | [] => l end.

(* ConfigMemory(text) *)
Definition mem_of_str (x : str) : res val :=
  if negb (is_ascii x) then Err EUnmodelled else
  if str_eqb x [c_0] then Ok (VMem 0 false) else
  let (ds, rest) := span_digits x in
  match ds with
  | [] => Err EInvalidValue
  | _ => match assoc g_mem_parse (strip_final_nl rest) with
         | Some u => Ok (VMem (Z.of_N (parse_N ds) * u) false)
         | None => Err EInvalidValue
         end
  end.

(* ConfigMemory(v) for v : str | int *)
Definition mem_ctor (v : val) : option (res val) :=
  match v with
  | VStr x => Some (mem_of_str x)
  | VInt z => Some (Ok (VMem z false))
  | VBool b => Some (Ok (VMem (b2z b) true))
  | _ => None
  end.

(* EnumScalarType(text) *)
Definition enum_ctor (ty : N) (members : list str) (x : str) : res val :=
  if existsb (str_eqb x) members then Ok (VEnum ty x) else Err EInvalidValue.

(* ------------------------------------------------------------------ coerce_single_value *)
Definition coerce_single (p : ptype) (v : val) : res val :=
  if inst_of p v then Ok v else
  match p, v with
  | TDur, VStr x => dur_ctor x
  | TMem, VStr x => mem_of_str x
  | TMem, VInt z => Ok (VMem z false)            (* VBool is an int too, but is caught...   *)
  | TMem, VBool b => Ok (VMem (b2z b) true)      (* ...here: isinstance(True,(str,int))      *)
  | TEnum ty ms, VStr x => enum_ctor ty ms x
  | _, _ => Err EConfig
  end.

(* typeutils.is_container + iteration *)
Definition container_elems (v : val) : option (list val) :=
  match v with
  | VList l => Some l
  | VDict d => Some (map (fun kv => VStr (fst kv)) d)
  | _ => None
  end.

(* what len() / iteration see in coerce_object_set (a str is sized and iterates its characters) *)
Definition sized_elems (v : val) : option (list val) :=
  match v with
  | VStr x => Some (map (fun c => VStr [c]) x)
  | _ => container_elems v
  end.

Fixpoint coerce_all (p : ptype) (l : list val) (acc : list val) : res (list val) :=
  match l with
  | [] => Ok acc
  | v :: l' => do c <- coerce_single p v; coerce_all p l' (fs_add acc c)
  end.

(* ------------------------------------------------------------------ CompositeConfigType.from_pyvalue *)
Definition k_tname : str := s "_tname".

Definition field_type_ok (p : ptype) : bool :=    (* element types our specs put inside frozenset[...] *)
  match p with TBool | TInt | TStr | TFloat => true | _ => false end.

(* build the attribute list:  cls(tspec, **items) after the required-field check *)
Fixpoint build_attrs (fs : list field) (items : list (str * val)) (allow_missing : bool)
  : res (list (str * (bool * val))) :=
  match fs with
  | [] => Ok []
  | f :: fs' =>
    do v <- match assoc items (f_name f) with
            | Some v => Ok v
            | None => match f_default f with
                      | Some d => Ok d
                      | None => if allow_missing then Ok VNone else Err EConfig
                      end
            end;
    do r <- build_attrs fs' items allow_missing;
    Ok ((f_name f, (f_unique f, v)) :: r)
  end.

Fixpoint from_py (sp : spec) (ts : tspec) (allow_missing : bool) (data : val) {struct data} : res val :=
  match data with
  | VNone => if allow_missing then Ok VNone else Err EConfig
  | VDict d =>
    do ts' <- match assoc d k_tname with
              | None | Some VNone => Ok ts
              | Some (VStr tn) => match find_type (sp_types sp) tn with Some t => Ok t | None => Err EKey end
              | Some _ => Err EUnmodelled
              end;
    do r <- (fix loop (l : list (str * val)) (items : list (str * val)) (inv : bool) {struct l}
               : res (list (str * val) * bool) :=
               match l with
               | [] => Ok (items, inv)
               | (k, v) :: l' =>
                 if str_eqb k k_tname then loop l' items inv else
                 match find_field (t_fields ts') k with
                 | None => match v with VNone => loop l' items inv | _ => loop l' items true end
                 | Some f =>
                   match v with
                   | VNone => loop l' items inv
                   | _ =>
                     do c <- match f_type f with
                             | FSetOf p =>
                               if negb (field_type_ok p) then Err EUnmodelled else
                               if inst_of p v then Ok (VList [v]) else
                               match container_elems v with
                               | Some es => if forallb (inst_of p) es then Ok (VList (fs_of es)) else Err EConfig
                               | None => Err EConfig
                               end
                             | FObj tn =>
                               match v with
                               | VDict _ =>
                                 match find_type (sp_types sp) tn with
                                 | Some ft => from_py sp ft false v
                                 | None => Err EUnmodelled
                                 end
                               | _ => Err EConfig
                               end
                             | FPrim TDur =>
                               match v with VStr x => dur_from_iso x
                                          | _ => if inst_of TDur v then Ok v else Err EConfig end
                             | FPrim TMem =>
                               match mem_ctor v with Some r => r
                                          | None => if inst_of TMem v then Ok v else Err EConfig end
                             | FPrim (TEnum _ _) => Err EUnmodelled
                               (* typing_inspect.is_generic_type(EnumScalarType[...] subclass) is true:
                                  the code raises RuntimeError; the pinned schema has no such field *)
                             | FPrim p => if inst_of p v then Ok v else Err EConfig
                             end;
                     loop l' (items ++ [(k, c)]) inv
                   end
                 end
               end) d [] false;
    let (items, inv) := r in
    if inv then Err EConfig else
    do attrs <- build_attrs (t_fields ts') items allow_missing;
    Ok (VObj (t_name ts') attrs)
  | _ => Err EConfig
  end.

(* CompositeTypeSpec.get_field_unique_site: the top-most ancestor (or self) declaring the field unique *)
Fixpoint unique_site (fuel : nat) (types : list tspec) (ts : tspec) (fname : str) (site : option str)
  : option str :=
  let site' := match find_field (t_fields ts) fname with
               | Some f => if f_unique f then Some (t_name ts) else site
               | None => site
               end in
  match fuel with
  | O => site'
  | S fuel' => match t_parent ts with
               | None => site'
               | Some pn => match find_type types pn with
                            | Some pt => unique_site fuel' types pt fname site'
                            | None => site'
                            end
               end
  end.

(* dict keyed by (site.name, field name) -> set of values *)
Definition excl := list ((str * str) * list val).
Fixpoint excl_get (e : excl) (k : str * str) : list val :=
  match e with
  | [] => []
  | ((a, b), vs) :: e' => if str_eqb a (fst k) && str_eqb b (snd k) then vs else excl_get e' k
  end.
Fixpoint excl_add (e : excl) (k : str * str) (v : val) : excl :=
  match e with
  | [] => [(k, [v])]
  | ((a, b), vs) :: e' => if str_eqb a (fst k) && str_eqb b (snd k) then ((a, b), vs ++ [v]) :: e'
                          else ((a, b), vs) :: excl_add e' k v
  end.

Fixpoint uniq_fields (types : list tspec) (ts : tspec) (flds : list (str * (bool * val))) (e : excl)
  : res excl :=
  match flds with
  | [] => Ok e
  | (name, (_, v)) :: flds' =>
    match v with
    | VNone => uniq_fields types ts flds' e
    | _ => match unique_site (length types) types ts name None with
           | None => uniq_fields types ts flds' e
           | Some site => if mem_val v (excl_get e (site, name)) then Err EConstraint
                          else uniq_fields types ts flds' (excl_add e (site, name) v)
           end
    end
  end.

(* _check_object_set_uniqueness: objects are fed one at a time (the caller's generator is lazy) *)
Definition uniq_step (sp : spec) (st : list val * excl) (o : val) : res (list val * excl) :=
  let (news, e) := st in
  match o with
  | VObj tn flds =>
    match find_type (sp_types sp) tn with
    | None => Err EUnmodelled
    | Some ts =>
      do e' <- uniq_fields (sp_types sp) ts flds e;
      if mem_val o news then Err EConstraint else Ok (news ++ [o], e')
    end
  | _ => Err EAttr          (* None._tspec *)
  end.

Definition too_large (l : list val) : bool := Nat.ltb g_max_set (length l).

Fixpoint uniq_all (sp : spec) (objs : list val) (st : list val * excl) : res (list val * excl) :=
  match objs with
  | [] => Ok st
  | o :: objs' => do st' <- uniq_step sp st o; uniq_all sp objs' st'
  end.

Definition check_uniq (sp : spec) (objs : list val) : res val :=
  do st <- uniq_all sp objs ([], []);
  if too_large (fst st) then Err EConfig else Ok (VList (fst st)).

(* coerce_object_set: from_pyvalue and the uniqueness check are interleaved *)
Fixpoint coerce_objs (sp : spec) (ts : tspec) (vals : list val) (st : list val * excl)
  : res (list val * excl) :=
  match vals with
  | [] => Ok st
  | v :: vals' =>
    do o <- from_py sp ts false v;
    do st' <- uniq_step sp st o;
    coerce_objs sp ts vals' st'
  end.

(* errors of the (ValueError, TypeError) handler in coerce_value *)
Definition catch_vt {A} (r : res A) : res A :=
  match r with Err EValue | Err EType => Err EConfig | _ => r end.

Inductive opcode := OSet | OReset | OAdd | ORem.
Inductive scope := Session | Database | Instance.
Record op := { o_code : opcode; o_scope : scope; o_name : str; o_value : val }.

Definition coerce_value (sp : spec) (st : setting) (code : opcode) (v : val) (allow_missing : bool)
  : res val :=
  match s_type st with
  | SObj tn =>
    match find_type (sp_types sp) tn with
    | None => Err EUnmodelled
    | Some ts =>
      catch_vt
      match code with
      | OSet =>
        match sized_elems v with
        | None => Err EType                          (* len() of a non-sized value *)
        | Some es =>
          if negb (s_set_of st) && Nat.ltb 1 (length es) then Err EConstraint else
          do r <- coerce_objs sp ts es ([], []);
          if too_large (fst r) then Err EConfig else Ok (VList (fst r))
        end
      | _ => from_py sp ts allow_missing v
      end
    end
  | SPrim p =>
    if s_set_of st then
      match v with
      | VNone => if allow_missing then Ok VNone else Err EConfig
      | _ => match container_elems v with
             | None => Err EConfig
             | Some es => do l <- coerce_all p es [];
                          if too_large l then Err EConfig else Ok (VList l)
             end
      end
    else
      match coerce_single p v with
      | Err EConfig => match v with VNone => if allow_missing then Ok VNone else Err EConfig
                                  | _ => Err EConfig end
      | r => r
      end
  end.

(* ------------------------------------------------------------------ storage *)
Record sval := { v_value : val; v_source : str; v_scope : scope; v_secret : bool }.
Definition storage := list (str * sval).        (* immutables.Map: keys distinct; order irrelevant *)

Fixpoint st_set (m : storage) (n : str) (x : sval) : storage :=
  match m with
  | [] => [(n, x)]
  | (k, y) :: m' => if str_eqb k n then (k, x) :: m' else (k, y) :: st_set m' n x
  end.
Fixpoint st_del (m : storage) (n : str) : storage :=
  match m with
  | [] => []
  | (k, y) :: m' => if str_eqb k n then st_del m' n else (k, y) :: st_del m' n
  end.

Definition source_of (sc : scope) : str :=
  match sc with Instance => g_src_instance | Database => g_src_database | Session => g_src_session end.

Definition is_obj_setting (st : setting) : bool := match s_type st with SObj _ => true | _ => false end.

(* Operation.apply, as a function of the binding the storage currently holds for the operation's
   setting name (that binding is all of the storage the code looks at: `storage.get(name)` for the
   existing value and `name in storage and storage[name].secret` in set_value).
   Result: the new binding (None = deleted). *)
Definition apply_cell (sp : spec) (o : op) (cur : option sval) : res (option sval) :=
  let allow_missing := match o_code o with ORem | OReset => true | _ => false end in
  match find_setting (sp_settings sp) (o_name o) with
  | None => Err EConfig                                  (* unknown setting *)
  | Some st =>
    do v <- coerce_value sp st (o_code o) (o_value o) allow_missing;
    (* ops.set_value via Operation._set_value (source=None) *)
    let mk (x : val) : option sval :=
      Some {| v_value := x; v_source := source_of (o_scope o); v_scope := o_scope o;
              v_secret := match cur with Some c => v_secret c | None => false end |} in
    let exist := match cur with Some c => v_value c | None => s_default st end in
    match o_code o with
    | OSet => Ok (mk v)
    | OReset => Ok None
    | OAdd =>
      if negb (is_obj_setting st) then Err EInternal else
      match exist with
      | VList l => do nv <- check_uniq sp (l ++ [v]); Ok (mk nv)
      | _ => Err EType                                    (* list(None) / list(<object>) *)
      end
    | ORem =>
      if negb (is_obj_setting st) then Err EInternal else
      match exist with
      | VList l => Ok (mk (VList (filter (fun x => negb (py_eq x v)) l)))
      | _ => Err EType
      end
    end
  end.

Definition apply (sp : spec) (o : op) (m : storage) : res storage :=
  do c <- apply_cell sp o (assoc m (o_name o));
  Ok (match c with Some x => st_set m (o_name o) x | None => st_del m (o_name o) end).

(* config.lookup(name, *configs, spec=spec) *)
Fixpoint lookup_maps (ms : list storage) (n : str) : option val :=
  match ms with
  | [] => None
  | m :: ms' => match assoc m n with Some x => Some (v_value x) | None => lookup_maps ms' n end
  end.
Definition lookup (sp : spec) (ms : list storage) (n : str) : res val :=
  match find_setting (sp_settings sp) n with
  | None => Err EConfig
  | Some st => match lookup_maps ms n with Some v => Ok v | None => Ok (s_default st) end
  end.

(* ------------------------------------------------------------------ the three scopes *)
Record sys := { m_session : storage; m_database : storage; m_instance : storage }.
Definition sys0 : sys := {| m_session := []; m_database := []; m_instance := [] |}.
Definition get_map (y : sys) (sc : scope) : storage :=
  match sc with Session => m_session y | Database => m_database y | Instance => m_instance y end.
Definition put_map (y : sys) (sc : scope) (m : storage) : sys :=
  match sc with
  | Session => {| m_session := m; m_database := m_database y; m_instance := m_instance y |}
  | Database => {| m_session := m_session y; m_database := m; m_instance := m_instance y |}
  | Instance => {| m_session := m_session y; m_database := m_database y; m_instance := m |}
  end.

(* an operation is applied to the map of its own scope; an exception leaves everything as it was *)
Definition step (sp : spec) (y : sys) (o : op) : sys * option err :=
  match apply sp o (get_map y (o_scope o)) with
  | Ok m' => (put_map y (o_scope o) m', None)
  | Err e => (y, Some e)
  end.

Fixpoint run (sp : spec) (y : sys) (os : list op) : sys * list (option err) :=
  match os with
  | [] => (y, [])
  | o :: os' => let (y1, r) := step sp y o in
                match r with
                | Some EUnmodelled => (y1, [r])            (* stop: outside the model *)
                | _ => let (y2, rs) := run sp y1 os' in (y2, r :: rs)
                end
  end.

Definition effective (sp : spec) (y : sys) (n : str) : res val :=
  lookup sp [m_session y; m_database y; m_instance y] n.

(* ------------------------------------------------------------------ JSON *)
(* CompositeConfigType.to_json_value *)
Fixpoint obj_to_json (sp : spec) (v : val) {struct v} : res val :=
  match v with
  | VObj tn flds =>
    match find_type (sp_types sp) tn with
    | None => Err EUnmodelled
    | Some ts =>
      do fl <- (fix go (l : list (str * (bool * val))) {struct l} : res (list (str * val)) :=
                  match l with
                  | [] => Ok []
                  | (name, (_, x)) :: l' =>
                    do j <- match find_field (t_fields ts) name with
                            | None => Err EUnmodelled
                            | Some f =>
                              match f_type f, x with
                              | FObj _, VNone => Ok VNone
                              | FObj _, _ => obj_to_json sp x
                              | FSetOf p, VNone => Ok (VList [])
                              | FSetOf p, VList es => if field_type_ok p then Ok (VList es) else Err EUnmodelled
                              | FSetOf p, _ => Err EType
                              | FPrim _, VDur us => Ok (VStr (to_iso us))
                              | FPrim _, VMem z b => Ok (VStr (mem_to_str z b))
                              | FPrim _, VEnum _ x' => Ok (VStr x')
                              | FPrim _, _ => Ok x
                              end
                            end;
                    do r <- go l';
                    Ok ((name, j) :: r)
                  end) flds;
      Ok (VDict ((k_tname, VStr tn) :: fl))
    end
  | _ => Err EAttr
  end.

Fixpoint map_res {A B} (f : A -> res B) (l : list A) : res (list B) :=
  match l with
  | [] => Ok []
  | x :: l' => do y <- f x; do r <- map_res f l'; Ok (y :: r)
  end.

Definition is_scalar_type (p : ptype) : bool :=       (* issubclass(type, statypes.ScalarType) *)
  match p with TDur | TMem | TEnum _ _ => true | _ => false end.

(* ops.value_to_json_value, followed by json.dumps (TypeError on non-serialisable objects) *)
Definition value_to_json (sp : spec) (st : setting) (v : val) : res val :=
  match s_type st, s_set_of st with
  | SObj _, true =>
    match v with VList l => do js <- map_res (obj_to_json sp) l; Ok (VList js) | _ => Err EType end
  | SPrim p, true =>
    match v with
    | VList l => if is_scalar_type p then (match l with [] => Ok (VList []) | _ => Err EType end)
                 else Ok (VList l)
    | _ => Err EType
    end
  | SObj _, false =>
    match v with VNone => Ok (VList []) | _ => do j <- obj_to_json sp v; Ok (VList [j]) end
  | SPrim p, false =>
    match v with
    | VDur us => Ok (VStr (to_iso us))
    | VMem z b => Ok (VStr (mem_to_str z b))
    | VEnum _ x => Ok (VStr x)
    | VList _ | VDict _ | VObj _ _ => Err EUnmodelled
    | _ => Ok v
    end
  end.

Definition scope_str (sc : scope) : str :=
  match sc with Session => s "SESSION" | Database => s "DATABASE" | Instance => s "INSTANCE" end.
Definition scope_of_str (x : str) : option scope :=
  if str_eqb x (s "SESSION") then Some Session
  else if str_eqb x (s "DATABASE") then Some Database
  else if str_eqb x (s "INSTANCE") then Some Instance else None.

Definition k_name := s "name". Definition k_source := s "source".
Definition k_scope := s "scope". Definition k_value := s "value".

(* ops.to_json_obj (include_source=True, no filter) *)
Fixpoint to_json (sp : spec) (m : storage) : res (list (str * val)) :=
  match m with
  | [] => Ok []
  | (n, x) :: m' =>
    match find_setting (sp_settings sp) n with
    | None => Err EKey
    | Some st =>
      do j <- value_to_json sp st (v_value x);
      do r <- to_json sp m';
      Ok ((n, VDict [(k_name, VStr n); (k_source, VStr (v_source x));
                     (k_scope, VStr (scope_str (v_scope x))); (k_value, j)]) :: r)
    end
  end.

(* ops.value_from_json_value *)
Definition value_from_json (sp : spec) (st : setting) (j : val) : res val :=
  match s_type st, s_set_of st with
  | SObj tn, true =>
    match find_type (sp_types sp) tn, j with
    | Some ts, VList l => do os <- map_res (from_py sp ts false) l; Ok (VList (fs_of os))
    | Some _, _ => Err EUnmodelled
    | None, _ => Err EUnmodelled
    end
  | SPrim _, true =>
    match j with VList l => Ok (VList (fs_of l)) | _ => Err EUnmodelled end
  | SObj tn, false =>
    match find_type (sp_types sp) tn, j with
    | Some ts, VList [] => Ok VNone
    | Some ts, VList [x] => from_py sp ts false x
    | Some ts, VList _ => Err EConfig
    | _, _ => Err EUnmodelled
    end
  | SPrim TDur, false =>
    match j with VStr x => dur_from_iso x | _ => Err EType end
  | SPrim TMem, false =>
    match mem_ctor j with Some r => r | None => Err EValue end
  | SPrim (TEnum ty ms), false =>
    match j with VStr x => enum_ctor ty ms x | _ => Err EUnmodelled end
  | SPrim _, false => Ok j
  end.

(* ops.from_json on the object produced by to_json *)
Fixpoint from_json (sp : spec) (j : list (str * val)) (acc : storage) : res storage :=
  match j with
  | [] => Ok acc
  | (key, entry) :: j' =>
    match find_setting (sp_settings sp) key with
    | None => from_json sp j' acc
    | Some st =>
      match entry with
      | VDict d =>
        match assoc d k_value, assoc d k_source, assoc d k_scope with
        | Some jv, Some (VStr src), Some (VStr scs) =>
          match scope_of_str scs with
          | None => Err EValue
          | Some sc =>
            do v <- value_from_json sp st jv;
            from_json sp j' (st_set acc key {| v_value := v; v_source := src; v_scope := sc;
                                                v_secret := s_secret st |})
          end
        | _, _, _ => Err EUnmodelled
        end
      | _ => Err EUnmodelled
      end
    end
  end.

Definition json_roundtrip (sp : spec) (m : storage) : res storage :=
  do j <- to_json sp m; from_json sp j [].

(* ------------------------------------------------------------------ one harness case *)
Record outcome := { out_ops : list (option err);
                    out_sys : sys;
                    out_eff : list (str * res val);
                    out_json : list (res (list (str * val)));
                    out_rt : list (res storage) }.

Definition run_case (sp : spec) (os : list op) (queries : list str) : outcome :=
  let (y, rs) := run sp sys0 os in
  let maps := [m_session y; m_database y; m_instance y] in
  {| out_ops := rs; out_sys := y;
     out_eff := map (fun n => (n, effective sp y n)) queries;
     out_json := map (to_json sp) maps;
     out_rt := map (json_roundtrip sp) maps |}.

(* ------------------------------------------------------------------ fingerprint (extraction cross-check) *)
Definition fp_step (h x : N) : N := ((h * 1000003 + x + 1) mod 2305843009213693951)%N.
Definition fp (l : list N) : N := fold_left fp_step l 7%N.
Definition z_code (z : Z) : list N :=
  match z with Z0 => [0%N] | Zpos p => [1%N; Npos p] | Zneg p => [2%N; Npos p] end.
Definition b_code (b : bool) : N := if b then 1%N else 0%N.
Definition str_code (x : str) : list N := N.of_nat (length x) :: x.

Fixpoint val_code (v : val) : list N :=
  match v with
  | VNone => [10%N]
  | VBool b => [11%N; b_code b]
  | VInt z => 12%N :: z_code z
  | VFloat f => [13%N; f]
  | VStr x => 14%N :: str_code x
  | VDur z => 15%N :: z_code z
  | VMem z b => 16%N :: b_code b :: z_code z
  | VEnum t x => 17%N :: t :: str_code x
  | VList l => 18%N :: N.of_nat (length l) :: flat_map val_code l
  | VDict d => 19%N :: N.of_nat (length d) ::
               (fix go (d : list (str * val)) : list N :=
                  match d with [] => [] | (k, x) :: d' => str_code k ++ val_code x ++ go d' end) d
  | VObj t fl => 20%N :: str_code t ++
               (fix go (d : list (str * (bool * val))) : list N :=
                  match d with [] => [] | (k, (u, x)) :: d' => str_code k ++ [b_code u] ++ val_code x ++ go d' end) fl
  end.

Definition err_code (e : err) : N :=
  match e with EConfig => 1 | EConstraint => 2 | EInvalidValue => 3 | EInternal => 4 | EType => 5
             | EAttr => 6 | EKey => 7 | EValue => 8 | EUnmodelled => 9 end%N.
Definition scope_code (sc : scope) : N := match sc with Session => 1 | Database => 2 | Instance => 3 end%N.
Definition storage_code (m : storage) : list N :=
  30%N :: flat_map (fun kv => str_code (fst kv) ++ val_code (v_value (snd kv)) ++ str_code (v_source (snd kv))
                              ++ [scope_code (v_scope (snd kv)); b_code (v_secret (snd kv))]) m.
Definition res_code {A} (f : A -> list N) (r : res A) : list N :=
  match r with Ok a => 40%N :: f a | Err e => [41%N; err_code e] end.

Definition outcome_code (o : outcome) : list N :=
  flat_map (fun r => match r with None => [0%N] | Some e => [1%N; err_code e] end) (out_ops o)
  ++ storage_code (m_session (out_sys o)) ++ storage_code (m_database (out_sys o))
  ++ storage_code (m_instance (out_sys o))
  ++ flat_map (fun p => str_code (fst p) ++ res_code val_code (snd p)) (out_eff o)
  ++ flat_map (res_code (fun d => val_code (VDict d))) (out_json o)
  ++ flat_map (res_code storage_code) (out_rt o).

Definition case_fp (sp : spec) (os : list op) (queries : list str) : N :=
  fp (outcome_code (run_case sp os queries)).
