(* C19 — Configuration commands compose and persist as specified.
   Statements only; each is closed by [exact] of a lemma of Proofs.v and followed by
   Print Assumptions (audited by the check on every run).

   Vocabulary (Model.v / Proofs.v).  sp : spec is any configuration spec (settings of kind
   bool/int/str/float/enum/duration/memory, single or set-valued, and object settings with composite
   types).  op = (opcode SET|RESET|ADD(=INSERT)|REM(=filtered RESET), scope, setting name, payload).
   apply sp o m = Operation.apply on one scope's map; step/run_all apply each operation to the map of
   its own scope (what the compiler/server do with session, database and instance configuration);
   effective = config.lookup over [session; database; instance].
   cell sp sc n os = the binding that the operations of [os] addressed to (scope sc, setting n)
   produce on their own, failing operations skipped — the history of that one cell.
   inst_of p v = Python isinstance(v, <class of p>) (so bool counts as int).
   to_iso / parse_iso = Duration.to_iso8601 / _parse_iso8601; mem_to_str / mem_of_str = ConfigMemory.
   pyd l = l is a frozenset built by first-occurrence dedup under Python ==. *)
From Coq Require Import String Ascii.
From Coq Require Import List NArith ZArith Bool.
From Verif.C19 Require Import Gen_Units Model Proofs.
Import ListNotations.
Open Scope Z_scope.

(* effective value = value of the most specific scope that defines the setting, else the default —
   for every spec, every operation sequence (valid or not) and every setting name; what a scope
   "defines" is determined by the operations addressed to that scope and setting alone *)
Theorem C19_lookup : forall sp os n,
  effective sp (run_all sp sys0 os) n =
  match find_setting (sp_settings sp) n with
  | None => Err EConfig
  | Some st =>
      Ok (match cell sp Session n os with
          | Some x => v_value x
          | None => match cell sp Database n os with
                    | Some x => v_value x
                    | None => match cell sp Instance n os with
                              | Some x => v_value x
                              | None => s_default st
                              end
                    end
          end)
  end.
Proof. exact p_lookup. Qed.
Print Assumptions C19_lookup.

(* an operation only touches the binding of its own setting ... *)
Theorem C19_frame : forall sp o m m', apply sp o m = Ok m' ->
  forall q, q <> o_name o -> assoc m' q = assoc m q.
Proof. exact p_frame. Qed.
Print Assumptions C19_frame.

(* ... and only the map of its own scope *)
Theorem C19_other_scopes : forall sp y o sc, sc <> o_scope o ->
  get_map (fst (step sp y o)) sc = get_map y sc.
Proof. exact p_other_scopes. Qed.
Print Assumptions C19_other_scopes.

(* a rejected operation changes nothing in any scope *)
Theorem C19_reject_atomic : forall sp y o e, snd (step sp y o) = Some e -> fst (step sp y o) = y.
Proof. exact p_reject_atomic. Qed.
Print Assumptions C19_reject_atomic.

(* SET of a scalar setting: a payload that is not an instance of the setting's type and that no
   conversion applies to (text for duration/memory/enum, int for memory) is rejected ... *)
Theorem C19_reject_untyped : forall sp o m p st,
  scalar_setting sp (o_name o) p st -> o_code o = OSet ->
  inst_of p (o_value o) = false -> convertible p (o_value o) = false ->
  apply sp o m = Err EConfig.
Proof. exact p_reject_untyped. Qed.
Print Assumptions C19_reject_untyped.

(* ... a payload of the setting's type is stored unchanged with the operation's scope and source ... *)
Theorem C19_accept_typed : forall sp o m p st,
  scalar_setting sp (o_name o) p st -> o_code o = OSet -> inst_of p (o_value o) = true ->
  exists m', apply sp o m = Ok m' /\
    exists x, assoc m' (o_name o) = Some x /\ v_value x = o_value o /\ v_scope x = o_scope o
              /\ v_source x = source_of (o_scope o).
Proof. exact p_accept_typed. Qed.
Print Assumptions C19_accept_typed.

(* ... and whatever SET stores (after conversion) has the setting's type; sets are bounded *)
Theorem C19_stored_typed : forall sp o m m' p st,
  find_setting (sp_settings sp) (o_name o) = Some st -> s_type st = SPrim p -> o_code o = OSet ->
  apply sp o m = Ok m' ->
  exists x, assoc m' (o_name o) = Some x /\
    if s_set_of st
    then exists l, v_value x = VList l /\ Forall (fun v => inst_of p v = true) l
                   /\ (length l <= g_max_set)%nat
    else inst_of p (v_value x) = true.
Proof. exact p_stored_typed. Qed.
Print Assumptions C19_stored_typed.

Theorem C19_stored_set_canonical : forall sp o m m' p st,
  find_setting (sp_settings sp) (o_name o) = Some st -> s_type st = SPrim p -> s_set_of st = true ->
  o_code o = OSet -> apply sp o m = Ok m' ->
  exists x l, assoc m' (o_name o) = Some x /\ v_value x = VList l /\ pyd l.
Proof. exact p_stored_set_canonical. Qed.
Print Assumptions C19_stored_set_canonical.

(* RESET removes the binding of its scope (the effective value then comes from the next scope or the
   default, by C19_lookup) *)
Theorem C19_reset : forall sp o m m', o_code o = OReset -> apply sp o m = Ok m' ->
  assoc m' (o_name o) = None.
Proof. exact p_reset. Qed.
Print Assumptions C19_reset.

(* Duration: ISO-8601 text printed by to_iso8601 parses back to the same value, for every integer
   number of microseconds (no range bound) *)
Theorem C19_duration_iso : forall d : Z, parse_iso (to_iso d) = Some d.
Proof. exact parse_to_iso. Qed.
Print Assumptions C19_duration_iso.

(* ConfigMemory: to_str / constructor round trip for every non-negative size *)
Theorem C19_memory_str : forall m : Z, 0 <= m -> mem_of_str (mem_to_str m false) = Ok (VMem m false).
Proof. exact mem_roundtrip. Qed.
Print Assumptions C19_memory_str.

(* JSON form of a scalar setting's value loads back to the same value *)
Theorem C19_json_value : forall sp st p v, s_type st = SPrim p -> s_set_of st = false -> wf_prim p v ->
  exists j, value_to_json sp st v = Ok j /\ value_from_json sp st j = Ok v.
Proof. exact p_json_prim. Qed.
Print Assumptions C19_json_value.

(* from_json (to_json m) = m (values, sources, scopes; the secret flag is re-derived from the spec)
   for every map of well-formed scalar / set-valued bool,int,str,float bindings *)
Theorem C19_json_roundtrip : forall sp m, NoDup (map fst m) ->
  (forall n x, In (n, x) m -> wf_binding sp n x) ->
  exists m', json_roundtrip sp m = Ok m' /\
    forall q, assoc m' q = option_map (reseal sp q) (assoc m q).
Proof. exact p_json_roundtrip. Qed.
Print Assumptions C19_json_roundtrip.

(* INSERT into an object set *)
Theorem C19_set_insert : forall sp o cur st l c',
  obj_set_setting sp (o_name o) st -> o_code o = OAdd -> existing st cur = VList l ->
  apply_cell sp o cur = Ok c' ->
  exists v x, coerce_value sp st OAdd (o_value o) false = Ok v /\ c' = Some x /\
    v_value x = VList (l ++ [v]) /\ mem_val v l = false /\ pyd (l ++ [v]) /\
    (length (l ++ [v]) <= g_max_set)%nat /\ v_scope x = o_scope o.
Proof. exact p_set_insert. Qed.
Print Assumptions C19_set_insert.

(* the size limit also binds the INSERT path: a full set (MAX_CONFIG_SET_SIZE elements) rejects every
   further INSERT; together with C19_set_insert (<= limit after a successful INSERT, canonical set) and
   C19_stored_typed / C19_stored_set_canonical (SET path) no path stores more than the limit *)
Theorem C19_insert_limit : forall sp o cur st l,
  obj_set_setting sp (o_name o) st -> o_code o = OAdd -> existing st cur = VList l ->
  (g_max_set <= length l)%nat -> exists e, apply_cell sp o cur = Err e.
Proof. exact p_insert_limit. Qed.
Print Assumptions C19_insert_limit.

(* ... and the SET path of object settings *)
Theorem C19_object_set_limit : forall sp o cur st tn c',
  find_setting (sp_settings sp) (o_name o) = Some st -> s_type st = SObj tn -> o_code o = OSet ->
  apply_cell sp o cur = Ok c' ->
  exists x l, c' = Some x /\ v_value x = VList l /\ (length l <= g_max_set)%nat.
Proof. exact p_object_set_limit. Qed.
Print Assumptions C19_object_set_limit.

(* filtered RESET on an object set *)
Theorem C19_set_remove : forall sp o cur st l c',
  obj_set_setting sp (o_name o) st -> o_code o = ORem -> existing st cur = VList l ->
  apply_cell sp o cur = Ok c' ->
  exists v x l', coerce_value sp st ORem (o_value o) true = Ok v /\ c' = Some x /\ v_value x = VList l' /\
    (forall y, In y l' <-> In y l /\ py_eq y v = false).
Proof. exact p_set_remove. Qed.
Print Assumptions C19_set_remove.

(* ---------------------------------------------------------------- non-vacuity *)
Definition ex_port : tspec :=
  {| t_name := s "Port";
     t_fields := [ {| f_name := s "database"; f_type := FPrim TStr; f_unique := true; f_default := None |};
                   {| f_name := s "port"; f_type := FPrim TInt; f_unique := false; f_default := Some (VInt 80) |} ];
     t_parent := None |}.
Definition ex_spec : spec :=
  {| sp_settings :=
       [ {| s_name := s "timeout"; s_type := SPrim TDur; s_set_of := false; s_default := VDur 60000000; s_secret := false |};
         {| s_name := s "mem"; s_type := SPrim TMem; s_set_of := false; s_default := VMem 0 false; s_secret := false |};
         {| s_name := s "names"; s_type := SPrim TStr; s_set_of := true; s_default := VList []; s_secret := false |};
         {| s_name := s "ports"; s_type := SObj (s "Port"); s_set_of := true; s_default := VList []; s_secret := false |} ];
     sp_types := [ex_port] |}.
Definition mkop c sc n v := {| o_code := c; o_scope := sc; o_name := s n; o_value := v |}.

(* instance sets 1 h, database sets 2 s, session sets garbage (rejected), database resets: 1 h wins *)
Example ex_compose :
  effective ex_spec
    (run_all ex_spec sys0
       [ mkop OSet Instance "timeout" (VStr (s "PT1H"));
         mkop OSet Database "timeout" (VDur 2000000);
         mkop OSet Session "timeout" (VInt 5);
         mkop OReset Database "timeout" VNone ]) (s "timeout") = Ok (VDur 3600000000).
Proof. vm_compute. reflexivity. Qed.

Example ex_scalar_setting : scalar_setting ex_spec (s "timeout") TDur
  {| s_name := s "timeout"; s_type := SPrim TDur; s_set_of := false; s_default := VDur 60000000; s_secret := false |}.
Proof. repeat split. Qed.

Example ex_iso : to_iso (-90061000001) = s "PT-25H-1M-1.000001S".
Proof. vm_compute. reflexivity. Qed.
Example ex_mem : mem_to_str 5368709120 false = s "5GiB" /\ mem_of_str (s "5GiB") = Ok (VMem 5368709120 false).
Proof. split; vm_compute; reflexivity. Qed.

Definition ex_port_payload (db : string) : val := VDict [(s "database", VStr (s db))].
Example ex_insert_remove :
  let y := run_all ex_spec sys0
             [ mkop OAdd Instance "ports" (ex_port_payload "a");
               mkop OAdd Instance "ports" (ex_port_payload "b");
               mkop OAdd Instance "ports" (ex_port_payload "a");      (* exclusivity violation: rejected *)
               mkop ORem Instance "ports" (ex_port_payload "a") ] in
  effective ex_spec y (s "ports") =
  Ok (VList [VObj (s "Port") [(s "database", (true, VStr (s "b"))); (s "port", (false, VInt 80))]]).
Proof. vm_compute. reflexivity. Qed.

Example ex_wf_binding : wf_binding ex_spec (s "names")
  {| v_value := VList [VStr (s "x"); VStr (s "y")]; v_source := s "database"; v_scope := Database; v_secret := false |}.
Proof.
  eexists. exists TStr. split; [reflexivity|]. split; [reflexivity|]. cbn. split; [reflexivity|].
  eexists. split; [reflexivity|].
  apply (pyd_snoc [VStr (s "x")] (VStr (s "y"))); [|reflexivity].
  apply (pyd_snoc [] (VStr (s "x"))); [constructor|reflexivity].
Qed.
