(* C19 — lemmas about the model of the configuration layer (Model.v). *)
From Coq Require Import String Ascii.
From Coq Require Import List NArith ZArith Bool Decimal DecimalN Lia.
From Verif.C19 Require Import Gen_Units Model.
Import ListNotations.
Open Scope Z_scope.
Arguments is_digit : simpl never.
Arguments N.eqb : simpl never.
Arguments N.leb : simpl never.
Arguments N.ltb : simpl never.

(* ================================================================== strings *)
Lemma str_eqb_refl : forall a, str_eqb a a = true.
Proof. induction a; simpl; auto. rewrite N.eqb_refl. auto. Qed.

Lemma str_eqb_eq : forall a b, str_eqb a b = true <-> a = b.
Proof.
  induction a; destruct b; simpl; split; intros H; try discriminate; auto.
  - apply andb_true_iff in H. destruct H as [H1 H2]. apply N.eqb_eq in H1. apply IHa in H2. subst. auto.
  - inversion H; subst. rewrite N.eqb_refl. simpl. apply str_eqb_refl.
Qed.

Lemma str_eqb_neq : forall a b, str_eqb a b = false <-> a <> b.
Proof.
  intros. split; intros H.
  - intro E. apply str_eqb_eq in E. congruence.
  - destruct (str_eqb a b) eqn:E; auto. apply str_eqb_eq in E. contradiction.
Qed.

Lemma str_eqb_sym : forall a b, str_eqb a b = str_eqb b a.
Proof.
  intros. destruct (str_eqb a b) eqn:E.
  - apply str_eqb_eq in E. subst. symmetry. apply str_eqb_refl.
  - symmetry. apply str_eqb_neq. apply str_eqb_neq in E. congruence.
Qed.

(* ================================================================== decimal text *)
Lemma uint_codes_digits : forall d, forallb is_digit (uint_codes d) = true.
Proof. induction d; simpl; auto. Qed.

Lemma codes_uint_codes : forall d, codes_uint (uint_codes d) = d.
Proof. induction d; simpl; try rewrite IHd; auto. Qed.

Lemma parse_print_N : forall n, parse_N (print_N n) = n.
Proof. intros. unfold parse_N, print_N. rewrite codes_uint_codes. apply DecimalN.Unsigned.of_to. Qed.

Lemma print_N_digits : forall n, forallb is_digit (print_N n) = true.
Proof. intros. apply uint_codes_digits. Qed.

Lemma to_uint_nonnil : forall n, N.to_uint n <> Nil.
Proof.
  intros n H. assert (E := DecimalN.Unsigned.of_to n). rewrite H in E. simpl in E. subst n.
  simpl in H. discriminate.
Qed.

Lemma print_N_nonempty : forall n, print_N n <> [].
Proof.
  intros n H. unfold print_N in H. destruct (N.to_uint n) eqn:E; simpl in H; try discriminate.
  apply (to_uint_nonnil n E).
Qed.

Lemma span_digits_app : forall ds rest,
  forallb is_digit ds = true ->
  match rest with c :: _ => is_digit c = false | [] => True end ->
  span_digits (ds ++ rest) = (ds, rest).
Proof.
  induction ds; simpl; intros rest Hd Hr.
  - destruct rest; auto. simpl. rewrite Hr. auto.
  - apply andb_true_iff in Hd. destruct Hd as [Ha Hd]. rewrite Ha. rewrite (IHds rest Hd Hr). auto.
Qed.

Lemma is_digit_ascii : forall c, is_digit c = true -> N.ltb c 128 = true.
Proof.
  intros c H. unfold is_digit in H. apply andb_true_iff in H. destruct H as [_ H].
  apply N.leb_le in H. apply N.ltb_lt. lia.
Qed.

Lemma digits_ascii : forall l, forallb is_digit l = true -> is_ascii l = true.
Proof.
  induction l; simpl; auto. intros H. apply andb_true_iff in H. destruct H as [H1 H2].
  unfold is_ascii in *. simpl. rewrite (is_digit_ascii a H1). simpl. auto.
Qed.

Lemma is_ascii_app : forall a b, is_ascii (a ++ b) = is_ascii a && is_ascii b.
Proof. intros. unfold is_ascii. apply forallb_app. Qed.

Lemma print_Z_nonneg : forall z, 0 <= z -> print_Z z = print_N (Z.to_N z).
Proof. intros z H. destruct z; simpl; auto. lia. Qed.

Lemma head_digit_not_sign : forall n, exists c r, print_N n = c :: r /\ is_digit c = true.
Proof.
  intros n. destruct (print_N n) as [|c r] eqn:E.
  - exfalso. apply (print_N_nonempty n E).
  - exists c, r. split; auto. assert (H := print_N_digits n). rewrite E in H. simpl in H.
    apply andb_true_iff in H. tauto.
Qed.

Lemma digit_not_plus : forall c, is_digit c = true -> N.eqb c c_plus = false /\ N.eqb c c_minus = false.
Proof.
  intros c H. unfold is_digit in H. apply andb_true_iff in H. destruct H as [H1 H2].
  apply N.leb_le in H1. apply N.leb_le in H2. unfold c_plus, c_minus.
  split; apply N.eqb_neq; lia.
Qed.

(* signed_digits on  [-]? <digits of n> c rest   where c is not a digit *)
Lemma signed_digits_pos : forall n c rest, is_digit c = false ->
  signed_digits (print_N n ++ c :: rest) = Some (false, false, print_N n, c :: rest).
Proof.
  intros n c rest Hc. unfold signed_digits.
  destruct (head_digit_not_sign n) as [d [r [E Hd]]]. rewrite E. simpl.
  destruct (digit_not_plus d Hd) as [P M]. rewrite P, M.
  rewrite <- E. change (d :: r ++ c :: rest) with ((d :: r) ++ c :: rest). rewrite <- E.
  rewrite span_digits_app; auto using print_N_digits.
  rewrite E. auto.
Qed.

Lemma signed_digits_neg : forall n c rest, is_digit c = false ->
  signed_digits (c_minus :: print_N n ++ c :: rest) = Some (true, true, print_N n, c :: rest).
Proof.
  intros n c rest Hc. unfold signed_digits. simpl.
  rewrite span_digits_app; auto using print_N_digits.
  destruct (head_digit_not_sign n) as [d [r [E Hd]]]. rewrite E. auto.
Qed.

(* ================================================================== ISO-8601 *)
Lemma low_digits_digits : forall n u, 0 <= u -> forallb is_digit (low_digits n u) = true.
Proof.
  induction n; intros u Hu; cbn [low_digits]; auto. rewrite forallb_app. rewrite IHn.
  - cbn [forallb andb]. assert (Hd : 0 <= u mod 10 < 10) by (apply Z.mod_pos_bound; lia).
    set (d := u mod 10) in *.
    unfold is_digit. rewrite andb_true_r. apply andb_true_iff. split; apply N.leb_le; lia.
  - apply Z.div_pos; lia.
Qed.

Lemma rstrip0_digits : forall l, forallb is_digit l = true -> forallb is_digit (rstrip0 l) = true.
Proof.
  induction l; simpl; auto. intros H. apply andb_true_iff in H. destruct H as [Ha Hl].
  specialize (IHl Hl). destruct (rstrip0 l) eqn:E.
  - destruct (N.eqb a c_0); simpl; auto. rewrite Ha. auto.
  - simpl in *. rewrite Ha. simpl. auto.
Qed.

Lemma frac_value_nil : forall k, frac_value k [] = 0.
Proof. destruct k; reflexivity. Qed.

(* frac_value ignores stripped trailing zeros *)
Lemma frac_value_rstrip0 : forall l k, forallb is_digit l = true ->
  frac_value k (rstrip0 l) = frac_value k l.
Proof.
  induction l as [|a l IH]; intros k H; [reflexivity|].
  cbn [forallb] in H. apply andb_true_iff in H. destruct H as [Ha Hl].
  cbn [rstrip0].
  destruct k as [|k].
  - destruct (rstrip0 l); [destruct (N.eqb a c_0)|]; reflexivity.
  - pose proof (IH k Hl) as IHk. destruct (rstrip0 l) as [|r rs].
    + rewrite frac_value_nil in IHk. destruct (N.eqb a c_0) eqn:Ea.
      * apply N.eqb_eq in Ea. subst a. cbn [frac_value]. rewrite <- IHk.
        change (Z.of_N (c_0 - 48)%N) with 0. lia.
      * cbn [frac_value]. rewrite <- IHk. rewrite frac_value_nil. reflexivity.
    + cbn [frac_value]. rewrite IHk. reflexivity.
Qed.

Lemma frac_value_app : forall k a b, length a = k ->
  forall m, frac_value (k + m) (a ++ b) = frac_value k a * 10 ^ Z.of_nat m + frac_value m b.
Proof.
  induction k; intros a b Hl m; destruct a; simpl in Hl; try discriminate.
  - simpl. lia.
  - injection Hl as Hl. change ((n :: a) ++ b) with (n :: (a ++ b)). change (S k + m)%nat with (S (k + m)).
    cbn [frac_value]. rewrite (IHk a b Hl m).
    rewrite Nat2Z.inj_add. rewrite Z.pow_add_r by lia. ring.
Qed.

Lemma low_digits_length : forall n u, length (low_digits n u) = n.
Proof. induction n; simpl; intros; auto. rewrite app_length. rewrite IHn. simpl. lia. Qed.

Lemma frac_value_low_digits : forall n u, 0 <= u < 10 ^ Z.of_nat n ->
  frac_value n (low_digits n u) = u.
Proof.
  induction n; intros u Hu.
  - simpl in *. lia.
  - cbn [low_digits]. replace (S n) with (n + 1)%nat at 1 by lia.
    rewrite frac_value_app by apply low_digits_length.
    rewrite IHn.
    + cbn [frac_value]. assert (Hd : 0 <= u mod 10 < 10) by (apply Z.mod_pos_bound; lia).
      pose proof (Z.div_mod u 10 ltac:(lia)) as Hdm.
      set (d := u mod 10) in *. set (q := u / 10) in *.
      replace (Z.of_N (48 + Z.to_N d - 48)) with d by lia.
      change (Z.of_nat 1) with 1. change (Z.of_nat 0) with 0.
      rewrite Z.pow_1_r, Z.pow_0_r. lia.
    + rewrite Nat2Z.inj_succ in Hu. rewrite Z.pow_succ_r in Hu by lia.
      split. apply Z.div_pos; lia. apply Z.div_lt_upper_bound; lia.
Qed.

Lemma rstrip0_nonempty : forall n u, 0 < u < 10 ^ Z.of_nat n -> rstrip0 (low_digits n u) <> [].
Proof.
  intros n u Hu E.
  assert (F := frac_value_rstrip0 (low_digits n u) n (low_digits_digits n u ltac:(lia))).
  rewrite E in F. rewrite frac_value_low_digits in F by lia.
  destruct n; simpl in F; lia.
Qed.

Lemma at_end_two : forall a b l, at_end (a :: b :: l) = false.
Proof. reflexivity. Qed.

Lemma not_digit_H : is_digit c_H = false. Proof. reflexivity. Qed.
Lemma not_digit_M : is_digit c_M = false. Proof. reflexivity. Qed.
Lemma not_digit_S : is_digit c_S = false. Proof. reflexivity. Qed.
Lemma not_digit_dot : is_digit c_dot = false. Proof. reflexivity. Qed.

Definition negs (b : bool) : str := if b then [c_minus] else [].

Lemma signed_digits_negs : forall b n c rest, is_digit c = false ->
  signed_digits (negs b ++ print_N n ++ c :: rest) = Some (b, b, print_N n, c :: rest).
Proof.
  intros [|] n c rest H; simpl.
  - apply signed_digits_neg; auto.
  - apply signed_digits_pos; auto.
Qed.

Lemma at_end_comp : forall b n c rest, at_end (negs b ++ print_N n ++ c :: rest) = false.
Proof.
  intros b n c rest. destruct (head_digit_not_sign n) as [d [r [E _]]]. rewrite E.
  destruct b; simpl; auto. destruct r; auto.
Qed.

Lemma comp_H : forall f b n acc rest,
  iso_comps (S f) 0 acc (negs b ++ print_N n ++ c_H :: rest)
  = iso_comps f 1 (acc + sgn b (Z.of_N n) * g_iso_h) rest.
Proof.
  intros. cbn [iso_comps]. rewrite at_end_comp. rewrite signed_digits_negs by apply not_digit_H.
  rewrite parse_print_N. reflexivity.
Qed.

Lemma comp_M : forall f st b n acc rest, (st <= 1)%nat ->
  iso_comps (S f) st acc (negs b ++ print_N n ++ c_M :: rest)
  = iso_comps f 2 (acc + sgn b (Z.of_N n) * g_iso_m) rest.
Proof.
  intros. cbn [iso_comps]. rewrite at_end_comp. rewrite signed_digits_negs by apply not_digit_M.
  rewrite parse_print_N. change (N.eqb c_M c_H) with false. change (N.eqb c_M c_M) with true. cbv iota.
  apply Nat.leb_le in H. rewrite H. reflexivity.
Qed.

Lemma comp_S : forall f st b n acc rest, (st <= 2)%nat ->
  iso_comps (S f) st acc (negs b ++ print_N n ++ c_S :: rest)
  = iso_comps f 3 (acc + sgn b (Z.of_N n * g_iso_s)) rest.
Proof.
  intros. cbn [iso_comps]. rewrite at_end_comp. rewrite signed_digits_negs by apply not_digit_S.
  rewrite parse_print_N. change (N.eqb c_S c_H) with false. change (N.eqb c_S c_M) with false.
  change (N.eqb c_S c_S) with true. cbv iota.
  apply Nat.leb_le in H. rewrite H. reflexivity.
Qed.

Lemma comp_SF : forall f st b n u acc rest, (st <= 2)%nat -> 0 < u < 10 ^ Z.of_nat g_to_iso_pad ->
  iso_comps (S f) st acc
    (negs b ++ print_N n ++ c_dot :: rstrip0 (low_digits g_to_iso_pad u) ++ c_S :: rest)
  = iso_comps f 3 (acc + sgn b (Z.of_N n * g_iso_s) + sgn b u) rest.
Proof.
  intros f st b n u acc rest Hst Hu. cbn [iso_comps]. rewrite at_end_comp.
  rewrite signed_digits_negs by apply not_digit_dot.
  rewrite parse_print_N. change (N.eqb c_dot c_H) with false. change (N.eqb c_dot c_M) with false.
  change (N.eqb c_dot c_S) with false. change (N.eqb c_dot c_dot) with true. cbv iota.
  apply Nat.leb_le in Hst. rewrite Hst.
  assert (Hd : forallb is_digit (low_digits g_to_iso_pad u) = true) by (apply low_digits_digits; lia).
  rewrite span_digits_app; [| apply rstrip0_digits; auto | apply not_digit_S].
  destruct (rstrip0 (low_digits g_to_iso_pad u)) eqn:E.
  - exfalso. apply (rstrip0_nonempty g_to_iso_pad u Hu E).
  - rewrite <- E. change (N.eqb c_S c_S) with true. cbv iota.
    rewrite frac_value_rstrip0 by auto.
    change g_iso_frac with g_to_iso_pad.
    rewrite frac_value_low_digits by lia. reflexivity.
Qed.

Lemma comps_done : forall f st acc, iso_comps f st acc [] = Some acc.
Proof. intros. destruct f; reflexivity. Qed.

(* the arithmetic content of to_iso8601 *)
Lemma iso_decompose : forall a, 0 <= a ->
  let seconds0 := a / g_to_iso_us in let usecs := a mod g_to_iso_us in
  let minutes0 := seconds0 / g_to_iso_sm in let seconds := seconds0 mod g_to_iso_sm in
  let hours := minutes0 / g_to_iso_mh in let minutes := minutes0 mod g_to_iso_mh in
  hours * g_iso_h + minutes * g_iso_m + seconds * g_iso_s + usecs = a
  /\ 0 <= hours /\ 0 <= minutes /\ 0 <= seconds /\ 0 <= usecs < 10 ^ Z.of_nat g_to_iso_pad.
Proof.
  intros a Ha. cbv zeta. unfold g_to_iso_us, g_to_iso_sm, g_to_iso_mh, g_iso_h, g_iso_m, g_iso_s, g_to_iso_pad.
  pose proof (Z.div_mod a 1000000 ltac:(lia)) as E1.
  pose proof (Z.mod_pos_bound a 1000000 ltac:(lia)) as B1.
  set (s0 := a / 1000000) in *. set (us := a mod 1000000) in *.
  assert (0 <= s0) by (apply Z.div_pos; lia).
  pose proof (Z.div_mod s0 60 ltac:(lia)) as E2.
  pose proof (Z.mod_pos_bound s0 60 ltac:(lia)) as B2.
  set (m0 := s0 / 60) in *. set (sec := s0 mod 60) in *.
  assert (0 <= m0) by (apply Z.div_pos; lia).
  pose proof (Z.div_mod m0 60 ltac:(lia)) as E3.
  pose proof (Z.mod_pos_bound m0 60 ltac:(lia)) as B3.
  set (h := m0 / 60) in *. set (mi := m0 mod 60) in *.
  assert (0 <= h) by (apply Z.div_pos; lia).
  change (10 ^ Z.of_nat 6) with 1000000.
  repeat split; try lia.
Qed.

Lemma sgn_mul : forall b x k, sgn b x * k = sgn b (x * k).
Proof. intros [|] x k; simpl; ring. Qed.

Lemma to_iso_shape : forall v,
  let b := v <? 0 in let a := Z.abs v in
  let seconds0 := a / g_to_iso_us in let usecs := a mod g_to_iso_us in
  let minutes0 := seconds0 / g_to_iso_sm in let seconds := seconds0 mod g_to_iso_sm in
  let hours := minutes0 / g_to_iso_mh in let minutes := minutes0 mod g_to_iso_mh in
  to_iso v =
  [c_P; c_T] ++
  (let body :=
    (if hours =? 0 then [] else negs b ++ print_N (Z.to_N hours) ++ [c_H]) ++
    (if minutes =? 0 then [] else negs b ++ print_N (Z.to_N minutes) ++ [c_M]) ++
    (if (seconds =? 0) && (usecs =? 0) then []
     else (if usecs =? 0 then negs b ++ print_N (Z.to_N seconds)
           else negs b ++ print_N (Z.to_N seconds) ++ [c_dot] ++ rstrip0 (low_digits g_to_iso_pad usecs))
          ++ [c_S]) in
   match body with [] => [c_0; c_S] | _ => body end).
Proof.
  intros v. cbv zeta. unfold to_iso.
  destruct (iso_decompose (Z.abs v) (Z.abs_nonneg v)) as [_ [Hh [Hm [Hs Hu]]]]. cbv zeta in *.
  rewrite !print_Z_nonneg by assumption.
  unfold negs. destruct (v <? 0); reflexivity.
Qed.

Lemma body_sel : forall (l x : str), l <> [] -> match l with [] => x | _ :: _ => l end = l.
Proof. intros [|a l] x H; [contradiction|reflexivity]. Qed.

Lemma comp_nonnil : forall b n c rest, negs b ++ print_N n ++ c :: rest <> [].
Proof.
  intros b n c rest H. apply app_eq_nil in H. destruct H as [_ H].
  apply app_eq_nil in H. destruct H as [_ H]. discriminate.
Qed.

Theorem parse_to_iso : forall v, parse_iso (to_iso v) = Some v.
Proof.
  intros v. rewrite to_iso_shape. cbv zeta.
  destruct (iso_decompose (Z.abs v) (Z.abs_nonneg v)) as [Hsum [Hh [Hm [Hs Hu]]]]. cbv zeta in *.
  set (b := v <? 0) in *.
  set (usecs := Z.abs v mod g_to_iso_us) in *.
  set (seconds0 := Z.abs v / g_to_iso_us) in *.
  set (seconds := seconds0 mod g_to_iso_sm) in *.
  set (minutes0 := seconds0 / g_to_iso_sm) in *.
  set (minutes := minutes0 mod g_to_iso_mh) in *.
  set (hours := minutes0 / g_to_iso_mh) in *.
  assert (Hv : v = sgn b (Z.abs v)).
  { unfold b, sgn. destruct (v <? 0) eqn:E; [apply Z.ltb_lt in E | apply Z.ltb_ge in E]; lia. }
  assert (HN : forall z, 0 <= z -> Z.of_N (Z.to_N z) = z) by (intros; lia).
  unfold parse_iso. cbn [Datatypes.app]. change (N.eqb c_P c_P && N.eqb c_T c_T) with true. cbv iota.
  destruct (Z.eqb_spec hours 0) as [Eh|Eh]; destruct (Z.eqb_spec minutes 0) as [Em|Em];
    destruct (Z.eqb_spec seconds 0) as [Es|Es]; destruct (Z.eqb_spec usecs 0) as [Eu|Eu];
    cbn [andb Datatypes.app];
    repeat rewrite <- app_assoc; cbn [Datatypes.app];
    try (rewrite body_sel by apply comp_nonnil).
  (* everything zero -> "PT0S" *)
  1: { change [c_0; c_S] with (negs false ++ print_N 0 ++ c_S :: []).
       rewrite comp_S by lia. rewrite comps_done. f_equal. simpl. lia. }
  all: repeat first [ rewrite comp_H | rewrite comp_M by lia | rewrite comp_S by lia
                    | rewrite comp_SF by lia ];
       rewrite comps_done; f_equal; rewrite ?HN by assumption;
       rewrite Hv; unfold g_iso_h, g_iso_m, g_iso_s in *; destruct b; unfold sgn; lia.
Qed.

(* ================================================================== ConfigMemory text *)
Lemma str_eqb_len2 : forall a b (l : str) c, str_eqb (a :: b :: l) [c] = false.
Proof. intros. simpl. destruct (N.eqb a c); reflexivity. Qed.

Lemma mem_of_str_unit : forall q sfx u c r,
  0 <= q -> sfx = c :: r -> is_digit c = false -> is_ascii sfx = true ->
  strip_final_nl sfx = sfx -> assoc g_mem_parse sfx = Some u ->
  mem_of_str (print_Z q ++ sfx) = Ok (VMem (q * u) false).
Proof.
  intros q sfx u c r Hq Hs Hc Ha Hn Hu. unfold mem_of_str.
  rewrite print_Z_nonneg by assumption.
  rewrite is_ascii_app, Ha, (digits_ascii _ (print_N_digits _)). cbn [andb negb].
  destruct (head_digit_not_sign (Z.to_N q)) as [d [rd [E Hd]]].
  assert (Hne : str_eqb (print_N (Z.to_N q) ++ sfx) [c_0] = false).
  { rewrite E, Hs. destruct rd; simpl; destruct (N.eqb d c_0); reflexivity. }
  rewrite Hne.
  rewrite span_digits_app; [| apply print_N_digits | rewrite Hs; exact Hc].
  rewrite E at 1. rewrite Hn, Hu. rewrite parse_print_N.
  rewrite Z2N.id by assumption. reflexivity.
Qed.

Theorem mem_roundtrip : forall m, 0 <= m -> mem_of_str (mem_to_str m false) = Ok (VMem m false).
Proof.
  intros m Hm. unfold mem_to_str. cbv iota. unfold g_mem_ladder. cbn [mem_ladder].
  repeat match goal with
  | |- context [if (?u <=? m) && (m mod ?u =? 0) then _ else _] =>
      let E := fresh "E" in
      destruct ((u <=? m) && (m mod u =? 0)) eqn:E;
      [ apply andb_true_iff in E; destruct E as [E1 E2]; apply Z.leb_le in E1; apply Z.eqb_eq in E2;
        erewrite mem_of_str_unit; [ | apply Z.div_pos; lia | reflexivity | reflexivity | reflexivity
                                    | reflexivity | reflexivity ];
        f_equal; f_equal;
        match goal with |- m / ?k * _ = m => pose proof (Z.div_mod m k ltac:(lia)); lia end
      | clear E ]
  end.
  unfold g_mem_final.
  erewrite mem_of_str_unit; [ | exact Hm | reflexivity | reflexivity | reflexivity | reflexivity | reflexivity ].
  f_equal. f_equal. lia.
Qed.
